/-
Model of `variadics/src/variadic_collections.rs` (property C10).

Tuples are an arbitrary type `α` with decidable equality (the driver instantiates
`α := List Nat`).  A `hashbrown::HashTable` is modelled as a list of its entries in
*insertion order*; the real iteration order is hash order, so every observation that
exposes an order is canonicalised (sorted) by the harness and the driver alike, and no
theorem speaks about it.

Import-free on purpose: this file is linked into the native driver `hvdrv_var`.
-/
namespace HvVar

/-! ## `VariadicHashSet` -/

structure HSet (α : Type) where
  /-- entries of the hash table -/
  items : List α
deriving Repr

namespace HSet
variable {α : Type} [DecidableEq α]

def empty : HSet α := ⟨[]⟩

/-- `insert`: `Entry::Occupied => false`, `Entry::Vacant => insert; true`. -/
def insert (s : HSet α) (x : α) : HSet α × Bool :=
  if x ∈ s.items then (s, false) else (⟨s.items ++ [x]⟩, true)

/-- `Extend::extend`: `iter.for_each(|k| { self.insert(k); })` (the `reserve` is capacity only). -/
def extend (s : HSet α) (xs : List α) : HSet α :=
  xs.foldl (fun s x => (s.insert x).1) s

def len (s : HSet α) : Nat := s.items.length
def isEmpty (s : HSet α) : Bool := s.items.length == 0
/-- `get(..).is_some()` -/
def contains (s : HSet α) (x : α) : Bool := decide (x ∈ s.items)
/-- `get`: the stored tuple equal to the key. -/
def get (s : HSet α) (x : α) : Option α := s.items.find? (fun y => decide (x = y))
def iter (s : HSet α) : List α := s.items
/-- `drain`: yields every entry and leaves the table empty. -/
def drain (s : HSet α) : HSet α × List α := (⟨[]⟩, s.items)
/-- `PartialEq::eq`: `len` equal and every key of `self` found in `other`. -/
def eq (s t : HSet α) : Bool :=
  if s.len != t.len then false else s.iter.all (fun k => (t.get k).isSome)

end HSet

/-! ## `VariadicCountedHashSet` -/

structure CSet (α : Type) where
  /-- entries `(key, count)` of the hash table -/
  table : List (α × Nat)
  /-- the separately maintained `len` field -/
  len : Nat
deriving Repr

namespace CSet
variable {α : Type} [DecidableEq α]

def empty : CSet α := ⟨[], 0⟩

/-- `.entry(..).and_modify(|(_, c)| *c += 1).or_insert((element, 1))` on the entry list. -/
def bump (x : α) : List (α × Nat) → List (α × Nat)
  | [] => [(x, 1)]
  | (k, c) :: rest => if x = k then (k, c + 1) :: rest else (k, c) :: bump x rest

/-- `insert`: bump the count, `len += 1`, always `true`. -/
def insert (s : CSet α) (x : α) : CSet α × Bool :=
  (⟨bump x s.table, s.len + 1⟩, true)

def extend (s : CSet α) (xs : List α) : CSet α :=
  xs.foldl (fun s x => (s.insert x).1) s

def isEmpty (s : CSet α) : Bool := s.len == 0

def get (s : CSet α) (x : α) : Option (α × Nat) := s.table.find? (fun e => decide (x = e.1))
def contains (s : CSet α) (x : α) : Bool := (s.get x).isSome

/-- `iter`: `flat_map(|(k, num)| (0..num).map(|_| k))`. -/
def expand (t : List (α × Nat)) : List α := t.flatMap (fun e => List.replicate e.2 e.1)
def iter (s : CSet α) : List α := expand s.table

/-- `drain`: `self.len = 0`, table drained, each key repeated `count` times. -/
def drain (s : CSet α) : CSet α × List α := (⟨[], 0⟩, expand s.table)

/-- `PartialEq::eq`. -/
def eq (s t : CSet α) : Bool :=
  if s.len != t.len then false
  else s.table.all (fun e => match t.get e.1 with
    | some (_, m) => m == e.2
    | none => false)

/-- `IntoIterator` helper `DuplicateCounted::next`, transcribed as the state machine it is:
`state : Option (item, remaining)`, `iter` the remaining table entries. -/
def dupNext : Option (α × Nat) → List (α × Nat) → Option (α × Option (α × Nat) × List (α × Nat))
  | some (item, 1), rest => some (item, none, rest)
  | some (item, n + 2), rest => some (item, some (item, n + 1), rest)
  | some (_, 0), [] => none
  | some (_, 0), e :: rest => dupNext (some e) rest
  | none, [] => none
  | none, e :: rest => dupNext (some e) rest
termination_by st rest => (rest.length, if st.isSome then 1 else 0)
decreasing_by all_goals simp_wf <;> first | omega | (simp [Prod.lex_def]; omega) | skip

/-- Drive `DuplicateCounted::next` to exhaustion (`fuel` bounds the number of `next` calls). -/
def dupAll : Nat → Option (α × Nat) → List (α × Nat) → List α
  | 0, _, _ => []
  | fuel + 1, st, rest =>
    match dupNext st rest with
    | none => []
    | some (x, st', rest') => x :: dupAll fuel st' rest'

/-- `IntoIterator::into_iter` collected. -/
def intoIter (s : CSet α) : List α := dupAll (s.len + s.table.length + 1) none s.table

end CSet

/-! ## `VariadicColumnMultiset` -/

/-- Column storage.  `columns` is the variadic of `Vec`s; we keep it row-wise
(`zip_vecs` of the columns) — the transposition itself is `VecVariadic` glue that the
correspondence check exercises with 1-, 2- and 3-column schemas. -/
structure ColSet (α : Type) where
  rows : List α
  lastOffset : Nat
deriving Repr

namespace ColSet
variable {α : Type} [DecidableEq α]

def empty : ColSet α := ⟨[], 0⟩

/-- `insert`: `if last_offset == 0 { columns = singleton(element) } else { push }; last_offset += 1; true`. -/
def insert (s : ColSet α) (x : α) : ColSet α × Bool :=
  if s.lastOffset = 0 then (⟨[x], s.lastOffset + 1⟩, true)
  else (⟨s.rows ++ [x], s.lastOffset + 1⟩, true)

def extend (s : ColSet α) (xs : List α) : ColSet α :=
  xs.foldl (fun s x => (s.insert x).1) s

def len (s : ColSet α) : Nat := s.lastOffset
def isEmpty (s : ColSet α) : Bool := s.lastOffset == 0
def iter (s : ColSet α) : List α := s.rows
def contains (s : ColSet α) (x : α) : Bool := s.rows.any (fun t => decide (t = x))
/-- `drain`: `last_offset = 0; columns.drain(0..)`. -/
def drain (s : ColSet α) : ColSet α × List α := (⟨[], 0⟩, s.rows)

end ColSet

/-! ## Histories -/

/-- One operation of a history (shared by the three collections). -/
inductive Op (α : Type)
  | insert (x : α)
  | extend (xs : List α)
  | drain
deriving Repr

/-- The abstract history: everything inserted since the last `drain`, in order. -/
def Op.hist {α : Type} : List α → Op α → List α
  | h, .insert x => h ++ [x]
  | h, .extend xs => h ++ xs
  | _, .drain => []

def histOf {α : Type} (ops : List (Op α)) : List α := ops.foldl Op.hist []

variable {α : Type} [DecidableEq α]

def HSet.step (s : HSet α) : Op α → HSet α
  | .insert x => (s.insert x).1
  | .extend xs => s.extend xs
  | .drain => s.drain.1
def HSet.run (ops : List (Op α)) : HSet α := ops.foldl HSet.step HSet.empty

def CSet.step (s : CSet α) : Op α → CSet α
  | .insert x => (s.insert x).1
  | .extend xs => s.extend xs
  | .drain => s.drain.1
def CSet.run (ops : List (Op α)) : CSet α := ops.foldl CSet.step CSet.empty

def ColSet.step (s : ColSet α) : Op α → ColSet α
  | .insert x => (s.insert x).1
  | .extend xs => s.extend xs
  | .drain => s.drain.1
def ColSet.run (ops : List (Op α)) : ColSet α := ops.foldl ColSet.step ColSet.empty

end HvVar
