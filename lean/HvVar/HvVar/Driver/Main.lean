/-
`hvdrv_var`: line-protocol driver for the C10 model.  One output line per input line.

  #case <n>                 reset both slots to empty hash sets; echoes the line
  <slot> new hs|cs|col      slot ∈ {A,B}: make the slot an empty collection of that kind -> ok
  <slot> insert <tuple>     -> true|false
  <slot> extend <t>;<t>;..  -> ok           (`-` for the empty list)
  <slot> len | isempty      -> number | bool
  <slot> contains <tuple>   -> bool
  <slot> get <tuple>        -> the stored tuple / entry, or none
  <slot> iter | intoiter    -> canonical listing (sorted for hs/cs, in order for col)
  <slot> drain              -> canonical listing of what was drained
  eq                        -> A == B (same kind required, else bad-op)
A tuple is `n,n,n`.  Anything else -> bad-op.
-/
import HvVar.Model.Collections
import HvVar.Model.Columns
open HvVar

abbrev Tup := List Nat

inductive Coll
  | hs (s : HSet Tup)
  | cs (s : CSet Tup)
  | col (s : ColStore Nat)

structure St where
  arity : Nat
  a : Coll
  b : Coll

/-- a tuple of exactly `ar` fields (the schema's arity; the Rust types enforce it) -/
def parseTup (ar : Nat) (s : String) : Option Tup :=
  match (s.splitOn ",").mapM (fun p => p.toNat?) with
  | some t => if t.length == ar then some t else none
  | none => none

def parseTups (ar : Nat) (s : String) : Option (List Tup) :=
  if s == "-" then some [] else (s.splitOn ";").mapM (parseTup ar)

def parseArity (ws : List String) : Nat :=
  match ws.filterMap (fun w => if w.startsWith "arity=" then (w.drop 6).toNat? else none) with
  | k :: _ => k
  | [] => 2

def showTup (t : Tup) : String := ",".intercalate (t.map toString)

def lexLe : Tup → Tup → Bool
  | [], _ => true
  | _ :: _, [] => false
  | x :: xs, y :: ys => if x < y then true else if y < x then false else lexLe xs ys

def showList (ts : List Tup) : String :=
  if ts.isEmpty then "-" else ";".intercalate (ts.map showTup)
def showSorted (ts : List Tup) : String := showList (ts.mergeSort lexLe)
def showBool (b : Bool) : String := if b then "true" else "false"

def collOp (ar : Nat) (c : Coll) (cmd : List String) : Option (Coll × String) :=
  match c, cmd with
  | _, ["new", "hs"] => some (.hs HSet.empty, "ok")
  | _, ["new", "cs"] => some (.cs CSet.empty, "ok")
  | _, ["new", "col"] => some (.col (ColStore.empty ar), "ok")
  | .hs s, ["insert", t] => (parseTup ar t).map fun t => let r := s.insert t; (.hs r.1, showBool r.2)
  | .cs s, ["insert", t] => (parseTup ar t).map fun t => let r := s.insert t; (.cs r.1, showBool r.2)
  | .col s, ["insert", t] => (parseTup ar t).map fun t => let r := s.insert t; (.col r.1, showBool r.2)
  | .hs s, ["extend", ts] => (parseTups ar ts).map fun ts => (.hs (s.extend ts), "ok")
  | .cs s, ["extend", ts] => (parseTups ar ts).map fun ts => (.cs (s.extend ts), "ok")
  | .col s, ["extend", ts] => (parseTups ar ts).map fun ts => (.col (s.extend ts), "ok")
  | .hs s, ["len"] => some (c, toString s.len)
  | .cs s, ["len"] => some (c, toString s.len)
  | .col s, ["len"] => some (c, toString s.len)
  | .hs s, ["isempty"] => some (c, showBool s.isEmpty)
  | .cs s, ["isempty"] => some (c, showBool s.isEmpty)
  | .col s, ["isempty"] => some (c, showBool s.isEmpty)
  | .hs s, ["contains", t] => (parseTup ar t).map fun t => (c, showBool (s.contains t))
  | .cs s, ["contains", t] => (parseTup ar t).map fun t => (c, showBool (s.contains t))
  | .col s, ["contains", t] => (parseTup ar t).map fun t => (c, showBool (s.contains t))
  | .hs s, ["get", t] => (parseTup ar t).map fun t =>
      (c, match s.get t with | some u => showTup u | none => "none")
  | .cs s, ["get", t] => (parseTup ar t).map fun t =>
      (c, match s.get t with | some (u, n) => s!"{showTup u}x{n}" | none => "none")
  | .hs s, ["iter"] => some (c, showSorted s.iter)
  | .cs s, ["iter"] => some (c, showSorted s.iter)
  | .col s, ["iter"] => some (c, showList s.iter)
  | .hs s, ["intoiter"] => some (c, showSorted s.iter)
  | .cs s, ["intoiter"] => some (c, showSorted s.intoIter)
  | .col s, ["intoiter"] => some (c, showList s.iter)
  | .hs s, ["drain"] => let r := s.drain; some (.hs r.1, showSorted r.2)
  | .cs s, ["drain"] => let r := s.drain; some (.cs r.1, showSorted r.2)
  | .col s, ["drain"] => let r := s.drain; some (.col r.1, showList r.2)
  | _, _ => none

def step (st : St) (line : String) : St × String :=
  match line.trimAscii.toString.splitOn " " with
  | "#case" :: ws => (⟨parseArity ws, .hs HSet.empty, .hs HSet.empty⟩, line.trimAscii.toString)
  | "A" :: cmd => match collOp st.arity st.a cmd with
    | some (c, out) => ({ st with a := c }, out)
    | none => (st, "bad-op")
  | "B" :: cmd => match collOp st.arity st.b cmd with
    | some (c, out) => ({ st with b := c }, out)
    | none => (st, "bad-op")
  | ["eq"] => match st.a, st.b with
    | .hs s, .hs t => (st, showBool (s.eq t))
    | .cs s, .cs t => (st, showBool (s.eq t))
    | _, _ => (st, "bad-op")
  | _ => (st, "bad-op")

partial def loop (h : IO.FS.Stream) (out : IO.FS.Stream) (st : St) : IO Unit := do
  let line ← h.getLine
  if line.isEmpty then return ()
  let (st', o) := step st line
  out.putStrLn o
  loop h out st'

def main : IO Unit := do
  let stdin ← IO.getStdin
  let stdout ← IO.getStdout
  loop stdin stdout ⟨2, .hs HSet.empty, .hs HSet.empty⟩
