/-
C10 — Variadic collections behave as sets and multisets of tuples.

Property theorems only (helper lemmas are local and marked `private`/`lemma`-style
`theorem`s with a leading `aux_`).  Every theorem is about the executable model in
`HvVar/Model/Collections.lean`, for *every* history of `insert`/`extend`/`drain`.
-/
import HvVar.Model.Collections
import HvVar.Model.Columns
import Mathlib.Data.List.Perm.Subperm
import Mathlib.Data.List.Count
import Mathlib.Data.List.Dedup

namespace HvVar
open List

variable {α : Type} [DecidableEq α]

/-! ### helper lemmas -/

theorem aux_hset_insert_mem (s : HSet α) (x y : α) :
    y ∈ (s.insert x).1.items ↔ y ∈ s.items ∨ y = x := by
  unfold HSet.insert; split <;> simp_all

theorem aux_hset_insert_nodup (s : HSet α) (x : α) (h : s.items.Nodup) :
    (s.insert x).1.items.Nodup := by
  unfold HSet.insert; split
  · exact h
  · simp only; rw [List.nodup_append]; simp_all
    intro a ha hax; subst hax; contradiction

theorem aux_hset_extend_mem (xs : List α) (s : HSet α) (y : α) :
    y ∈ (s.extend xs).items ↔ y ∈ s.items ∨ y ∈ xs := by
  induction xs generalizing s with
  | nil => simp [HSet.extend]
  | cons x xs ih =>
    have := ih (s.insert x).1
    simp only [HSet.extend, List.foldl_cons] at this ⊢
    rw [this, aux_hset_insert_mem]; simp; tauto

theorem aux_hset_extend_nodup (xs : List α) (s : HSet α) (h : s.items.Nodup) :
    (s.extend xs).items.Nodup := by
  induction xs generalizing s with
  | nil => simpa [HSet.extend]
  | cons x xs ih =>
    simp only [HSet.extend, List.foldl_cons]
    exact ih _ (aux_hset_insert_nodup s x h)

/-- Invariant of the hash-set model against the abstract history. -/
def HSet.Refines (s : HSet α) (h : List α) : Prop :=
  s.items.Nodup ∧ ∀ y, y ∈ s.items ↔ y ∈ h

theorem aux_hset_step (s : HSet α) (h : List α) (op : Op α) (inv : s.Refines h) :
    (s.step op).Refines (Op.hist h op) := by
  obtain ⟨nd, mem⟩ := inv
  cases op with
  | insert x =>
    refine ⟨aux_hset_insert_nodup s x nd, fun y => ?_⟩
    simp [HSet.step, Op.hist, aux_hset_insert_mem, mem]
  | extend xs =>
    refine ⟨aux_hset_extend_nodup xs s nd, fun y => ?_⟩
    simp [HSet.step, Op.hist, aux_hset_extend_mem, mem]
  | drain => simp [HSet.step, HSet.drain, Op.hist, HSet.Refines]

theorem aux_hset_run (ops : List (Op α)) (s : HSet α) (h : List α) (inv : s.Refines h) :
    (ops.foldl HSet.step s).Refines (ops.foldl Op.hist h) := by
  induction ops generalizing s h with
  | nil => simpa
  | cons op ops ih => exact ih _ _ (aux_hset_step s h op inv)

/-! ### C10.a — `VariadicHashSet` is the *set* of tuples inserted since the last drain -/

/-- Every reachable hash set stores each distinct tuple exactly once and contains
exactly the tuples of the history. -/
theorem hset_is_set_of_history (ops : List (Op α)) :
    (HSet.run ops).iter.Nodup ∧ ∀ y, y ∈ (HSet.run ops).iter ↔ y ∈ histOf ops :=
  aux_hset_run ops HSet.empty [] ⟨List.nodup_nil, by simp [HSet.empty]⟩

theorem hset_contains_iff (ops : List (Op α)) (y : α) :
    (HSet.run ops).contains y = true ↔ y ∈ histOf ops := by
  simp [HSet.contains, ← (hset_is_set_of_history ops).2 y, HSet.iter]

/-- `len` is the number of *distinct* tuples of the history. -/
theorem hset_len_eq_card (ops : List (Op α)) :
    (HSet.run ops).len = (histOf ops).dedup.length := by
  obtain ⟨nd, mem⟩ := hset_is_set_of_history ops
  have p : (HSet.run ops).iter ~ (histOf ops).dedup :=
    (List.perm_ext_iff_of_nodup nd (List.nodup_dedup _)).mpr
      (fun a => by rw [List.mem_dedup]; exact mem a)
  exact p.length_eq

/-- `insert` answers `true` exactly when the tuple is new. -/
theorem hset_insert_flag (ops : List (Op α)) (x : α) :
    ((HSet.run ops).insert x).2 = true ↔ x ∉ histOf ops := by
  rw [← (hset_is_set_of_history ops).2 x]
  unfold HSet.insert HSet.iter; split <;> simp_all

/-- `get` returns the stored tuple iff it is a member. -/
theorem hset_get (ops : List (Op α)) (x : α) :
    (HSet.run ops).get x = if x ∈ histOf ops then some x else none := by
  have hm := (hset_is_set_of_history ops).2 x
  unfold HSet.iter at hm
  unfold HSet.get
  by_cases h : x ∈ histOf ops
  · rw [if_pos h]
    have h' := hm.mpr h
    have hs : ((HSet.run ops).items.find? (fun y => decide (x = y))).isSome = true :=
      List.find?_isSome.mpr ⟨x, h', by simp⟩
    obtain ⟨y, hy⟩ := Option.isSome_iff_exists.mp hs
    have := List.find?_some hy
    simp at this; subst this; exact hy
  · rw [if_neg h]
    rw [List.find?_eq_none]; intro y hy hdec
    have e := of_decide_eq_true hdec
    subst e; exact h (hm.mp hy)

/-- `drain` yields exactly the stored tuples and empties the collection. -/
theorem hset_drain (ops : List (Op α)) :
    (HSet.run ops).drain.2 = (HSet.run ops).iter ∧ (HSet.run ops).drain.1.len = 0 := by
  simp [HSet.drain, HSet.iter, HSet.len]

/-- `==` on two reachable hash sets is set equality. -/
theorem hset_eq_iff (ops₁ ops₂ : List (Op α)) :
    (HSet.run ops₁).eq (HSet.run ops₂) = true ↔
      ∀ y, y ∈ histOf ops₁ ↔ y ∈ histOf ops₂ := by
  obtain ⟨nd₁, m₁⟩ := hset_is_set_of_history ops₁
  obtain ⟨nd₂, m₂⟩ := hset_is_set_of_history ops₂
  simp only [HSet.iter] at nd₁ nd₂ m₁ m₂
  have hget : ∀ k, ((HSet.run ops₂).get k).isSome = true ↔ k ∈ (HSet.run ops₂).items := by
    intro k; unfold HSet.get; rw [List.find?_isSome]; simp
  unfold HSet.eq
  constructor
  · intro h
    split at h
    · simp at h
    · rename_i hl
      simp [HSet.len] at hl
      simp only [HSet.iter, List.all_eq_true, hget] at h
      have sub : (HSet.run ops₁).items ⊆ (HSet.run ops₂).items := h
      have sp := List.subperm_of_subset nd₁ sub
      have p := sp.perm_of_length_le (by omega)
      intro y; rw [← m₁, ← m₂]; exact p.mem_iff
  · intro h
    have hm : ∀ y, y ∈ (HSet.run ops₁).items ↔ y ∈ (HSet.run ops₂).items := by
      intro y; rw [m₁, m₂]; exact h y
    have p : (HSet.run ops₁).items ~ (HSet.run ops₂).items :=
      (List.perm_ext_iff_of_nodup nd₁ nd₂).mpr hm
    have hl := p.length_eq
    simp only [HSet.len, hl, bne_self_eq_false, Bool.false_eq_true, ↓reduceIte, HSet.iter,
      List.all_eq_true, hget]
    intro k hk; exact (hm k).mp hk

/-! ### C10.b — `VariadicCountedHashSet` is the *multiset* of the history -/

/-- Invariant of the counted set: distinct keys, `len` is the total, and the expansion
has the multiplicities of the history. -/
def CSet.Refines (s : CSet α) (h : List α) : Prop :=
  (s.table.map Prod.fst).Nodup ∧ (∀ e ∈ s.table, 0 < e.2) ∧ s.len = h.length ∧
    ∀ y, (CSet.expand s.table).count y = h.count y

theorem aux_expand_count (t : List (α × Nat)) (y : α) :
    (CSet.expand t).count y = (t.map (fun e => if e.1 = y then e.2 else 0)).sum := by
  induction t with
  | nil => simp [CSet.expand]
  | cons e t ih =>
    simp only [CSet.expand, List.flatMap_cons, List.count_append, List.map_cons,
      List.sum_cons] at ih ⊢
    rw [ih, List.count_replicate]
    congr 1
    by_cases h : e.1 = y <;> simp [h]

theorem aux_bump_keys (x : α) (t : List (α × Nat)) :
    (CSet.bump x t).map Prod.fst =
      if x ∈ t.map Prod.fst then t.map Prod.fst else t.map Prod.fst ++ [x] := by
  induction t with
  | nil => simp [CSet.bump]
  | cons e t ih =>
    obtain ⟨k, c⟩ := e
    unfold CSet.bump
    by_cases h : x = k
    · simp [h]
    · simp only [h, ↓reduceIte, List.map_cons, ih, List.mem_cons, false_or]
      split <;> simp

theorem aux_bump_pos (x : α) (t : List (α × Nat)) (h : ∀ e ∈ t, 0 < e.2) :
    ∀ e ∈ CSet.bump x t, 0 < e.2 := by
  induction t with
  | nil => simp [CSet.bump]
  | cons e t ih =>
    obtain ⟨k, c⟩ := e
    unfold CSet.bump
    by_cases hx : x = k
    · simp only [hx, ↓reduceIte, List.mem_cons]
      rintro e (rfl | he)
      · simp
      · exact h e (by simp [he])
    · simp only [hx, ↓reduceIte, List.mem_cons]
      rintro e (rfl | he)
      · exact h _ (by simp)
      · exact ih (fun e he => h e (by simp [he])) e he

theorem aux_bump_count (x y : α) (t : List (α × Nat)) (nd : (t.map Prod.fst).Nodup) :
    (CSet.expand (CSet.bump x t)).count y = (CSet.expand t).count y + if x = y then 1 else 0 := by
  induction t with
  | nil =>
    simp [CSet.bump, CSet.expand, List.count_cons]
  | cons e t ih =>
    obtain ⟨k, c⟩ := e
    simp only [List.map_cons, List.nodup_cons] at nd
    unfold CSet.bump
    by_cases hx : x = k
    · subst hx
      simp only [↓reduceIte, CSet.expand, List.flatMap_cons, List.count_append,
        List.count_replicate]
      by_cases hy : x = y <;> simp [hy] <;> omega
    · simp only [hx, ↓reduceIte]
      have := ih nd.2
      simp only [CSet.expand, List.flatMap_cons, List.count_append] at this ⊢
      omega

theorem aux_cset_insert (s : CSet α) (h : List α) (x : α) (inv : s.Refines h) :
    (s.insert x).1.Refines (h ++ [x]) := by
  obtain ⟨nd, pos, len, cnt⟩ := inv
  refine ⟨?_, aux_bump_pos x s.table pos, by simp [CSet.insert, len], fun y => ?_⟩
  · simp only [CSet.insert, aux_bump_keys]
    split
    · exact nd
    · rename_i hx
      rw [List.nodup_append]; refine ⟨nd, by simp, ?_⟩
      intro a ha b hb; simp at hb; subst hb; intro e; subst e; exact hx ha
  · simp only [CSet.insert, aux_bump_count x y s.table nd, cnt, List.count_append,
      List.count_cons, List.count_nil]
    by_cases hxy : x = y <;> simp [hxy]

theorem aux_cset_extend (xs : List α) (s : CSet α) (h : List α) (inv : s.Refines h) :
    (s.extend xs).Refines (h ++ xs) := by
  induction xs generalizing s h with
  | nil => simpa [CSet.extend]
  | cons x xs ih =>
    simp only [CSet.extend, List.foldl_cons]
    have := ih _ _ (aux_cset_insert s h x inv)
    simpa [CSet.extend] using this

theorem aux_cset_step (s : CSet α) (h : List α) (op : Op α) (inv : s.Refines h) :
    (s.step op).Refines (Op.hist h op) := by
  cases op with
  | insert x => exact aux_cset_insert s h x inv
  | extend xs => exact aux_cset_extend xs s h inv
  | drain => simp [CSet.step, CSet.drain, Op.hist, CSet.Refines, CSet.expand]

theorem aux_cset_run (ops : List (Op α)) (s : CSet α) (h : List α) (inv : s.Refines h) :
    (ops.foldl CSet.step s).Refines (ops.foldl Op.hist h) := by
  induction ops generalizing s h with
  | nil => simpa
  | cons op ops ih => exact ih _ _ (aux_cset_step s h op inv)

theorem cset_refines (ops : List (Op α)) : (CSet.run ops).Refines (histOf ops) :=
  aux_cset_run ops CSet.empty [] (by simp [CSet.Refines, CSet.empty, CSet.expand])

/-- Iteration yields every tuple of the history with its multiplicity. -/
theorem cset_iter_is_multiset_of_history (ops : List (Op α)) :
    (CSet.run ops).iter ~ histOf ops := by
  rw [List.perm_iff_count]; exact (cset_refines ops).2.2.2

theorem cset_len_eq (ops : List (Op α)) : (CSet.run ops).len = (histOf ops).length :=
  (cset_refines ops).2.2.1

theorem aux_cset_get (t : List (α × Nat)) (nd : (t.map Prod.fst).Nodup) (y : α) :
    (t.find? (fun e => decide (y = e.1))) =
      if y ∈ t.map Prod.fst then some (y, (CSet.expand t).count y) else none := by
  induction t with
  | nil => simp
  | cons e t ih =>
    obtain ⟨k, c⟩ := e
    simp only [List.map_cons, List.nodup_cons] at nd
    by_cases hy : y = k
    · subst hy
      have : (CSet.expand t).count y = 0 := by
        rw [List.count_eq_zero]; intro hm
        simp [CSet.expand] at hm
        obtain ⟨b, hb, _⟩ := hm
        exact nd.1 (List.mem_map.mpr ⟨(y, b), hb, rfl⟩)
      simp [CSet.expand, List.count_replicate] at this ⊢
      simp [this]
    · have hk : ¬ k = y := fun e => hy e.symm
      have hm : (y ∈ List.map Prod.fst ((k, c) :: t)) = (y ∈ List.map Prod.fst t) := by
        simp [hy]
      simp only [List.find?_cons, hy, decide_false, ih nd.2, hm, CSet.expand, List.flatMap_cons,
        List.count_append, List.count_replicate]
      simp [hk]

theorem cset_contains_iff (ops : List (Op α)) (y : α) :
    (CSet.run ops).contains y = true ↔ y ∈ histOf ops := by
  obtain ⟨nd, pos, _, cnt⟩ := cset_refines ops
  unfold CSet.contains CSet.get
  rw [aux_cset_get _ nd y]
  have hc : y ∈ histOf ops ↔ 0 < (CSet.expand (CSet.run ops).table).count y := by
    rw [cnt y, List.count_pos_iff]
  rw [hc]
  by_cases h : y ∈ (CSet.run ops).table.map Prod.fst
  · rw [if_pos h]
    simp only [Option.isSome_some, true_iff]
    obtain ⟨e, he, hk⟩ := List.mem_map.mp h
    rw [List.count_pos_iff]
    simp only [CSet.expand, List.mem_flatMap, List.mem_replicate]
    exact ⟨e, he, Nat.pos_iff_ne_zero.mp (pos e he), hk.symm⟩
  · rw [if_neg h]
    simp only [Option.isSome_none, Bool.false_eq_true, false_iff, Nat.not_lt, Nat.le_zero]
    rw [List.count_eq_zero]
    simp only [CSet.expand, List.mem_flatMap, List.mem_replicate, not_exists, not_and]
    intro e he _ hk; exact h (List.mem_map.mpr ⟨e, he, hk.symm⟩)

/-- `drain` yields the whole multiset and resets `len`. -/
theorem cset_drain (ops : List (Op α)) :
    (CSet.run ops).drain.2 ~ histOf ops ∧ (CSet.run ops).drain.1.len = 0 ∧
      (CSet.run ops).drain.1.iter = [] := by
  refine ⟨cset_iter_is_multiset_of_history ops, rfl, rfl⟩

/-- `==` on two reachable counted sets is multiset equality of the histories. -/
theorem cset_eq_iff (ops₁ ops₂ : List (Op α)) :
    (CSet.run ops₁).eq (CSet.run ops₂) = true ↔ histOf ops₁ ~ histOf ops₂ := by
  obtain ⟨nd₁, pos₁, len₁, cnt₁⟩ := cset_refines ops₁
  obtain ⟨nd₂, pos₂, len₂, cnt₂⟩ := cset_refines ops₂
  generalize CSet.run ops₁ = s at *
  generalize CSet.run ops₂ = t at *
  generalize histOf ops₁ = h₁ at *
  generalize histOf ops₂ = h₂ at *
  -- pointwise reading of the `all`
  have key : ∀ e ∈ s.table,
      ((match t.get e.1 with | some (_, m) => m == e.2 | none => false) = true ↔
        h₂.count e.1 = h₁.count e.1) := by
    intro e he
    have hc₁ : h₁.count e.1 = e.2 := by
      rw [← cnt₁, aux_expand_count]
      have : ∀ t' : List (α × Nat), (t'.map Prod.fst).Nodup → e ∈ t' →
          (t'.map (fun e' => if e'.1 = e.1 then e'.2 else 0)).sum = e.2 := by
        intro t' nd' he'
        induction t' with
        | nil => simp at he'
        | cons a t' ih =>
          simp only [List.map_cons, List.nodup_cons, List.mem_map, not_exists, not_and] at nd'
          rcases List.mem_cons.mp he' with rfl | hin
          · simp only [List.map_cons, ↓reduceIte, List.sum_cons]
            have : (t'.map (fun e' => if e'.1 = e.1 then e'.2 else 0)).sum = 0 := by
              rw [List.sum_eq_zero_iff_forall_eq_nat]
              intro x hx
              obtain ⟨b, hb, rfl⟩ := List.mem_map.mp hx
              have hb1 : ¬ b.1 = e.1 := fun hb1 => nd'.1 b hb hb1
              simp [hb1]
            omega
          · have hne : ¬ a.1 = e.1 := fun h => nd'.1 e hin h.symm
            simp [hne, ih nd'.2 hin]
      exact this s.table nd₁ he
    unfold CSet.get
    rw [aux_cset_get _ nd₂ e.1, cnt₂, hc₁]
    by_cases hin : e.1 ∈ t.table.map Prod.fst
    · rw [if_pos hin]; simp
    · rw [if_neg hin]
      have : h₂.count e.1 = 0 := by
        rw [← cnt₂, List.count_eq_zero]
        simp only [CSet.expand, List.mem_flatMap, List.mem_replicate, not_exists, not_and]
        intro e' he' _ hk; exact hin (List.mem_map.mpr ⟨e', he', hk.symm⟩)
      have := pos₁ e he
      simp; omega
  unfold CSet.eq
  constructor
  · intro h
    split at h
    · simp at h
    · rename_i hl
      simp at hl
      rw [List.all_eq_true] at h
      -- counts agree on keys of s; lengths agree; hence they agree everywhere
      have hle : ∀ y, h₁.count y ≤ h₂.count y := by
        intro y
        by_cases hy : y ∈ s.table.map Prod.fst
        · obtain ⟨e, he, rfl⟩ := List.mem_map.mp hy
          exact Nat.le_of_eq ((key e he).mp (h e he)).symm
        · have : h₁.count y = 0 := by
            rw [← cnt₁, List.count_eq_zero]
            simp only [CSet.expand, List.mem_flatMap, List.mem_replicate, not_exists, not_and]
            intro e' he' _ hk; exact hy (List.mem_map.mpr ⟨e', he', hk.symm⟩)
          omega
      have sp : h₁.Subperm h₂ := List.subperm_ext_iff.mpr (fun y _ => hle y)
      exact sp.perm_of_length_le (by omega)
  · intro p
    have hl : s.len = t.len := by rw [len₁, len₂]; exact p.length_eq
    simp only [hl, bne_self_eq_false, Bool.false_eq_true, ↓reduceIte, List.all_eq_true]
    intro e he
    exact (key e he).mpr (p.count_eq e.1).symm

/-! ### C10.c — `VariadicColumnMultiset` is the multiset (indeed the sequence) of the history -/

def ColSet.Refines (s : ColSet α) (h : List α) : Prop :=
  s.rows = h ∧ s.lastOffset = h.length

theorem aux_col_insert (s : ColSet α) (h : List α) (x : α) (inv : s.Refines h) :
    (s.insert x).1.Refines (h ++ [x]) := by
  obtain ⟨r, l⟩ := inv
  unfold ColSet.insert
  split
  · rename_i h0
    have : h = [] := List.eq_nil_of_length_eq_zero (by omega)
    subst this; simp [ColSet.Refines, h0]
  · simp [ColSet.Refines, r, l]

theorem aux_col_extend (xs : List α) (s : ColSet α) (h : List α) (inv : s.Refines h) :
    (s.extend xs).Refines (h ++ xs) := by
  induction xs generalizing s h with
  | nil => simpa [ColSet.extend]
  | cons x xs ih =>
    simp only [ColSet.extend, List.foldl_cons]
    have := ih _ _ (aux_col_insert s h x inv)
    simpa [ColSet.extend] using this

theorem aux_col_run (ops : List (Op α)) (s : ColSet α) (h : List α) (inv : s.Refines h) :
    (ops.foldl ColSet.step s).Refines (ops.foldl Op.hist h) := by
  induction ops generalizing s h with
  | nil => simpa
  | cons op ops ih =>
    apply ih
    cases op with
    | insert x => exact aux_col_insert s h x inv
    | extend xs => exact aux_col_extend xs s h inv
    | drain => simp [ColSet.step, ColSet.drain, Op.hist, ColSet.Refines]

/-- The column multiset holds exactly the history (order included), and `len` agrees —
in particular the `last_offset == 0 ⇒ replace columns` branch never drops a row. -/
theorem colset_is_history (ops : List (Op α)) :
    (ColSet.run ops).iter = histOf ops ∧ (ColSet.run ops).len = (histOf ops).length :=
  aux_col_run ops ColSet.empty [] (by simp [ColSet.Refines, ColSet.empty])

theorem colset_contains_iff (ops : List (Op α)) (y : α) :
    (ColSet.run ops).contains y = true ↔ y ∈ histOf ops := by
  rw [← (colset_is_history ops).1]; simp [ColSet.contains, ColSet.iter]

theorem colset_drain (ops : List (Op α)) :
    (ColSet.run ops).drain.2 = histOf ops ∧ (ColSet.run ops).drain.1.len = 0 := by
  refine ⟨(colset_is_history ops).1, rfl⟩

/-- The three collections agree on one history: same members, and the two multisets have
the same multiplicities. -/
theorem collections_agree (ops : List (Op α)) :
    (CSet.run ops).iter ~ (ColSet.run ops).iter ∧
      ∀ y, y ∈ (HSet.run ops).iter ↔ y ∈ (ColSet.run ops).iter := by
  rw [(colset_is_history ops).1]
  exact ⟨cset_iter_is_multiset_of_history ops, (hset_is_set_of_history ops).2⟩

/-! ### C10.d — `IntoIterator` of the counted set: the `DuplicateCounted` state machine -/

/-- what a `DuplicateCounted` state still owes: `remaining` copies of `item` -/
def CSet.expS : Option (α × Nat) → List α
  | none => []
  | some (item, n) => List.replicate n item

/-- One `next()` of `DuplicateCounted` yields exactly the head of the remaining expansion
(and `None` exactly when nothing remains) — for every state and every rest of the table,
including zero counts. -/
theorem cset_dupNext_yields_expansion (st : Option (α × Nat)) (rest : List (α × Nat)) :
    match CSet.dupNext st rest with
    | none => CSet.expS st ++ CSet.expand rest = []
    | some (x, st', rest') =>
        CSet.expS st ++ CSet.expand rest = x :: (CSet.expS st' ++ CSet.expand rest') := by
  fun_induction CSet.dupNext st rest
  all_goals simp_all [CSet.expS, CSet.expand, List.replicate_succ]
  all_goals (split at * <;> simp_all [CSet.expS, CSet.expand])

theorem aux_dupAll (fuel : Nat) (st : Option (α × Nat)) (rest : List (α × Nat))
    (h : (CSet.expS st ++ CSet.expand rest).length < fuel) :
    CSet.dupAll fuel st rest = CSet.expS st ++ CSet.expand rest := by
  induction fuel generalizing st rest with
  | zero => omega
  | succ fuel ih =>
    have spec := cset_dupNext_yields_expansion st rest
    unfold CSet.dupAll
    split <;> rename_i hd
    · rw [hd] at spec; simp at spec; simp [spec]
    · rw [hd] at spec; simp only at spec
      rw [spec] at h ⊢
      rw [ih _ _ (by simp at h ⊢; omega)]

/-- Consuming a reachable counted set yields the multiset of the history. -/
theorem cset_intoIter_is_multiset_of_history (ops : List (Op α)) :
    (CSet.run ops).intoIter ~ histOf ops := by
  have p := cset_iter_is_multiset_of_history ops
  have hl := cset_len_eq ops
  unfold CSet.intoIter
  rw [aux_dupAll]
  · simpa [CSet.expS, CSet.iter] using p
  · have := p.length_eq
    simp only [CSet.iter] at this
    simp [CSet.expS, this, hl]; omega

/-! ### C10.e — the column multiset on its real columnar representation -/

theorem aux_zipRows_length {β : Type} (cols : List (List β)) (n : Nat) (hne : cols ≠ [])
    (hl : ∀ c ∈ cols, c.length = n) : (zipRows cols).length = n := by
  induction cols with
  | nil => exact absurd rfl hne
  | cons c cs ih =>
    cases cs with
    | nil => simp [zipRows, hl c (by simp)]
    | cons c2 cs =>
      have := ih (by simp) (fun c hc => hl c (by simp [hc]))
      simp [zipRows, List.length_zipWith, hl c (by simp)] at this ⊢
      omega

theorem aux_zipRows_singleton {β : Type} (row : List β) (hne : row ≠ []) :
    zipRows (singletonCols row) = [row] := by
  induction row with
  | nil => exact absurd rfl hne
  | cons x r ih =>
    cases r with
    | nil => simp [singletonCols, zipRows]
    | cons y r =>
      have := ih (by simp)
      simp only [singletonCols, List.map_cons] at this ⊢
      simp [zipRows, this]

theorem aux_zipRows_push {β : Type} (cols : List (List β)) (row : List β) (n : Nat)
    (hne : cols ≠ []) (hl : ∀ c ∈ cols, c.length = n) (hr : row.length = cols.length) :
    zipRows (pushRow cols row) = zipRows cols ++ [row] := by
  induction cols generalizing row with
  | nil => exact absurd rfl hne
  | cons c cs ih =>
    cases row with
    | nil => simp at hr
    | cons x r =>
      cases cs with
      | nil =>
        have : r = [] := List.eq_nil_of_length_eq_zero (by simpa using hr)
        subst this
        simp [pushRow, zipRows]
      | cons c2 cs =>
        cases r with
        | nil => simp at hr
        | cons y r =>
          have ih' := ih (y :: r) (by simp) (fun c hc => hl c (by simp [hc]))
            (by simpa using hr)
          have hlen := aux_zipRows_length (c2 :: cs) n (by simp) (fun c hc => hl c (by simp [hc]))
          simp only [pushRow, List.zipWith_cons_cons] at ih' ⊢
          simp only [zipRows]
          rw [ih']
          rw [List.zipWith_append (by rw [hl c (by simp), hlen])]
          simp

/-- rows of one operation all have the schema's arity -/
def Op.rowsOk {β : Type} (k : Nat) : Op (List β) → Prop
  | .insert r => r.length = k
  | .extend rs => ∀ r ∈ rs, r.length = k
  | .drain => True

def ColStore.step {β : Type} [DecidableEq β] (s : ColStore β) : Op (List β) → ColStore β
  | .insert x => (s.insert x).1
  | .extend xs => s.extend xs
  | .drain => s.drain.1
def ColStore.run {β : Type} [DecidableEq β] (k : Nat) (ops : List (Op (List β))) : ColStore β :=
  ops.foldl ColStore.step (ColStore.empty k)

def ColStore.Refines {β : Type} (k : Nat) (s : ColStore β) (h : List (List β)) : Prop :=
  s.columns.length = k ∧ (∀ c ∈ s.columns, c.length = h.length) ∧ zipRows s.columns = h ∧
    s.lastOffset = h.length

theorem aux_colstore_insert {β : Type} [DecidableEq β] (k : Nat) (hk : 0 < k) (s : ColStore β)
    (h : List (List β)) (row : List β) (hr : row.length = k) (inv : s.Refines k h) :
    (s.insert row).1.Refines k (h ++ [row]) := by
  obtain ⟨ck, cl, zr, lo⟩ := inv
  have rne : row ≠ [] := by intro e; subst e; simp at hr; omega
  unfold ColStore.insert
  split
  · rename_i h0
    have : h = [] := List.eq_nil_of_length_eq_zero (by omega)
    subst this
    refine ⟨by simp [singletonCols, hr], ?_, by simp [aux_zipRows_singleton row rne], by simp [h0]⟩
    intro c hc; simp [singletonCols] at hc; obtain ⟨a, _, rfl⟩ := hc; simp
  · have cne : s.columns ≠ [] := by intro e; rw [e] at ck; simp at ck; omega
    refine ⟨by simp [pushRow, List.length_zipWith, ck, hr], ?_, ?_, by simp [lo]⟩
    · intro c hc
      simp only [pushRow] at hc
      obtain ⟨i, hi, rfl⟩ := List.mem_iff_getElem.mp hc
      simp only [List.getElem_zipWith, List.length_append, List.length_cons, List.length_nil]
      rw [cl _ (List.getElem_mem _)]
    · rw [aux_zipRows_push s.columns row h.length cne cl (by rw [hr, ck]), zr]

theorem aux_colstore_extend {β : Type} [DecidableEq β] (k : Nat) (hk : 0 < k)
    (rows : List (List β)) (s : ColStore β) (h : List (List β))
    (hr : ∀ r ∈ rows, r.length = k) (inv : s.Refines k h) :
    (s.extend rows).Refines k (h ++ rows) := by
  induction rows generalizing s h with
  | nil => simpa [ColStore.extend]
  | cons r rows ih =>
    simp only [ColStore.extend, List.foldl_cons]
    have := ih _ _ (fun r' hr' => hr r' (by simp [hr']))
      (aux_colstore_insert k hk s h r (hr r (by simp)) inv)
    simpa [ColStore.extend] using this

theorem aux_colstore_run {β : Type} [DecidableEq β] (k : Nat) (hk : 0 < k)
    (ops : List (Op (List β))) (s : ColStore β) (h : List (List β))
    (wf : ∀ op ∈ ops, op.rowsOk k) (inv : s.Refines k h) :
    (ops.foldl ColStore.step s).Refines k (ops.foldl Op.hist h) := by
  induction ops generalizing s h with
  | nil => simpa
  | cons op ops ih =>
    apply ih _ _ (fun o ho => wf o (by simp [ho]))
    have w := wf op (by simp)
    cases op with
    | insert x => exact aux_colstore_insert k hk s h x w inv
    | extend xs => exact aux_colstore_extend k hk xs s h w inv
    | drain =>
      obtain ⟨ck, _, _, _⟩ := inv
      refine ⟨by simp [ColStore.step, ColStore.drain, ck], ?_, ?_, rfl⟩
      · intro c hc; simp [ColStore.step, ColStore.drain] at hc; simp [Op.hist, hc.2]
      · simp only [ColStore.step, ColStore.drain, Op.hist]
        have : ∀ (l : List (List β)), l ≠ [] → zipRows (l.map (fun _ => ([] : List β))) = [] := by
          intro l hl
          have := aux_zipRows_length (l.map (fun _ => ([] : List β))) 0 (by simpa using hl)
            (by intro c hc; simp at hc; simp [hc.2])
          exact List.eq_nil_of_length_eq_zero this
        exact this _ (by intro e; rw [e] at ck; simp at ck; omega)

/-- On its real representation (one `Vec` per column, `zip_vecs` to read rows back) the
column multiset holds exactly the history, in order, for every history whose rows have the
schema's arity `k ≥ 1`; `len` is the number of rows.  In particular neither the
`last_offset == 0 ⇒ replace the columns` branch nor `drain` loses or misaligns a field. -/
theorem colstore_is_history {β : Type} [DecidableEq β] (k : Nat) (hk : 0 < k)
    (ops : List (Op (List β))) (wf : ∀ op ∈ ops, op.rowsOk k) :
    (ColStore.run k ops).iter = histOf ops ∧ (ColStore.run k ops).len = (histOf ops).length := by
  have := aux_colstore_run k hk ops (ColStore.empty k) [] wf
    ⟨by simp [ColStore.empty], by simp [ColStore.empty],
     by
      have := aux_zipRows_length (List.replicate k ([] : List β)) 0
        (by intro e; have := congrArg List.length e; simp at this; omega)
        (by intro c hc; simp at hc; simp [hc.2])
      simpa [ColStore.empty] using List.eq_nil_of_length_eq_zero this,
     rfl⟩
  exact ⟨this.2.2.1, this.2.2.2⟩

/-- The row-wise model used above (`ColSet`) and the columnar store agree on every
well-formed history. -/
theorem colstore_eq_colset {β : Type} [DecidableEq β] (k : Nat) (hk : 0 < k)
    (ops : List (Op (List β))) (wf : ∀ op ∈ ops, op.rowsOk k) :
    (ColStore.run k ops).iter = (ColSet.run ops).iter := by
  rw [(colstore_is_history k hk ops wf).1, (colset_is_history ops).1]

example :
    let ops : List (Op (List Nat)) :=
      [.insert [1, 2], .drain, .insert [3, 4], .extend [[3, 4], [5, 6]]]
    (∀ op ∈ ops, op.rowsOk 2) ∧ (ColStore.run 2 ops).columns = [[3, 3, 5], [4, 4, 6]] ∧
      (ColStore.run 2 ops).iter = [[3, 4], [3, 4], [5, 6]] := by
  refine ⟨?_, by decide, by decide⟩
  intro op hop; simp at hop; rcases hop with rfl | rfl | rfl | rfl <;> simp [Op.rowsOk]

/-! ### non-vacuity: a concrete history with duplicates, an extend and a drain -/

example :
    let ops : List (Op Nat) := [.insert 1, .drain, .insert 2, .extend [2, 3], .insert 3]
    histOf ops = [2, 2, 3, 3] ∧ (HSet.run ops).iter = [2, 3] ∧ (CSet.run ops).len = 4 ∧
      (CSet.run ops).table = [(2, 2), (3, 2)] ∧ (ColSet.run ops).iter = [2, 2, 3, 3] := by
  decide

end HvVar
