/-
C04 (union-find part) — `UnionFind` implements the join of partitions: after any history of
`union` / `merge` / `same` calls from the empty map, `same a b` holds exactly when `a` and `b`
are connected by the equivalence closure of all pairs ever unioned or merged in
(`same_iff_eqvGen`).  Along the way: `find` terminates within fuel `map size + 1` on every
forest (`find_fuel_suffices`), path compression does not change the represented partition
(`find_preserves_same`), and `union`/`merge`/`same` keep the parent map a forest
(`union_preserves_forest`, `reachable_forest`).

Observation F8 (outside the property's domain, not run anywhere): on a parent map with a cycle
that does not pass through the start item (`a→b, b→c, c→b`), the first loop of `find` never
exits.  Such maps cannot be produced by `union`/`merge` (`reachable_forest`) but can be built
with `UnionFind::new`.
-/
import HvLatSpec.Model.UnionFind
import HvLatSpec.Props.C05
import Mathlib.Logic.Relation

namespace HvLatSpec.UF
open List
open HvLatSpec.TMap (lookup setVal mapInsert keys)

/-! ### the forest structure of a parent map -/

/-- `x` has the parent `p ≠ x` -/
def Par (m : PMap) (x p : Nat) : Prop := lookup m x = some p ∧ p ≠ x

/-- `r` is a representative: absent from the map or its own parent -/
def IsRoot (m : PMap) (r : Nat) : Prop := ∀ p, lookup m r = some p → p = r

/-- `Path m l x z`: following parents from `x` reaches `z`, visiting the nodes `l` before `z` -/
inductive Path (m : PMap) : List Nat → Nat → Nat → Prop
  | nil (x : Nat) : Path m [] x x
  | cons {x p z : Nat} {l : List Nat} : Par m x p → Path m l p z → Path m (x :: l) x z

def RootOf (m : PMap) (x r : Nat) : Prop := ∃ l, Path m l x r ∧ IsRoot m r

/-- every item reaches a representative (no cycles except self-loops) -/
def Forest (m : PMap) : Prop := ∀ x, ∃ r, RootOf m x r

/-- the partition represented by the map -/
def Same (m : PMap) (a b : Nat) : Prop := ∃ r, RootOf m a r ∧ RootOf m b r

theorem aux_par_not_root {m : PMap} {x p : Nat} (h : Par m x p) : ¬ IsRoot m x :=
  fun hr => h.2 (hr p h.1)

theorem aux_path_det {m : PMap} {l l' : List Nat} {x r r' : Nat}
    (h : Path m l x r) (hr : IsRoot m r) (h' : Path m l' x r') (hr' : IsRoot m r') :
    l = l' ∧ r = r' := by
  induction h generalizing l' with
  | nil x =>
    cases h' with
    | nil => exact ⟨rfl, rfl⟩
    | cons hp _ => exact absurd hr (aux_par_not_root hp)
  | cons hp _ ih =>
    cases h' with
    | nil => exact absurd hr' (aux_par_not_root hp)
    | cons hp' ht' =>
      have : some _ = some _ := hp.1.symm.trans hp'.1
      simp only [Option.some.injEq] at this
      subst this
      obtain ⟨e1, e2⟩ := ih hr ht'
      exact ⟨by rw [e1], e2⟩

theorem aux_rootOf_det {m : PMap} {x r r' : Nat} (h : RootOf m x r) (h' : RootOf m x r') : r = r' := by
  obtain ⟨l, hl, hr⟩ := h
  obtain ⟨l', hl', hr'⟩ := h'
  exact (aux_path_det hl hr hl' hr').2

theorem aux_path_suffix {m : PMap} {l : List Nat} {x z y : Nat} (h : Path m l x z) (hy : y ∈ l) :
    ∃ l2, Path m l2 y z ∧ l2.length ≤ l.length := by
  induction h with
  | nil x => simp at hy
  | @cons x p z l hp ht ih =>
    simp only [List.mem_cons] at hy
    rcases hy with rfl | hy
    · exact ⟨_, Path.cons hp ht, le_refl _⟩
    · obtain ⟨l2, h2, hlen⟩ := ih hy
      exact ⟨l2, h2, by simp only [List.length_cons]; omega⟩

theorem aux_path_nodup {m : PMap} {l : List Nat} {x r : Nat} (h : Path m l x r) (hr : IsRoot m r) :
    l.Nodup := by
  induction h with
  | nil x => exact List.nodup_nil
  | @cons x p z l hp ht ih =>
    rw [List.nodup_cons]
    refine ⟨fun hx => ?_, ih hr⟩
    obtain ⟨l2, h2, hlen⟩ := aux_path_suffix ht hx
    have := (aux_path_det (Path.cons hp ht) hr h2 hr).1
    rw [← this] at hlen
    simp only [List.length_cons] at hlen
    omega

theorem aux_path_keys {m : PMap} {l : List Nat} {x z : Nat} (h : Path m l x z) :
    ∀ y ∈ l, y ∈ keys m := by
  induction h with
  | nil x => simp
  | @cons x p z l hp ht ih =>
    intro y hy
    simp only [List.mem_cons] at hy
    rcases hy with rfl | hy
    · by_contra hc
      have := (TMap.aux_lookup_none_iff m y).2 hc
      rw [hp.1] at this; simp at this
    · exact ih y hy

/-- a path to a representative visits at most `map size` nodes -/
theorem aux_path_length {m : PMap} {l : List Nat} {x r : Nat} (h : Path m l x r) (hr : IsRoot m r) :
    l.length ≤ m.length := by
  have h1 := List.subperm_of_subset (aux_path_nodup h hr) (aux_path_keys h)
  have := h1.length_le
  simpa [keys] using this

/-! ### the first loop of `find` -/

/-- on a path to a representative no parent pointer leads back to the start item -/
theorem aux_no_back_edge {m : PMap} {l : List Nat} {item r : Nat} (h : Path m l item r)
    (hr : IsRoot m r) : ∀ y ∈ l, ∀ p, lookup m y = some p → p ≠ item := by
  intro y hy p hp e
  subst e
  -- y ∈ l, parent of y is the start `p` again
  obtain ⟨l2, h2, hlen⟩ := aux_path_suffix h hy
  by_cases hyp : p = y
  · -- self loop: y would be a root but is on the path as a non-root
    subst hyp
    cases h2 with
    | nil => exact absurd hr (by
        intro hr'
        cases h with
        | nil => simp at hy
        | cons hp' _ => exact aux_par_not_root hp' hr')
    | cons hp' _ => exact hp'.2 (Option.some.inj (hp'.1.symm.trans hp))
  · cases h2 with
    | nil =>
      -- y = r is a root, but has a parent p ≠ y
      exact hyp (hr p hp)
    | @cons _ p' _ l3 hp' ht' =>
      have : p' = p := Option.some.inj (hp'.1.symm.trans hp)
      subst this
      -- a path from the start of length < |l| contradicts determinism
      have := (aux_path_det h hr ht' hr).1
      rw [this] at hlen
      simp only [List.length_cons] at hlen
      omega

theorem aux_findRoot {m : PMap} {item : Nat} {l : List Nat} {c r : Nat} (h : Path m l c r)
    (hr : IsRoot m r) (hb : ∀ y ∈ l, ∀ p, lookup m y = some p → p ≠ item)
    (fuel : Nat) (hf : l.length < fuel) : findRoot m item fuel c = (r, m) := by
  induction h generalizing fuel with
  | nil x =>
    cases fuel with
    | zero => omega
    | succ fuel =>
      unfold findRoot
      cases hl : lookup m x with
      | none => rfl
      | some p => simp [hr p hl]
  | @cons x p z l hp ht ih =>
    cases fuel with
    | zero => omega
    | succ fuel =>
      unfold findRoot
      simp only [hp.1, hp.2, if_false]
      have : p ≠ item := hb x (by simp) p hp.1
      simp only [this, if_false]
      exact ih hr (fun y hy => hb y (by simp [hy])) fuel (by simp only [List.length_cons] at hf; omega)

/-! ### re-parenting one node to its representative (one step of path compression) -/

theorem aux_path_setVal_notin {m : PMap} {l : List Nat} {x z k v : Nat} (h : Path m l x z)
    (hk : k ∉ l) : Path (setVal m k v) l x z := by
  induction h with
  | nil x => exact Path.nil x
  | @cons x p z l hp ht ih =>
    simp only [List.mem_cons, not_or] at hk
    refine Path.cons ⟨?_, hp.2⟩ (ih hk.2)
    rw [TMap.aux_lookup_setVal]
    have : x ≠ k := fun e => hk.1 e.symm
    simp [this, hp.1]

theorem aux_isRoot_setVal {m : PMap} {k v r : Nat} (hr : IsRoot m r) (hne : r ≠ k) :
    IsRoot (setVal m k v) r := by
  intro p hp
  rw [TMap.aux_lookup_setVal] at hp
  simp only [hne, if_false] at hp
  exact hr p hp

theorem aux_rootOf_setVal {m : PMap} {k r : Nat} (hk : RootOf m k r) (hne : k ≠ r) :
    ∀ x r', RootOf m x r' → RootOf (setVal m k r) x r' := by
  -- k is not a root
  have hknr : ¬ IsRoot m k := by
    obtain ⟨l, hl, _⟩ := hk
    cases hl with
    | nil => exact absurd rfl hne
    | cons hp _ => exact aux_par_not_root hp
  have hrk : IsRoot (setVal m k r) r := by
    obtain ⟨_, _, hr⟩ := hk
    exact aux_isRoot_setVal hr (Ne.symm hne)
  intro x r' ⟨l, hl, hr'⟩
  have hr'k : r' ≠ k := fun e => hknr (e ▸ hr')
  have hroot' := aux_isRoot_setVal (v := r) hr' hr'k
  induction hl with
  | nil x => exact ⟨[], Path.nil x, hroot'⟩
  | @cons x p z l hp ht ih =>
    by_cases hx : x = k
    · subst hx
      -- the root of x is r
      have : z = r := aux_rootOf_det ⟨_, Path.cons hp ht, hr'⟩ hk
      subst this
      refine ⟨[x], Path.cons ⟨?_, Ne.symm hne⟩ (Path.nil _), hrk⟩
      rw [TMap.aux_lookup_setVal]; simp [hp.1]
    · obtain ⟨l', hl', hr''⟩ := ih hr' hr'k hroot'
      refine ⟨x :: l', Path.cons ⟨?_, hp.2⟩ hl', hr''⟩
      rw [TMap.aux_lookup_setVal]; simp [hx, hp.1]

theorem aux_length_setVal (m : PMap) (k v : Nat) : (setVal m k v).length = m.length := by
  have := congrArg List.length (TMap.aux_keys_setVal m k v)
  simpa [keys] using this

/-! ### the second loop of `find` -/

theorem aux_compress {r : Nat} {l : List Nat} : ∀ {m : PMap} {c : Nat}, Path m l c r → IsRoot m r →
    ∀ fuel, l.length < fuel →
      (∀ x r', RootOf m x r' → RootOf (compress r fuel m c) x r') ∧
      (compress r fuel m c).length = m.length ∧
      (∀ fuel', l.length < fuel' → compress r fuel' m c = compress r fuel m c) := by
  induction l with
  | nil =>
    intro m c h hr fuel hf
    cases h
    cases fuel with
    | zero => omega
    | succ fuel =>
      refine ⟨fun x r' h => by simpa [compress] using h, by simp [compress], ?_⟩
      intro fuel' hf'
      cases fuel' with
      | zero => omega
      | succ fuel' => simp [compress]
  | cons c0 l ih =>
    intro m c h hr fuel hf
    cases h with
    | @cons _ p _ _ hp ht =>
      have hnd := aux_path_nodup (Path.cons hp ht) hr
      rw [List.nodup_cons] at hnd
      have hcr : c0 ≠ r := fun e => aux_par_not_root hp (e ▸ hr)
      have hk : RootOf m c0 r := ⟨_, Path.cons hp ht, hr⟩
      have h1 := aux_rootOf_setVal hk hcr
      have ht' : Path (setVal m c0 r) l p r := aux_path_setVal_notin ht hnd.1
      have hr' : IsRoot (setVal m c0 r) r := aux_isRoot_setVal hr (Ne.symm hcr)
      cases fuel with
      | zero => omega
      | succ fuel =>
        obtain ⟨i1, i2, i3⟩ := ih ht' hr' fuel (by simp only [List.length_cons] at hf; omega)
        have e : compress r (fuel + 1) m c0 = compress r fuel (setVal m c0 r) p := by
          rw [compress]; simp [hcr, hp.1]
        refine ⟨fun x r' h => ?_, ?_, ?_⟩
        · rw [e]; exact i1 x r' (h1 x r' h)
        · rw [e, i2, aux_length_setVal]
        · intro fuel' hf'
          cases fuel' with
          | zero => omega
          | succ fuel' =>
            have e' : compress r (fuel' + 1) m c0 = compress r fuel' (setVal m c0 r) p := by
              rw [compress]; simp [hcr, hp.1]
            rw [e, e']
            exact i3 fuel' (by simp only [List.length_cons] at hf'; omega)

/-! ### `find` -/

/-- what `find` does on a forest -/
theorem aux_find {m : PMap} (hF : Forest m) (item : Nat) :
    RootOf m item (find m item).1 ∧
    (∀ x r', RootOf m x r' → RootOf (find m item).2 x r') ∧
    (find m item).2.length = m.length := by
  obtain ⟨r, l, hl, hr⟩ := hF item
  have hlen := aux_path_length hl hr
  have hfr := aux_findRoot hl hr (aux_no_back_edge hl hr) (m.length + 1) (by omega)
  obtain ⟨c1, c2, _⟩ := aux_compress hl hr (m.length + 1) (by omega)
  simp only [find, hfr]
  exact ⟨⟨l, hl, hr⟩, c1, c2⟩

theorem aux_forest_of_preserved {m m' : PMap} (hF : Forest m)
    (h : ∀ x r', RootOf m x r' → RootOf m' x r') : Forest m' := by
  intro x
  obtain ⟨r, hr⟩ := hF x
  exact ⟨r, h x r hr⟩

theorem aux_rootOf_iff_of_preserved {m m' : PMap} (hF : Forest m)
    (h : ∀ x r', RootOf m x r' → RootOf m' x r') (x r : Nat) : RootOf m' x r ↔ RootOf m x r := by
  constructor
  · intro h'
    obtain ⟨r0, hr0⟩ := hF x
    have := aux_rootOf_det (h x r0 hr0) h'
    exact this ▸ hr0
  · exact h x r

theorem aux_same_iff_of_preserved {m m' : PMap} (hF : Forest m)
    (h : ∀ x r', RootOf m x r' → RootOf m' x r') (a b : Nat) : Same m' a b ↔ Same m a b := by
  simp only [Same, aux_rootOf_iff_of_preserved hF h]

/-- **`find` terminates within the fuel `map size + 1` on forests**: any larger fuel gives the
same representative and the same compressed map. -/
theorem find_fuel_suffices {m : PMap} (hF : Forest m) (item : Nat) (fuel : Nat)
    (hf : m.length + 1 ≤ fuel) :
    (let r := findRoot m item fuel item; (r.1, compress r.1 fuel r.2 item)) = find m item := by
  obtain ⟨r, l, hl, hr⟩ := hF item
  have hlen := aux_path_length hl hr
  have hb := aux_no_back_edge hl hr
  have h1 := aux_findRoot hl hr hb (m.length + 1) (by omega)
  have h2 := aux_findRoot hl hr hb fuel (by omega)
  obtain ⟨_, _, c3⟩ := aux_compress hl hr (m.length + 1) (by omega)
  simp only [find, h1, h2]
  rw [c3 fuel (by omega)]

/-- **`find` returns the representative of its argument, keeps the map a forest and does not
change the represented partition** (path compression is invisible). -/
theorem find_preserves_same {m : PMap} (hF : Forest m) (item : Nat) :
    Forest (find m item).2 ∧ RootOf m item (find m item).1 ∧
    ∀ a b, Same (find m item).2 a b ↔ Same m a b := by
  obtain ⟨h1, h2, _⟩ := aux_find hF item
  exact ⟨aux_forest_of_preserved hF h2, h1, aux_same_iff_of_preserved hF h2⟩

/-! ### `Same` is an equivalence on forests, decided by representatives -/

theorem aux_same_iff_roots {m : PMap} {x y rx ry : Nat} (hx : RootOf m x rx) (hy : RootOf m y ry) :
    Same m x y ↔ rx = ry := by
  constructor
  · rintro ⟨r, h1, h2⟩
    rw [aux_rootOf_det hx h1, aux_rootOf_det hy h2]
  · intro e; subst e; exact ⟨rx, hx, hy⟩

theorem aux_same_refl {m : PMap} (hF : Forest m) (x : Nat) : Same m x x := by
  obtain ⟨r, hr⟩ := hF x; exact ⟨r, hr, hr⟩

theorem aux_same_symm {m : PMap} {x y : Nat} (h : Same m x y) : Same m y x := by
  obtain ⟨r, h1, h2⟩ := h; exact ⟨r, h2, h1⟩

theorem aux_same_trans {m : PMap} {x y z : Nat} (h : Same m x y) (h' : Same m y z) : Same m x z := by
  obtain ⟨r, h1, h2⟩ := h
  obtain ⟨r', h3, h4⟩ := h'
  have := aux_rootOf_det h2 h3
  subst this
  exact ⟨r, h1, h4⟩

/-! ### `union` -/

theorem aux_path_snoc {m : PMap} {l : List Nat} {x z w : Nat} (h : Path m l x z) (hp : Par m z w) :
    Path m (l ++ [z]) x w := by
  induction h with
  | nil x => exact Path.cons hp (Path.nil w)
  | cons hp' _ ih => exact Path.cons hp' (ih hp)

/-- linking the representative `rb` below the representative `ra` -/
theorem aux_rootOf_link {m : PMap} {ra rb : Nat} (hra : IsRoot m ra) (hrb : IsRoot m rb)
    (hne : ra ≠ rb) (x r : Nat) (h : RootOf m x r) :
    RootOf (mapInsert m (rb, ra)) x (if r = rb then ra else r) := by
  have hlk : ∀ y, TMap.lookup (mapInsert m (rb, ra)) y = if y = rb then some ra else TMap.lookup m y := by
    intro y; rw [TMap.aux_lookup_mapInsert]
  have hroot : ∀ r', IsRoot m r' → r' ≠ rb → IsRoot (mapInsert m (rb, ra)) r' := by
    intro r' hr' hn p hp
    rw [hlk] at hp; simp only [hn, if_false] at hp; exact hr' p hp
  obtain ⟨l, hl, hr⟩ := h
  have hpath : Path (mapInsert m (rb, ra)) l x r := by
    clear hr
    induction hl with
    | nil x => exact Path.nil x
    | @cons x0 p0 _ _ hp _ ih =>
      refine Path.cons ⟨?_, hp.2⟩ ih
      rw [hlk]
      have : x0 ≠ rb := fun e => aux_par_not_root hp (e ▸ hrb)
      simp [this, hp.1]
  by_cases hrb' : r = rb
  · subst hrb'
    simp only [if_true]
    refine ⟨l ++ [r], aux_path_snoc hpath ⟨?_, hne⟩, hroot ra hra hne⟩
    rw [hlk]; simp
  · simp only [hrb', if_false]
    exact ⟨l, hpath, hroot r hr hrb'⟩

/-- **`union a b` keeps the map a forest and joins exactly the classes of `a` and `b`.** -/
theorem union_preserves_forest {m : PMap} (hF : Forest m) (a b : Nat) :
    Forest (union m a b).1 ∧
    ∀ x y, Same (union m a b).1 x y ↔
      Same m x y ∨ (Same m x a ∧ Same m b y) ∨ (Same m x b ∧ Same m a y) := by
  obtain ⟨fa1, fa2, _⟩ := aux_find hF a
  have hF1 := aux_forest_of_preserved hF fa2
  obtain ⟨fb1, fb2, _⟩ := aux_find hF1 b
  have hF2 := aux_forest_of_preserved hF1 fb2
  -- roots in the map after both finds
  have hpres : ∀ x r', RootOf m x r' → RootOf (find (find m a).2 b).2 x r' :=
    fun x r' h => fb2 x r' (fa2 x r' h)
  have hsame := aux_same_iff_of_preserved hF hpres
  have hra : RootOf (find (find m a).2 b).2 a (find m a).1 := hpres a _ fa1
  have hrb : RootOf (find (find m a).2 b).2 b (find (find m a).2 b).1 := fb2 b _ fb1
  have hra_root : IsRoot (find (find m a).2 b).2 (find m a).1 := by
    obtain ⟨_, _, h⟩ := hra; exact h
  have hrb_root : IsRoot (find (find m a).2 b).2 (find (find m a).2 b).1 := by
    obtain ⟨_, _, h⟩ := hrb; exact h
  simp only [← hsame]
  by_cases he : (find m a).1 = (find (find m a).2 b).1
  · -- already in the same class
    have hu : (union m a b).1 = (find (find m a).2 b).2 := by simp [union, he]
    rw [hu]
    refine ⟨hF2, fun x y => ⟨Or.inl, ?_⟩⟩
    have hab : Same (find (find m a).2 b).2 a b := (aux_same_iff_roots hra hrb).2 he
    rintro (h | ⟨h1, h2⟩ | ⟨h1, h2⟩)
    · exact h
    · exact aux_same_trans (aux_same_trans h1 hab) h2
    · exact aux_same_trans (aux_same_trans h1 (aux_same_symm hab)) h2
  · have hu : (union m a b).1 =
        mapInsert (find (find m a).2 b).2 ((find (find m a).2 b).1, (find m a).1) := by
      simp [union, he]
    rw [hu]
    have hlink := aux_rootOf_link hra_root hrb_root he
    refine ⟨fun x => ?_, fun x y => ?_⟩
    · obtain ⟨r, hr⟩ := hF2 x
      exact ⟨_, hlink x r hr⟩
    · obtain ⟨rx, hrx⟩ := hF2 x
      obtain ⟨ry, hry⟩ := hF2 y
      rw [aux_same_iff_roots (hlink x rx hrx) (hlink y ry hry), aux_same_iff_roots hrx hry,
        aux_same_iff_roots hrx hra, aux_same_iff_roots hrb hry, aux_same_iff_roots hrx hrb,
        aux_same_iff_roots hra hry]
      split_ifs <;> omega

/-! ### histories -/

theorem aux_merge {m : PMap} (hF : Forest m) (ps : List (Nat × Nat)) (acc : Bool) :
    Forest (ps.foldl (fun (acc : PMap × Bool) kp => ((union acc.1 kp.1 kp.2).1, acc.2 || (union acc.1 kp.1 kp.2).2)) (m, acc)).1 ∧
    ∀ x y, Same (ps.foldl (fun (acc : PMap × Bool) kp => ((union acc.1 kp.1 kp.2).1, acc.2 || (union acc.1 kp.1 kp.2).2)) (m, acc)).1 x y ↔
      Relation.EqvGen (fun u v => Same m u v ∨ (u, v) ∈ ps) x y := by
  induction ps generalizing m acc with
  | nil =>
    refine ⟨hF, fun x y => ⟨fun h => Relation.EqvGen.rel _ _ (Or.inl h), fun h => ?_⟩⟩
    induction h with
    | rel u v h => simpa using h
    | refl u => exact aux_same_refl hF u
    | symm _ _ _ ih => exact aux_same_symm ih
    | trans _ _ _ _ _ ih1 ih2 => exact aux_same_trans ih1 ih2
  | cons kp ps ih =>
    obtain ⟨hF', hU⟩ := union_preserves_forest hF kp.1 kp.2
    obtain ⟨i1, i2⟩ := ih hF' (acc || (union m kp.1 kp.2).2)
    simp only [List.foldl_cons]
    refine ⟨i1, fun x y => ?_⟩
    rw [i2]
    constructor
    · intro h
      induction h with
      | rel u v h =>
        rcases h with h | h
        · rw [hU] at h
          rcases h with h | ⟨h1, h2⟩ | ⟨h1, h2⟩
          · exact Relation.EqvGen.rel _ _ (Or.inl h)
          · exact Relation.EqvGen.trans _ _ _ (Relation.EqvGen.rel _ _ (Or.inl h1))
              (Relation.EqvGen.trans _ _ _ (Relation.EqvGen.rel _ _ (Or.inr (by simp)))
                (Relation.EqvGen.rel _ _ (Or.inl h2)))
          · exact Relation.EqvGen.trans _ _ _ (Relation.EqvGen.rel _ _ (Or.inl h1))
              (Relation.EqvGen.trans _ _ _
                (Relation.EqvGen.symm _ _ (Relation.EqvGen.rel _ _ (Or.inr (by simp))))
                (Relation.EqvGen.rel _ _ (Or.inl h2)))
        · exact Relation.EqvGen.rel _ _ (Or.inr (by simp [h]))
      | refl u => exact Relation.EqvGen.refl u
      | symm _ _ _ ih => exact Relation.EqvGen.symm _ _ ih
      | trans _ _ _ _ _ ih1 ih2 => exact Relation.EqvGen.trans _ _ _ ih1 ih2
    · intro h
      induction h with
      | rel u v h =>
        rcases h with h | h
        · exact Relation.EqvGen.rel _ _ (Or.inl ((hU u v).2 (Or.inl h)))
        · simp only [List.mem_cons] at h
          rcases h with h | h
          · refine Relation.EqvGen.rel _ _ (Or.inl ((hU u v).2 (Or.inr (Or.inl ?_))))
            have : kp = (u, v) := h.symm
            subst this
            exact ⟨aux_same_refl hF _, aux_same_refl hF _⟩
          · exact Relation.EqvGen.rel _ _ (Or.inr h)
      | refl u => exact Relation.EqvGen.refl u
      | symm _ _ _ ih => exact Relation.EqvGen.symm _ _ ih
      | trans _ _ _ _ _ ih1 ih2 => exact Relation.EqvGen.trans _ _ _ ih1 ih2

theorem aux_eqvGen_of {α : Type} {r s : α → α → Prop} (h : ∀ u v, r u v → Relation.EqvGen s u v)
    {x y : α} (hxy : Relation.EqvGen r x y) : Relation.EqvGen s x y := by
  induction hxy with
  | rel u v huv => exact h u v huv
  | refl u => exact Relation.EqvGen.refl u
  | symm _ _ _ ih => exact Relation.EqvGen.symm _ _ ih
  | trans _ _ _ _ _ ih1 ih2 => exact Relation.EqvGen.trans _ _ _ ih1 ih2

/-- the pairs a history has unioned / merged in -/
def pairsOf : List Op → List (Nat × Nat)
  | [] => []
  | .union a b :: ops => (a, b) :: pairsOf ops
  | .merge ps :: ops => ps ++ pairsOf ops
  | .query _ _ :: ops => pairsOf ops

theorem aux_merge_eq (m : PMap) (ps : List (Nat × Nat)) :
    (merge m ps).1 = (ps.foldl (fun (acc : PMap × Bool) kp =>
      ((union acc.1 kp.1 kp.2).1, acc.2 || (union acc.1 kp.1 kp.2).2)) (m, false)).1 := rfl

theorem aux_step {m : PMap} (hF : Forest m) (op : Op) :
    Forest (step m op) ∧ ∀ x y, Same (step m op) x y ↔
      Relation.EqvGen (fun u v => Same m u v ∨ (u, v) ∈ pairsOf [op]) x y := by
  cases op with
  | union a b =>
    have e : step m (.union a b) = (merge m [(a, b)]).1 := by simp [step, merge]
    rw [e, aux_merge_eq]
    simpa [pairsOf] using aux_merge hF [(a, b)] false
  | merge ps =>
    have e : step m (.merge ps) = (merge m ps).1 := rfl
    rw [e, aux_merge_eq]
    simpa [pairsOf] using aux_merge hF ps false
  | query a b =>
    have hpres : ∀ x r', RootOf m x r' → RootOf (step m (.query a b)) x r' := by
      intro x r' h
      simp only [step, same]
      split
      · exact h
      · obtain ⟨_, fa2, _⟩ := aux_find hF a
        obtain ⟨_, fb2, _⟩ := aux_find (aux_forest_of_preserved hF fa2) b
        exact fb2 x r' (fa2 x r' h)
    refine ⟨aux_forest_of_preserved hF hpres, fun x y => ?_⟩
    rw [aux_same_iff_of_preserved hF hpres]
    constructor
    · intro h; exact Relation.EqvGen.rel _ _ (Or.inl h)
    · intro h
      induction h with
      | rel u v h => simpa [pairsOf] using h
      | refl u => exact aux_same_refl hF u
      | symm _ _ _ ih => exact aux_same_symm ih
      | trans _ _ _ _ _ ih1 ih2 => exact aux_same_trans ih1 ih2

theorem aux_pairsOf_cons (op : Op) (ops : List Op) : pairsOf (op :: ops) = pairsOf [op] ++ pairsOf ops := by
  cases op <;> simp [pairsOf]

theorem aux_run {m : PMap} (hF : Forest m) (ops : List Op) :
    Forest (ops.foldl step m) ∧ ∀ x y, Same (ops.foldl step m) x y ↔
      Relation.EqvGen (fun u v => Same m u v ∨ (u, v) ∈ pairsOf ops) x y := by
  induction ops generalizing m with
  | nil =>
    refine ⟨hF, fun x y => ⟨fun h => Relation.EqvGen.rel _ _ (Or.inl h), fun h => ?_⟩⟩
    induction h with
    | rel u v h => simpa [pairsOf] using h
    | refl u => exact aux_same_refl hF u
    | symm _ _ _ ih => exact aux_same_symm ih
    | trans _ _ _ _ _ ih1 ih2 => exact aux_same_trans ih1 ih2
  | cons op ops ih =>
    obtain ⟨hF', hS⟩ := aux_step hF op
    obtain ⟨i1, i2⟩ := ih hF'
    simp only [List.foldl_cons]
    refine ⟨i1, fun x y => ?_⟩
    rw [i2, aux_pairsOf_cons]
    constructor
    · apply aux_eqvGen_of
      rintro u v (h | h)
      · rw [hS] at h
        exact aux_eqvGen_of (fun u v h => Relation.EqvGen.rel _ _ (by
          rcases h with h | h
          · exact Or.inl h
          · exact Or.inr (by simp [h]))) h
      · exact Relation.EqvGen.rel _ _ (Or.inr (by simp [h]))
    · apply aux_eqvGen_of
      rintro u v (h | h)
      · exact Relation.EqvGen.rel _ _ (Or.inl ((hS u v).2 (Relation.EqvGen.rel _ _ (Or.inl h))))
      · simp only [List.mem_append] at h
        rcases h with h | h
        · exact Relation.EqvGen.rel _ _ (Or.inl ((hS u v).2 (Relation.EqvGen.rel _ _ (Or.inr h))))
        · exact Relation.EqvGen.rel _ _ (Or.inr h)

theorem aux_forest_nil : Forest ([] : PMap) := by
  intro x
  exact ⟨x, [], Path.nil x, fun p hp => by simp [TMap.aux_lookup_nil] at hp⟩

theorem aux_same_nil (u v : Nat) : Same ([] : PMap) u v ↔ u = v := by
  have hu : RootOf ([] : PMap) u u := ⟨[], Path.nil u, fun p hp => by simp [TMap.aux_lookup_nil] at hp⟩
  have hv : RootOf ([] : PMap) v v := ⟨[], Path.nil v, fun p hp => by simp [TMap.aux_lookup_nil] at hp⟩
  exact aux_same_iff_roots hu hv

/-- **Every map reachable from the empty map through `union` / `merge` / `same` is a forest**
(so `find` terminates on it within its fuel, and F8 cannot occur). -/
theorem reachable_forest (ops : List Op) : Forest (run ops) :=
  (aux_run aux_forest_nil ops).1

/-- what `same` answers on a forest -/
theorem aux_same_answer {m : PMap} (hF : Forest m) (a b : Nat) :
    (same m a b).1 = true ↔ Same m a b := by
  simp only [same]
  split
  · rename_i h; subst h; simp [aux_same_refl hF a]
  · obtain ⟨fa1, fa2, _⟩ := aux_find hF a
    have hF1 := aux_forest_of_preserved hF fa2
    obtain ⟨fb1, _, _⟩ := aux_find hF1 b
    have hb : RootOf m b (find (find m a).2 b).1 := (aux_rootOf_iff_of_preserved hF fa2 b _).1 fb1
    simp only [beq_iff_eq]
    exact (aux_same_iff_roots fa1 hb).symm

/-- **The property**: after any history of `union` / `merge` / `same` operations from the empty
union-find, `same a b` answers `true` exactly when `a` and `b` are connected by the equivalence
closure of all pairs ever unioned or merged in — the join of the partitions. -/
theorem same_iff_eqvGen (ops : List Op) (a b : Nat) :
    (same (run ops) a b).1 = true ↔ Relation.EqvGen (fun u v => (u, v) ∈ pairsOf ops) a b := by
  obtain ⟨hF, hS⟩ := aux_run aux_forest_nil ops
  show (same (List.foldl step [] ops) a b).1 = true ↔ _
  rw [aux_same_answer hF, hS]
  constructor
  · apply aux_eqvGen_of
    rintro u v (h | h)
    · rw [aux_same_nil] at h; subst h; exact Relation.EqvGen.refl u
    · exact Relation.EqvGen.rel _ _ h
  · apply aux_eqvGen_of
    intro u v h
    exact Relation.EqvGen.rel _ _ (Or.inr h)

/-- merging another union-find in is the join of the two partitions -/
theorem merge_is_partition_join {m : PMap} (hF : Forest m) (ps : List (Nat × Nat)) (x y : Nat) :
    Same (merge m ps).1 x y ↔ Relation.EqvGen (fun u v => Same m u v ∨ (u, v) ∈ ps) x y := by
  rw [aux_merge_eq]; exact (aux_merge hF ps false).2 x y

/-- non-vacuity: a history with a chain, a query that compresses it, and a merge -/
example :
    let ops := [Op.union 3 1, Op.union 2 3, Op.query 2 1, Op.merge [(5, 4), (4, 1)], Op.union 7 8]
    run ops = [(1, 2), (3, 2), (4, 5), (2, 5), (8, 7)] ∧
    (same (run ops) 1 5).1 = true ∧ (same (run ops) 1 7).1 = false := by decide

end HvLatSpec.UF
