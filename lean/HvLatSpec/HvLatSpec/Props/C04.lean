/-
C04 — Each lattice type implements its mathematical model (all constructors except
union-find, which is in `Props/C04UF.lean`).

`abs : Val s → Spec s` maps what the Rust value reveals to the obvious mathematical object:
  Max/Min        ↦ the number (join = max / min)
  ()             ↦ ()
  Conflict<T>    ↦ Option T, join = "equal or conflict (none)"
  SetUnion       ↦ membership predicate ℕ → Prop (join = ∨), whatever the backing / duplicates / order
  MapUnion       ↦ key ↦ Option value, with absent keys *and bottom values* both `none` (join key-wise)
  WithBot        ↦ Option, `None` and `Some(⊥)` both `none` (= the adjoined bottom)
  WithTop        ↦ Option, `none` = the adjoined top
  Pair           ↦ product, component-wise
  VecUnion       ↦ finite sequence, index-wise join with extension
  DomPair<Max,V> ↦ (key, value): the larger key dominates, equal keys join the values
and `merge_refines_join : abs (merge a b).1 = join (abs a) (abs b)` is proved by induction on the
type descriptor, so it holds through every nesting and for every receiver representation
(`RT`: hash-like or `Vec` receivers) with the other side an arbitrary list (= any
`IntoIterator` representation: `Vec`, `HashSet`, `BTreeSet`, singleton, option, array).
-/
import HvLatSpec.Model.Lattice
import HvLatSpec.Props.C05

namespace HvLatSpec
open List

/-! ### the mathematical models -/

@[reducible] def Spec : Shape → Type
  | .maxN => Nat
  | .minN => Nat
  | .unit => Unit
  | .conflict => Option Nat
  | .set => Nat → Prop
  | .map s => Nat → Option (Spec s)
  | .withBot s => Option (Spec s)
  | .withTop s => Option (Spec s)
  | .pair s t => Spec s × Spec t
  | .vec s => List (Spec s)
  | .domPair s => Nat × Spec s

/-- join of `Option` with `none` as bottom -/
def botJoin {S : Type} (j : S → S → S) : Option S → Option S → Option S
  | none, y => y
  | some a, none => some a
  | some a, some b => some (j a b)

/-- join of `Option` with `none` as top -/
def topJoin {S : Type} (j : S → S → S) : Option S → Option S → Option S
  | some a, some b => some (j a b)
  | _, _ => none

/-- index-wise join of finite sequences, the longer one extends -/
def seqJoin {S : Type} (j : S → S → S) : List S → List S → List S
  | [], l => l
  | a :: l, [] => a :: l
  | a :: l, b :: l' => j a b :: seqJoin j l l'

def join : (s : Shape) → Spec s → Spec s → Spec s
  | .maxN, a, b => Nat.max a b
  | .minN, a, b => Nat.min a b
  | .unit, _, _ => ()
  | .conflict, a, b =>
    match (a : Option Nat), (b : Option Nat) with
    | some x, some y => if x = y then some x else none
    | _, _ => none
  | .set, a, b => fun x => (a : Nat → Prop) x ∨ (b : Nat → Prop) x
  | .map s, a, b => fun k => botJoin (join s) ((a : Nat → Option (Spec s)) k) ((b : Nat → Option (Spec s)) k)
  | .withBot s, a, b => botJoin (join s) a b
  | .withTop s, a, b => topJoin (join s) a b
  | .pair s t, a, b => (join s (a : Spec s × Spec t).1 (b : Spec s × Spec t).1,
                        join t (a : Spec s × Spec t).2 (b : Spec s × Spec t).2)
  | .vec s, a, b => seqJoin (join s) a b
  | .domPair s, a, b =>   -- the pair with the dominating key wins; equal keys join the values
    if (a : Nat × Spec s).1 < (b : Nat × Spec s).1 then b
    else if (a : Nat × Spec s).1 = (b : Nat × Spec s).1 then ((a : Nat × Spec s).1, join s (a : Nat × Spec s).2 (b : Nat × Spec s).2)
    else a

/-- an optional value with bottoms erased -/
def eraseBot {V S : Type} (isb : V → Bool) (ab : V → S) : Option V → Option S
  | none => none
  | some x => if isb x then none else some (ab x)

def abs : (s : Shape) → Val s → Spec s
  | .maxN, v => (v : Nat)
  | .minN, v => (v : Nat)
  | .unit, _ => ()
  | .conflict, v => (v : Option Nat)
  | .set, v => fun x => x ∈ (v : List Nat)
  | .map s, v => fun k => eraseBot (Lat.isBot s) (abs s) (TMap.lookup (v : List (Nat × Val s)) k)
  | .withBot s, v => eraseBot (Lat.isBot s) (abs s) v
  | .withTop s, v => Option.map (abs s) v
  | .pair s t, v => (abs s (v : Val s × Val t).1, abs t (v : Val s × Val t).2)
  | .vec s, v => List.map (abs s) v
  | .domPair s, v => ((v : Nat × Val s).1, abs s (v : Nat × Val s).2)

/-- representable values: numbers are `u64`; map keys are distinct (what a `HashMap`/`BTreeMap`
is, and the documented precondition of `VecMap`) -/
def WF : (s : Shape) → Val s → Prop
  | .maxN, v => (v : Nat) ≤ U64MAX
  | .minN, v => (v : Nat) ≤ U64MAX
  | .unit, _ => True
  | .conflict, _ => True
  | .set, _ => True
  | .map s, v => (TMap.keys (v : List (Nat × Val s))).Nodup ∧ ∀ kv ∈ (v : List (Nat × Val s)), WF s kv.2
  | .withBot s, v => ∀ x, (v : Option (Val s)) = some x → WF s x
  | .withTop s, v => ∀ x, (v : Option (Val s)) = some x → WF s x
  | .pair s t, v => WF s (v : Val s × Val t).1 ∧ WF t (v : Val s × Val t).2
  | .vec s, v => ∀ x ∈ (v : List (Val s)), WF s x
  | .domPair s, v => (v : Nat × Val s).1 ≤ U64MAX ∧ WF s (v : Nat × Val s).2

/-- everything the induction carries for one type descriptor -/
structure Good (s : Shape) : Prop where
  refines : ∀ r a b, WF s a → WF s b → abs s (Lat.merge s r a b).1 = join s (abs s a) (abs s b)
  wf : ∀ r a b, WF s a → WF s b → WF s (Lat.merge s r a b).1
  bot_merge : ∀ r a b, WF s a → WF s b →
    Lat.isBot s (Lat.merge s r a b).1 = (Lat.isBot s a && Lat.isBot s b)
  bot_left : ∀ a b, WF s a → WF s b → Lat.isBot s a = true → join s (abs s a) (abs s b) = abs s b
  bot_right : ∀ a b, WF s a → WF s b → Lat.isBot s b = true → join s (abs s a) (abs s b) = abs s a
  from_abs : ∀ r b, WF s b → abs s (Lat.from_ s r b) = abs s b
  from_wf : ∀ r b, WF s b → WF s (Lat.from_ s r b)
  from_bot : ∀ r b, WF s b → Lat.isBot s (Lat.from_ s r b) = Lat.isBot s b

/-! ### leaves -/

theorem aux_max_bot (a b : Nat) :
    ((if a < b then (b, true) else (a, false)).1 == 0) = (a == 0 && b == 0) := by
  by_cases h : a < b
  · simp only [h, if_true]; rw [Bool.eq_iff_iff]; simp only [beq_iff_eq, Bool.and_eq_true]; omega
  · simp only [h, if_false]; rw [Bool.eq_iff_iff]; simp only [beq_iff_eq, Bool.and_eq_true]; omega

theorem aux_min_bot (a b m : Nat) (ha : a ≤ m) (hb : b ≤ m) :
    ((if b < a then (b, true) else (a, false)).1 == m) = (a == m && b == m) := by
  by_cases h : b < a
  · simp only [h, if_true]; rw [Bool.eq_iff_iff]; simp only [beq_iff_eq, Bool.and_eq_true]; omega
  · simp only [h, if_false]; rw [Bool.eq_iff_iff]; simp only [beq_iff_eq, Bool.and_eq_true]; omega

theorem aux_good_maxN : Good .maxN where
  refines r a b _ _ := by
    simp only [Lat.merge, abs, join]
    by_cases h : (a : Nat) < b
    · simp only [h, if_true]; exact (Nat.max_eq_right (Nat.le_of_lt h)).symm
    · simp only [h, if_false]; exact (Nat.max_eq_left (Nat.le_of_not_lt h)).symm
  wf r a b ha hb := by simp only [Lat.merge]; split <;> assumption
  bot_merge r a b _ _ := by
    simp only [Lat.merge, Lat.isBot]
    exact aux_max_bot a b
  bot_left a b _ _ h := by simp only [Lat.isBot, beq_iff_eq] at h; simp [join, abs, h]
  bot_right a b _ _ h := by simp only [Lat.isBot, beq_iff_eq] at h; simp [join, abs, h]
  from_abs _ _ _ := by simp only [Lat.from_]
  from_wf _ _ h := by simp only [Lat.from_]; exact h
  from_bot _ _ _ := by simp only [Lat.from_]

theorem aux_good_minN : Good .minN where
  refines r a b _ _ := by
    simp only [Lat.merge, abs, join]
    by_cases h : (b : Nat) < a
    · simp only [h, if_true]; exact (Nat.min_eq_right (Nat.le_of_lt h)).symm
    · simp only [h, if_false]; exact (Nat.min_eq_left (Nat.le_of_not_lt h)).symm
  wf r a b ha hb := by simp only [Lat.merge]; split <;> assumption
  bot_merge r a b ha hb := by
    simp only [WF] at ha hb
    simp only [Lat.merge, Lat.isBot]
    exact aux_min_bot a b U64MAX ha hb
  bot_left a b ha hb h := by
    simp only [WF] at ha hb
    simp only [Lat.isBot, beq_iff_eq] at h; simp only [join, abs, h]; exact Nat.min_eq_right hb
  bot_right a b ha hb h := by
    simp only [WF] at ha hb
    simp only [Lat.isBot, beq_iff_eq] at h; simp only [join, abs, h]; exact Nat.min_eq_left ha
  from_abs _ _ _ := by simp only [Lat.from_]
  from_wf _ _ h := by simp only [Lat.from_]; exact h
  from_bot _ _ _ := by simp only [Lat.from_]

theorem aux_good_unit : Good .unit where
  refines _ _ _ _ _ := by simp only [abs, join]
  wf _ _ _ _ _ := by simp only [WF]
  bot_merge _ _ _ _ _ := by simp only [Lat.isBot, Bool.and_self]
  bot_left _ _ _ _ _ := by simp only [abs, join]
  bot_right _ _ _ _ _ := by simp only [abs, join]
  from_abs _ _ _ := by simp only [Lat.from_]
  from_wf _ _ h := by simp only [Lat.from_]; exact h
  from_bot _ _ _ := by simp only [Lat.from_]

theorem aux_good_conflict : Good .conflict where
  refines r a b _ _ := by
    cases a with
    | none => cases b <;> simp only [Lat.merge, abs, join]
    | some x =>
      cases b with
      | none => simp only [Lat.merge, abs, join]
      | some y =>
        simp only [Lat.merge, abs, join]
        by_cases h : x = y <;> simp [h]
  wf _ _ _ _ _ := by simp only [WF]
  bot_merge r a b _ _ := by simp [Lat.isBot]
  bot_left a b _ _ h := by simp [Lat.isBot] at h
  bot_right a b _ _ h := by simp [Lat.isBot] at h
  from_abs _ _ _ := by simp only [Lat.from_]
  from_wf _ _ h := by simp only [Lat.from_]; exact h
  from_bot _ _ _ := by simp only [Lat.from_]

theorem aux_good_set : Good .set where
  refines r a b _ _ := by
    funext x
    simp only [Lat.merge, abs, join]
    split <;> simp [aux_mem_setExtend]
  wf _ _ _ _ _ := by simp only [WF]
  bot_merge r a b _ _ := by
    simp only [Lat.merge, Lat.isBot]
    split
    · cases a <;> cases b <;> simp
    · cases a with
      | nil => cases b with
        | nil => simp [setExtend]
        | cons y b =>
          have : y ∈ setExtend ([] : List Nat) (y :: b) := (aux_mem_setExtend _ _ _).2 (Or.inr (by simp))
          cases h : setExtend ([] : List Nat) (y :: b) with
          | nil => rw [h] at this; simp at this
          | cons _ _ => simp
      | cons x a =>
        have : x ∈ setExtend (x :: a) b := (aux_mem_setExtend _ _ _).2 (Or.inl (by simp))
        cases h : setExtend (x :: a) b with
        | nil => rw [h] at this; simp at this
        | cons _ _ => simp
  bot_left a b _ _ h := by
    funext x
    cases a with
    | nil => simp [join, abs]
    | cons _ _ => simp [Lat.isBot] at h
  bot_right a b _ _ h := by
    funext x
    cases b with
    | nil => simp [join, abs]
    | cons _ _ => simp [Lat.isBot] at h
  from_abs r b _ := by
    funext x
    simp only [Lat.from_, abs]; split <;> simp [aux_mem_setExtend]
  from_wf _ _ _ := by simp only [WF]
  from_bot r b _ := by
    simp only [Lat.from_, Lat.isBot]
    split
    · rfl
    · cases b with
      | nil => simp [setExtend]
      | cons y b =>
        have : y ∈ setExtend ([] : List Nat) (y :: b) := (aux_mem_setExtend _ _ _).2 (Or.inr (by simp))
        cases h : setExtend ([] : List Nat) (y :: b) with
        | nil => rw [h] at this; simp at this
        | cons _ _ => simp

/-! ### unary / binary constructors -/

theorem aux_botJoin_none_right {S : Type} (j : S → S → S) (x : Option S) : botJoin j x none = x := by
  cases x <;> rfl
theorem aux_botJoin_none_left {S : Type} (j : S → S → S) (y : Option S) : botJoin j none y = y := by
  cases y <;> rfl
theorem aux_seqJoin_nil_left {S : Type} (j : S → S → S) (l : List S) : seqJoin j [] l = l := by
  cases l <;> rfl
theorem aux_seqJoin_nil_right {S : Type} (j : S → S → S) (l : List S) : seqJoin j l [] = l := by
  cases l <;> rfl

theorem aux_good_withBot {s : Shape} (g : Good s) : Good (.withBot s) where
  refines r a b ha hb := by
    simp only [WF] at ha hb
    cases a with
    | none =>
      cases b with
      | none => simp only [Lat.merge, abs, join, eraseBot, botJoin]
      | some y =>
        simp only [Lat.merge, abs, join, eraseBot]
        by_cases hy : Lat.isBot s y = true
        · simp [hy, eraseBot, botJoin]
        · have hy' : Lat.isBot s y = false := by simpa using hy
          simp [hy', eraseBot, botJoin, g.from_bot (r.kid 0) y (hb y rfl), g.from_abs (r.kid 0) y (hb y rfl)]
    | some x =>
      cases b with
      | none =>
        simp only [Lat.merge, abs, join, eraseBot]
        by_cases hx : Lat.isBot s x = true <;> simp [hx, botJoin]
      | some y =>
        have hx' := ha x rfl
        have hy' := hb y rfl
        simp only [Lat.merge, abs, join, eraseBot, g.bot_merge (r.kid 0) x y hx' hy',
          g.refines (r.kid 0) x y hx' hy']
        by_cases hx : Lat.isBot s x = true <;> by_cases hy : Lat.isBot s y = true
        · simp [hx, hy, botJoin]
        · simp [hx, hy, botJoin, g.bot_left x y hx' hy' hx]
        · simp [hx, hy, botJoin, g.bot_right x y hx' hy' hy]
        · simp [hx, hy, botJoin]
  wf r a b ha hb := by
    simp only [WF] at ha hb ⊢
    cases a with
    | none =>
      cases b with
      | none => simp [Lat.merge]
      | some y =>
        simp only [Lat.merge]
        split
        · intro x hx; simp only [Option.some.injEq] at hx; subst hx; exact g.from_wf _ _ (hb y rfl)
        · simp
    | some x =>
      cases b with
      | none => simpa [Lat.merge] using ha
      | some y =>
        simp only [Lat.merge]
        intro z hz; simp only [Option.some.injEq] at hz; subst hz
        exact g.wf _ _ _ (ha x rfl) (hb y rfl)
  bot_merge r a b ha hb := by
    simp only [WF] at ha hb
    cases a with
    | none =>
      cases b with
      | none => simp [Lat.merge, Lat.isBot]
      | some y =>
        simp only [Lat.merge, Lat.isBot]
        by_cases hy : Lat.isBot s y = true
        · simp [hy, Lat.isBot]
        · simp only [Bool.not_eq_true] at hy
          simp [hy, Lat.isBot, g.from_bot (r.kid 0) y (hb y rfl)]
    | some x =>
      cases b with
      | none => simp [Lat.merge, Lat.isBot]
      | some y => simp only [Lat.merge, Lat.isBot]; exact g.bot_merge _ _ _ (ha x rfl) (hb y rfl)
  bot_left a b ha hb h := by
    cases a with
    | none => simp only [abs, join, eraseBot, aux_botJoin_none_left]
    | some x =>
      simp only [Lat.isBot] at h
      simp only [abs, join, eraseBot, h, if_true, aux_botJoin_none_left]
  bot_right a b ha hb h := by
    cases b with
    | none => simp only [abs, join, eraseBot, aux_botJoin_none_right]
    | some y =>
      simp only [Lat.isBot] at h
      simp only [abs, join, eraseBot, h, if_true, aux_botJoin_none_right]
  from_abs r b hb := by
    simp only [WF] at hb
    cases b with
    | none => simp [Lat.from_, abs]
    | some y => simp [Lat.from_, abs, eraseBot, g.from_bot _ _ (hb y rfl), g.from_abs _ _ (hb y rfl)]
  from_wf r b hb := by
    simp only [WF] at hb ⊢
    cases b with
    | none => simp [Lat.from_]
    | some y =>
      simp only [Lat.from_]; intro z hz; simp only [Option.some.injEq] at hz; subst hz
      exact g.from_wf _ _ (hb y rfl)
  from_bot r b hb := by
    simp only [WF] at hb
    cases b with
    | none => simp [Lat.from_, Lat.isBot]
    | some y => simp [Lat.from_, Lat.isBot, g.from_bot _ _ (hb y rfl)]

theorem aux_good_withTop {s : Shape} (g : Good s) : Good (.withTop s) where
  refines r a b ha hb := by
    simp only [WF] at ha hb
    cases a <;> cases b <;> simp only [Lat.merge, abs, join, topJoin, Option.map]
    rename_i x y
    rw [g.refines _ _ _ (ha x rfl) (hb y rfl)]
  wf r a b ha hb := by
    simp only [WF] at ha hb ⊢
    cases a <;> cases b <;> simp only [Lat.merge] <;> try simp
    rename_i x y
    exact g.wf _ _ _ (ha x rfl) (hb y rfl)
  bot_merge r a b ha hb := by
    simp only [WF] at ha hb
    cases a <;> cases b <;> simp only [Lat.merge, Lat.isBot] <;> try simp
    rename_i x y
    exact g.bot_merge _ _ _ (ha x rfl) (hb y rfl)
  bot_left a b ha hb h := by
    simp only [WF] at ha hb
    cases a with
    | none => simp [Lat.isBot] at h
    | some x =>
      simp only [Lat.isBot] at h
      cases b with
      | none => simp [abs, join, topJoin]
      | some y => simp only [abs, join, topJoin, Option.map]; rw [g.bot_left x y (ha x rfl) (hb y rfl) h]
  bot_right a b ha hb h := by
    simp only [WF] at ha hb
    cases b with
    | none => simp [Lat.isBot] at h
    | some y =>
      simp only [Lat.isBot] at h
      cases a with
      | none => simp [abs, join, topJoin]
      | some x => simp only [abs, join, topJoin, Option.map]; rw [g.bot_right x y (ha x rfl) (hb y rfl) h]
  from_abs r b hb := by
    simp only [WF] at hb
    cases b with
    | none => simp [Lat.from_, abs]
    | some y => simp [Lat.from_, abs, g.from_abs _ _ (hb y rfl)]
  from_wf r b hb := by
    simp only [WF] at hb ⊢
    cases b with
    | none => simp [Lat.from_]
    | some y =>
      simp only [Lat.from_]; intro z hz; simp only [Option.some.injEq] at hz; subst hz
      exact g.from_wf _ _ (hb y rfl)
  from_bot r b hb := by
    simp only [WF] at hb
    cases b with
    | none => simp [Lat.from_, Lat.isBot]
    | some y => simp [Lat.from_, Lat.isBot, g.from_bot _ _ (hb y rfl)]

theorem aux_good_pair {s t : Shape} (gs : Good s) (gt : Good t) : Good (.pair s t) where
  refines r a b ha hb := by
    simp only [WF] at ha hb
    simp only [Lat.merge, abs, join, gs.refines _ _ _ ha.1 hb.1, gt.refines _ _ _ ha.2 hb.2]
  wf r a b ha hb := by
    simp only [WF] at ha hb ⊢
    simp only [Lat.merge]
    exact ⟨gs.wf _ _ _ ha.1 hb.1, gt.wf _ _ _ ha.2 hb.2⟩
  bot_merge r a b ha hb := by
    simp only [WF] at ha hb
    simp only [Lat.merge, Lat.isBot, gs.bot_merge _ _ _ ha.1 hb.1, gt.bot_merge _ _ _ ha.2 hb.2]
    cases Lat.isBot s a.1 <;> cases Lat.isBot t a.2 <;> cases Lat.isBot s b.1 <;> cases Lat.isBot t b.2 <;> rfl
  bot_left a b ha hb h := by
    simp only [WF] at ha hb
    simp only [Lat.isBot, Bool.and_eq_true] at h
    simp only [abs, join, gs.bot_left _ _ ha.1 hb.1 h.1, gt.bot_left _ _ ha.2 hb.2 h.2]
  bot_right a b ha hb h := by
    simp only [WF] at ha hb
    simp only [Lat.isBot, Bool.and_eq_true] at h
    simp only [abs, join, gs.bot_right _ _ ha.1 hb.1 h.1, gt.bot_right _ _ ha.2 hb.2 h.2]
  from_abs r b hb := by
    simp only [WF] at hb
    simp only [Lat.from_, abs, gs.from_abs _ _ hb.1, gt.from_abs _ _ hb.2]
  from_wf r b hb := by
    simp only [WF] at hb ⊢
    simp only [Lat.from_]
    exact ⟨gs.from_wf _ _ hb.1, gt.from_wf _ _ hb.2⟩
  from_bot r b hb := by
    simp only [WF] at hb
    simp only [Lat.from_, Lat.isBot, gs.from_bot _ _ hb.1, gt.from_bot _ _ hb.2]

theorem aux_vecMerge {s : Shape} (g : Good s) (r : RT) (a b : List (Val s))
    (ha : ∀ x ∈ a, WF s x) (hb : ∀ x ∈ b, WF s x) :
    List.map (abs s) (Lat.vecMerge (Lat.merge s r) (Lat.from_ s r) a b).1 =
        seqJoin (join s) (List.map (abs s) a) (List.map (abs s) b) ∧
      (∀ x ∈ (Lat.vecMerge (Lat.merge s r) (Lat.from_ s r) a b).1, WF s x) ∧
      (Lat.vecMerge (Lat.merge s r) (Lat.from_ s r) a b).1.isEmpty = (a.isEmpty && b.isEmpty) := by
  induction a generalizing b with
  | nil =>
    cases b with
    | nil => simp [Lat.vecMerge, seqJoin]
    | cons y b =>
      refine ⟨?_, ?_, by simp [Lat.vecMerge]⟩
      · rw [List.map_nil, aux_seqJoin_nil_left]
        simp only [Lat.vecMerge]
        rw [List.map_map]
        apply List.map_congr_left
        intro z hz
        exact g.from_abs _ _ (hb z hz)
      · intro x hx
        simp only [Lat.vecMerge, List.mem_map] at hx
        obtain ⟨z, hz, rfl⟩ := hx
        exact g.from_wf _ _ (hb z hz)
  | cons x a ih =>
    cases b with
    | nil =>
      refine ⟨?_, ?_, by simp [Lat.vecMerge]⟩
      · rw [List.map_nil, aux_seqJoin_nil_right]; simp only [Lat.vecMerge]
      · simpa only [Lat.vecMerge] using ha
    | cons y b =>
      obtain ⟨h1, h2, _⟩ := ih b (fun z hz => ha z (by simp [hz])) (fun z hz => hb z (by simp [hz]))
      refine ⟨?_, ?_, by simp [Lat.vecMerge]⟩
      · simp only [Lat.vecMerge, List.map_cons, seqJoin, h1,
          g.refines r x y (ha x (by simp)) (hb y (by simp))]
      · intro z hz
        simp only [Lat.vecMerge, List.mem_cons] at hz
        rcases hz with rfl | hz
        · exact g.wf _ _ _ (ha x (by simp)) (hb y (by simp))
        · exact h2 z hz

theorem aux_good_vec {s : Shape} (g : Good s) : Good (.vec s) where
  refines r a b ha hb := by
    simp only [WF] at ha hb
    simp only [Lat.merge, abs, join]
    exact (aux_vecMerge g (r.kid 0) a b ha hb).1
  wf r a b ha hb := by
    simp only [WF] at ha hb ⊢
    simp only [Lat.merge]
    exact (aux_vecMerge g (r.kid 0) a b ha hb).2.1
  bot_merge r a b ha hb := by
    simp only [WF] at ha hb
    simp only [Lat.merge, Lat.isBot]
    exact (aux_vecMerge g (r.kid 0) a b ha hb).2.2
  bot_left a b _ _ h := by
    cases a with
    | nil => simp only [abs, join, List.map_nil, aux_seqJoin_nil_left]
    | cons _ _ => simp [Lat.isBot] at h
  bot_right a b _ _ h := by
    cases b with
    | nil => simp only [abs, join, List.map_nil, aux_seqJoin_nil_right]
    | cons _ _ => simp [Lat.isBot] at h
  from_abs r b hb := by
    simp only [WF] at hb
    simp only [Lat.from_, abs, List.map_map]
    apply List.map_congr_left
    intro z hz
    exact g.from_abs _ _ (hb z hz)
  from_wf r b hb := by
    simp only [WF] at hb ⊢
    simp only [Lat.from_]
    intro x hx
    simp only [List.mem_map] at hx
    obtain ⟨z, hz, rfl⟩ := hx
    exact g.from_wf _ _ (hb z hz)
  from_bot r b _ := by
    simp only [Lat.from_, Lat.isBot]
    cases b <;> simp

theorem aux_good_domPair {s : Shape} (g : Good s) : Good (.domPair s) where
  refines r a b ha hb := by
    simp only [WF] at ha hb
    obtain ⟨ka, va⟩ := a
    obtain ⟨kb, vb⟩ := b
    simp only [Lat.merge, abs, join]
    by_cases h1 : ka = kb
    · subst h1; simp [g.refines _ _ _ ha.2 hb.2]
    · by_cases h2 : ka < kb
      · simp [h1, h2, g.from_abs _ _ hb.2]
      · simp [h1, h2]
  wf r a b ha hb := by
    simp only [WF] at ha hb ⊢
    obtain ⟨ka, va⟩ := a
    obtain ⟨kb, vb⟩ := b
    simp only [Lat.merge]
    by_cases h1 : ka = kb
    · simp only [h1, if_true]; exact ⟨hb.1, g.wf _ _ _ ha.2 hb.2⟩
    · by_cases h2 : ka < kb
      · simp only [h1, h2, if_false, if_true]; exact ⟨hb.1, g.from_wf _ _ hb.2⟩
      · simp only [h1, h2, if_false]; exact ha
  bot_merge r a b ha hb := by
    simp only [WF] at ha hb
    obtain ⟨ka, va⟩ := a
    obtain ⟨kb, vb⟩ := b
    simp only [Lat.merge, Lat.isBot]
    by_cases h1 : ka = kb
    · subst h1
      simp only [if_true, g.bot_merge _ _ _ ha.2 hb.2]
      cases (ka == 0) <;> cases Lat.isBot s va <;> cases Lat.isBot s vb <;> rfl
    · by_cases h2 : ka < kb
      · have hkb : (kb == 0) = false := by simp; omega
        simp [h1, h2, hkb]
      · have hka : (ka == 0) = false := by simp; omega
        simp [h1, h2, hka]
  bot_left a b ha hb h := by
    simp only [WF] at ha hb
    obtain ⟨ka, va⟩ := a
    obtain ⟨kb, vb⟩ := b
    simp only [Lat.isBot, Bool.and_eq_true, beq_iff_eq] at h
    obtain ⟨hk, hv⟩ := h
    subst hk
    simp only [abs, join]
    by_cases h1 : 0 < kb
    · simp [h1]
    · have : kb = 0 := by omega
      subst this
      simp [g.bot_left _ _ ha.2 hb.2 hv]
  bot_right a b ha hb h := by
    simp only [WF] at ha hb
    obtain ⟨ka, va⟩ := a
    obtain ⟨kb, vb⟩ := b
    simp only [Lat.isBot, Bool.and_eq_true, beq_iff_eq] at h
    obtain ⟨hk, hv⟩ := h
    subst hk
    simp only [abs, join]
    by_cases h1 : ka = 0
    · subst h1; simp [g.bot_right _ _ ha.2 hb.2 hv]
    · simp [h1]
  from_abs r b hb := by
    simp only [WF] at hb
    simp only [Lat.from_, abs, g.from_abs _ _ hb.2]
  from_wf r b hb := by
    simp only [WF] at hb ⊢
    simp only [Lat.from_]
    exact ⟨hb.1, g.from_wf _ _ hb.2⟩
  from_bot r b hb := by
    simp only [WF] at hb
    simp only [Lat.from_, Lat.isBot, g.from_bot _ _ hb.2]

/-! ### MapUnion -/
namespace TMap
variable {κ V : Type} [DecidableEq κ]

theorem aux_lookup_mem (m : List (κ × V)) (k : κ) (v : V) (h : lookup m k = some v) : (k, v) ∈ m := by
  induction m with
  | nil => simp [aux_lookup_nil] at h
  | cons kv m ih =>
    obtain ⟨k0, v0⟩ := kv
    rw [aux_lookup_cons] at h
    by_cases hk : k0 = k
    · simp only [hk, if_true, Option.some.injEq] at h; subst h; subst hk; simp
    · simp only [hk, if_false] at h; exact List.mem_cons_of_mem _ (ih h)

theorem aux_mem_lookup (m : List (κ × V)) (hnd : (keys m).Nodup) (k : κ) (v : V) (h : (k, v) ∈ m) :
    lookup m k = some v := by
  induction m with
  | nil => simp at h
  | cons kv m ih =>
    obtain ⟨k0, v0⟩ := kv
    simp only [keys, List.map_cons, List.nodup_cons] at hnd
    rw [aux_lookup_cons]
    simp only [List.mem_cons, Prod.mk.injEq] at h
    rcases h with ⟨rfl, rfl⟩ | h
    · simp
    · have : k0 ≠ k := by
        intro e; subst e
        exact hnd.1 (List.mem_map.2 ⟨(k0, v), h, rfl⟩)
      simp only [this, if_false]
      exact ih hnd.2 h

theorem aux_nodup_mapInsert (m : List (κ × V)) (kv : κ × V) (h : (keys m).Nodup) :
    (keys (mapInsert m kv)).Nodup := by
  unfold mapInsert
  cases hl : lookup m kv.1 with
  | some _ => simp only; rw [aux_keys_setVal]; exact h
  | none =>
    simp only [keys, List.map_append, List.map_cons, List.map_nil]
    rw [List.nodup_append]
    refine ⟨h, by simp, ?_⟩
    intro a ha b hb
    simp only [List.mem_singleton] at hb; subst hb
    intro e; subst e
    exact (aux_lookup_none_iff m kv.1).1 hl ha

theorem aux_nodup_mapExtend (kvs m : List (κ × V)) (h : (keys m).Nodup) :
    (keys (mapExtend m kvs)).Nodup := by
  induction kvs generalizing m with
  | nil => simpa [mapExtend]
  | cons kv kvs ih =>
    simp only [mapExtend, List.foldl_cons]
    exact ih _ (aux_nodup_mapInsert m kv h)

theorem aux_lookup_map {W : Type} (f : V → W) (m : List (κ × V)) (k : κ) :
    lookup (m.map (fun kv => (kv.1, f kv.2))) k = (lookup m k).map f := by
  induction m with
  | nil => simp [aux_lookup_nil]
  | cons kv m ih =>
    obtain ⟨k0, v0⟩ := kv
    simp only [List.map_cons, aux_lookup_cons, ih]
    split <;> simp

end TMap

/-- `is_bot` of a map with distinct keys: every stored value is bottom -/
theorem aux_map_isBot_iff {s : Shape} (m : List (Nat × Val s)) (hnd : (TMap.keys m).Nodup) :
    Lat.isBot (.map s) m = true ↔ ∀ k v, TMap.lookup m k = some v → Lat.isBot s v = true := by
  simp only [Lat.isBot, List.all_eq_true]
  constructor
  · intro h k v hl; exact h (k, v) (TMap.aux_lookup_mem m k v hl)
  · intro h kv hkv; exact h kv.1 kv.2 (TMap.aux_mem_lookup m hnd kv.1 kv.2 hkv)

theorem aux_map_abs_of_bot {s : Shape} (m : List (Nat × Val s)) (hnd : (TMap.keys m).Nodup)
    (h : Lat.isBot (.map s) m = true) (k : Nat) : abs (.map s) m k = none := by
  simp only [abs]
  cases hl : TMap.lookup m k with
  | none => rfl
  | some v => simp [eraseBot, (aux_map_isBot_iff m hnd).1 h k v hl]

def mapOps (s : Shape) (r : RT) : ValOps (Val s) (Val s) :=
  ⟨Lat.merge s (r.kid 0), Lat.isBot s, Lat.from_ s (r.kid 0)⟩

theorem aux_map_merge_eq {s : Shape} (r : RT) (a b : List (Nat × Val s)) :
    (Lat.merge (.map s) r a b).1 = (TMap.merge (mapOps s r) ⟨a, []⟩ ⟨b, []⟩).1.map := by
  simp [Lat.merge, TMap.merge, mapOps]

/-- the merged map, key by key -/
theorem aux_map_lookup {s : Shape} (r : RT) (a b : List (Nat × Val s)) (hb : (TMap.keys b).Nodup)
    (k : Nat) :
    TMap.lookup (Lat.merge (.map s) r a b).1 k =
      match TMap.lookup a k, TMap.lookup b k with
      | some v, some w => if Lat.isBot s w then some v else some (Lat.merge s (r.kid 0) v w).1
      | some v, none => some v
      | none, some w => if Lat.isBot s w then none else some (Lat.from_ s (r.kid 0) w)
      | none, none => none := by
  rw [aux_map_merge_eq, TMap.aux_lookup_merge (mapOps s r) ⟨a, []⟩ ⟨b, []⟩ hb k]
  simp only [List.not_mem_nil, if_false]
  cases TMap.lookup a k <;> cases TMap.lookup b k <;> simp only [TMap.passes, mapOps] <;>
    (try rfl) <;> (rename_i w; by_cases h : Lat.isBot s w = true <;> simp [h])

theorem aux_map_nodup {s : Shape} (r : RT) (a b : List (Nat × Val s)) (ha : (TMap.keys a).Nodup) :
    (TMap.keys (Lat.merge (.map s) r a b).1).Nodup := by
  simp only [Lat.merge]
  apply TMap.aux_nodup_mapExtend
  rw [(TMap.aux_mergePass_keys _ _ _ _ _ _).1]
  exact ha

theorem aux_good_map {s : Shape} (g : Good s) : Good (.map s) where
  refines r a b ha hb := by
    simp only [WF] at ha hb
    funext k
    simp only [abs, join]
    rw [aux_map_lookup r a b hb.1 k]
    cases hla : TMap.lookup a k with
    | none =>
      cases hlb : TMap.lookup b k with
      | none => simp [eraseBot, botJoin]
      | some w =>
        have hw := hb.2 _ (TMap.aux_lookup_mem b k w hlb)
        simp only [eraseBot, aux_botJoin_none_left]
        by_cases hbw : Lat.isBot s w = true
        · simp [hbw, eraseBot]
        · have hbw' : Lat.isBot s w = false := by simpa using hbw
          simp [hbw', eraseBot, g.from_bot _ _ hw, g.from_abs _ _ hw]
    | some v =>
      have hv := ha.2 _ (TMap.aux_lookup_mem a k v hla)
      cases hlb : TMap.lookup b k with
      | none => simp only [eraseBot, aux_botJoin_none_right]
      | some w =>
        have hw := hb.2 _ (TMap.aux_lookup_mem b k w hlb)
        simp only []
        by_cases hbw : Lat.isBot s w = true
        · simp only [hbw, if_true, eraseBot, aux_botJoin_none_right]
        · have hbw' : Lat.isBot s w = false := by simpa using hbw
          simp only [hbw', Bool.false_eq_true, if_false, eraseBot,
            g.bot_merge (r.kid 0) v w hv hw, Bool.and_false, g.refines (r.kid 0) v w hv hw]
          by_cases hbv : Lat.isBot s v = true
          · simp only [hbv, if_true, botJoin, g.bot_left v w hv hw hbv]
          · have hbv' : Lat.isBot s v = false := by simpa using hbv
            simp only [hbv', Bool.false_eq_true, if_false, botJoin]
  wf r a b ha hb := by
    simp only [WF] at ha hb ⊢
    have hnd := aux_map_nodup r a b ha.1
    refine ⟨hnd, fun kv hkv => ?_⟩
    have hl := TMap.aux_mem_lookup _ hnd kv.1 kv.2 hkv
    rw [aux_map_lookup r a b hb.1 kv.1] at hl
    cases hla : TMap.lookup a kv.1 with
    | none =>
      cases hlb : TMap.lookup b kv.1 with
      | none => simp [hla, hlb] at hl
      | some w =>
        have hw := hb.2 _ (TMap.aux_lookup_mem b _ w hlb)
        simp only [hla, hlb] at hl
        split at hl
        · simp at hl
        · simp only [Option.some.injEq] at hl; rw [← hl]; exact g.from_wf _ _ hw
    | some v =>
      have hv := ha.2 _ (TMap.aux_lookup_mem a _ v hla)
      cases hlb : TMap.lookup b kv.1 with
      | none => simp only [hla, hlb, Option.some.injEq] at hl; rw [← hl]; exact hv
      | some w =>
        have hw := hb.2 _ (TMap.aux_lookup_mem b _ w hlb)
        simp only [hla, hlb] at hl
        split at hl
        · simp only [Option.some.injEq] at hl; rw [← hl]; exact hv
        · simp only [Option.some.injEq] at hl; rw [← hl]; exact g.wf _ _ _ hv hw
  bot_merge r a b ha hb := by
    simp only [WF] at ha hb
    have hnd := aux_map_nodup r a b ha.1
    rw [Bool.eq_iff_iff, Bool.and_eq_true, aux_map_isBot_iff _ hnd, aux_map_isBot_iff _ ha.1,
      aux_map_isBot_iff _ hb.1]
    constructor
    · intro h
      refine ⟨fun k v hla => ?_, fun k w hlb => ?_⟩
      · have hv := ha.2 _ (TMap.aux_lookup_mem a k v hla)
        have := h k
        rw [aux_map_lookup r a b hb.1 k, hla] at this
        cases hlb : TMap.lookup b k with
        | none => simp only [hlb] at this; exact this v rfl
        | some w =>
          have hw := hb.2 _ (TMap.aux_lookup_mem b k w hlb)
          simp only [hlb] at this
          by_cases hbw : Lat.isBot s w = true
          · simp only [hbw, if_true] at this; exact this v rfl
          · have hbw' : Lat.isBot s w = false := by simpa using hbw
            simp only [hbw', Bool.false_eq_true, if_false] at this
            have := this _ rfl
            rw [g.bot_merge _ _ _ hv hw, hbw'] at this
            simp at this
      · have hw := hb.2 _ (TMap.aux_lookup_mem b k w hlb)
        by_contra hbw
        have hbw' : Lat.isBot s w = false := by simpa using hbw
        have := h k
        rw [aux_map_lookup r a b hb.1 k, hlb] at this
        cases hla : TMap.lookup a k with
        | none =>
          simp only [hla, hbw', Bool.false_eq_true, if_false] at this
          have := this _ rfl
          rw [g.from_bot _ _ hw, hbw'] at this
          simp at this
        | some v =>
          have hv := ha.2 _ (TMap.aux_lookup_mem a k v hla)
          simp only [hla, hbw', Bool.false_eq_true, if_false] at this
          have := this _ rfl
          rw [g.bot_merge _ _ _ hv hw, hbw'] at this
          simp at this
    · rintro ⟨h1, h2⟩ k v hl
      rw [aux_map_lookup r a b hb.1 k] at hl
      cases hla : TMap.lookup a k with
      | none =>
        cases hlb : TMap.lookup b k with
        | none => simp [hla, hlb] at hl
        | some w => simp [hla, hlb, h2 k w hlb] at hl
      | some v' =>
        cases hlb : TMap.lookup b k with
        | none => simp only [hla, hlb, Option.some.injEq] at hl; rw [← hl]; exact h1 k v' hla
        | some w =>
          simp only [hla, hlb, h2 k w hlb, if_true, Option.some.injEq] at hl
          rw [← hl]; exact h1 k v' hla
  bot_left a b ha hb h := by
    simp only [WF] at ha hb
    funext k
    simp only [join]
    rw [aux_map_abs_of_bot a ha.1 h k, aux_botJoin_none_left]
  bot_right a b ha hb h := by
    simp only [WF] at ha hb
    funext k
    simp only [join]
    rw [aux_map_abs_of_bot b hb.1 h k, aux_botJoin_none_right]
  from_abs r b hb := by
    simp only [WF] at hb
    funext k
    simp only [abs, Lat.from_]
    have hnd : (TMap.keys (List.map (fun kv : Nat × Val s => (kv.1, Lat.from_ s (r.kid 0) kv.2)) b)).Nodup := by
      simpa [TMap.keys, List.map_map, Function.comp_def] using hb.1
    rw [TMap.aux_lookup_mapExtend _ _ hnd, TMap.aux_lookup_map]
    cases hl : TMap.lookup b k with
    | none => simp [TMap.aux_lookup_nil]
    | some w =>
      have hw := hb.2 _ (TMap.aux_lookup_mem b k w hl)
      simp [eraseBot, g.from_bot _ _ hw, g.from_abs _ _ hw]
  from_wf r b hb := by
    simp only [WF] at hb ⊢
    simp only [Lat.from_]
    have hnd0 : (TMap.keys (List.map (fun kv : Nat × Val s => (kv.1, Lat.from_ s (r.kid 0) kv.2)) b)).Nodup := by
      simpa [TMap.keys, List.map_map, Function.comp_def] using hb.1
    have hnd := TMap.aux_nodup_mapExtend
      (List.map (fun kv : Nat × Val s => (kv.1, Lat.from_ s (r.kid 0) kv.2)) b) [] (by simp [TMap.keys])
    refine ⟨hnd, fun kv hkv => ?_⟩
    have hl := TMap.aux_mem_lookup _ hnd kv.1 kv.2 hkv
    rw [TMap.aux_lookup_mapExtend _ _ hnd0, TMap.aux_lookup_map] at hl
    cases hlb : TMap.lookup b kv.1 with
    | none => simp [hlb, TMap.aux_lookup_nil] at hl
    | some w =>
      have hw := hb.2 _ (TMap.aux_lookup_mem b _ w hlb)
      simp only [hlb, Option.map_some, Option.some.injEq] at hl
      rw [← hl]; exact g.from_wf _ _ hw
  from_bot r b hb := by
    simp only [WF] at hb
    have hnd0 : (TMap.keys (List.map (fun kv : Nat × Val s => (kv.1, Lat.from_ s (r.kid 0) kv.2)) b)).Nodup := by
      simpa [TMap.keys, List.map_map, Function.comp_def] using hb.1
    have hnd : (TMap.keys (Lat.from_ (.map s) r b)).Nodup := by
      simp only [Lat.from_]
      exact TMap.aux_nodup_mapExtend _ [] (by simp [TMap.keys])
    have hlk : ∀ k, TMap.lookup (Lat.from_ (.map s) r b) k = (TMap.lookup b k).map (Lat.from_ s (r.kid 0)) := by
      intro k
      simp only [Lat.from_]
      rw [TMap.aux_lookup_mapExtend _ _ hnd0, TMap.aux_lookup_map]
      cases TMap.lookup b k <;> simp [TMap.aux_lookup_nil]
    rw [Bool.eq_iff_iff, aux_map_isBot_iff _ hnd, aux_map_isBot_iff _ hb.1]
    constructor
    · intro h k w hl
      have hw := hb.2 _ (TMap.aux_lookup_mem b k w hl)
      have := h k (Lat.from_ s (r.kid 0) w) (by rw [hlk, hl]; rfl)
      rwa [g.from_bot _ _ hw] at this
    · intro h k v hl
      rw [hlk] at hl
      cases hlb : TMap.lookup b k with
      | none => simp [hlb] at hl
      | some w =>
        have hw := hb.2 _ (TMap.aux_lookup_mem b k w hlb)
        simp only [hlb, Option.map_some, Option.some.injEq] at hl
        rw [← hl, g.from_bot _ _ hw]; exact h k w hlb

/-! ### the property: every nesting of every constructor -/

theorem aux_good : ∀ s : Shape, Good s
  | .maxN => aux_good_maxN
  | .minN => aux_good_minN
  | .unit => aux_good_unit
  | .conflict => aux_good_conflict
  | .set => aux_good_set
  | .map s => aux_good_map (aux_good s)
  | .withBot s => aux_good_withBot (aux_good s)
  | .withTop s => aux_good_withTop (aux_good s)
  | .pair s t => aux_good_pair (aux_good s) (aux_good t)
  | .vec s => aux_good_vec (aux_good s)
  | .domPair s => aux_good_domPair (aux_good s)

/-- **Merge refines the abstract join**, for every lattice type built from the constructors,
every receiver representation `r`, and any (well-formed) other value. -/
theorem merge_refines_join (s : Shape) (r : RT) (a b : Val s) (ha : WF s a) (hb : WF s b) :
    abs s (Lat.merge s r a b).1 = join s (abs s a) (abs s b) :=
  (aux_good s).refines r a b ha hb

/-- merging keeps values representable (so the theorem applies along whole histories) -/
theorem merge_wf (s : Shape) (r : RT) (a b : Val s) (ha : WF s a) (hb : WF s b) :
    WF s (Lat.merge s r a b).1 :=
  (aux_good s).wf r a b ha hb

/-- **Conversions between representations preserve the abstract value** (`LatticeFrom`). -/
theorem latticeFrom_abs (s : Shape) (r : RT) (b : Val s) (hb : WF s b) :
    abs s (Lat.from_ s r b) = abs s b ∧ WF s (Lat.from_ s r b) :=
  ⟨(aux_good s).from_abs r b hb, (aux_good s).from_wf r b hb⟩

/-- **The answer does not depend on the representation**: two receivers of different
representations holding the same abstract value, merged with two representations of the same
abstract other value, hold the same abstract value afterwards. -/
theorem merge_repr_independent (s : Shape) (r r' : RT) (a a' b b' : Val s)
    (ha : WF s a) (ha' : WF s a') (hb : WF s b) (hb' : WF s b')
    (ea : abs s a = abs s a') (eb : abs s b = abs s b') :
    abs s (Lat.merge s r a b).1 = abs s (Lat.merge s r' a' b').1 := by
  rw [merge_refines_join s r a b ha hb, merge_refines_join s r' a' b' ha' hb', ea, eb]

/-- **Whole histories**: folding `merge` over any list of well-formed values computes the fold
of the abstract join. -/
theorem history_refines_join (s : Shape) (r : RT) (a : Val s) (bs : List (Val s))
    (ha : WF s a) (hbs : ∀ b ∈ bs, WF s b) :
    abs s (bs.foldl (fun x b => (Lat.merge s r x b).1) a) =
      bs.foldl (fun x b => join s x (abs s b)) (abs s a) := by
  induction bs generalizing a with
  | nil => rfl
  | cons b bs ih =>
    simp only [List.foldl_cons]
    rw [ih _ (merge_wf s r a b ha (hbs b (by simp))) (fun b' hb' => hbs b' (by simp [hb'])),
      merge_refines_join s r a b ha (hbs b (by simp))]

/-- `is_bot` is the bottom of the model: merging a bottom in changes nothing abstractly, and a
merge result is bottom only when both sides are. -/
theorem isBot_is_identity (s : Shape) (r : RT) (a b : Val s) (ha : WF s a) (hb : WF s b) :
    (Lat.isBot s b = true → abs s (Lat.merge s r a b).1 = abs s a) ∧
    (Lat.isBot s a = true → abs s (Lat.merge s r a b).1 = abs s b) ∧
    Lat.isBot s (Lat.merge s r a b).1 = (Lat.isBot s a && Lat.isBot s b) := by
  refine ⟨fun h => ?_, fun h => ?_, (aux_good s).bot_merge r a b ha hb⟩
  · rw [merge_refines_join s r a b ha hb]; exact (aux_good s).bot_right a b ha hb h
  · rw [merge_refines_join s r a b ha hb]; exact (aux_good s).bot_left a b ha hb h

/-- non-vacuity: `MapUnion<HashMap<_, Pair<SetUnion<Vec>, WithBot<Max>>>>` merged with a map that
holds a bottom entry, a colliding key and a new key -/
example :
    let s : Shape := .map (.pair .set (.withBot .maxN))
    let r : RT := .mk false [.mk false [.mk true [], .mk false []]]
    let a : Val s := [(1, ([3, 4], some 5)), (2, ([], none))]
    let b : Val s := [(1, ([4, 7], some 9)), (2, ([], some 0)), (3, ([8], none)), (4, ([], none))]
    (Lat.merge s r a b).1 = [(1, ([3, 4, 4, 7], some 9)), (2, ([], none)), (3, ([8], none))] ∧
    (Lat.merge s r a b).2 = true := by decide

end HvLatSpec
