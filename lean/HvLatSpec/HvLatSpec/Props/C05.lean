/-
C05 — Tombstone lattices never resurrect deleted items.

Theorems about the executable model `HvLatSpec/Model/Tombstone.lean` (a line-by-line
transcription of `impl Merge for SetUnionWithTombstones` / `MapUnionWithTombstones`), for
*every* merge history of *arbitrary* replica states (the replicas need not satisfy the
disjointness invariant themselves and may contain duplicates), in *every* order.
-/
import HvLatSpec.Model.Tombstone
import HvLatSpec.Model.TombCmp
import Mathlib.Data.List.Perm.Basic
import Mathlib.Order.Lattice
import Mathlib.Order.BoundedOrder.Basic
import Mathlib.Data.Set.Basic

namespace HvLatSpec
open List

/-! ### set backing lemmas -/
section SetBacking
variable {α : Type} [DecidableEq α]

theorem aux_mem_setInsert (s : List α) (x y : α) : y ∈ setInsert s x ↔ y ∈ s ∨ y = x := by
  unfold setInsert; split <;> simp_all

theorem aux_nodup_setInsert (s : List α) (x : α) (h : s.Nodup) : (setInsert s x).Nodup := by
  unfold setInsert; split
  · exact h
  · rw [List.nodup_append]; simp_all
    intro a ha hax; subst hax; contradiction

theorem aux_mem_setExtend (xs s : List α) (y : α) : y ∈ setExtend s xs ↔ y ∈ s ∨ y ∈ xs := by
  induction xs generalizing s with
  | nil => simp [setExtend]
  | cons x xs ih =>
    have := ih (setInsert s x)
    simp only [setExtend, List.foldl_cons] at this ⊢
    rw [this, aux_mem_setInsert]; simp; tauto

theorem aux_nodup_setExtend (xs s : List α) (h : s.Nodup) : (setExtend s xs).Nodup := by
  induction xs generalizing s with
  | nil => simpa [setExtend]
  | cons x xs ih =>
    simp only [setExtend, List.foldl_cons]
    exact ih _ (aux_nodup_setInsert s x h)

theorem aux_mem_foldl_setRemove (ts s : List α) (y : α) :
    y ∈ ts.foldl setRemove s ↔ y ∈ s ∧ y ∉ ts := by
  induction ts generalizing s with
  | nil => simp
  | cons t ts ih =>
    simp only [List.foldl_cons, ih, setRemove, List.mem_filter, List.mem_cons]
    simp; tauto

theorem aux_nodup_foldl_setRemove (ts s : List α) (h : s.Nodup) : (ts.foldl setRemove s).Nodup := by
  induction ts generalizing s with
  | nil => simpa
  | cons t ts ih => exact ih _ (h.filter _)

/-- the bare `TombstoneSet` surface shared by the hash-set, roaring and FST backends: `union_with` makes the
set the union (still duplicate-free), answers the old length, and `collect`/`extend` build the same set -/
theorem tombstone_union_with_spec (s o : List α) (hs : s.Nodup) :
    (∀ y, y ∈ (tombUnionWith s o).1 ↔ y ∈ s ∨ y ∈ o) ∧ (tombUnionWith s o).1.Nodup ∧
      (tombUnionWith s o).2 = s.length ∧ (tombUnionWith s o).1 = setExtend s o :=
  ⟨fun y => aux_mem_setExtend o s y, aux_nodup_setExtend o s hs, rfl, rfl⟩

theorem tombstone_collect_spec (xs : List α) :
    (∀ y, y ∈ setCollect xs ↔ y ∈ xs) ∧ (setCollect xs).Nodup :=
  ⟨fun y => by simp [setCollect, aux_mem_setExtend], aux_nodup_setExtend xs [] List.nodup_nil⟩

example : tombUnionWith [1, 2] [2, 3, 3] = ([1, 2, 3], 2) := by decide

end SetBacking

/-! ### `SetUnionWithTombstones` -/
namespace TSet
variable {α : Type} [DecidableEq α]

/-- the documented invariant: nothing is live and tombstoned at once -/
def Disjoint (s : TSet α) : Prop := ∀ x, x ∈ s.live → x ∉ s.tomb

/-- well-formed backing: both parts are duplicate-free (what a hash set is) -/
def WF (s : TSet α) : Prop := s.live.Nodup ∧ s.tomb.Nodup

theorem aux_mem_merge_live (s o : TSet α) (x : α) :
    x ∈ (merge s o).1.live ↔ (x ∈ s.live ∨ (x ∈ o.live ∧ x ∉ s.tomb)) ∧ x ∉ o.tomb := by
  simp [merge, aux_mem_foldl_setRemove, aux_mem_setExtend]

theorem aux_mem_merge_tomb (s o : TSet α) (x : α) :
    x ∈ (merge s o).1.tomb ↔ x ∈ s.tomb ∨ x ∈ o.tomb := by
  simp [merge, aux_mem_setExtend]

/-- **live ∩ tomb = ∅ is an invariant of `merge`**, whatever the other replica looks like
(even one that itself holds an item both live and tombstoned). -/
theorem inv_disjoint (s o : TSet α) (h : s.Disjoint) : (merge s o).1.Disjoint := by
  intro x hx
  rw [aux_mem_merge_live] at hx
  rw [aux_mem_merge_tomb]
  have := h x
  tauto

/-- the hash-set backings stay duplicate-free -/
theorem merge_wf (s o : TSet α) (h : s.WF) : (merge s o).1.WF :=
  ⟨aux_nodup_foldl_setRemove _ _ (aux_nodup_setExtend _ _ h.1), aux_nodup_setExtend _ _ h.2⟩

theorem aux_mergeAll_inv (rs : List (TSet α)) (s : TSet α) (h : s.Disjoint) :
    (mergeAll s rs).Disjoint := by
  induction rs generalizing s with
  | nil => exact h
  | cons r rs ih => exact ih _ (inv_disjoint s r h)

/-- Any state reachable from bottom by merging replicas is disjoint and duplicate-free. -/
theorem reachable_disjoint_wf (rs : List (TSet α)) :
    (mergeAll bot rs).Disjoint ∧ (mergeAll bot rs).WF := by
  refine ⟨aux_mergeAll_inv rs bot (by intro x hx; simp [bot] at hx), ?_⟩
  suffices ∀ s : TSet α, s.WF → (mergeAll s rs).WF from this bot ⟨List.nodup_nil, List.nodup_nil⟩
  intro s hs
  induction rs generalizing s with
  | nil => exact hs
  | cons r rs ih => exact ih _ (merge_wf s r hs)

theorem aux_mergeAll_tomb (rs : List (TSet α)) (s : TSet α) (x : α) :
    x ∈ (mergeAll s rs).tomb ↔ x ∈ s.tomb ∨ ∃ r ∈ rs, x ∈ r.tomb := by
  induction rs generalizing s with
  | nil => simp [mergeAll]
  | cons r rs ih =>
    have := ih (merge s r).1
    simp only [mergeAll, List.foldl_cons] at this ⊢
    rw [this, aux_mem_merge_tomb]; simp; tauto

theorem aux_mergeAll_live (rs : List (TSet α)) (s : TSet α) (h : s.Disjoint) (x : α) :
    x ∈ (mergeAll s rs).live ↔
      (x ∈ s.live ∨ ∃ r ∈ rs, x ∈ r.live) ∧ x ∉ s.tomb ∧ ∀ r ∈ rs, x ∉ r.tomb := by
  induction rs generalizing s with
  | nil => simp [mergeAll]; exact h x
  | cons r rs ih =>
    have := ih (merge s r).1 (inv_disjoint s r h)
    simp only [mergeAll, List.foldl_cons] at this ⊢
    rw [this, aux_mem_merge_live, aux_mem_merge_tomb]
    have := h x
    simp; tauto

/-- **Tombstones are the union of all tombstones ever merged in**, in any merge order. -/
theorem merge_history_tomb (rs rs' : List (TSet α)) (p : rs ~ rs') (x : α) :
    x ∈ (mergeAll bot rs').tomb ↔ ∃ r ∈ rs, x ∈ r.tomb := by
  rw [aux_mergeAll_tomb]; simp [bot, p.mem_iff]

/-- **live = (⋃ inserted) \ (⋃ tombstones)** for every history of arbitrary replica states
merged into bottom in *any* order (`rs'` is any permutation of `rs`). -/
theorem merge_history_live (rs rs' : List (TSet α)) (p : rs ~ rs') (x : α) :
    x ∈ (mergeAll bot rs').live ↔ (∃ r ∈ rs, x ∈ r.live) ∧ ¬ ∃ r ∈ rs, x ∈ r.tomb := by
  rw [aux_mergeAll_live rs' bot (by intro x hx; simp [bot] at hx)]
  simp [bot, p.mem_iff]

/-- Order independence: two merge orders of the same replicas give the same live set and the
same tombstone set. -/
theorem merge_order_irrelevant (rs rs' : List (TSet α)) (p : rs ~ rs') (x : α) :
    (x ∈ (mergeAll bot rs).live ↔ x ∈ (mergeAll bot rs').live) ∧
    (x ∈ (mergeAll bot rs).tomb ↔ x ∈ (mergeAll bot rs').tomb) := by
  rw [merge_history_live rs rs' p, merge_history_live rs rs (Perm.refl _),
    merge_history_tomb rs rs' p, merge_history_tomb rs rs (Perm.refl _)]
  exact ⟨Iff.rfl, Iff.rfl⟩

/-- Tombstones only grow, along any continuation of the history. -/
theorem tombstones_monotone (s : TSet α) (rs : List (TSet α)) (x : α) (h : x ∈ s.tomb) :
    x ∈ (mergeAll s rs).tomb := by
  rw [aux_mergeAll_tomb]; exact Or.inl h

/-- **Never resurrect**: once `x` is tombstoned in a (disjoint) state it is not live after any
further merges, whatever the later replicas contain (including `x` as a live item). -/
theorem never_resurrect (s : TSet α) (hs : s.Disjoint) (rs : List (TSet α)) (x : α)
    (h : x ∈ s.tomb) : x ∉ (mergeAll s rs).live := by
  rw [aux_mergeAll_live rs s hs]; tauto

/-- The same for histories from bottom: an item tombstoned by *any* replica of a prefix of
the history is not live after any extension of the history. -/
theorem never_resurrect_history (pre post : List (TSet α)) (x : α)
    (h : ∃ r ∈ pre, x ∈ r.tomb) : x ∉ (mergeAll bot (pre ++ post)).live := by
  rw [merge_history_live (pre ++ post) (pre ++ post) (Perm.refl _)]
  obtain ⟨r, hr, hx⟩ := h
  intro hc
  exact hc.2 ⟨r, by simp [hr], hx⟩

/-- The `changed` flag: when `merge` answers `false` on a well-formed disjoint state, neither
the live set nor the tombstone set changed (a merge can also *remove* live items, but then the
tombstone set grows and the flag is raised). -/
theorem changed_false_imp_same (s o : TSet α) (hw : s.WF) (hd : s.Disjoint)
    (hc : (merge s o).2 = false) (x : α) :
    (x ∈ (merge s o).1.live ↔ x ∈ s.live) ∧ (x ∈ (merge s o).1.tomb ↔ x ∈ s.tomb) := by
  have hw' := merge_wf s o hw
  -- tomb: s.tomb ⊆ tomb2, lengths not growing, both nodup ⇒ same members
  have ht : (merge s o).1.tomb.length ≤ s.tomb.length := by
    simp [merge] at hc ⊢; omega
  have hl : (merge s o).1.live.length ≤ s.live.length := by
    simp [merge] at hc ⊢; omega
  have subT : s.tomb ⊆ (merge s o).1.tomb := fun y hy => (aux_mem_merge_tomb s o y).2 (Or.inl hy)
  have permT := (List.subperm_of_subset hw.2 subT)
  have eqT : ∀ y, y ∈ (merge s o).1.tomb → y ∈ s.tomb := by
    intro y hy
    have := (List.Subperm.perm_of_length_le permT ht)
    exact this.mem_iff.2 hy
  -- hence o.tomb ⊆ s.tomb, so nothing live in s is removed
  have subL : s.live ⊆ (merge s o).1.live := by
    intro y hy
    rw [aux_mem_merge_live]
    refine ⟨Or.inl hy, fun hyo => hd y hy (eqT y ((aux_mem_merge_tomb s o y).2 (Or.inr hyo)))⟩
  have permL := (List.subperm_of_subset hw.1 subL)
  have eqL : ∀ y, y ∈ (merge s o).1.live → y ∈ s.live := by
    intro y hy
    exact (List.Subperm.perm_of_length_le permL hl).mem_iff.2 hy
  exact ⟨⟨eqL x, fun h => subL h⟩, ⟨eqT x, fun h => subT h⟩⟩

/-- non-vacuity: a history with a delete, a late re-insert and a replica violating the
invariant itself -/
example :
    let rs : List (TSet Nat) := [⟨[1, 2, 3], []⟩, ⟨[2, 4], [2]⟩, ⟨[2, 5, 5], [5]⟩]
    (mergeAll bot rs).live = [1, 3, 4] ∧ (mergeAll bot rs).tomb = [2, 5] ∧
    (mergeAll bot rs.reverse).live = [4, 1, 3] := by decide

end TSet

/-! ### `MapUnionWithTombstones` -/
namespace TMap
variable {κ V W : Type} [DecidableEq κ]

def keys {X : Type} (m : List (κ × X)) : List κ := m.map Prod.fst

theorem aux_lookup_nil {X : Type} (k : κ) : lookup ([] : List (κ × X)) k = none := rfl
theorem aux_lookup_cons {X : Type} (k' : κ) (v : X) (m : List (κ × X)) (k : κ) :
    lookup ((k', v) :: m) k = if k' = k then some v else lookup m k := rfl

/-- the documented invariant: a key is never in `map` and in `tombstones` at once -/
def Disjoint (s : TMap κ V) : Prop := ∀ k, k ∈ keys s.map → k ∉ s.tomb

theorem aux_lookup_none_iff {X : Type} (m : List (κ × X)) (k : κ) :
    lookup m k = none ↔ k ∉ keys m := by
  induction m with
  | nil => simp [lookup, keys]
  | cons kv m ih =>
    obtain ⟨k', v⟩ := kv
    unfold lookup
    by_cases h : k' = k
    · simp [h, keys]
    · simp only [h, if_false, ih, keys, List.map_cons, List.mem_cons]
      simp [Ne.symm h]

theorem aux_keys_setVal (m : List (κ × V)) (k : κ) (v : V) : keys (setVal m k v) = keys m := by
  induction m with
  | nil => simp [setVal]
  | cons kv m ih =>
    obtain ⟨k', v'⟩ := kv
    unfold setVal
    by_cases h : k' = k
    · simp [h, keys]
    · simp only [h, if_false]; simp only [keys, List.map_cons] at ih ⊢; rw [ih]

theorem aux_lookup_setVal (m : List (κ × V)) (k : κ) (v : V) (k' : κ) :
    lookup (setVal m k v) k' =
      if k' = k then (lookup m k).map (fun _ => v) else lookup m k' := by
  induction m with
  | nil => simp [setVal, lookup]
  | cons kv m ih =>
    obtain ⟨k0, v0⟩ := kv
    unfold setVal
    by_cases h : k0 = k
    · subst h
      by_cases h' : k' = k0
      · subst h'; simp [lookup]
      · simp [lookup, h', Ne.symm h']
    · simp only [h, if_false]
      unfold lookup
      by_cases h' : k0 = k'
      · subst h'; simp [h]
      · simp only [h', if_false, ih]
        by_cases h2 : k' = k
        · subst h2; simp [h]
        · simp [h2]

theorem aux_lookup_append_single (m : List (κ × V)) (kv : κ × V) (k : κ) :
    lookup (m ++ [kv]) k =
      match lookup m k with
      | some v => some v
      | none => if kv.1 = k then some kv.2 else none := by
  induction m with
  | nil => obtain ⟨a, b⟩ := kv; simp [lookup]
  | cons kv' m ih =>
    obtain ⟨k0, v0⟩ := kv'
    simp only [List.cons_append]
    unfold lookup
    by_cases h : k0 = k
    · simp [h]
    · simp only [h, if_false, ih]

theorem aux_lookup_mapInsert (m : List (κ × V)) (kv : κ × V) (k : κ) :
    lookup (mapInsert m kv) k = if k = kv.1 then some kv.2 else lookup m k := by
  unfold mapInsert
  cases hl : lookup m kv.1 with
  | some v0 =>
    simp only [aux_lookup_setVal]
    by_cases h : k = kv.1
    · simp [h, hl]
    · simp [h]
  | none =>
    simp only [aux_lookup_append_single]
    by_cases h : k = kv.1
    · subst h; simp [hl]
    · have : ¬ kv.1 = k := fun e => h e.symm
      simp only [this, h, if_false]
      cases lookup m k <;> rfl

theorem aux_keys_mapInsert (m : List (κ × V)) (kv : κ × V) (k : κ) :
    k ∈ keys (mapInsert m kv) ↔ k ∈ keys m ∨ k = kv.1 := by
  have h1 := aux_lookup_none_iff (mapInsert m kv) k
  have h2 := aux_lookup_none_iff m k
  rw [aux_lookup_mapInsert] at h1
  by_cases h : k = kv.1
  · simp [h] at h1; simp [h]; exact h ▸ h1
  · simp only [h, if_false] at h1
    constructor
    · intro hk; left; by_contra hc; exact (h1.1 (h2.2 hc)) hk
    · rintro (hk | hk)
      · by_contra hc; exact (h2.1 (h1.2 hc)) hk
      · exact absurd hk h

theorem aux_lookup_mapExtend (kvs m : List (κ × V)) (hnd : (keys kvs).Nodup) (k : κ) :
    lookup (mapExtend m kvs) k =
      match lookup kvs k with
      | some v => some v
      | none => lookup m k := by
  induction kvs generalizing m with
  | nil => simp [mapExtend, lookup]
  | cons kv kvs ih =>
    obtain ⟨k0, v0⟩ := kv
    simp only [keys, List.map_cons, List.nodup_cons] at hnd
    have := ih (mapInsert m (k0, v0)) hnd.2
    simp only [mapExtend, List.foldl_cons] at this ⊢
    rw [this, aux_lookup_mapInsert, aux_lookup_cons]
    by_cases h : k0 = k
    · subst h
      have : lookup kvs k0 = none := (aux_lookup_none_iff kvs k0).2 hnd.1
      simp [this]
    · have h' : ¬ k = k0 := fun e => h e.symm
      simp only [h, h', if_false]

theorem aux_keys_mapExtend (kvs m : List (κ × V)) (k : κ) :
    k ∈ keys (mapExtend m kvs) ↔ k ∈ keys m ∨ k ∈ keys kvs := by
  induction kvs generalizing m with
  | nil => simp [mapExtend, keys]
  | cons kv kvs ih =>
    have := ih (mapInsert m kv)
    simp only [mapExtend, List.foldl_cons] at this ⊢
    rw [this, aux_keys_mapInsert]; simp [keys]; tauto

theorem aux_lookup_foldl_mapRemove (ts : List κ) (m : List (κ × V)) (k : κ) :
    lookup (ts.foldl mapRemove m) k = if k ∈ ts then none else lookup m k := by
  induction ts generalizing m with
  | nil => simp
  | cons t ts ih =>
    simp only [List.foldl_cons, ih, List.mem_cons]
    have hrm : lookup (mapRemove m t) k = if k = t then none else lookup m k := by
      induction m with
      | nil => simp [mapRemove, aux_lookup_nil]
      | cons kv m ihm =>
        obtain ⟨k0, v0⟩ := kv
        simp only [mapRemove, List.filter_cons] at ihm ⊢
        by_cases h0 : k0 = t
        · subst h0
          simp only [ne_eq, not_true_eq_false, decide_false, Bool.false_eq_true, if_false]
          rw [ihm, aux_lookup_cons]
          by_cases h : k = k0
          · simp [h]
          · have : ¬ k0 = k := fun e => h e.symm
            simp [h, this]
        · simp only [ne_eq, h0, not_false_eq_true, decide_true, if_true]
          rw [aux_lookup_cons, aux_lookup_cons]
          by_cases h : k0 = k
          · subst h; simp [h0]
          · simp only [h, if_false]; exact ihm
    rw [hrm]
    by_cases h1 : k = t <;> by_cases h2 : k ∈ ts <;> simp [h1, h2]

theorem aux_keys_foldl_mapRemove (ts : List κ) (m : List (κ × V)) (k : κ) :
    k ∈ keys (ts.foldl mapRemove m) ↔ k ∈ keys m ∧ k ∉ ts := by
  have h1 := aux_lookup_none_iff (ts.foldl mapRemove m) k
  have h2 := aux_lookup_none_iff m k
  rw [aux_lookup_foldl_mapRemove] at h1
  by_cases h : k ∈ ts
  · simp [h] at h1; simp [h]; exact h1
  · simp only [h, if_false] at h1
    simp only [h, not_false_eq_true, and_true]
    constructor
    · intro hk; by_contra hc; exact (h1.1 (h2.2 hc)) hk
    · intro hk; by_contra hc; exact (h2.1 (h1.2 hc)) hk

/-- an entry of `other.map` passes the filter `!v.is_bot() && !self.tombstones.contains(k)` -/
def passes (ops : ValOps V W) (tomb : List κ) (k : κ) (w : W) : Bool :=
  !(ops.isBot w) && !(tomb.contains k)

theorem aux_mergePass_keys (ops : ValOps V W) (tomb : List κ) (rest : List (κ × W))
    (m new : List (κ × V)) (ch : Bool) :
    keys (mergePass ops tomb rest (m, new, ch)).1 = keys m ∧
    ∀ k, k ∈ keys (mergePass ops tomb rest (m, new, ch)).2.1 →
      k ∈ keys new ∨ (k ∈ keys rest ∧ k ∉ tomb) := by
  induction rest generalizing m new ch with
  | nil => exact ⟨by simp only [mergePass], fun k hk => Or.inl (by simpa only [mergePass] using hk)⟩
  | cons kw rest ih =>
    obtain ⟨k0, w0⟩ := kw
    unfold mergePass
    split
    · rename_i hp
      split
      · rename_i v hv
        obtain ⟨h1, h2⟩ := ih (setVal m k0 (ops.merge v w0).1) new (ch || (ops.merge v w0).2)
        refine ⟨by rw [h1, aux_keys_setVal], fun k hk => ?_⟩
        rcases h2 k hk with h | h
        · exact Or.inl h
        · exact Or.inr ⟨by simp [keys] at h ⊢; exact Or.inr h.1, h.2⟩
      · obtain ⟨h1, h2⟩ := ih m (new ++ [(k0, ops.from_ w0)]) true
        refine ⟨h1, fun k hk => ?_⟩
        rcases h2 k hk with h | h
        · simp only [keys, List.map_append, List.map_cons, List.map_nil, List.mem_append,
            List.mem_singleton] at h
          rcases h with h | h
          · exact Or.inl h
          · subst h
            simp only [Bool.and_eq_true, Bool.not_eq_eq_eq_not, Bool.not_true] at hp
            refine Or.inr ⟨by simp [keys], ?_⟩
            have := hp.2; simpa using this
        · exact Or.inr ⟨by simp [keys] at h ⊢; exact Or.inr h.1, h.2⟩
    · obtain ⟨h1, h2⟩ := ih m new ch
      refine ⟨h1, fun k hk => ?_⟩
      rcases h2 k hk with h | h
      · exact Or.inl h
      · exact Or.inr ⟨by simp [keys] at h ⊢; exact Or.inr h.1, h.2⟩

theorem aux_keys_merge (ops : ValOps V W) (s : TMap κ V) (o : TMap κ W) (k : κ)
    (hk : k ∈ keys (merge ops s o).1.map) :
    (k ∈ keys s.map ∨ (k ∈ keys o.map ∧ k ∉ s.tomb)) ∧ k ∉ o.tomb := by
  simp only [merge] at hk
  rw [aux_keys_foldl_mapRemove, aux_keys_mapExtend] at hk
  obtain ⟨h1, h2⟩ := aux_mergePass_keys ops s.tomb o.map s.map [] false
  refine ⟨?_, hk.2⟩
  rcases hk.1 with h | h
  · rw [h1] at h; exact Or.inl h
  · rcases h2 k h with h' | h'
    · simp [keys] at h'
    · exact Or.inr h'

theorem aux_tomb_merge (ops : ValOps V W) (s : TMap κ V) (o : TMap κ W) (k : κ) :
    k ∈ (merge ops s o).1.tomb ↔ k ∈ s.tomb ∨ k ∈ o.tomb := by
  simp [merge, aux_mem_setExtend]

/-- **map ∩ tombstones = ∅ is an invariant of the map merge**, for arbitrary other replicas
(duplicate keys, bottoms, keys both present and tombstoned). -/
theorem inv_disjoint (ops : ValOps V W) (s : TMap κ V) (o : TMap κ W) (h : s.Disjoint) :
    (merge ops s o).1.Disjoint := by
  intro k hk
  have := aux_keys_merge ops s o k hk
  rw [aux_tomb_merge]
  have := h k
  tauto

theorem aux_mergeAll_inv (ops : ValOps V W) (rs : List (TMap κ W)) (s : TMap κ V)
    (h : s.Disjoint) : (mergeAll ops s rs).Disjoint := by
  induction rs generalizing s with
  | nil => exact h
  | cons r rs ih => exact ih _ (inv_disjoint ops s r h)

theorem aux_mergeAll_tomb (ops : ValOps V W) (rs : List (TMap κ W)) (s : TMap κ V) (k : κ) :
    k ∈ (mergeAll ops s rs).tomb ↔ k ∈ s.tomb ∨ ∃ r ∈ rs, k ∈ r.tomb := by
  induction rs generalizing s with
  | nil => simp [mergeAll]
  | cons r rs ih =>
    have := ih (merge ops s r).1
    simp only [mergeAll, List.foldl_cons] at this ⊢
    rw [this, aux_tomb_merge]; simp; tauto

/-- Tombstoned keys are exactly the keys tombstoned by some replica, in any merge order. -/
theorem merge_history_tomb (ops : ValOps V W) (rs rs' : List (TMap κ W)) (p : rs ~ rs') (k : κ) :
    k ∈ (mergeAll ops bot rs').tomb ↔ ∃ r ∈ rs, k ∈ r.tomb := by
  rw [aux_mergeAll_tomb]; simp [bot, p.mem_iff]

theorem tombstones_monotone (ops : ValOps V W) (s : TMap κ V) (rs : List (TMap κ W)) (k : κ)
    (h : k ∈ s.tomb) : k ∈ (mergeAll ops s rs).tomb := by
  rw [aux_mergeAll_tomb]; exact Or.inl h

theorem aux_mergeAll_keys (ops : ValOps V W) (rs : List (TMap κ W)) (s : TMap κ V)
    (h : s.Disjoint) (k : κ) (hk : k ∈ keys (mergeAll ops s rs).map) :
    (k ∈ keys s.map ∨ ∃ r ∈ rs, k ∈ keys r.map) ∧ k ∉ s.tomb ∧ ∀ r ∈ rs, k ∉ r.tomb := by
  induction rs generalizing s with
  | nil => simp [mergeAll] at hk ⊢; exact ⟨hk, h k hk⟩
  | cons r rs ih =>
    simp only [mergeAll, List.foldl_cons] at hk
    have := ih (merge ops s r).1 (inv_disjoint ops s r h) hk
    rw [aux_tomb_merge] at this
    obtain ⟨h1, h2, h3⟩ := this
    have hs := h k
    refine ⟨?_, by tauto, ?_⟩
    · rcases h1 with h1 | ⟨r', hr', hk'⟩
      · have := aux_keys_merge ops s r k h1
        rcases this.1 with h | h
        · exact Or.inl h
        · exact Or.inr ⟨r, by simp, h.1⟩
      · exact Or.inr ⟨r', by simp [hr'], hk'⟩
    · intro r' hr'
      simp only [List.mem_cons] at hr'
      rcases hr' with rfl | hr'
      · tauto
      · exact h3 r' hr'

/-- **Never resurrect (keys)**: a key tombstoned in a disjoint state is not a key of the map
after any further merges, whatever the later replicas contain. -/
theorem never_resurrect (ops : ValOps V W) (s : TMap κ V) (hs : s.Disjoint)
    (rs : List (TMap κ W)) (k : κ) (h : k ∈ s.tomb) : k ∉ keys (mergeAll ops s rs).map := by
  intro hk
  exact (aux_mergeAll_keys ops rs s hs k hk).2.1 h

/-- From bottom: a key tombstoned by any replica of a prefix of the history is absent after
every extension of the history. -/
theorem never_resurrect_history (ops : ValOps V W) (pre post : List (TMap κ W)) (k : κ)
    (h : ∃ r ∈ pre, k ∈ r.tomb) : k ∉ keys (mergeAll ops bot (pre ++ post)).map := by
  intro hk
  obtain ⟨r, hr, hx⟩ := h
  have := aux_mergeAll_keys ops (pre ++ post) bot (by intro x hx; simp [bot, keys] at hx) k hk
  exact this.2.2 r (by simp [hr]) hx

/-- Reachable states are disjoint. -/
theorem reachable_disjoint (ops : ValOps V W) (rs : List (TMap κ W)) :
    (mergeAll ops bot rs).Disjoint :=
  aux_mergeAll_inv ops rs bot (by intro x hx; simp [bot, keys] at hx)

/-! #### values: nested merge, bottoms invisible -/

section Values
variable {L : Type} [SemilatticeSup L] [OrderBot L]

/-- What is assumed of the value lattice: `merge` refines the join of the abstractions,
`lattice_from` preserves the abstraction and `is_bot` is exact.  (C04 proves this for the
shipped value lattices.) -/
structure ValSpec (ops : ValOps V W) (absV : V → L) (absW : W → L) : Prop where
  merge_abs : ∀ v w, absV (ops.merge v w).1 = absV v ⊔ absW w
  from_abs : ∀ w, absV (ops.from_ w) = absW w
  isBot_iff : ∀ w, ops.isBot w = true ↔ absW w = ⊥

/-- the abstract value of key `k`: bottom when absent -/
def valAt {X : Type} (abs : X → L) (m : List (κ × X)) (k : κ) : L :=
  match lookup m k with
  | some v => abs v
  | none => ⊥

def joinAll (l : List L) : L := l.foldr (· ⊔ ·) ⊥

theorem aux_joinAll_le_iff (l : List L) (u : L) : joinAll l ≤ u ↔ ∀ a ∈ l, a ≤ u := by
  induction l with
  | nil => simp [joinAll]
  | cons a l ih => simp only [joinAll, List.foldr_cons] at ih ⊢; simp [sup_le_iff, ih]

theorem aux_joinAll_perm (l l' : List L) (p : l ~ l') : joinAll l = joinAll l' := by
  apply le_antisymm
  · rw [aux_joinAll_le_iff]; intro a ha; exact (aux_joinAll_le_iff l' _).1 le_rfl a (p.mem_iff.1 ha)
  · rw [aux_joinAll_le_iff]; intro a ha; exact (aux_joinAll_le_iff l _).1 le_rfl a (p.mem_iff.2 ha)

theorem aux_mergePass_lookup (ops : ValOps V W) (tomb : List κ) (rest : List (κ × W))
    (hnd : (keys rest).Nodup) (m new : List (κ × V)) (ch : Bool) (k : κ) :
    lookup (mergePass ops tomb rest (m, new, ch)).1 k =
      (match lookup m k, lookup rest k with
       | some v, some w => if passes ops tomb k w then some (ops.merge v w).1 else some v
       | r, _ => r) ∧
    lookup (mergePass ops tomb rest (m, new, ch)).2.1 k =
      (match lookup new k with
       | some v => some v
       | none => match lookup m k, lookup rest k with
         | none, some w => if passes ops tomb k w then some (ops.from_ w) else none
         | _, _ => none) := by
  induction rest generalizing m new ch with
  | nil =>
    simp only [mergePass, aux_lookup_nil]
    constructor
    · cases lookup m k <;> rfl
    · cases lookup new k <;> cases lookup m k <;> rfl
  | cons kw rest ih =>
    obtain ⟨k0, w0⟩ := kw
    simp only [keys, List.map_cons, List.nodup_cons] at hnd
    have hk0 : lookup rest k0 = none := (aux_lookup_none_iff rest k0).2 hnd.1
    rw [aux_lookup_cons]
    by_cases hp : (!(ops.isBot w0) && !(tomb.contains k0)) = true
    · have hp2 : ops.isBot w0 = false ∧ k0 ∉ tomb := by simpa using hp
      cases hv : lookup m k0 with
      | some v =>
        have e : mergePass ops tomb ((k0, w0) :: rest) (m, new, ch) =
            mergePass ops tomb rest (setVal m k0 (ops.merge v w0).1, new, ch || (ops.merge v w0).2) := by
          rw [mergePass]; simp only [hp, if_true, hv]
        rw [e]
        obtain ⟨h1, h2⟩ := ih hnd.2 (setVal m k0 (ops.merge v w0).1) new (ch || (ops.merge v w0).2)
        rw [h1, h2, aux_lookup_setVal]
        by_cases hk : k = k0
        · subst hk
          refine ⟨?_, ?_⟩
          · simp [hv, hk0, passes, hp2.1, hp2.2]
          · cases hn : lookup new k <;> simp [hv, hk0]
        · have hk' : ¬ k0 = k := fun e => hk e.symm
          simp only [hk, hk', if_false]
          exact ⟨trivial, trivial⟩
      | none =>
        have e : mergePass ops tomb ((k0, w0) :: rest) (m, new, ch) =
            mergePass ops tomb rest (m, new ++ [(k0, ops.from_ w0)], true) := by
          rw [mergePass]; simp only [hp, if_true, hv]
        rw [e]
        obtain ⟨h1, h2⟩ := ih hnd.2 m (new ++ [(k0, ops.from_ w0)]) true
        rw [h1, h2, aux_lookup_append_single]
        by_cases hk : k = k0
        · subst hk
          refine ⟨?_, ?_⟩
          · simp [hv, hk0]
          · cases hn : lookup new k <;> simp [hv, passes, hp2.1, hp2.2]
        · have hk' : ¬ k0 = k := fun e => hk e.symm
          simp only [hk', if_false]
          refine ⟨trivial, ?_⟩
          cases lookup new k <;> simp
    · have e : mergePass ops tomb ((k0, w0) :: rest) (m, new, ch) =
          mergePass ops tomb rest (m, new, ch) := by
        rw [mergePass]; simp only [hp]; rfl
      rw [e]
      obtain ⟨h1, h2⟩ := ih hnd.2 m new ch
      rw [h1, h2]
      by_cases hk : k = k0
      · subst hk
        have hp' : passes ops tomb k w0 = false := by simpa [passes] using hp
        refine ⟨?_, ?_⟩
        · cases lookup m k <;> simp [hk0, hp']
        · cases lookup new k <;> cases lookup m k <;> simp [hk0, hp']
      · have hk' : ¬ k0 = k := fun e => hk e.symm
        simp only [hk', if_false]
        exact ⟨trivial, trivial⟩

end Values
end TMap

/-MAP2-/
namespace TMap
section Values2
variable {κ V W : Type} [DecidableEq κ] {L : Type} [SemilatticeSup L] [OrderBot L]

theorem aux_mergePass_new_sublist (ops : ValOps V W) (tomb : List κ) (rest : List (κ × W))
    (m new : List (κ × V)) (ch : Bool) :
    ∃ l, l.Sublist (keys rest) ∧
      keys (mergePass ops tomb rest (m, new, ch)).2.1 = keys new ++ l := by
  induction rest generalizing m new ch with
  | nil => exact ⟨[], by simp [keys], by simp [mergePass]⟩
  | cons kw rest ih =>
    obtain ⟨k0, w0⟩ := kw
    rw [mergePass]
    split
    · split
      · obtain ⟨l, h1, h2⟩ := ih (setVal m k0 (ops.merge ‹V› w0).1) new (ch || (ops.merge ‹V› w0).2)
        exact ⟨l, by simp only [keys, List.map_cons]; exact h1.cons _, h2⟩
      · obtain ⟨l, h1, h2⟩ := ih m (new ++ [(k0, ops.from_ w0)]) true
        refine ⟨k0 :: l, by simp only [keys, List.map_cons]; exact h1.cons₂ _, ?_⟩
        rw [h2]; simp [keys]
    · obtain ⟨l, h1, h2⟩ := ih m new ch
      exact ⟨l, by simp only [keys, List.map_cons]; exact h1.cons _, h2⟩

/-- one merge, key by key (well-formed other: no duplicate keys) -/
theorem aux_lookup_merge (ops : ValOps V W) (s : TMap κ V) (o : TMap κ W)
    (ho : (keys o.map).Nodup) (k : κ) :
    lookup (merge ops s o).1.map k =
      if k ∈ o.tomb then none else
      match lookup s.map k, lookup o.map k with
      | some v, some w => if passes ops s.tomb k w then some (ops.merge v w).1 else some v
      | some v, none => some v
      | none, some w => if passes ops s.tomb k w then some (ops.from_ w) else none
      | none, none => none := by
  obtain ⟨l, hl1, hl2⟩ := aux_mergePass_new_sublist ops s.tomb o.map s.map [] false
  have hnd : (keys (mergePass ops s.tomb o.map (s.map, [], false)).2.1).Nodup := by
    rw [hl2]; simpa [keys] using hl1.nodup ho
  obtain ⟨h1, h2⟩ := aux_mergePass_lookup ops s.tomb o.map ho s.map [] false k
  simp only [merge]
  rw [aux_lookup_foldl_mapRemove, aux_lookup_mapExtend _ _ hnd, h1, h2]
  by_cases hk : k ∈ o.tomb
  · simp [hk]
  · simp only [hk, if_false, aux_lookup_nil]
    cases lookup s.map k <;> cases lookup o.map k <;> simp <;> split <;> simp_all

/-- **One merge is the key-wise join**, with tombstoned keys erased and bottoms invisible. -/
theorem merge_valAt {ops : ValOps V W} {absV : V → L} {absW : W → L}
    (spec : ValSpec ops absV absW) (s : TMap κ V) (o : TMap κ W) (hd : s.Disjoint)
    (ho : (keys o.map).Nodup) (k : κ) :
    valAt absV (merge ops s o).1.map k =
      if k ∈ s.tomb ∨ k ∈ o.tomb then ⊥ else valAt absV s.map k ⊔ valAt absW o.map k := by
  unfold valAt
  rw [aux_lookup_merge ops s o ho k]
  by_cases hko : k ∈ o.tomb
  · simp [hko]
  · by_cases hks : k ∈ s.tomb
    · have : lookup s.map k = none := by
        rw [aux_lookup_none_iff]; intro hk; exact hd k hk hks
      simp only [hko, hks, this, if_false, true_or, if_true]
      cases lookup o.map k <;> simp [passes, hks]
    · simp only [hko, hks, if_false, or_self]
      cases hs : lookup s.map k <;> cases hw : lookup o.map k <;> simp only [passes]
      · simp
      · rename_i w
        by_cases hb : ops.isBot w = true
        · simp [hb, (spec.isBot_iff w).1 hb]
        · simp [hb, hks, spec.from_abs]
      · simp
      · rename_i v w
        by_cases hb : ops.isBot w = true
        · simp [hb, (spec.isBot_iff w).1 hb]
        · simp [hb, hks, spec.merge_abs]

theorem aux_mergeAll_valAt {ops : ValOps V W} {absV : V → L} {absW : W → L}
    (spec : ValSpec ops absV absW) (rs : List (TMap κ W)) (s : TMap κ V) (hd : s.Disjoint)
    (hrs : ∀ r ∈ rs, (keys r.map).Nodup) (k : κ) :
    valAt absV (mergeAll ops s rs).map k =
      if k ∈ s.tomb ∨ ∃ r ∈ rs, k ∈ r.tomb then ⊥
      else valAt absV s.map k ⊔ joinAll (rs.map (fun r => valAt absW r.map k)) := by
  induction rs generalizing s with
  | nil => simp only [mergeAll, List.foldl_nil, List.not_mem_nil, false_and, exists_false, or_false,
      List.map_nil, joinAll, List.foldr_nil, sup_bot_eq]
           split
           · rename_i h
             unfold valAt
             have : lookup s.map k = none := by
               rw [aux_lookup_none_iff]; intro hk; exact hd k hk h
             rw [this]
           · rfl
  | cons r rs ih =>
    have := ih (merge ops s r).1 (inv_disjoint ops s r hd) (fun r' hr' => hrs r' (by simp [hr']))
    simp only [mergeAll, List.foldl_cons] at this ⊢
    rw [this]
    simp only [aux_tomb_merge, merge_valAt spec s r hd (hrs r (by simp))]
    by_cases h1 : k ∈ s.tomb
    · simp [h1]
    · by_cases h2 : k ∈ r.tomb
      · simp [h2]
      · simp only [h1, h2, or_self, false_or, if_false, List.mem_cons, exists_eq_or_imp,
          List.map_cons, joinAll, List.foldr_cons]
        split
        · rfl
        · rw [sup_assoc]

/-- **Map contents after any history, in any order**: the value of key `k` is bottom (the key
is absent) if any replica tombstoned `k`, and otherwise the join of the values all replicas
hold for `k` — `rs'` is an arbitrary permutation of the well-formed replicas `rs`. -/
theorem merge_history_value {ops : ValOps V W} {absV : V → L} {absW : W → L}
    (spec : ValSpec ops absV absW) (rs rs' : List (TMap κ W)) (p : rs ~ rs')
    (hrs : ∀ r ∈ rs, (keys r.map).Nodup) (k : κ) :
    valAt absV (mergeAll ops bot rs').map k =
      if ∃ r ∈ rs, k ∈ r.tomb then ⊥ else joinAll (rs.map (fun r => valAt absW r.map k)) := by
  rw [aux_mergeAll_valAt spec rs' bot (by intro x hx; simp [bot, keys] at hx)
    (fun r hr => hrs r (p.mem_iff.2 hr))]
  have e : (∃ r ∈ rs', k ∈ r.tomb) ↔ (∃ r ∈ rs, k ∈ r.tomb) := by
    constructor <;> rintro ⟨r, hr, hk⟩
    · exact ⟨r, p.mem_iff.2 hr, hk⟩
    · exact ⟨r, p.mem_iff.1 hr, hk⟩
  simp only [bot, List.not_mem_nil, false_or, e]
  split
  · rfl
  · simp only [valAt, aux_lookup_nil, bot_sup_eq]
    exact aux_joinAll_perm _ _ (p.symm.map _)

/-- values stored in the map are never bottom -/
def NoBot (absV : V → L) (s : TMap κ V) : Prop := ∀ k v, lookup s.map k = some v → absV v ≠ ⊥

theorem aux_noBot_merge {ops : ValOps V W} {absV : V → L} {absW : W → L}
    (spec : ValSpec ops absV absW) (s : TMap κ V) (o : TMap κ W) (ho : (keys o.map).Nodup)
    (hn : NoBot absV s) : NoBot absV (merge ops s o).1 := by
  intro k v hv
  rw [aux_lookup_merge ops s o ho k] at hv
  by_cases hko : k ∈ o.tomb
  · simp [hko] at hv
  · simp only [hko, if_false] at hv
    cases hs : lookup s.map k <;> cases hw : lookup o.map k <;> simp only [hs, hw] at hv
    · simp at hv
    · rename_i w
      split at hv
      · rename_i hp
        simp only [Option.some.injEq] at hv; subst hv
        rw [spec.from_abs]; intro hb
        have := (spec.isBot_iff w).2 hb
        simp [passes, this] at hp
      · simp at hv
    · simp only [Option.some.injEq] at hv; subst hv; exact hn k _ hs
    · rename_i v0 w
      split at hv
      · simp only [Option.some.injEq] at hv; subst hv
        rw [spec.merge_abs]; intro hb
        exact hn k v0 hs (sup_eq_bot_iff.1 hb).1
      · simp only [Option.some.injEq] at hv; subst hv; exact hn k _ hs

/-- **A key is live exactly when it is not tombstoned anywhere and some replica holds a
non-bottom value for it** (bottom entries are invisible), for every order of the history. -/
theorem live_key_iff {ops : ValOps V W} {absV : V → L} {absW : W → L}
    (spec : ValSpec ops absV absW) (rs rs' : List (TMap κ W)) (p : rs ~ rs')
    (hrs : ∀ r ∈ rs, (keys r.map).Nodup) (k : κ) :
    k ∈ keys (mergeAll ops bot rs').map ↔
      (¬ ∃ r ∈ rs, k ∈ r.tomb) ∧ joinAll (rs.map (fun r => valAt absW r.map k)) ≠ ⊥ := by
  have hv := merge_history_value spec rs rs' p hrs k
  have hnb : NoBot absV (mergeAll ops bot rs') := by
    have hrs' : ∀ r ∈ rs', (keys r.map).Nodup := fun r hr => hrs r (p.mem_iff.2 hr)
    suffices ∀ s : TMap κ V, NoBot absV s → NoBot absV (mergeAll ops s rs') from
      this bot (by intro k v h; simp [bot, aux_lookup_nil] at h)
    clear hv
    induction rs' generalizing rs with
    | nil => intro s hs; exact hs
    | cons r rs' ih =>
      intro s hs
      simp only [mergeAll, List.foldl_cons]
      exact ih rs' (Perm.refl _) (fun r' hr' => hrs' r' (by simp [hr']))
        (fun r' hr' => hrs' r' (by simp [hr'])) _
        (aux_noBot_merge spec s r (hrs' r (by simp)) hs)
  constructor
  · intro hk
    have hne : lookup (mergeAll ops bot rs').map k ≠ none := by
      rw [ne_eq, aux_lookup_none_iff]; exact fun h => h hk
    cases hl : lookup (mergeAll ops bot rs').map k with
    | none => exact absurd hl hne
    | some v =>
      have hvb := hnb k v hl
      simp only [valAt, hl] at hv
      split at hv
      · exact absurd hv hvb
      · rename_i hnt; exact ⟨hnt, hv ▸ hvb⟩
  · rintro ⟨hnt, hj⟩
    by_contra hk
    have hl := (aux_lookup_none_iff _ k).2 hk
    simp only [valAt, hl, hnt, if_false] at hv
    exact hj hv.symm

end Values2

/-! non-vacuity: the map the driver runs (set-union values), abstracted into `Set ℕ` -/

/-- the value lattice the driver runs (`TMap.setOps`) meets the assumptions, with `Set ℕ` as `L` -/
theorem setOps_spec : ValSpec setOps (fun v => {x | x ∈ v}) (fun w : List Nat => {x | x ∈ w}) where
  merge_abs v w := by ext x; simp [setOps, aux_mem_setExtend]
  from_abs w := by ext x; simp [setOps, aux_mem_setExtend]
  isBot_iff w := by
    cases w with
    | nil => simp [setOps]
    | cons a w =>
      simp only [setOps, List.isEmpty_cons, Bool.false_eq_true, false_iff]
      intro h
      have : a ∈ ({x | x ∈ a :: w} : Set Nat) := by simp
      rw [h] at this; exact this

example :
    let rs : List (TMap Nat (List Nat)) :=
      [⟨[(1, [10]), (2, [20])], []⟩, ⟨[(1, [11]), (3, [])], [2]⟩, ⟨[(2, [21])], []⟩]
    (mergeAll setOps bot rs).map = [(1, [10, 11])] ∧ (mergeAll setOps bot rs).tomb = [2] ∧
    (mergeAll setOps bot rs.reverse).map = [(1, [11, 10])] := by decide

end TMap

/-! ### comparisons: `PartialOrd::partial_cmp` / `PartialEq::eq` of the two tombstone lattices

(model: `Model/TombCmp.lean`; the decision tables come from `Gen/TombCmp.lean`, regenerated from the Rust source
on every run, so these theorems are re-checked against the tables that exist) -/

section CmpSets
variable {α : Type} [DecidableEq α]

theorem aux_subB_iff (a b : List α) : subB a b = true ↔ ∀ x ∈ a, x ∈ b := by
  simp [subB]

/-- the three-way answer of a partial order from its two `≤` tests -/
def ordOf (p q : Bool) : Option Ordering :=
  if p then (if q then some .eq else some .lt) else if q then some .gt else none

theorem aux_sub_len {a b : List α} (ha : a.Nodup) (h : subB a b = true) : a.length ≤ b.length :=
  (List.subperm_of_subset ha ((aux_subB_iff a b).mp h)).length_le

theorem aux_sub_perm {a b : List α} (ha : a.Nodup) (h : subB a b = true) (hl : b.length ≤ a.length) :
    subB b a = true :=
  (aux_subB_iff b a).mpr fun x hx =>
    ((List.subperm_of_subset ha ((aux_subB_iff a b).mp h)).perm_of_length_le hl).mem_iff.mpr hx

/-- `set_cmp` on duplicate-free backings is the inclusion order -/
theorem aux_setCmp_spec (a b : List α) (ha : a.Nodup) (hb : b.Nodup) :
    setCmp a b = ordOf (subB a b) (subB b a) := by
  unfold setCmp
  rcases Nat.lt_trichotomy a.length b.length with hlt | heq | hgt
  · rw [Nat.compare_eq_lt.mpr hlt]
    have nb : subB b a = false := by
      cases h : subB b a with
      | false => rfl
      | true => have := aux_sub_len hb h; omega
    cases h : subB a b <;> simp [ordOf, nb]
  · rw [Nat.compare_eq_eq.mpr heq]
    cases h : subB a b with
    | true => simp [ordOf, aux_sub_perm ha h (by omega)]
    | false =>
      have nb : subB b a = false := by
        cases h2 : subB b a with
        | false => rfl
        | true => have := aux_sub_perm hb h2 (by omega); rw [h] at this; cases this
      simp [ordOf, nb]
  · rw [Nat.compare_eq_gt.mpr hgt]
    have na : subB a b = false := by
      cases h : subB a b with
      | false => rfl
      | true => have := aux_sub_len ha h; omega
    cases h : subB b a <;> simp [ordOf, na]

/-- every item of `a` outside the filter `f` is in `b` -/
def coveredB (a b f : List α) : Bool := a.all fun x => b.contains x || f.contains x

theorem aux_anyOutside (a b f : List α) : anyOutside a b f = !coveredB a b f := by
  unfold anyOutside coveredB
  induction a with
  | nil => rfl
  | cons x a ih =>
    simp only [List.filter_cons, List.all_cons]
    cases hf : f.contains x <;> cases hb : b.contains x <;> simp_all

namespace TSet

/-- the order of the lattice, decided on the representation: `a ≤ b` iff `a`'s tombstones are `b`'s and every
live item of `a` is live or tombstoned in `b` -/
def leB (a b : TSet α) : Bool := subB a.tomb b.tomb && coveredB a.live b.live b.tomb

theorem aux_leB_iff (a b : TSet α) :
    leB a b = true ↔ (∀ x ∈ a.tomb, x ∈ b.tomb) ∧ ∀ x ∈ a.live, x ∈ b.live ∨ x ∈ b.tomb := by
  simp [leB, subB, coveredB]

/-- **`a ≤ b` ⇔ merging `a` into `b` changes nothing** (neither the live set nor the tombstones) -/
theorem le_iff_merge_noop (a b : TSet α) (hbd : b.Disjoint) :
    leB a b = true ↔
      ∀ x, (x ∈ (merge b a).1.live ↔ x ∈ b.live) ∧ (x ∈ (merge b a).1.tomb ↔ x ∈ b.tomb) := by
  rw [aux_leB_iff]
  constructor
  · rintro ⟨ht, hl⟩ x
    rw [aux_mem_merge_live, aux_mem_merge_tomb]
    have := hbd x; have := ht x; have := hl x
    tauto
  · intro h
    have ht : ∀ x ∈ a.tomb, x ∈ b.tomb := fun x hx => ((h x).2).mp ((aux_mem_merge_tomb b a x).mpr (Or.inr hx))
    refine ⟨ht, fun x hx => ?_⟩
    by_cases hxt : x ∈ b.tomb
    · exact Or.inr hxt
    · by_cases hxa : x ∈ a.tomb
      · exact Or.inr (ht x hxa)
      · exact Or.inl (((h x).1).mp ((aux_mem_merge_live b a x).mpr ⟨Or.inr ⟨hx, hxt⟩, hxa⟩))

/-- … ⇔ the `changed` flag of that merge is `false` -/
theorem le_iff_merge_flag_false (a b : TSet α) (hb : b.WF) (hbd : b.Disjoint) :
    leB a b = true ↔ (merge b a).2 = false := by
  constructor
  · intro h
    have hs := (le_iff_merge_noop a b hbd).mp h
    have hw := merge_wf b a hb
    have pl : (merge b a).1.live.Perm b.live := (List.perm_ext_iff_of_nodup hw.1 hb.1).mpr fun x => (hs x).1
    have pt : (merge b a).1.tomb.Perm b.tomb := (List.perm_ext_iff_of_nodup hw.2 hb.2).mpr fun x => (hs x).2
    have e1 := pl.length_eq; have e2 := pt.length_eq
    simp only [merge] at e1 e2 ⊢
    rw [e1, e2]; simp
  · intro h
    exact (le_iff_merge_noop a b hbd).mpr (changed_false_imp_same b a hb hbd h)

/-- **`partial_cmp` is the order of the lattice**: `Some(Less)` ⇔ `a ≤ b` only, `Some(Greater)` ⇔ `b ≤ a` only,
`Some(Equal)` ⇔ both, `None` ⇔ neither — for duplicate-free states that keep live and tombstoned apart
(what merges produce, `reachable_disjoint_wf`).  The decision tables are the ones regenerated from the source. -/
theorem cmp_spec (a b : TSet α) (ha : a.WF) (hb : b.WF) (had : a.Disjoint) (hbd : b.Disjoint) :
    cmp a b = ordOf (leB a b) (leB b a) := by
  unfold cmp setCmpFilter leB
  rw [aux_setCmp_spec _ _ ha.2 hb.2, aux_setCmp_spec _ _ ha.1 hb.1, aux_anyOutside, aux_anyOutside]
  -- with equal tombstones "covered" is plain inclusion
  have f1 : subB b.tomb a.tomb = true → coveredB a.live b.live b.tomb = subB a.live b.live := by
    intro hq
    rw [Bool.eq_iff_iff]
    simp only [coveredB, subB, List.all_eq_true, Bool.or_eq_true, List.contains_iff_mem]
    constructor
    · intro h x hx
      rcases h x hx with h | h
      · exact h
      · exact absurd ((aux_subB_iff _ _).mp hq x h) (had x hx)
    · intro h x hx; exact Or.inl (h x hx)
  have f2 : subB a.tomb b.tomb = true → coveredB b.live a.live a.tomb = subB b.live a.live := by
    intro hp
    rw [Bool.eq_iff_iff]
    simp only [coveredB, subB, List.all_eq_true, Bool.or_eq_true, List.contains_iff_mem]
    constructor
    · intro h x hx
      rcases h x hx with h | h
      · exact h
      · exact absurd ((aux_subB_iff _ _).mp hp x h) (hbd x hx)
    · intro h x hx; exact Or.inl (h x hx)
  cases hp : subB a.tomb b.tomb <;> cases hq : subB b.tomb a.tomb <;>
    cases hu : coveredB a.live b.live b.tomb <;> cases hv : coveredB b.live a.live a.tomb <;>
    simp_all [ordOf, Gen.setOuter, Gen.setTombLess, Gen.setTombGreater, Gen.setFilterTable]

/-- `==` ⇔ same live items and same tombstones -/
theorem eq_iff (a b : TSet α) (ha : a.WF) (hb : b.WF) :
    eq a b = true ↔ (∀ x, x ∈ a.live ↔ x ∈ b.live) ∧ (∀ x, x ∈ a.tomb ↔ x ∈ b.tomb) := by
  unfold eq
  constructor
  · intro h
    by_cases hl : a.live.length = b.live.length ∧ a.tomb.length = b.tomb.length
    · simp only [hl.1, hl.2, bne_self_eq_false, Bool.or_self, Bool.false_eq_true, if_false,
        Bool.and_eq_true] at h
      have r1 := aux_sub_perm ha.1 h.1 (by omega)
      have r2 := aux_sub_perm ha.2 h.2 (by omega)
      exact ⟨fun x => ⟨(aux_subB_iff _ _).mp h.1 x, (aux_subB_iff _ _).mp r1 x⟩,
             fun x => ⟨(aux_subB_iff _ _).mp h.2 x, (aux_subB_iff _ _).mp r2 x⟩⟩
    · exfalso
      have : (a.live.length != b.live.length || a.tomb.length != b.tomb.length) = true := by
        simp only [Bool.or_eq_true, bne_iff_ne]; omega
      simp [this] at h
  · rintro ⟨hl, ht⟩
    have pl : a.live.Perm b.live := (List.perm_ext_iff_of_nodup ha.1 hb.1).mpr hl
    have pt : a.tomb.Perm b.tomb := (List.perm_ext_iff_of_nodup ha.2 hb.2).mpr ht
    simp only [pl.length_eq, pt.length_eq, bne_self_eq_false, Bool.or_self, Bool.false_eq_true, if_false,
      Bool.and_eq_true]
    exact ⟨(aux_subB_iff _ _).mpr fun x hx => (hl x).mp hx, (aux_subB_iff _ _).mpr fun x hx => (ht x).mp hx⟩

/-- `a == b` ⇔ `partial_cmp(a, b) == Some(Equal)` ⇔ `a ≤ b ∧ b ≤ a` -/
theorem eq_iff_cmp_equal (a b : TSet α) (ha : a.WF) (hb : b.WF) (had : a.Disjoint) (hbd : b.Disjoint) :
    (eq a b = true ↔ cmp a b = some .eq) ∧ (cmp a b = some .eq ↔ leB a b = true ∧ leB b a = true) := by
  have h2 : cmp a b = some .eq ↔ leB a b = true ∧ leB b a = true := by
    rw [cmp_spec a b ha hb had hbd]
    cases leB a b <;> cases leB b a <;> simp [ordOf]
  refine ⟨?_, h2⟩
  rw [h2, eq_iff a b ha hb, aux_leB_iff, aux_leB_iff]
  constructor
  · rintro ⟨hl, ht⟩
    exact ⟨⟨fun x hx => (ht x).mp hx, fun x hx => Or.inl ((hl x).mp hx)⟩,
           ⟨fun x hx => (ht x).mpr hx, fun x hx => Or.inl ((hl x).mpr hx)⟩⟩
  · rintro ⟨⟨t1, l1⟩, ⟨t2, l2⟩⟩
    refine ⟨fun x => ⟨fun hx => ?_, fun hx => ?_⟩, fun x => ⟨t1 x, t2 x⟩⟩
    · rcases l1 x hx with h | h
      · exact h
      · exact absurd (t2 x h) (had x hx)
    · rcases l2 x hx with h | h
      · exact h
      · exact absurd (t1 x h) (hbd x hx)

end TSet

example : TSet.cmp (⟨[1, 2], [3]⟩ : TSet Nat) ⟨[2], [3, 1]⟩ = some .lt := by decide
example : TSet.cmp (⟨[1, 2], [3]⟩ : TSet Nat) ⟨[2, 4], [1]⟩ = none := by decide
example : TSet.leB (⟨[1, 2], [3]⟩ : TSet Nat) ⟨[2], [3, 1]⟩ = true ∧ TSet.leB (⟨[2], [3, 1]⟩ : TSet Nat) ⟨[1, 2], [3]⟩ = false := by decide

end CmpSets

namespace TMap
section CmpMaps
variable {κ V : Type} [DecidableEq κ] {L : Type} [SemilatticeSup L] [OrderBot L]

open Classical in
/-- the three-way answer of a partial order from its two `≤` statements -/
noncomputable def ordP (p q : Prop) : Option Ordering :=
  if p then (if q then some .eq else some .lt) else if q then some .gt else none

/-- what is assumed of the value lattice's `PartialOrd` / `IsBot` (C03 proves it for the shipped ones;
`setCmpOps_spec` for the set-union values the harness runs) -/
structure CmpSpec (c : CmpOps V) (absV : V → L) (P : V → Prop) : Prop where
  cmp_abs : ∀ x y, P x → P y → c.cmp x y = ordP (absV x ≤ absV y) (absV y ≤ absV x)
  isBot_iff : ∀ v, c.isBot v = true ↔ absV v = ⊥

/-- the order of the lattice: `a ≤ b` iff `a`'s tombstones are `b`'s and, outside `b`'s tombstones, every value of
`a` is below `b`'s (absent = bottom) -/
def LeM (absV : V → L) (a b : TMap κ V) : Prop :=
  (∀ k ∈ a.tomb, k ∈ b.tomb) ∧ ∀ k, k ∉ b.tomb → valAt absV a.map k ≤ valAt absV b.map k

def isNoneO : Option Ordering → Bool | none => true | _ => false
def isGtO : Option Ordering → Bool | some .gt => true | _ => false
def isLtO : Option Ordering → Bool | some .lt => true | _ => false

/-- the loop, characterised: it answers `None` iff some key is incomparable or both flags end up raised;
otherwise the flags are the disjunctions over the keys -/
theorem aux_cmpLoop (c : CmpOps V) (a b : List (κ × V)) (ks : List κ) (sg og : Bool) (h : (sg && og) = false) :
    cmpLoop c a b ks (sg, og) =
      if ks.any (fun k => isNoneO (keyCmp c a b k)) ||
          ((sg || ks.any (fun k => isGtO (keyCmp c a b k))) &&
           (og || ks.any (fun k => isLtO (keyCmp c a b k)))) then none
      else some (sg || ks.any (fun k => isGtO (keyCmp c a b k)),
                 og || ks.any (fun k => isLtO (keyCmp c a b k))) := by
  induction ks generalizing sg og with
  | nil => simp [cmpLoop, h]
  | cons k ks ih =>
    have key : ∀ r : Option Ordering,
        (match raise sg og r with
          | none => none
          | some (sg', og') => if (sg' && og') = true then none else cmpLoop c a b ks (sg', og')) =
        if (isNoneO r || ks.any (fun k => isNoneO (keyCmp c a b k))) ||
            ((sg || (isGtO r || ks.any (fun k => isGtO (keyCmp c a b k)))) &&
             (og || (isLtO r || ks.any (fun k => isLtO (keyCmp c a b k))))) then none
        else some (sg || (isGtO r || ks.any (fun k => isGtO (keyCmp c a b k))),
                   og || (isLtO r || ks.any (fun k => isLtO (keyCmp c a b k)))) := by
      intro r
      cases r with
      | none => simp [raise, isNoneO]
      | some o =>
        cases o with
        | lt =>
          simp only [raise]
          cases sg with
          | true => simp [isNoneO, isGtO, isLtO]
          | false => rw [if_neg (by simp), ih false true (by simp)]; simp [isNoneO, isGtO, isLtO]
        | eq =>
          simp only [raise]
          rw [if_neg (by simp [h]), ih sg og h]; simp [isNoneO, isGtO, isLtO]
        | gt =>
          simp only [raise]
          cases og with
          | true => simp [isNoneO, isGtO, isLtO]
          | false => rw [if_neg (by simp), ih true false (by simp)]; simp [isNoneO, isGtO, isLtO]
    simp only [cmpLoop, List.any_cons]
    exact key _

/-- the final table on its reachable rows is the product of the two component tests -/
theorem aux_mapFinalTable (sg og stg otg : Bool) (h1 : (sg && og) = false) (h2 : (stg && otg) = false) :
    Gen.mapFinalTable sg og stg otg = some (ordOf (!sg && !stg) (!og && !otg)) := by
  cases sg <;> cases og <;> cases stg <;> cases otg <;> simp_all [Gen.mapFinalTable, ordOf]

theorem aux_ordP_of_bool {p q : Prop} {bp bq : Bool} (hp : p ↔ bp = true) (hq : q ↔ bq = true) :
    ordP p q = ordOf bp bq := by
  unfold ordP ordOf
  cases bp <;> cases bq <;> simp_all

theorem aux_lookup_of_mem_nodup {X : Type} (m : List (κ × X)) (nd : (keys m).Nodup) (k : κ) (v : X)
    (h : (k, v) ∈ m) : lookup m k = some v := by
  induction m with
  | nil => cases h
  | cons kv m ih =>
    obtain ⟨k', v'⟩ := kv
    simp only [keys, List.map_cons, List.nodup_cons] at nd
    rw [aux_lookup_cons]
    rcases List.mem_cons.mp h with h | h
    · injection h with h1 h2; subst h1; subst h2; simp
    · have hk : k ∈ keys m := List.mem_map.mpr ⟨(k, v), h, rfl⟩
      have : k' ≠ k := fun e => nd.1 (e ▸ hk)
      simp only [this, if_false]
      exact ih nd.2 h

theorem aux_lookup_some_mem {X : Type} (m : List (κ × X)) (k : κ) (v : X) (h : lookup m k = some v) : (k, v) ∈ m := by
  induction m with
  | nil => simp [aux_lookup_nil] at h
  | cons kv m ih =>
    obtain ⟨k', v'⟩ := kv
    rw [aux_lookup_cons] at h
    by_cases e : k' = k
    · simp only [e, if_true, Option.some.injEq] at h; subst h; subst e; simp
    · simp only [e, if_false] at h; exact List.mem_cons_of_mem _ (ih h)

theorem aux_mem_liveKeys (c : CmpOps V) (t1 t2 : List κ) (m : List (κ × V)) (k : κ) :
    k ∈ liveKeys c t1 t2 m ↔ ∃ v, (k, v) ∈ m ∧ c.isBot v = false ∧ k ∉ t1 ∧ k ∉ t2 := by
  simp only [liveKeys, List.mem_map, List.mem_filter, Bool.and_eq_true, Bool.not_eq_true',
    List.contains_iff_mem, decide_eq_false_iff_not, Prod.exists]
  constructor
  · rintro ⟨k', v, ⟨hm, ⟨hb, h1⟩, h2⟩, rfl⟩
    exact ⟨v, hm, hb, by simpa using h1, by simpa using h2⟩
  · rintro ⟨v, hm, hb, h1, h2⟩
    exact ⟨k, v, ⟨hm, ⟨hb, by simpa using h1⟩, by simpa using h2⟩, rfl⟩

variable {c : CmpOps V} {absV : V → L} {P : V → Prop}

/-- a key of the loop contributes the comparison of the two values (absent = bottom) -/
theorem aux_keyCmp_spec (spec : CmpSpec c absV P) (a b : TMap κ V)
    (nda : (keys a.map).Nodup) (ndb : (keys b.map).Nodup)
    (pa : ∀ kv ∈ a.map, P kv.2) (pb : ∀ kv ∈ b.map, P kv.2) (k : κ)
    (hk : k ∈ liveKeys c a.tomb b.tomb a.map ++ liveKeys c a.tomb b.tomb b.map) :
    keyCmp c a.map b.map k =
      ordP (valAt absV a.map k ≤ valAt absV b.map k) (valAt absV b.map k ≤ valAt absV a.map k) := by
  unfold keyCmp valAt
  rw [List.mem_append, aux_mem_liveKeys, aux_mem_liveKeys] at hk
  cases ha : lookup a.map k with
  | some x =>
    cases hb : lookup b.map k with
    | some y => simp only [spec.cmp_abs x y (pa _ (aux_lookup_some_mem _ _ _ ha)) (pb _ (aux_lookup_some_mem _ _ _ hb))]
    | none =>
      have hx : absV x ≠ ⊥ := by
        rcases hk with ⟨v, hm, hbv, _, _⟩ | ⟨v, hm, _, _, _⟩
        · have := aux_lookup_of_mem_nodup _ nda k v hm
          rw [ha] at this; injection this with e; subst e
          intro h; rw [(spec.isBot_iff x).mpr h] at hbv; cases hbv
        · have := aux_lookup_of_mem_nodup _ ndb k v hm
          rw [hb] at this; cases this
      simp only [ordP, le_bot_iff, hx, bot_le, if_false, if_true]
  | none =>
    cases hb : lookup b.map k with
    | some y =>
      have hy : absV y ≠ ⊥ := by
        rcases hk with ⟨v, hm, _, _, _⟩ | ⟨v, hm, hbv, _, _⟩
        · have := aux_lookup_of_mem_nodup _ nda k v hm
          rw [ha] at this; cases this
        · have := aux_lookup_of_mem_nodup _ ndb k v hm
          rw [hb] at this; injection this with e; subst e
          intro h; rw [(spec.isBot_iff y).mpr h] at hbv; cases hbv
      simp only [ordP, le_bot_iff, hy, bot_le, if_false, if_true]
    | none =>
      exfalso
      rcases hk with ⟨v, hm, _, _, _⟩ | ⟨v, hm, _, _, _⟩
      · have := aux_lookup_of_mem_nodup _ nda k v hm; rw [ha] at this; cases this
      · have := aux_lookup_of_mem_nodup _ ndb k v hm; rw [hb] at this; cases this

/-- outside the loop's keys and the tombstones both values are bottom -/
theorem aux_valAt_bot_of_not_live (spec : CmpSpec c absV P) (m : List (κ × V)) (t1 t2 : List κ) (k : κ)
    (h1 : k ∉ t1) (h2 : k ∉ t2) (hk : k ∉ liveKeys c t1 t2 m) : valAt absV m k = ⊥ := by
  unfold valAt
  cases hl : lookup m k with
  | none => rfl
  | some v =>
    have hm := aux_lookup_some_mem m k v hl
    cases hb : c.isBot v with
    | true => exact (spec.isBot_iff v).mp hb
    | false => exact absurd ((aux_mem_liveKeys c t1 t2 m k).mpr ⟨v, hm, hb, h1, h2⟩) hk

theorem aux_valAt_bot_of_tomb (a : TMap κ V) (had : a.Disjoint) (k : κ) (h : k ∈ a.tomb) :
    valAt absV a.map k = ⊥ := by
  unfold valAt
  have : lookup a.map k = none := by
    rw [aux_lookup_none_iff]; intro hk; exact had k hk h
  rw [this]

theorem aux_any_not_contains (s t : List κ) : (s.any fun k => !t.contains k) = false ↔ ∀ k ∈ s, k ∈ t := by
  simp

/-- `a ≤ b`, reduced to the tombstone test and the keys of the loop -/
theorem aux_LeM_iff (spec : CmpSpec c absV P) (a b : TMap κ V) (had : a.Disjoint) :
    LeM absV a b ↔ (a.tomb.any fun k => !b.tomb.contains k) = false ∧
      ∀ k ∈ liveKeys c a.tomb b.tomb a.map ++ liveKeys c a.tomb b.tomb b.map,
        valAt absV a.map k ≤ valAt absV b.map k := by
  rw [aux_any_not_contains]
  unfold LeM
  constructor
  · rintro ⟨ht, hv⟩
    refine ⟨ht, fun k hk => hv k ?_⟩
    rw [List.mem_append, aux_mem_liveKeys, aux_mem_liveKeys] at hk
    rcases hk with ⟨_, _, _, _, h⟩ | ⟨_, _, _, _, h⟩ <;> exact h
  · rintro ⟨ht, hv⟩
    refine ⟨ht, fun k hkb => ?_⟩
    by_cases hka : k ∈ a.tomb
    · rw [aux_valAt_bot_of_tomb a had k hka]; exact bot_le
    · by_cases hk : k ∈ liveKeys c a.tomb b.tomb a.map ++ liveKeys c a.tomb b.tomb b.map
      · exact hv k hk
      · rw [List.mem_append, not_or] at hk
        rw [aux_valAt_bot_of_not_live spec a.map a.tomb b.tomb k hka hkb hk.1]; exact bot_le

theorem aux_ordP_flags (p q : Prop) :
    (isNoneO (ordP p q) = true ↔ ¬p ∧ ¬q) ∧ (isGtO (ordP p q) = true ↔ ¬p ∧ q) ∧
      (isLtO (ordP p q) = true ↔ p ∧ ¬q) := by
  unfold ordP
  by_cases hp : p <;> by_cases hq : q <;> simp [hp, hq, isNoneO, isGtO, isLtO]

/-- **`partial_cmp` of the map lattice is the order of the lattice**: `Some(Less)` ⇔ `a ≤ b` only, `Some(Greater)` ⇔
`b ≤ a` only, `Some(Equal)` ⇔ both, `None` ⇔ neither, and no `unreachable!()` row of the final table is reached — for
states that keep map keys and tombstones apart (what merges produce, `reachable_disjoint`), with distinct keys and a
value lattice whose own `partial_cmp` / `is_bot` are right (`CmpSpec`).  The final table is the one regenerated
from the source. -/
theorem cmp_spec (spec : CmpSpec c absV P) (a b : TMap κ V) (had : a.Disjoint) (hbd : b.Disjoint)
    (nda : (keys a.map).Nodup) (ndb : (keys b.map).Nodup)
    (pa : ∀ kv ∈ a.map, P kv.2) (pb : ∀ kv ∈ b.map, P kv.2) :
    cmp c a b = some (ordP (LeM absV a b) (LeM absV b a)) := by
  -- the loop's keys are the same for both directions (as a set)
  have hks : ∀ k, k ∈ liveKeys c b.tomb a.tomb b.map ++ liveKeys c b.tomb a.tomb a.map ↔
      k ∈ liveKeys c a.tomb b.tomb a.map ++ liveKeys c a.tomb b.tomb b.map := by
    intro k
    simp only [List.mem_append, aux_mem_liveKeys]
    constructor <;> rintro (⟨v, h1, h2, h3, h4⟩ | ⟨v, h1, h2, h3, h4⟩)
    · exact Or.inr ⟨v, h1, h2, h4, h3⟩
    · exact Or.inl ⟨v, h1, h2, h4, h3⟩
    · exact Or.inr ⟨v, h1, h2, h4, h3⟩
    · exact Or.inl ⟨v, h1, h2, h4, h3⟩
  have hab := aux_LeM_iff spec a b had
  have hba := aux_LeM_iff spec b a hbd
  simp only [hks] at hba
  generalize hK : liveKeys c a.tomb b.tomb a.map ++ liveKeys c a.tomb b.tomb b.map = ks at hab hba
  have hkc : ∀ k ∈ ks, keyCmp c a.map b.map k =
      ordP (valAt absV a.map k ≤ valAt absV b.map k) (valAt absV b.map k ≤ valAt absV a.map k) :=
    fun k hk => aux_keyCmp_spec spec a b nda ndb pa pb k (hK ▸ hk)
  -- the flags of the loop, as statements about every key
  have FA : (∀ k ∈ ks, valAt absV a.map k ≤ valAt absV b.map k) ↔
      ks.any (fun k => isNoneO (keyCmp c a.map b.map k)) = false ∧
      ks.any (fun k => isGtO (keyCmp c a.map b.map k)) = false := by
    simp only [List.any_eq_false]
    constructor
    · intro h
      exact ⟨fun k hk e => by rw [hkc k hk] at e; exact ((aux_ordP_flags _ _).1.mp e).1 (h k hk),
             fun k hk e => by rw [hkc k hk] at e; exact ((aux_ordP_flags _ _).2.1.mp e).1 (h k hk)⟩
    · rintro ⟨h1, h2⟩ k hk
      by_contra hn
      have n1 := h1 k hk; have n2 := h2 k hk
      rw [hkc k hk] at n1 n2
      by_cases hq : valAt absV b.map k ≤ valAt absV a.map k
      · exact n2 ((aux_ordP_flags _ _).2.1.mpr ⟨hn, hq⟩)
      · exact n1 ((aux_ordP_flags _ _).1.mpr ⟨hn, hq⟩)
  have FB : (∀ k ∈ ks, valAt absV b.map k ≤ valAt absV a.map k) ↔
      ks.any (fun k => isNoneO (keyCmp c a.map b.map k)) = false ∧
      ks.any (fun k => isLtO (keyCmp c a.map b.map k)) = false := by
    simp only [List.any_eq_false]
    constructor
    · intro h
      exact ⟨fun k hk e => by rw [hkc k hk] at e; exact ((aux_ordP_flags _ _).1.mp e).2 (h k hk),
             fun k hk e => by rw [hkc k hk] at e; exact ((aux_ordP_flags _ _).2.2.mp e).2 (h k hk)⟩
    · rintro ⟨h1, h2⟩ k hk
      by_contra hn
      have n1 := h1 k hk; have n2 := h2 k hk
      rw [hkc k hk] at n1 n2
      by_cases hp : valAt absV a.map k ≤ valAt absV b.map k
      · exact n2 ((aux_ordP_flags _ _).2.2.mpr ⟨hp, hn⟩)
      · exact n1 ((aux_ordP_flags _ _).1.mpr ⟨hp, hn⟩)
  rw [FA] at hab
  rw [FB] at hba
  unfold cmp
  simp only [hK]
  generalize (a.tomb.any fun k => !b.tomb.contains k) = stg at hab hba ⊢
  generalize (b.tomb.any fun k => !a.tomb.contains k) = otg at hab hba ⊢
  rw [aux_cmpLoop c a.map b.map ks false false rfl]
  generalize ks.any (fun k => isNoneO (keyCmp c a.map b.map k)) = N at hab hba ⊢
  generalize ks.any (fun k => isGtO (keyCmp c a.map b.map k)) = G at hab hba ⊢
  generalize ks.any (fun k => isLtO (keyCmp c a.map b.map k)) = Lt at hab hba ⊢
  cases stg <;> cases otg <;> cases N <;> cases G <;> cases Lt <;>
    simp only [Bool.and_self, Bool.and_true, Bool.and_false, Bool.true_and, Bool.false_and, Bool.or_true,
      Bool.or_false, Bool.true_or, Bool.false_or, Bool.false_eq_true, if_false, if_true, and_self, and_true,
      and_false, true_and, false_and, reduceCtorEq] at hab hba ⊢ <;>
    first
      | (rw [aux_mapFinalTable _ _ _ _ rfl rfl, aux_ordP_of_bool (bp := _) (bq := _) (by simpa using hab) (by simpa using hba)])
      | (simp only [ordP, hab, hba, if_false]; try rfl)

end CmpMaps

end TMap

namespace TMap
section CmpMaps2
variable {κ V : Type} [DecidableEq κ] {L : Type} [SemilatticeSup L] [OrderBot L]
variable {c : CmpOps V} {absV : V → L} {P : V → Prop}

/-- **`a ≤ b` ⇔ merging `a` into `b` changes nothing**: same tombstones, same value at every key -/
theorem le_iff_merge_noop {ops : ValOps V V} (vs : ValSpec ops absV absV) (a b : TMap κ V)
    (hbd : b.Disjoint) (nda : (keys a.map).Nodup) :
    LeM absV a b ↔
      (∀ k, k ∈ (merge ops b a).1.tomb ↔ k ∈ b.tomb) ∧
      ∀ k, valAt absV (merge ops b a).1.map k = valAt absV b.map k := by
  unfold LeM
  constructor
  · rintro ⟨ht, hv⟩
    refine ⟨fun k => ?_, fun k => ?_⟩
    · rw [aux_tomb_merge]; have := ht k; tauto
    · rw [merge_valAt vs b a hbd nda k]
      by_cases hkb : k ∈ b.tomb
      · simp only [hkb, true_or, if_true]; exact (aux_valAt_bot_of_tomb b hbd k hkb).symm
      · have hka : k ∉ a.tomb := fun h => hkb (ht k h)
        simp only [hkb, hka, or_self, if_false]
        exact sup_eq_left.mpr (hv k hkb)
  · rintro ⟨ht, hv⟩
    have hta : ∀ k ∈ a.tomb, k ∈ b.tomb := fun k hk => (ht k).mp ((aux_tomb_merge ops b a k).mpr (Or.inr hk))
    refine ⟨hta, fun k hkb => ?_⟩
    have hka : k ∉ a.tomb := fun h => hkb (hta k h)
    have := hv k
    rw [merge_valAt vs b a hbd nda k] at this
    simp only [hkb, hka, or_self, if_false] at this
    exact sup_eq_left.mp this

/-- what is assumed of the value lattice's `PartialEq` -/
def EqSpec (c : CmpOps V) (absV : V → L) (P : V → Prop) : Prop :=
  ∀ x y, P x → P y → (c.eq x y = true ↔ absV x = absV y)

/-- **`==` ⇔ same tombstones and the same value at every key** (absent = bottom) -/
theorem eq_iff (spec : CmpSpec c absV P) (es : EqSpec c absV P) (a b : TMap κ V)
    (nta : a.tomb.Nodup) (ntb : b.tomb.Nodup) (nda : (keys a.map).Nodup) (ndb : (keys b.map).Nodup)
    (pa : ∀ kv ∈ a.map, P kv.2) (pb : ∀ kv ∈ b.map, P kv.2) :
    eq c a b = true ↔ (∀ k, k ∈ a.tomb ↔ k ∈ b.tomb) ∧ ∀ k, valAt absV a.map k = valAt absV b.map k := by
  have memNb : ∀ (m : List (κ × V)) (k : κ),
      k ∈ (m.filter fun kv => !c.isBot kv.2).map Prod.fst ↔ ∃ v, (k, v) ∈ m ∧ c.isBot v = false := by
    intro m k
    simp only [List.mem_map, List.mem_filter, Bool.not_eq_true', Prod.exists]
    constructor
    · rintro ⟨k', v, ⟨hm, hb⟩, rfl⟩; exact ⟨v, hm, hb⟩
    · rintro ⟨v, hm, hb⟩; exact ⟨k, v, ⟨hm, hb⟩, rfl⟩
  unfold eq
  constructor
  · intro h
    by_cases hl : a.tomb.length = b.tomb.length
    · simp only [hl, bne_self_eq_false, Bool.false_eq_true, if_false] at h
      by_cases h1 : (a.tomb.any fun k => !b.tomb.contains k) = true
      · rw [if_pos h1] at h; cases h
      · by_cases h2 : (b.tomb.any fun k => !a.tomb.contains k) = true
        · rw [if_neg h1, if_pos h2] at h; cases h
        · rw [if_neg h1, if_neg h2] at h
          simp only [List.all_eq_true, List.mem_append] at h
          have s1 := (aux_any_not_contains a.tomb b.tomb).mp (by simpa using h1)
          have s2 := (aux_any_not_contains b.tomb a.tomb).mp (by simpa using h2)
          refine ⟨fun k => ⟨s1 k, s2 k⟩, fun k => ?_⟩
          unfold valAt
          cases ha : lookup a.map k with
          | some x =>
            have hxm := aux_lookup_some_mem _ _ _ ha
            cases hb : lookup b.map k with
            | some y =>
              have hym := aux_lookup_some_mem _ _ _ hb
              by_cases hbx : c.isBot x = true
              · by_cases hby : c.isBot y = true
                · simp only [(spec.isBot_iff x).mp hbx, (spec.isBot_iff y).mp hby]
                · have := h k (Or.inr ((memNb b.map k).mpr ⟨y, hym, by simpa using hby⟩))
                  simp only [ha, hb] at this
                  exact (es x y (pa _ hxm) (pb _ hym)).mp this
              · have := h k (Or.inl ((memNb a.map k).mpr ⟨x, hxm, by simpa using hbx⟩))
                simp only [ha, hb] at this
                exact (es x y (pa _ hxm) (pb _ hym)).mp this
            | none =>
              by_cases hbx : c.isBot x = true
              · simp only [(spec.isBot_iff x).mp hbx]
              · have := h k (Or.inl ((memNb a.map k).mpr ⟨x, hxm, by simpa using hbx⟩))
                simp [ha, hb] at this
          | none =>
            cases hb : lookup b.map k with
            | some y =>
              have hym := aux_lookup_some_mem _ _ _ hb
              by_cases hby : c.isBot y = true
              · simp only [(spec.isBot_iff y).mp hby]
              · have := h k (Or.inr ((memNb b.map k).mpr ⟨y, hym, by simpa using hby⟩))
                simp [ha, hb] at this
            | none => rfl
    · have : (a.tomb.length != b.tomb.length) = true := by simpa using hl
      simp [this] at h
  · rintro ⟨ht, hv⟩
    have pm : a.tomb.Perm b.tomb := (List.perm_ext_iff_of_nodup nta ntb).mpr ht
    have h1 : (a.tomb.any fun k => !b.tomb.contains k) = false :=
      (aux_any_not_contains _ _).mpr fun k hk => (ht k).mp hk
    have h2 : (b.tomb.any fun k => !a.tomb.contains k) = false :=
      (aux_any_not_contains _ _).mpr fun k hk => (ht k).mpr hk
    simp only [pm.length_eq, bne_self_eq_false, Bool.false_eq_true, if_false, h1, h2, List.all_eq_true,
      List.mem_append]
    intro k hk
    have hvk := hv k
    unfold valAt at hvk
    cases ha : lookup a.map k with
    | some x =>
      have hxm := aux_lookup_some_mem _ _ _ ha
      cases hb : lookup b.map k with
      | some y =>
        simp only [ha, hb] at hvk
        exact (es x y (pa _ hxm) (pb _ (aux_lookup_some_mem _ _ _ hb))).mpr hvk
      | none =>
        exfalso
        simp only [ha, hb] at hvk
        rcases hk with hk | hk
        · obtain ⟨v, hm, hbv⟩ := (memNb a.map k).mp hk
          have := aux_lookup_of_mem_nodup _ nda k v hm
          rw [ha] at this; injection this with e; subst e
          rw [(spec.isBot_iff x).mpr hvk] at hbv; cases hbv
        · obtain ⟨v, hm, _⟩ := (memNb b.map k).mp hk
          have := aux_lookup_of_mem_nodup _ ndb k v hm
          rw [hb] at this; cases this
    | none =>
      cases hb : lookup b.map k with
      | some y =>
        exfalso
        simp only [ha, hb] at hvk
        rcases hk with hk | hk
        · obtain ⟨v, hm, _⟩ := (memNb a.map k).mp hk
          have := aux_lookup_of_mem_nodup _ nda k v hm
          rw [ha] at this; cases this
        · obtain ⟨v, hm, hbv⟩ := (memNb b.map k).mp hk
          have := aux_lookup_of_mem_nodup _ ndb k v hm
          rw [hb] at this; injection this with e; subst e
          rw [(spec.isBot_iff y).mpr hvk.symm] at hbv; cases hbv
      | none => rfl

end CmpMaps2

/-- the value lattice the driver runs (`SetUnion<HashSet<u64>>`, duplicate-free lists) meets `CmpSpec` / `EqSpec` -/
theorem setCmpOps_spec :
    CmpSpec setCmpOps (fun v : List Nat => ({x | x ∈ v} : Set Nat)) List.Nodup ∧
    EqSpec setCmpOps (fun v : List Nat => ({x | x ∈ v} : Set Nat)) List.Nodup := by
  refine ⟨⟨fun x y hx hy => ?_, fun w => ?_⟩, fun x y hx hy => ?_⟩
  · show setCmp x y = _
    rw [aux_setCmp_spec x y hx hy]
    exact (aux_ordP_of_bool (by rw [aux_subB_iff]; exact Iff.rfl) (by rw [aux_subB_iff]; exact Iff.rfl)).symm
  · exact setOps_spec.isBot_iff w
  · show setEqLen x y = true ↔ _
    unfold setEqLen
    simp only [Bool.and_eq_true, beq_iff_eq]
    constructor
    · rintro ⟨hl, hs⟩
      have := aux_sub_perm hx hs (by omega)
      ext z; exact ⟨(aux_subB_iff _ _).mp hs z, (aux_subB_iff _ _).mp this z⟩
    · intro h
      have hm : ∀ z, z ∈ x ↔ z ∈ y := fun z => by
        have := congrArg (fun S : Set Nat => z ∈ S) h; simpa using this
      have pm : x.Perm y := (List.perm_ext_iff_of_nodup hx hy).mpr hm
      exact ⟨pm.length_eq, (aux_subB_iff _ _).mpr fun z hz => (hm z).mp hz⟩


/-- non-vacuity: the map comparison on the value lattice the driver runs; a pair that differs both in a live value
and in the tombstones, in both incomparable and comparable ways -/
example :
    let a : TMap Nat (List Nat) := ⟨[(0, [5]), (1, [5, 6])], [2]⟩
    let b : TMap Nat (List Nat) := ⟨[(0, [5, 6])], [1, 2]⟩
    let d : TMap Nat (List Nat) := ⟨[(0, [6])], [1, 2]⟩
    cmp setCmpOps a b = some (some .lt) ∧ cmp setCmpOps b a = some (some .gt) ∧
    cmp setCmpOps a d = some none ∧ cmp setCmpOps a a = some (some .eq) ∧
    eq setCmpOps a a = true ∧ eq setCmpOps a b = false := by decide

end TMap

end HvLatSpec
