/-
C04 sub-driver: nested lattice values.

Type descriptor (prefix code, no spaces):
  x Max<u64> | n Min<u64> | u () | c Conflict<u64> | s SetUnion (hash-like receiver) |
  v SetUnion (Vec receiver) | m<T> MapUnion | b<T> WithBot | t<T> WithTop | p<T><U> Pair | l<T> VecUnion |
  d<T> DomPair<Max<u64>,T>
Value syntax (directed by the descriptor, no spaces):
  number | u | ! (conflict) | {1,2} | {1:<v>,2:<v>} | _ (WithBot none) | ^ (WithTop none) | ?<v> (some) |
  (<v>;<v>) | [<v>,<v>] | <key|<v>> (DomPair)
Ops:
  lat merge <desc> <repr> <a> <b>   -> <flag> <value>
  lat from  <desc> <repr> <b>       -> <value>
  lat isbot <desc> <a>              -> bool
  lat init <desc> <a> / lat step <repr> <b> / lat get   (a history on one slot)
The receiver value must be canonical (distinct map keys, no duplicate in a hash-like set).
-/
import HvLatSpec.Model.Lattice
open HvLatSpec

namespace LatDrv

/-- descriptor → (shape, receiver decoration) -/
def parseDesc : Nat → List Char → Option (Shape × RT × List Char)
  | 0, _ => none
  | fuel + 1, cs =>
    match cs with
    | 'x' :: r => some (.maxN, .mk false [], r)
    | 'n' :: r => some (.minN, .mk false [], r)
    | 'u' :: r => some (.unit, .mk false [], r)
    | 'c' :: r => some (.conflict, .mk false [], r)
    | 's' :: r => some (.set, .mk false [], r)
    | 'v' :: r => some (.set, .mk true [], r)
    | 'm' :: r => (parseDesc fuel r).map fun (s, t, r) => (.map s, .mk false [t], r)
    | 'b' :: r => (parseDesc fuel r).map fun (s, t, r) => (.withBot s, .mk false [t], r)
    | 't' :: r => (parseDesc fuel r).map fun (s, t, r) => (.withTop s, .mk false [t], r)
    | 'l' :: r => (parseDesc fuel r).map fun (s, t, r) => (.vec s, .mk false [t], r)
    | 'd' :: r => (parseDesc fuel r).map fun (s, t, r) => (.domPair s, .mk false [t], r)
    | 'p' :: r =>
      match parseDesc fuel r with
      | some (s1, t1, r1) =>
        match parseDesc fuel r1 with
        | some (s2, t2, r2) => some (.pair s1 s2, .mk false [t1, t2], r2)
        | none => none
      | none => none
    | _ => none

def descOf (str : String) : Option (Shape × RT) :=
  match parseDesc (str.length + 1) str.toList with
  | some (s, t, []) => some (s, t)
  | _ => none

def takeDigits : List Char → List Char × List Char
  | c :: r => if c.isDigit then let (d, r') := takeDigits r; (c :: d, r') else ([], c :: r)
  | [] => ([], [])

def parseNat (cs : List Char) : Option (Nat × List Char) :=
  let (d, r) := takeDigits cs
  if d.isEmpty || d.length > 20 then none else
    let n := d.foldl (fun acc c => acc * 10 + (c.toNat - '0'.toNat)) 0
    if n ≤ U64MAX then some (n, r) else none

/-- `elem (sep elem)* close` or `close`; fuel bounds the number of elements -/
def parseSeq {α : Type} (p : List Char → Option (α × List Char)) (sep close : Char) :
    Nat → List Char → Option (List α × List Char)
  | 0, _ => none
  | fuel + 1, cs =>
    match cs with
    | c :: r => if c == close then some ([], r) else
      match p cs with
      | some (x, r1) =>
        match r1 with
        | c1 :: r2 =>
          if c1 == close then some ([x], r2)
          else if c1 == sep then
            -- a separator must be followed by an element
            match r2 with
            | c2 :: _ => if c2 == close then none else
              (parseSeq p sep close fuel r2).map fun (xs, r3) => (x :: xs, r3)
            | [] => none
          else none
        | [] => none
      | none => none
    | [] => none

def parseOpt {α : Type} (noneCh : Char) (p : List Char → Option (α × List Char)) :
    List Char → Option (Option α × List Char)
  | c :: r => if c == noneCh then some (none, r)
    else if c == '?' then (p r).map fun (x, r') => (some x, r') else none
  | [] => none

def parseVal : (s : Shape) → List Char → Option (Val s × List Char)
  | .maxN, cs => parseNat cs
  | .minN, cs => parseNat cs
  | .unit, cs => match cs with | 'u' :: r => some ((), r) | _ => none
  | .conflict, cs => match cs with
    | '!' :: r => some (none, r)
    | _ => (parseNat cs).map fun (n, r) => (some n, r)
  | .set, cs => match cs with
    | '{' :: r => parseSeq parseNat ',' '}' (r.length + 1) r
    | _ => none
  | .map s, cs => match cs with
    | '{' :: r =>
      parseSeq (fun cs => match parseNat cs with
        | some (k, ':' :: r1) => (parseVal s r1).map fun (v, r2) => ((k, v), r2)
        | _ => none) ',' '}' (r.length + 1) r
    | _ => none
  | .withBot s, cs => parseOpt '_' (parseVal s) cs
  | .withTop s, cs => parseOpt '^' (parseVal s) cs
  | .pair s t, cs => match cs with
    | '(' :: r =>
      match parseVal s r with
      | some (a, ';' :: r1) =>
        match parseVal t r1 with
        | some (b, ')' :: r2) => some ((a, b), r2)
        | _ => none
      | _ => none
    | _ => none
  | .vec s, cs => match cs with
    | '[' :: r => parseSeq (parseVal s) ',' ']' (r.length + 1) r
    | _ => none
  | .domPair s, cs => match cs with
    | '<' :: r =>
      match parseNat r with
      | some (k, '|' :: r1) =>
        match parseVal s r1 with
        | some (v, '>' :: r2) => some ((k, v), r2)
        | _ => none
      | _ => none
    | _ => none

def valOf (s : Shape) (str : String) : Option (Val s) :=
  match parseVal s str.toList with
  | some (v, []) => some v
  | _ => none

def sortNat (l : List Nat) : List Nat := l.mergeSort (fun a b => a ≤ b)

def showVal : (s : Shape) → Val s → String
  | .maxN, v => toString (v : Nat)
  | .minN, v => toString (v : Nat)
  | .unit, _ => "u"
  | .conflict, v => match (v : Option Nat) with | none => "!" | some n => toString n
  | .set, v => "{" ++ ",".intercalate ((sortNat v).map toString) ++ "}"
  | .map s, v =>
    let es := (v : List (Nat × Val s)).mergeSort (fun a b => a.1 ≤ b.1)
    "{" ++ ",".intercalate (es.map fun kv => toString kv.1 ++ ":" ++ showVal s kv.2) ++ "}"
  | .withBot s, v => match (v : Option (Val s)) with | none => "_" | some x => "?" ++ showVal s x
  | .withTop s, v => match (v : Option (Val s)) with | none => "^" | some x => "?" ++ showVal s x
  | .pair s t, v => "(" ++ showVal s (v : Val s × Val t).1 ++ ";" ++ showVal t (v : Val s × Val t).2 ++ ")"
  | .vec s, v => "[" ++ ",".intercalate ((v : List (Val s)).map (showVal s)) ++ "]"
  | .domPair s, v => "<" ++ toString (v : Nat × Val s).1 ++ "|" ++ showVal s (v : Nat × Val s).2 ++ ">"

def nodupNat : List Nat → Bool
  | [] => true
  | x :: xs => !(xs.contains x) && nodupNat xs

/-- canonical receiver value: what a `HashSet`/`HashMap`-backed value can hold -/
def canon : (s : Shape) → RT → Val s → Bool
  | .set, r, v => r.isVec || nodupNat v
  | .map s, r, v => nodupNat ((v : List (Nat × Val s)).map (·.1)) &&
      (v : List (Nat × Val s)).all (fun kv => canon s (r.kid 0) kv.2)
  | .withBot s, r, v => match (v : Option (Val s)) with | none => true | some x => canon s (r.kid 0) x
  | .withTop s, r, v => match (v : Option (Val s)) with | none => true | some x => canon s (r.kid 0) x
  | .pair s t, r, v => canon s (r.kid 0) (v : Val s × Val t).1 && canon t (r.kid 1) (v : Val s × Val t).2
  | .vec s, r, v => (v : List (Val s)).all (canon s (r.kid 0))
  | .domPair s, r, v => canon s (r.kid 0) (v : Nat × Val s).2
  | _, _, _ => true

def showBool (b : Bool) : String := if b then "true" else "false"

/-- the history slot: a descriptor and the current value -/
structure Slot where
  s : Shape
  r : RT
  v : Val s

def step (slot : Option Slot) (cmd : List String) : Option Slot × String :=
  match cmd with
  | ["merge", d, _, a, b] =>
    match descOf d with
    | some (s, r) =>
      match valOf s a, valOf s b with
      | some a, some b =>
        if canon s r a then
          let res := Lat.merge s r a b
          (slot, showBool res.2 ++ " " ++ showVal s res.1)
        else (slot, "bad-op")
      | _, _ => (slot, "bad-op")
    | none => (slot, "bad-op")
  | ["from", d, _, b] =>
    match descOf d with
    | some (s, r) =>
      match valOf s b with
      | some b => (slot, showVal s (Lat.from_ s r b))
      | none => (slot, "bad-op")
    | none => (slot, "bad-op")
  | ["isbot", d, a] =>
    match descOf d with
    | some (s, r) =>
      match valOf s a with
      | some a => if canon s r a then (slot, showBool (Lat.isBot s a)) else (slot, "bad-op")
      | none => (slot, "bad-op")
    | none => (slot, "bad-op")
  | ["init", d, a] =>
    match descOf d with
    | some (s, r) =>
      match valOf s a with
      | some a => if canon s r a then (some ⟨s, r, a⟩, showVal s a) else (slot, "bad-op")
      | none => (slot, "bad-op")
    | none => (slot, "bad-op")
  | ["step", _, b] =>
    match slot with
    | some ⟨s, r, v⟩ =>
      match valOf s b with
      | some b =>
        let res := Lat.merge s r v b
        (some ⟨s, r, res.1⟩, showBool res.2 ++ " " ++ showVal s res.1)
      | none => (slot, "bad-op")
    | none => (slot, "bad-op")
  | ["get"] =>
    match slot with
    | some ⟨s, _, v⟩ => (slot, showVal s v)
    | none => (slot, "bad-op")
  | _ => (slot, "bad-op")

end LatDrv
