/-
`hvdrv_latspec`: line-protocol driver for the C05 / C04 models.  One output line per input line.

  #case <n> <tags>              reset every slot; echoes the line

C05 (tombstone lattices; every answer is repeated once per real backend, `hs= bt= ro= fst=`
for sets and `hs= ro= fst=` for maps, because the harness runs all of them on the same line):
  ts merge <repr> <L>|<T>       merge replica (live L, tombstones T) -> <flag>/<live>/<tomb>
  ts state                      -> <live>/<tomb>
  ts perm <i,j,..>              merge the replicas seen so far in that order into bottom -> <live>/<tomb>
  ts isbot                      -> bool
  tm merge <repr> <M>|<T>       M = k:v.v,k:-   -> <flag>/<map>/<tomb>
  tm state | tm perm <i,..> | tm isbot
  ts cmp <L>|<T>                the current state against the state (L, T) (distinct items, L and T disjoint), on the backends
                                that implement PartialOrd (hs, bt) -> <cmp>/<eq>/<cmp reversed>/<eq reversed>
  tm cmp <M>|<T>                the same for maps (hs only; distinct keys, none of them in T)
  tb union <A>|<B> <q>          bare TombstoneSet backends: X=collect A, Y=collect B -> <X.union_with(Y)>/<X>/<len>/<contains q>/<collect A extend B>
Lists are `-` when empty.  Anything else -> bad-op.
C04: `lat ...` lines, see Driver/LatDrv.lean.
-/
import HvLatSpec.Model.Tombstone
import HvLatSpec.Model.TombCmp
import HvLatSpec.Driver.LatDrv
import HvLatSpec.Driver.UfDrv
open HvLatSpec

def showBool (b : Bool) : String := if b then "true" else "false"

def sortNat (l : List Nat) : List Nat := l.mergeSort (fun a b => a ≤ b)

def showNats (sep : String) (l : List Nat) : String :=
  if l.isEmpty then "-" else sep.intercalate ((sortNat l).map toString)

def parseNats (sep : String) (s : String) : Option (List Nat) :=
  if s == "-" then some [] else (s.splitOn sep).mapM (fun p => p.toNat?)

/-- `L|T` -/
def parseTSet (s : String) : Option (TSet Nat) :=
  match s.splitOn "|" with
  | [l, t] => do
    let l ← parseNats "," l
    let t ← parseNats "," t
    pure ⟨l, t⟩
  | _ => none

def parseEntry (s : String) : Option (Nat × List Nat) :=
  match s.splitOn ":" with
  | [k, v] => do
    let k ← k.toNat?
    let v ← parseNats "." v
    pure (k, v)
  | _ => none

def parseTMap (s : String) : Option (TMap Nat (List Nat)) :=
  match s.splitOn "|" with
  | [m, t] => do
    let m ← if m == "-" then some [] else (m.splitOn ",").mapM parseEntry
    let t ← parseNats "," t
    pure ⟨m, t⟩
  | _ => none

def showMap (m : List (Nat × List Nat)) : String :=
  if m.isEmpty then "-" else
    ",".intercalate ((m.mergeSort (fun a b => a.1 ≤ b.1)).map fun kv => s!"{kv.1}:{showNats "." kv.2}")

def showTSet (s : TSet Nat) : String := s!"{showNats "," s.live}/{showNats "," s.tomb}"
def showTMap (s : TMap Nat (List Nat)) : String := s!"{showMap s.map}/{showNats "," s.tomb}"

def showOrd : Option Ordering → String
  | some .lt => "lt"
  | some .eq => "eq"
  | some .gt => "gt"
  | none => "none"

def showOrdP : Option (Option Ordering) → String
  | some o => showOrd o
  | none => "panic"

/-- a state a comparison line may name: no duplicates, live and tombstoned disjoint -/
def okTSet (o : TSet Nat) : Bool :=
  o.live.eraseDups.length == o.live.length && o.tomb.eraseDups.length == o.tomb.length &&
    o.live.all (fun x => !o.tomb.contains x)

def okTMap (o : TMap Nat (List Nat)) : Bool :=
  let ks := o.map.map Prod.fst
  ks.eraseDups.length == ks.length && o.tomb.eraseDups.length == o.tomb.length &&
    ks.all (fun x => !o.tomb.contains x) && o.map.all (fun kv => kv.2.eraseDups.length == kv.2.length)

def rep (tags : List String) (x : String) : String :=
  " ".intercalate (tags.map fun t => s!"{t}={x}")

def setTags := ["hs", "bt", "ro", "fst"]
def mapTags := ["hs", "ro", "fst"]

open HvLatSpec.TMap (setOps)

def pickAll {α} (h : List α) (idx : List Nat) : Option (List α) :=
  idx.mapM (fun i => h[i]?)

structure St where
  ts : TSet Nat := TSet.bot
  tsHist : List (TSet Nat) := []
  tm : TMap Nat (List Nat) := TMap.bot
  tmHist : List (TMap Nat (List Nat)) := []
  lat : Option LatDrv.Slot := none
  uf : UfDrv.St := {}

def tmIsBot (s : TMap Nat (List Nat)) : Bool := s.map.all (fun kv => kv.2.isEmpty) && s.tomb.isEmpty

def step (st : St) (line : String) : St × String :=
  let l := line.trimAscii.toString
  match l.splitOn " " with
  | "#case" :: _ => ({}, l)
  | ["ts", "merge", _, r] =>
    match parseTSet r with
    | some o =>
      let res := TSet.merge st.ts o
      ({ st with ts := res.1, tsHist := st.tsHist ++ [o] }, rep setTags s!"{showBool res.2}/{showTSet res.1}")
    | none => (st, "bad-op")
  | ["ts", "state"] => (st, rep setTags (showTSet st.ts))
  | ["ts", "isbot"] => (st, rep setTags (showBool st.ts.isBot))
  | ["ts", "perm", p] =>
    match (parseNats "," p).bind (pickAll st.tsHist) with
    | some rs => (st, rep setTags (showTSet (TSet.mergeAll TSet.bot rs)))
    | none => (st, "bad-op")
  | ["ts", "cmp", r] =>
    match parseTSet r with
    | some o =>
      if okTSet o then
        (st, rep ["hs", "bt"] s!"{showOrd (TSet.cmp st.ts o)}/{showBool (TSet.eq st.ts o)}/{showOrd (TSet.cmp o st.ts)}/{showBool (TSet.eq o st.ts)}")
      else (st, "bad-op")
    | none => (st, "bad-op")
  | ["tm", "cmp", r] =>
    match parseTMap r with
    | some o =>
      if okTMap o then
        let c := TMap.setCmpOps
        (st, rep ["hs"] s!"{showOrdP (TMap.cmp c st.tm o)}/{showBool (TMap.eq c st.tm o)}/{showOrdP (TMap.cmp c o st.tm)}/{showBool (TMap.eq c o st.tm)}")
      else (st, "bad-op")
    | none => (st, "bad-op")
  | ["tb", "union", r, q] =>
    match parseTSet r, q.toNat? with
    | some ab, some q =>
      let x := setCollect ab.live
      let y := setCollect ab.tomb
      let u := tombUnionWith x y
      let e := setExtend x ab.tomb
      (st, rep mapTags s!"{u.2}/{showNats "," u.1}/{u.1.length}/{showBool (u.1.contains q)}/{showNats "," e}")
    | _, _ => (st, "bad-op")
  | ["tm", "merge", _, r] =>
    match parseTMap r with
    | some o =>
      let res := TMap.merge setOps st.tm o
      ({ st with tm := res.1, tmHist := st.tmHist ++ [o] }, rep mapTags s!"{showBool res.2}/{showTMap res.1}")
    | none => (st, "bad-op")
  | ["tm", "state"] => (st, rep mapTags (showTMap st.tm))
  | ["tm", "isbot"] => (st, rep mapTags (showBool (tmIsBot st.tm)))
  | ["tm", "perm", p] =>
    match (parseNats "," p).bind (pickAll st.tmHist) with
    | some rs => (st, rep mapTags (showTMap (TMap.mergeAll setOps TMap.bot rs)))
    | none => (st, "bad-op")
  | "uf" :: cmd =>
    let (u, out) := UfDrv.step st.uf cmd
    ({ st with uf := u }, out)
  | "lat" :: cmd =>
    let (slot, out) := LatDrv.step st.lat cmd
    ({ st with lat := slot }, out)
  | _ => (st, "bad-op")

partial def loop (h : IO.FS.Stream) (out : IO.FS.Stream) (st : St) : IO Unit := do
  let line ← h.getLine
  if line.isEmpty then return ()
  let (st', o) := step st line
  out.putStrLn o
  loop h out st'

def main : IO Unit := do
  let stdin ← IO.getStdin
  let stdout ← IO.getStdout
  loop stdin stdout {}
