/-
C04 union-find sub-driver.  Every answer is repeated for the two real receivers (`hm=` HashMap,
`bt=` BTreeMap).
  uf union <a> <b>            -> flag
  uf same <a> <b>             -> bool                       (path compression happens)
  uf merge <repr> <k>p,k>p|-> -> flag                       (pairs in the other's iteration order)
  uf raw                      -> the parent map sorted by key `k>p,..` | - | unordered
  uf parts <n>                -> representative index of each of 0..n-1 (via `same`, in a fixed call order)
  uf isbot                    -> bool
  uf from <repr> <pairs>      -> ok    (only parent <= child pairs, i.e. forests; else bad-op)
A merge with repr `hash` (HashMap other: arbitrary iteration order) makes `raw` answer `unordered`
for the rest of the case; all other answers are order independent.
-/
import HvLatSpec.Model.UnionFind
import HvLatSpec.Model.Lattice
open HvLatSpec

namespace UfDrv

structure St where
  m : UF.PMap := []
  unordered : Bool := false

def parsePair (s : String) : Option (Nat × Nat) :=
  match s.splitOn ">" with
  | [k, p] => do
    let k ← k.toNat?
    let p ← p.toNat?
    if k ≤ U64MAX ∧ p ≤ U64MAX then pure (k, p) else none
  | _ => none

def parsePairs (s : String) : Option (List (Nat × Nat)) :=
  if s == "-" then some [] else (s.splitOn ",").mapM parsePair

def showRaw (m : UF.PMap) : String :=
  if m.isEmpty then "-" else
    ",".intercalate ((m.mergeSort (fun a b => a.1 ≤ b.1)).map fun kp => s!"{kp.1}>{kp.2}")

def both (x : String) : String := s!"hm={x} bt={x}"
def showBool (b : Bool) : String := if b then "true" else "false"

/-- representative of `i`: the first `j < i` with `same(j, i)`, else `i` -/
def repOf (m : UF.PMap) (i : Nat) : Nat → Nat → Nat × UF.PMap
  | 0, _ => (i, m)
  | fuel + 1, j =>
    if j ≥ i then (i, m) else
      let r := UF.same m j i
      if r.1 then (j, r.2) else repOf r.2 i fuel (j + 1)

def parts (m : UF.PMap) (n : Nat) : List Nat × UF.PMap :=
  (List.range n).foldl (fun (acc : List Nat × UF.PMap) i =>
    let r := repOf acc.2 i (i + 1) 0
    (acc.1 ++ [r.1], r.2)) ([], m)

def step (st : St) (cmd : List String) : St × String :=
  match cmd with
  | ["union", a, b] =>
    match a.toNat?, b.toNat? with
    | some a, some b =>
      if a ≤ U64MAX ∧ b ≤ U64MAX then
        let r := UF.union st.m a b
        ({ st with m := r.1 }, both (showBool r.2))
      else (st, "bad-op")
    | _, _ => (st, "bad-op")
  | ["same", a, b] =>
    match a.toNat?, b.toNat? with
    | some a, some b =>
      if a ≤ U64MAX ∧ b ≤ U64MAX then
        let r := UF.same st.m a b
        ({ st with m := r.2 }, both (showBool r.1))
      else (st, "bad-op")
    | _, _ => (st, "bad-op")
  | ["merge", repr, ps] =>
    match parsePairs ps with
    | some ps =>
      let r := UF.merge st.m ps
      ({ m := r.1, unordered := st.unordered || repr == "hash" }, both (showBool r.2))
    | none => (st, "bad-op")
  | ["raw"] => (st, both (if st.unordered then "unordered" else showRaw st.m))
  | ["parts", n] =>
    match n.toNat? with
    | some n =>
      if n ≤ 64 then
        let r := parts st.m n
        ({ st with m := r.2 }, both (",".intercalate (r.1.map toString)))
      else (st, "bad-op")
    | none => (st, "bad-op")
  | ["isbot"] => (st, both (showBool (UF.isBot st.m)))
  | ["from", repr, ps] =>
    match parsePairs ps with
    | some ps =>
      if ps.all (fun kp => kp.2 ≤ kp.1) then
        ({ m := UF.latticeFrom ps, unordered := repr == "hash" && false }, both "ok")
      else (st, "bad-op")
    | none => (st, "bad-op")
  | _ => (st, "bad-op")

end UfDrv
