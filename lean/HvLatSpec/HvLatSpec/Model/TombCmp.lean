/-
Model of `PartialOrd::partial_cmp` / `PartialEq::eq` of `SetUnionWithTombstones` and
`MapUnionWithTombstones` (set_union_with_tombstones.rs, map_union_with_tombstones.rs).

The helper functions `set_cmp`, `set_cmp_filter` and the key loop of the map variant are transcribed
by hand; every decision table (`match` over outcomes / flags) is taken from
`HvLatSpec/Gen/TombCmp.lean`, which the check regenerates from the Rust source on every run.
Only the `HashSet`/`BTreeSet` tombstone backings implement these traits (the roaring and FST
tombstone sets are not `cc_traits::Iter`/`Get`).

No imports outside the project's import-free files (linked into the driver).
-/
import HvLatSpec.Model.Tombstone
import HvLatSpec.Gen.TombCmp

namespace HvLatSpec

section
variable {α : Type} [DecidableEq α]

/-- `a.iter().all(|key| b.contains(&*key))` -/
def subB (a b : List α) : Bool := a.all fun k => b.contains k

/-- `set_cmp` (the same body as `SetUnion::partial_cmp`):
`match a.len().cmp(&b.len()) { Less => all-of-a-in-b ? Some(Less) : None, Equal => all-of-a-in-b ? Some(Equal) : None,
Greater => all-of-b-in-a ? Some(Greater) : None }` -/
def setCmp (a b : List α) : Option Ordering :=
  match compare a.length b.length with
  | .lt => if subB a b then some .lt else none
  | .eq => if subB a b then some .eq else none
  | .gt => if subB b a then some .gt else none

/-- `a.iter().filter(|key| !f.contains(key)).any(|key| !b.contains(&*key))` -/
def anyOutside (a b f : List α) : Bool := (a.filter fun k => !f.contains k).any fun k => !b.contains k

/-- `set_cmp_filter(a, b, f1, f2)` -/
def setCmpFilter (a b f1 f2 : List α) : Option Ordering :=
  Gen.setFilterTable (anyOutside a b f2) (anyOutside b a f1)

/-- `SetUnion::eq`: same `len` and every key of `self` in `other` -/
def setEqLen (a b : List α) : Bool := a.length == b.length && subB a b

namespace TSet

/-- `PartialOrd for SetUnionWithTombstones` -/
def cmp (s o : TSet α) : Option Ordering :=
  Gen.setOuter (setCmp s.tomb o.tomb) (setCmpFilter s.live o.live s.tomb o.tomb) (setCmp s.live o.live)

/-- `PartialEq for SetUnionWithTombstones`:
`if set.len() != other.set.len() || tombstones.len() != other.tombstones.len() { return false }
 set.iter().all(in other.set) && tombstones.iter().all(in other.tombstones)` -/
def eq (s o : TSet α) : Bool :=
  if s.live.length != o.live.length || s.tomb.length != o.tomb.length then false
  else subB s.live o.live && subB s.tomb o.tomb

end TSet
end

namespace TMap
variable {κ V : Type} [DecidableEq κ]

/-- what the map comparison uses of its value lattice: `PartialOrd`, `PartialEq`, `IsBot` -/
structure CmpOps (V : Type) where
  cmp : V → V → Option Ordering
  eq : V → V → Bool
  isBot : V → Bool

/-- what one key `k` of the loop contributes: `match (self.map.get(k), other.map.get(k))` —
`(Some(x), Some(y)) => x.partial_cmp(y)?` (`none` = the `?` returns `None`), `(Some(_), None)` raises
`self_any_greater` like `Greater`, `(None, Some(_))` raises `other_any_greater` like `Less`;
`(None, None)` is `unreachable!()` (`k` is a key of one of the maps) -/
def keyCmp (c : CmpOps V) (a b : List (κ × V)) (k : κ) : Option Ordering :=
  match lookup a k, lookup b k with
  | some x, some y => c.cmp x y
  | some _, none => some .gt
  | none, some _ => some .lt
  | none, none => some .eq

/-- the flag updates: `Less => other_any_greater = true`, `Greater => self_any_greater = true`, `Equal => {}` -/
def raise (sg og : Bool) : Option Ordering → Option (Bool × Bool)
  | none => none
  | some .lt => some (sg, true)
  | some .gt => some (true, og)
  | some .eq => some (sg, og)

/-- the loop `for k in self_keys.chain(other_keys)` of `partial_cmp`; `none` = returned `None` early
(the `?` on an incomparable pair of values, or `if self_any_greater && other_any_greater { return None }`) -/
def cmpLoop (c : CmpOps V) (a b : List (κ × V)) : List κ → Bool × Bool → Option (Bool × Bool)
  | [], fl => some fl
  | k :: ks, (sg, og) =>
    match raise sg og (keyCmp c a b k) with
    | none => none
    | some (sg', og') => if sg' && og' then none else cmpLoop c a b ks (sg', og')

/-- keys with a non-bottom value that neither side has tombstoned -/
def liveKeys (c : CmpOps V) (t1 t2 : List κ) (m : List (κ × V)) : List κ :=
  (m.filter fun kv => !c.isBot kv.2 && !t1.contains kv.1 && !t2.contains kv.1).map Prod.fst

/-- `PartialOrd for MapUnionWithTombstones`; outer `none` = an `unreachable!()` row of the final table -/
def cmp (c : CmpOps V) (s o : TMap κ V) : Option (Option Ordering) :=
  let stg := s.tomb.any fun k => !o.tomb.contains k
  let otg := o.tomb.any fun k => !s.tomb.contains k
  if stg && otg then some none
  else
    match cmpLoop c s.map o.map (liveKeys c s.tomb o.tomb s.map ++ liveKeys c s.tomb o.tomb o.map) (false, false) with
    | none => some none
    | some (sg, og) => Gen.mapFinalTable sg og stg otg

/-- `PartialEq for MapUnionWithTombstones` -/
def eq (c : CmpOps V) (s o : TMap κ V) : Bool :=
  if s.tomb.length != o.tomb.length then false
  else if s.tomb.any (fun k => !o.tomb.contains k) then false
  else if o.tomb.any (fun k => !s.tomb.contains k) then false
  else
    let nb (m : List (κ × V)) : List κ := (m.filter fun kv => !c.isBot kv.2).map Prod.fst
    (nb s.map ++ nb o.map).all fun k =>
      match lookup s.map k, lookup o.map k with
      | some x, some y => c.eq x y
      | none, none => true
      | _, _ => false

/-- the value lattice of the harness: `SetUnion<HashSet<u64>>` -/
def setCmpOps : CmpOps (List Nat) := ⟨setCmp, setEqLen, fun w => w.isEmpty⟩

end TMap
end HvLatSpec
