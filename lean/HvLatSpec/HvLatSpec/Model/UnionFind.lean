/-
Model of `lattices/src/union_find.rs`: `UnionFind<Map>` with `Map = HashMap/BTreeMap<K, Cell<K>>`.

The parent map is an association list (distinct keys; `TMap.lookup` = `get`, `TMap.setVal` =
writing through the `Cell` of an existing entry, `TMap.mapInsert` = `insert`).  `find` is the
two `while` loops of the Rust code with explicit fuel `map size + 1`; `Props/C04UF.lean` proves
that this fuel suffices on every map reachable through `union`/`merge` (forests).  Methods that
take `&self` but mutate through `Cell` (`find`, `same`) return the new map.
-/
import HvLatSpec.Model.Tombstone

namespace HvLatSpec.UF
open HvLatSpec

abbrev PMap := List (Nat × Nat)

/-- first loop of `find`:
```
let mut root = item;
while let Some(parent) = self.0.get(&root) {
    if parent.get() == root { break; }                       // root is the representative
    if parent.get() == item { parent.set(root); break; }     // loop detected, close the end
    root = parent.get();
}
``` -/
def findRoot (m : PMap) (item : Nat) : Nat → Nat → Nat × PMap
  | 0, root => (root, m)
  | fuel + 1, root =>
    match TMap.lookup m root with
    | none => (root, m)
    | some p =>
      if p = root then (root, m)
      else if p = item then (root, TMap.setVal m root root)
      else findRoot m item fuel p

/-- second loop of `find` (path compression):
`while item != root { item = self.0.get(&item).unwrap().replace(root); }` -/
def compress (root : Nat) : Nat → PMap → Nat → PMap
  | 0, m, _ => m
  | fuel + 1, m, item =>
    if item = root then m
    else match TMap.lookup m item with
      | none => m   -- `.unwrap()` would panic: not reachable on forests (see `find_total`)
      | some p => compress root fuel (TMap.setVal m item root) p

def find (m : PMap) (item : Nat) : Nat × PMap :=
  let fuel := m.length + 1
  let r := findRoot m item fuel item
  (r.1, compress r.1 fuel r.2 item)

/-- `union`: `let a_root = find(a); let b_root = find(b); if a_root == b_root { false } else { insert(b_root, a_root); true }` -/
def union (m : PMap) (a b : Nat) : PMap × Bool :=
  let fa := find m a
  let fb := find fa.2 b
  if fa.1 = fb.1 then (fb.2, false) else (TMap.mapInsert fb.2 (fb.1, fa.1), true)

/-- `same`: `a == b || self.find(a) == self.find(b)` (no `find` when `a == b`) -/
def same (m : PMap) (a b : Nat) : Bool × PMap :=
  if a = b then (true, m)
  else
    let fa := find m a
    let fb := find fa.2 b
    (fa.1 == fb.1, fb.2)

/-- `merge`: `for (item, parent) in other.0 { changed |= self.union(item, parent.get()) }` -/
def merge (m : PMap) (other : List (Nat × Nat)) : PMap × Bool :=
  other.foldl (fun (acc : PMap × Bool) kp => let r := union acc.1 kp.1 kp.2; (r.1, acc.2 || r.2)) (m, false)

/-- `is_bot`: `self.0.iter().all(|(a, b)| *a == b.get())` -/
def isBot (m : PMap) : Bool := m.all (fun kp => kp.1 == kp.2)

/-- `lattice_from`: `other.0.into_iter().collect()` -/
def latticeFrom (other : List (Nat × Nat)) : PMap := TMap.mapExtend [] other

/-- operations of a history -/
inductive Op
  | union (a b : Nat)
  | merge (ps : List (Nat × Nat))
  | query (a b : Nat)      -- a call of `same` (mutates by path compression)

def step (m : PMap) : Op → PMap
  | .union a b => (union m a b).1
  | .merge ps => (merge m ps).1
  | .query a b => (same m a b).2

def run (ops : List Op) : PMap := ops.foldl step []

end HvLatSpec.UF
