/-
Model of the shipped lattice constructors of `lattices/src/*.rs` for C04:
`Max<u64>`, `Min<u64>`, `()`, `Conflict<u64>`, `SetUnion<_>`, `MapUnion<_>`, `WithBot<_>`,
`WithTop<_>`, `Pair<_,_>` (`#[derive(Lattice)]`: field-wise), `VecUnion<_>`, `DomPair<Max<u64>,_>`,
by recursion on a type descriptor (`Shape`) so that every nesting is covered.

Representations.  A receiver (`Self`) is either a de-duplicating set/map backing
(`HashSet`/`BTreeSet`, `HashMap`/`BTreeMap`) or, for `SetUnion`, a `Vec` (whose `extend`
appends).  The `Other` side of `Merge<Other>` / `LatticeFrom<Other>` is only consumed through
`IntoIterator`, so any representation of it is a plain list.  The receiver choice is the
decoration `RT` (one flag per `SetUnion` position).

No imports outside the project's import-free model files (linked into the driver).
-/
import HvLatSpec.Model.Tombstone

namespace HvLatSpec

def U64MAX : Nat := 18446744073709551615

inductive Shape
  | maxN | minN | unit | conflict | set
  | map (s : Shape) | withBot (s : Shape) | withTop (s : Shape)
  | pair (s t : Shape) | vec (s : Shape)
  | domPair (s : Shape)      -- `DomPair<Max<u64>, _>`
deriving Repr, DecidableEq, Inhabited

/-- receiver representation: `vec = true` at a `set` position means a `Vec` receiver -/
inductive RT
  | mk (vec : Bool) (kids : List RT)
deriving Repr, Inhabited

def RT.isVec : RT → Bool | .mk v _ => v
def RT.kid : RT → Nat → RT
  | .mk _ ks, i => ks.getD i (.mk false [])

/-- values: what `as_reveal_ref` shows -/
@[reducible] def Val : Shape → Type
  | .maxN => Nat
  | .minN => Nat
  | .unit => Unit
  | .conflict => Option Nat
  | .set => List Nat
  | .map s => List (Nat × Val s)
  | .withBot s => Option (Val s)
  | .withTop s => Option (Val s)
  | .pair s t => Val s × Val t
  | .vec s => List (Val s)
  | .domPair s => Nat × Val s

namespace Lat

/-- `IsBot::is_bot` -/
def isBot : (s : Shape) → Val s → Bool
  | .maxN, v => (v : Nat) == 0                       -- `<u64>::MIN == self.0`
  | .minN, v => (v : Nat) == U64MAX                  -- `<u64>::MAX == self.0`
  | .unit, _ => true
  | .conflict, _ => false
  | .set, v => List.isEmpty (α := Nat) v             -- `self.0.is_empty()`
  | .map s, v => List.all (α := Nat × Val s) v (fun kv => isBot s kv.2)   -- `iter().all(is_bot)`
  | .withBot s, v => match (v : Option (Val s)) with   -- `is_none_or(is_bot)`
    | none => true
    | some x => isBot s x
  | .withTop s, v => match (v : Option (Val s)) with   -- `is_some_and(is_bot)`
    | none => false
    | some x => isBot s x
  | .pair s t, v => isBot s (v : Val s × Val t).1 && isBot t (v : Val s × Val t).2
  | .vec _, v => List.isEmpty v                       -- `self.vec.is_empty()`
  | .domPair s, v => ((v : Nat × Val s).1 == 0) && isBot s (v : Nat × Val s).2   -- `key.is_bot() && val.is_bot()`

/-- `LatticeFrom::lattice_from` into the receiver representation `r` -/
def from_ : (s : Shape) → RT → Val s → Val s
  | .maxN, _, v => v
  | .minN, _, v => v
  | .unit, _, v => v
  | .conflict, _, v => v
  | .set, r, v => if r.isVec then v else setExtend (α := Nat) [] v     -- `into_iter().collect()`
  | .map s, r, v =>                                                    -- map values, collect
    TMap.mapExtend [] (List.map (β := Nat × Val s) (fun kv => (kv.1, from_ s (r.kid 0) kv.2)) v)
  | .withBot s, r, v => match (v : Option (Val s)) with
    | none => (none : Option (Val s))
    | some x => some (from_ s (r.kid 0) x)
  | .withTop s, r, v => match (v : Option (Val s)) with
    | none => (none : Option (Val s))
    | some x => some (from_ s (r.kid 0) x)
  | .pair s t, r, v => (from_ s (r.kid 0) (v : Val s × Val t).1, from_ t (r.kid 1) (v : Val s × Val t).2)
  | .vec s, r, v => List.map (from_ s (r.kid 0)) (v : List (Val s))
  | .domPair s, r, v => ((v : Nat × Val s).1, from_ s (r.kid 0) (v : Nat × Val s).2)

/-- `VecUnion::merge` on the intersecting indices + the converted tail of `other` -/
def vecMerge {V : Type} (mrg : V → V → V × Bool) (frm : V → V) : List V → List V → List V × Bool
  | [], [] => ([], false)
  | a :: as, [] => (a :: as, false)
  | [], b :: bs => ((b :: bs).map frm, true)
  | a :: as, b :: bs =>
    let h := mrg a b
    let t := vecMerge mrg frm as bs
    (h.1 :: t.1, h.2 || t.2)

/-- `Merge::merge(&mut self, other) -> bool`, constructor by constructor -/
def merge : (s : Shape) → RT → Val s → Val s → Val s × Bool
  | .maxN, _, a, b =>                          -- `if self.0 < other.0 { self.0 = other.0; true } else { false }`
    if (a : Nat) < (b : Nat) then (b, true) else (a, false)
  | .minN, _, a, b =>                          -- `if other.0 < self.0 { .. }`
    if (b : Nat) < (a : Nat) then (b, true) else (a, false)
  | .unit, _, _, _ => ((), false)
  | .conflict, _, a, b =>                      -- `if let Some(v) = &self.0 && other.0.is_none_or(|o| v != &o) { self.0 = None; true }`
    match (a : Option Nat), (b : Option Nat) with
    | some x, none => (none, true)
    | some x, some y => if x != y then (none, true) else (some x, false)
    | none, _ => (none, false)
  | .set, r, a, b =>                           -- `let old = len(); extend(other); len() > old`
    let res : List Nat := if r.isVec then (a : List Nat) ++ (b : List Nat) else setExtend (a : List Nat) b
    (res, decide ((a : List Nat).length < res.length))
  | .map s, r, a, b =>                         -- identical to the tombstone map without tombstones
    let ops : ValOps (Val s) (Val s) := ⟨merge s (r.kid 0), isBot s, from_ s (r.kid 0)⟩
    let p := TMap.mergePass ops ([] : List Nat) b (a, [], false)
    (TMap.mapExtend p.1 p.2.1, p.2.2)
  | .withBot s, r, a, b =>
    match (a : Option (Val s)), (b : Option (Val s)) with
    | none, some y => if !(isBot s y) then (some (from_ s (r.kid 0) y), true) else (none, false)
    | some x, some y => let m := merge s (r.kid 0) x y; (some m.1, m.2)
    | a, _ => (a, false)
  | .withTop s, r, a, b =>
    match (a : Option (Val s)), (b : Option (Val s)) with
    | none, none => (none, false)
    | some _, none => (none, true)
    | none, some _ => (none, false)
    | some x, some y => let m := merge s (r.kid 0) x y; (some m.1, m.2)
  | .pair s t, r, a, b =>                      -- derive(Lattice): `changed |= merge(field)` for each field
    let m1 := merge s (r.kid 0) (a : Val s × Val t).1 (b : Val s × Val t).1
    let m2 := merge t (r.kid 1) (a : Val s × Val t).2 (b : Val s × Val t).2
    ((m1.1, m2.1), m1.2 || m2.2)
  | .vec s, r, a, b => vecMerge (merge s (r.kid 0)) (from_ s (r.kid 0)) a b
  | .domPair s, r, a, b =>
    -- `match self.key.partial_cmp(&other.key)` with a totally ordered key (`Max<u64>`):
    -- `Equal => self.val.merge(other.val)`, `Less => { *self = lattice_from(other); true }`, `Greater => false`
    if (a : Nat × Val s).1 = (b : Nat × Val s).1 then
      let m := merge s (r.kid 0) (a : Nat × Val s).2 (b : Nat × Val s).2
      (((a : Nat × Val s).1, m.1), m.2)
    else if (a : Nat × Val s).1 < (b : Nat × Val s).1 then
      (((b : Nat × Val s).1, from_ s (r.kid 0) (b : Nat × Val s).2), true)
    else (a, false)

end Lat
end HvLatSpec
