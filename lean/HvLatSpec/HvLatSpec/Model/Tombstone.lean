/-
Model of `lattices/src/set_union_with_tombstones.rs`, `map_union_with_tombstones.rs`
and the `TombstoneSet` backends of `tombstone.rs`.

Every set-like backing (`HashSet`, `BTreeSet`, `RoaringTombstoneSet`, `FstTombstoneSet`) is a
duplicate-free list; `extend` inserts the items one by one, skipping those already present
(that is what `HashSet::extend`, `RoaringTreemap::extend` and the FST rebuild
`keys.extend; sort; dedup` do up to order).  The *other* side of a merge is only ever consumed
through `IntoIterator`, so it is a plain list (duplicates allowed: `Vec`-backed replicas).

No imports: this file is linked into the native driver.
-/
namespace HvLatSpec

/-! ### set-like backing -/

/-- `HashSet::insert` / one step of `extend`: add unless already present. -/
def setInsert {α} [DecidableEq α] (s : List α) (x : α) : List α :=
  if x ∈ s then s else s ++ [x]

/-- `Extend::extend` on a set backing. -/
def setExtend {α} [DecidableEq α] (s : List α) (xs : List α) : List α :=
  xs.foldl setInsert s

/-- `cc_traits::Remove::remove(&x)` on a set backing. -/
def setRemove {α} [DecidableEq α] (s : List α) (x : α) : List α :=
  s.filter (fun y => y ≠ x)

/-- `TombstoneSet::union_with(&mut self, other) -> usize` of every backend (`HashSet`: insert the items of
`other` one by one; roaring: `&self.bitmap | &other.bitmap`; FST: rebuilt from the union stream):
the set becomes the union, the answer is the length before. -/
def tombUnionWith {α} [DecidableEq α] (s o : List α) : List α × Nat := (setExtend s o, s.length)

/-- `FromIterator` of a set-like backing -/
def setCollect {α} [DecidableEq α] (xs : List α) : List α := setExtend [] xs

/-! ### `SetUnionWithTombstones` -/

structure TSet (α : Type) where
  live : List α
  tomb : List α
deriving Repr

namespace TSet
variable {α : Type} [DecidableEq α]

def bot : TSet α := ⟨[], []⟩

/-- `impl Merge for SetUnionWithTombstones`, statement by statement:
```
let old_set_len = self.set.len(); let old_tombstones_len = self.tombstones.len();
self.set.extend(other.set.into_iter().filter(|x| !self.tombstones.contains(x)));
self.tombstones.extend(other.tombstones.into_iter().inspect(|x| { self.set.remove(x); }));
old_set_len < self.set.len() || old_tombstones_len < self.tombstones.len()
``` -/
def merge (s o : TSet α) : TSet α × Bool :=
  let set1 := setExtend s.live (o.live.filter (fun x => !(s.tomb.contains x)))
  let set2 := o.tomb.foldl setRemove set1
  let tomb2 := setExtend s.tomb o.tomb
  (⟨set2, tomb2⟩, decide (s.live.length < set2.length) || decide (s.tomb.length < tomb2.length))

/-- merge a whole history of replica states into `s`, left to right -/
def mergeAll (s : TSet α) (rs : List (TSet α)) : TSet α :=
  rs.foldl (fun a r => (merge a r).1) s

/-- `LatticeFrom`: collect both parts into the target backings. -/
def latticeFrom (o : TSet α) : TSet α := ⟨setExtend [] o.live, setExtend [] o.tomb⟩

/-- `IsBot` -/
def isBot (s : TSet α) : Bool := s.live.isEmpty && s.tomb.isEmpty

end TSet

/-! ### `MapUnionWithTombstones` -/

/-- The value lattice a map is instantiated with: what `merge` of the map uses of it
(`ValSelf: Merge<ValOther> + LatticeFrom<ValOther>`, `ValOther: IsBot`). -/
structure ValOps (V W : Type) where
  merge : V → W → V × Bool
  isBot : W → Bool
  from_ : W → V

structure TMap (κ V : Type) where
  map : List (κ × V)
  tomb : List κ
deriving Repr

namespace TMap
variable {κ V W : Type} [DecidableEq κ]

def bot : TMap κ V := ⟨[], []⟩

def lookup (m : List (κ × V)) (k : κ) : Option V :=
  match m with
  | [] => none
  | (k', v) :: m => if k' = k then some v else lookup m k

/-- `get_mut(&k)` then write through the reference: replace the value of the first entry for `k` -/
def setVal (m : List (κ × V)) (k : κ) (v : V) : List (κ × V) :=
  match m with
  | [] => []
  | (k', v') :: m => if k' = k then (k', v) :: m else (k', v') :: setVal m k v

/-- `HashMap::insert` as used by `extend`: overwrite or append -/
def mapInsert (m : List (κ × V)) (kv : κ × V) : List (κ × V) :=
  match lookup m kv.1 with
  | some _ => setVal m kv.1 kv.2
  | none => m ++ [kv]

def mapExtend (m : List (κ × V)) (kvs : List (κ × V)) : List (κ × V) :=
  kvs.foldl mapInsert m

def mapRemove (m : List (κ × V)) (k : κ) : List (κ × V) :=
  m.filter (fun kv => kv.1 ≠ k)

/-- the `filter(..).filter_map(..)` pass over `other.map`: state is
(self.map, new entries collected for `extend`, changed) -/
def mergePass (ops : ValOps V W) (tomb : List κ) :
    List (κ × W) → List (κ × V) × List (κ × V) × Bool → List (κ × V) × List (κ × V) × Bool
  | [], acc => acc
  | (k, w) :: rest, (m, new, ch) =>
    if !(ops.isBot w) && !(tomb.contains k) then
      match lookup m k with
      | some v =>
        let r := ops.merge v w
        mergePass ops tomb rest (setVal m k r.1, new, ch || r.2)
      | none => mergePass ops tomb rest (m, new ++ [(k, ops.from_ w)], true)
    else mergePass ops tomb rest (m, new, ch)

/-- `impl Merge for MapUnionWithTombstones`:
```
let other_tombstones: Vec<_> = other.tombstones.into_iter().collect();
let old_tombstones_len = self.tombstones.len();
let iter: Vec<_> = other.map.into_iter()
    .filter(|(k, v)| !v.is_bot() && !self.tombstones.contains(k))
    .filter_map(|(k, v)| if let Some(mut s) = self.map.get_mut(&k) { changed |= s.merge(v); None }
                         else { changed = true; Some((k, ValSelf::lattice_from(v))) }).collect();
self.map.extend(iter);
self.tombstones.extend(other_tombstones.into_iter().inspect(|k| { self.map.remove(k); }));
if old_tombstones_len != self.tombstones.len() { changed = true; }
``` -/
def merge (ops : ValOps V W) (s : TMap κ V) (o : TMap κ W) : TMap κ V × Bool :=
  let p := mergePass ops s.tomb o.map (s.map, [], false)
  let map1 := mapExtend p.1 p.2.1
  let map2 := o.tomb.foldl mapRemove map1
  let tomb2 := setExtend s.tomb o.tomb
  (⟨map2, tomb2⟩, p.2.2 || decide (s.tomb.length ≠ tomb2.length))

def mergeAll (ops : ValOps V W) (s : TMap κ V) (rs : List (TMap κ W)) : TMap κ V :=
  rs.foldl (fun a r => (merge ops a r).1) s

/-- the value lattice the correspondence harness instantiates the maps with:
`SetUnion<HashSet<u64>>` receiving `SetUnion<HashSet|Vec<u64>>` (set_union.rs `merge`:
`extend` then compare lengths; `is_bot` = empty; `lattice_from` = collect) -/
def setOps : ValOps (List Nat) (List Nat) where
  merge v w := (setExtend v w, decide (v.length < (setExtend v w).length))
  isBot w := w.isEmpty
  from_ w := setExtend [] w

end TMap

end HvLatSpec
