import HvLatSpec.Model.Tombstone
import HvLatSpec.Model.Lattice
