import HvLatSpec.Model.Tombstone
