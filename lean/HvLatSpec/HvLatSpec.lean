import HvLatSpec.Model.Tombstone
import HvLatSpec.Model.Lattice
import HvLatSpec.Model.UnionFind
