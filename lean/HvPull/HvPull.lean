import HvPull.Model.Pull
