import HvPull.Model.Pull
import HvPull.Model.Join
