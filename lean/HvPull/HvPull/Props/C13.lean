/-
C13 — Symmetric hash join emits exactly the join of everything that arrived.

Property theorems only (helper lemmas are `aux_*`) about the executable model in
`HvPull/Model/Join.lean`: both half-join states (`set = true`: dedup on build; `false`:
multiset), the probe / pop_match queues, `SymmetricHashJoin::pull`, the new-tick path.
Multisets of results are compared through multiplicities (`List.count`).
-/
import HvPull.Model.Join
import HvPull.Props.C11
import Mathlib.Data.List.Nodup
namespace HvPull
open List

variable {κ ν ν1 ν2 : Type} [DecidableEq κ] [DecidableEq ν] [DecidableEq ν1] [DecidableEq ν2]

/-- multiplicity of `(k, v)` in a table -/
def tcount (t : Table κ ν) (k : κ) (v : ν) : Nat := (t.fullProbe k).count v

/-- the table after `build`ing a list of arrivals -/
def finalT (set : Bool) (t : Table κ ν) (its : List (κ × ν)) : Table κ ν :=
  its.foldl (fun t kv => (t.build set kv.1 kv.2).1) t

omit [DecidableEq ν] in
theorem aux_get_push (t : Table κ ν) (k k' : κ) (v : ν) :
    (t.push k v).get k' = if k = k' then some ((t.get k).getD [] ++ [v]) else t.get k' := by
  induction t with
  | nil => simp [Table.push, Table.get]
  | cons e r ih =>
    obtain ⟨k0, vs⟩ := e
    by_cases h0 : k0 = k
    · subst h0
      by_cases h1 : k0 = k' <;> simp [Table.push, Table.get, h1]
    · by_cases h1 : k = k'
      · subst h1; simp [Table.push, Table.get, h0, ih]
      · by_cases h2 : k0 = k'
        · subst h2; simp [Table.push, Table.get, h0, h1]
        · simp [Table.push, Table.get, h0, h1, h2, ih]

theorem aux_tcount_push (t : Table κ ν) (k k' : κ) (v v' : ν) :
    tcount (t.push k v) k' v' = tcount t k' v' + (if k = k' ∧ v = v' then 1 else 0) := by
  unfold tcount Table.fullProbe
  rw [aux_get_push]
  by_cases h : k = k'
  · subst h
    by_cases hv : v = v'
    · subst hv; simp [count_append]
    · simp [count_append, hv]
  · simp [h]

/-- `build`: inserted iff multiset semantics or the pair is new; the pair's multiplicity goes up iff inserted -/
theorem aux_build (set : Bool) (t : Table κ ν) (k : κ) (v : ν) :
    ((t.build set k v).2 = (!set || tcount t k v == 0)) ∧
    ∀ k' v', tcount (t.build set k v).1 k' v' =
      tcount t k' v' + (if (t.build set k v).2 = true ∧ k = k' ∧ v = v' then 1 else 0) := by
  cases set with
  | false => simp [Table.build, aux_tcount_push]
  | true =>
    cases hg : t.get k with
    | none =>
      have e : t.build true k v = (t.push k v, true) := by simp [Table.build, hg]
      rw [e]
      refine ⟨by simp [tcount, Table.fullProbe, hg], fun k' v' => ?_⟩
      simp [aux_tcount_push]
    | some vs =>
      by_cases hc : v ∈ vs
      · have e : t.build true k v = (t, false) := by simp [Table.build, hg, hc]
        have : 0 < count v vs := count_pos_iff.mpr hc
        rw [e]
        refine ⟨by simp [tcount, Table.fullProbe, hg]; omega, fun k' v' => by simp⟩
      · have e : t.build true k v = (t.push k v, true) := by simp [Table.build, hg, hc]
        have : count v vs = 0 := count_eq_zero.mpr hc
        rw [e]
        refine ⟨by simp [tcount, Table.fullProbe, hg, this], fun k' v' => ?_⟩
        simp [aux_tcount_push]

variable {νb νp : Type} [DecidableEq νb] [DecidableEq νp]

theorem aux_count_map_triple (k : κ) (v : νp) (l : List νb) (k' : κ) (v' : νp) (w' : νb) :
    count (k', v', w') (l.map fun b => (k, v, b)) = if k' = k ∧ v' = v then count w' l else 0 := by
  induction l with
  | nil => simp
  | cons b bs ih =>
    simp only [map_cons, count_cons, ih]
    by_cases h : k' = k ∧ v' = v
    · obtain ⟨rfl, rfl⟩ := h; simp
    · have : ¬ ((k, v, b) = (k', v', w')) := by
        intro e; simp only [Prod.mk.injEq] at e; exact h ⟨e.1.symm, e.2.1.symm⟩
      simp [h, this]

/-- `probe`: the table is untouched; returned match + newly queued = one per stored value of the key -/
theorem aux_probe (h : Half κ νb νp) (k : κ) (v : νp) :
    (h.probe k v).1.table = h.table ∧
    ∀ k' v' w', count (k', v', w') (h.probe k v).1.queue + (if (h.probe k v).2 = some (k', v', w') then 1 else 0)
      = count (k', v', w') h.queue + (if k' = k ∧ v' = v then tcount h.table k w' else 0) := by
  unfold Half.probe
  cases hg : h.table.get k with
  | none => simp [tcount, Table.fullProbe, hg]
  | some vs =>
    cases vs with
    | nil => simp [tcount, Table.fullProbe, hg]
    | cons b bs =>
      refine ⟨rfl, fun k' v' w' => ?_⟩
      simp only [count_append, aux_count_map_triple, tcount, Table.fullProbe, hg, Option.getD_some, count_cons]
      by_cases hkv : k' = k ∧ v' = v
      · obtain ⟨rfl, rfl⟩ := hkv
        by_cases hb : b = w'
        · subst hb; simp; omega
        · simp [hb]
      · have : ¬ ((k, v, b) = (k', v', w')) := by
          intro e; simp only [Prod.mk.injEq] at e; exact hkv ⟨e.1.symm, e.2.1.symm⟩
        simp [hkv, this]

omit [DecidableEq νp] in
theorem aux_half_build (set : Bool) (h : Half κ νb νp) (k : κ) (v : νb) :
    (h.build set k v).1.queue = h.queue ∧
    (h.build set k v).1.table = (h.table.build set k v).1 ∧
    (h.build set k v).2 = (h.table.build set k v).2 := by
  unfold Half.build
  rcases hb : h.table.build set k v with ⟨t, _ | _⟩
  · have := (aux_build set h.table k v).2
    simp only []
    refine ⟨by first | rfl | trivial, ?_, by first | rfl | trivial⟩
    -- not inserted: `Table.build` returned the table unchanged
    cases set with
    | false => simp [Table.build] at hb
    | true =>
      simp only [Table.build, if_true] at hb
      split at hb
      · split at hb <;> simp_all
      · simp at hb
  · exact ⟨rfl, rfl, rfl⟩

/-- the counting content of `buildProbe`: matches returned or queued account exactly for the
growth of `|mine[k,v]| * |other[k,w]|` -/
theorem aux_buildProbe (set : Bool) (mine : Half κ νb νp) (other : Half κ νp νb) (k : κ) (v : νb) :
    (buildProbe set mine other k v).1.queue = mine.queue ∧
    (buildProbe set mine other k v).1.table = (mine.table.build set k v).1 ∧
    (buildProbe set mine other k v).2.1.table = other.table ∧
    ∀ k' v' w',
      count (k', v', w') (buildProbe set mine other k v).2.1.queue
        + (if (buildProbe set mine other k v).2.2 = some (k', v', w') then 1 else 0)
        + tcount mine.table k' v' * tcount other.table k' w'
      = count (k', v', w') other.queue
        + tcount (buildProbe set mine other k v).1.table k' v' * tcount other.table k' w' := by
  obtain ⟨hq, ht, hi⟩ := aux_half_build set mine k v
  obtain ⟨_, hcnt⟩ := aux_build set mine.table k v
  unfold buildProbe
  rcases hb : mine.build set k v with ⟨m', _ | _⟩
  · -- not inserted
    rw [hb] at hq ht hi
    simp only at hq ht hi ⊢
    refine ⟨hq, ht, by first | rfl | trivial, fun k' v' w' => ?_⟩
    rw [ht, hcnt k' v', ← hi]; simp
  · rw [hb] at hq ht hi
    simp only at hq ht hi ⊢
    obtain ⟨pt, pc⟩ := aux_probe other k v
    refine ⟨hq, ht, pt, fun k' v' w' => ?_⟩
    have := pc k' v' w'
    rw [ht, hcnt k' v', ← hi]
    by_cases hkv : k = k' ∧ v = v'
    · obtain ⟨rfl, rfl⟩ := hkv
      simp only [and_self, if_true] at this ⊢
      rw [Nat.add_mul, Nat.one_mul]; omega
    · have h2 : ¬ (k' = k ∧ v' = v) := fun e => hkv ⟨e.1.symm, e.2.symm⟩
      simp only [h2, if_false, Nat.add_zero] at this
      simp only [hkv, and_false, if_false, Nat.add_zero]
      omega

/-- matches queued for `(k, (v1, v2))` -/
def JQ (st : JoinSt κ ν1 ν2) (k : κ) (v1 : ν1) (v2 : ν2) : Nat :=
  count (k, v2, v1) st.ls.queue + count (k, v1, v2) st.rs.queue
/-- `|lhsTable[k,v1]| * |rhsTable[k,v2]|`: the multiplicity of `(k,(v1,v2))` in the join of the tables -/
def JB (st : JoinSt κ ν1 ν2) (k : κ) (v1 : ν1) (v2 : ν2) : Nat :=
  tcount st.ls.table k v1 * tcount st.rs.table k v2
/-- the tables once everything still in the scripts has arrived -/
def Lfin (set : Bool) (st : JoinSt κ ν1 ν2) : Table κ ν1 := finalT set st.ls.table (items st.lhs)
def Rfin (set : Bool) (st : JoinSt κ ν1 ν2) : Table κ ν2 := finalT set st.rs.table (items st.rhs)
def slen (st : JoinSt κ ν1 ν2) : Nat := st.lhs.length + st.rhs.length
def qlen (st : JoinSt κ ν1 ν2) : Nat := st.ls.queue.length + st.rs.queue.length

/-- what one `pull` does, in terms of the join bookkeeping -/
structure LoopOk (set : Bool) (st : JoinSt κ ν1 ν2) (r : JoinSt κ ν1 ν2 × Step (κ × ν1 × ν2)) : Prop where
  noEndL : NoEnd r.1.lhs
  noEndR : NoEnd r.1.rhs
  lfin : Lfin set r.1 = Lfin set st
  rfin : Rfin set r.1 = Rfin set st
  cnt : ∀ k v1 v2, JQ st k v1 v2 + JB r.1 k v1 v2 =
      (if r.2 = .ready (k, v1, v2) then 1 else 0) + JQ r.1 k v1 v2 + JB st k v1 v2
  ended : r.2 = .ended → r.1.lhs = [] ∧ r.1.rhs = [] ∧ r.1.ls.queue = [] ∧ r.1.rs.queue = []
  progress : r.2 ≠ .ended → (qlen r.1 + 1 = qlen st ∧ slen r.1 = slen st) ∨ slen r.1 < slen st

/-- a silent step (an arrival that produced no match) followed by the rest of the loop -/
theorem aux_loopOk_trans (set : Bool) (st st1 : JoinSt κ ν1 ν2) (r : JoinSt κ ν1 ν2 × Step (κ × ν1 × ν2))
    (hl : Lfin set st1 = Lfin set st) (hr : Rfin set st1 = Rfin set st)
    (hc : ∀ k v1 v2, JQ st k v1 v2 + JB st1 k v1 v2 = JQ st1 k v1 v2 + JB st k v1 v2)
    (hs : slen st1 < slen st) (h : LoopOk set st1 r) : LoopOk set st r where
  noEndL := h.noEndL
  noEndR := h.noEndR
  lfin := h.lfin.trans hl
  rfin := h.rfin.trans hr
  cnt := fun k v1 v2 => by have := h.cnt k v1 v2; have := hc k v1 v2; omega
  ended := h.ended
  progress := fun hne => by
    rcases h.progress hne with ⟨_, h2⟩ | h2
    · right; omega
    · right; omega

/-- an lhs arrival `(k0, w1)` -/
theorem aux_feedL (set : Bool) (st : JoinSt κ ν1 ν2) (k0 : κ) (w1 : ν1) (l' : Src (κ × ν1))
    (hlhs : st.lhs = .ready (k0, w1) :: l') :
    let bp := buildProbe set st.ls st.rs k0 w1
    let st1 : JoinSt κ ν1 ν2 := { st with lhs := l', ls := bp.1, rs := bp.2.1 }
    Lfin set st1 = Lfin set st ∧ Rfin set st1 = Rfin set st ∧
    ∀ k v1 v2, JQ st k v1 v2 + JB st1 k v1 v2 =
      (if bp.2.2 = some (k, v1, v2) then 1 else 0) + JQ st1 k v1 v2 + JB st k v1 v2 := by
  intro bp st1
  obtain ⟨hq, ht, hot, hcnt⟩ := aux_buildProbe set st.ls st.rs k0 w1
  refine ⟨?_, ?_, fun k v1 v2 => ?_⟩
  · simp only [Lfin, st1, bp, ht, hlhs, items, finalT, foldl_cons]
  · simp only [Rfin, st1, bp, hot]
  · have := hcnt k v1 v2
    simp only [JQ, JB, st1, bp, hq, hot] at this ⊢
    omega

/-- an rhs arrival `(k0, w2)` -/
theorem aux_feedR (set : Bool) (st : JoinSt κ ν1 ν2) (k0 : κ) (w2 : ν2) (l' : Src (κ × ν1)) (r' : Src (κ × ν2))
    (hl : items l' = items st.lhs) (hrhs : st.rhs = .ready (k0, w2) :: r') :
    let bp := buildProbe set st.rs st.ls k0 w2
    let st1 : JoinSt κ ν1 ν2 := { st with lhs := l', rhs := r', ls := bp.2.1, rs := bp.1 }
    Lfin set st1 = Lfin set st ∧ Rfin set st1 = Rfin set st ∧
    ∀ k v1 v2, JQ st k v1 v2 + JB st1 k v1 v2 =
      (if bp.2.2 = some (k, v2, v1) then 1 else 0) + JQ st1 k v1 v2 + JB st k v1 v2 := by
  intro bp st1
  obtain ⟨hq, ht, hot, hcnt⟩ := aux_buildProbe set st.rs st.ls k0 w2
  refine ⟨?_, ?_, fun k v1 v2 => ?_⟩
  · simp only [Lfin, st1, bp, hot, hl]
  · simp only [Rfin, st1, bp, ht, hrhs, items, finalT, foldl_cons]
  · have := hcnt k v2 v1
    simp only [JQ, JB, st1, bp, hq, hot] at this ⊢
    rw [Nat.mul_comm (tcount st.ls.table k v1), Nat.mul_comm (tcount st.ls.table k v1)]
    omega

omit [DecidableEq κ] [DecidableEq ν1] [DecidableEq ν2] in
theorem aux_triple_swap (k0 k : κ) (w1 v1 : ν1) (w2 v2 : ν2) :
    ((k0, w2, w1) = (k, v2, v1)) ↔ ((k0, w1, w2) = (k, v1, v2)) := by
  simp only [Prod.mk.injEq]; constructor <;> (rintro ⟨a, b, c⟩; exact ⟨a, c, b⟩)

/-- the rhs half of the loop body, once lhs reported `lstep ∈ {Pending, Ended}` leaving `lhs'` -/
theorem aux_loop (set : Bool) (f : Nat) (st : JoinSt κ ν1 ν2) (hl : NoEnd st.lhs) (hr : NoEnd st.rhs)
    (hf : slen st < f) : LoopOk set st (joinLoop set f st) := by
  induction f generalizing st with
  | zero => simp at hf
  | succ f ih =>
    obtain ⟨lhs, rhs, ls, rs⟩ := st
    simp only [slen] at hf
    simp only at hl hr
    rcases hlq : ls.queue with _ | ⟨⟨k0, w2, w1⟩, q⟩
    · rcases hrq : rs.queue with _ | ⟨⟨k0, w1, w2⟩, q⟩
      · -- both queues empty: pull
        -- the rhs half, shared by the two ways lhs can fail to deliver
        have rhsHalf : ∀ (lhs' : Src (κ × ν1)) (lstep : Step (κ × ν1)),
            (lhs = [] ∧ lhs' = [] ∧ lstep = .ended) ∨ (lhs = .pending :: lhs' ∧ lstep = .pending) →
            LoopOk set ⟨lhs, rhs, ls, rs⟩
              (match rhs.pull with
              | (rhs', .ready (k, v2)) =>
                match buildProbe set rs ls k v2 with
                | (rs', ls', some (k, v2, v1)) => (⟨lhs', rhs', ls', rs'⟩, .ready (k, v1, v2))
                | (rs', ls', none) => joinLoop set f ⟨lhs', rhs', ls', rs'⟩
              | (rhs', rstep) =>
                if lstep = .pending ∨ rstep = .pending then (⟨lhs', rhs', ls, rs⟩, .pending)
                else (⟨lhs', rhs', ls, rs⟩, .ended)) := by
          intro lhs' lstep hcase
          have hitems : items lhs' = items lhs := by
            rcases hcase with ⟨h1, h2, _⟩ | ⟨h1, _⟩
            · simp [h1, h2]
            · simp [h1, items]
          have hlen : lhs'.length ≤ lhs.length := by
            rcases hcase with ⟨h1, h2, _⟩ | ⟨h1, _⟩
            · simp [h1, h2]
            · simp [h1]
          have hl' : NoEnd lhs' := by
            rcases hcase with ⟨h1, h2, _⟩ | ⟨h1, _⟩
            · rw [h2]; exact aux_noEnd_nil
            · rw [h1] at hl; exact aux_noEnd_tail hl
          rcases rhs with _ | ⟨(⟨k0, w2⟩ | _ | _), r'⟩
          · -- rhs exhausted
            simp only [Src.pull]
            rcases hcase with ⟨h1, h2, h3⟩ | ⟨h1, h3⟩
            · subst h1 h2 h3
              simp only [reduceCtorEq, or_self, if_false]
              exact ⟨hl, hr, rfl, rfl, (fun k v1 v2 => by simp), fun _ => ⟨rfl, rfl, hlq, hrq⟩,
                fun h => absurd rfl h⟩
            · subst h1 h3
              simp only [true_or, if_true]
              exact ⟨hl', hr, (by simp [Lfin, items]), rfl, (fun k v1 v2 => by simp [JQ, JB]),
                (fun h => by cases h), fun _ => Or.inr (by simp [slen])⟩
          · -- rhs delivers (k0, w2)
            obtain ⟨f1, f2, f3⟩ := aux_feedR set ⟨lhs, .ready (k0, w2) :: r', ls, rs⟩ k0 w2 lhs' r' hitems rfl
            simp only [Src.pull]
            rcases hbp : buildProbe set rs ls k0 w2 with ⟨rs', ls', _ | ⟨k1, x2, x1⟩⟩
            · -- no match: the loop goes on
              simp only [hbp] at f1 f2 f3 ⊢
              refine aux_loopOk_trans set _ ⟨lhs', r', ls', rs'⟩ _ f1 f2 (fun k v1 v2 => by simpa using f3 k v1 v2)
                (by simp [slen]; omega) (ih _ hl' (aux_noEnd_tail hr) (by simp [slen] at hf ⊢; omega))
            · simp only [hbp] at f1 f2 f3 ⊢
              refine ⟨hl', aux_noEnd_tail hr, f1, f2, fun k v1 v2 => ?_, (fun h => by cases h),
                fun _ => Or.inr (by simp [slen]; omega)⟩
              have := f3 k v1 v2
              simp only [Option.some.injEq, Step.ready.injEq, aux_triple_swap] at this ⊢
              exact this
          · -- rhs pending
            simp only [Src.pull, or_true, if_true]
            exact ⟨hl', aux_noEnd_tail hr, (by simp [Lfin, hitems]), (by simp [Rfin, items]),
              (fun k v1 v2 => by simp [JQ, JB]), (fun h => by cases h), fun _ => Or.inr (by simp [slen]; omega)⟩
          · exact (aux_noEnd_head hr).elim
        rcases lhs with _ | ⟨(⟨k0, w1⟩ | _ | _), l'⟩
        · -- lhs exhausted
          have := rhsHalf [] .ended (Or.inl ⟨rfl, rfl, rfl⟩)
          simp only [joinLoop, Half.popMatch, hlq, hrq, Src.pull]
          exact this
        · -- lhs delivers (k0, w1)
          obtain ⟨f1, f2, f3⟩ := aux_feedL set ⟨.ready (k0, w1) :: l', rhs, ls, rs⟩ k0 w1 l' rfl
          simp only [joinLoop, Half.popMatch, hlq, hrq, Src.pull]
          rcases hbp : buildProbe set ls rs k0 w1 with ⟨ls', rs', _ | ⟨k1, x1, x2⟩⟩
          · simp only [hbp] at f1 f2 f3 ⊢
            refine aux_loopOk_trans set _ ⟨l', rhs, ls', rs'⟩ _ f1 f2 (fun k v1 v2 => by simpa using f3 k v1 v2)
              (by simp [slen]) (ih _ (aux_noEnd_tail hl) hr (by simp [slen] at hf ⊢; omega))
          · simp only [hbp] at f1 f2 f3 ⊢
            refine ⟨aux_noEnd_tail hl, hr, f1, f2, fun k v1 v2 => ?_, (fun h => by cases h),
              fun _ => Or.inr (by simp [slen])⟩
            have := f3 k v1 v2
            simp only [Option.some.injEq, Step.ready.injEq] at this ⊢
            exact this
        · -- lhs pending
          have := rhsHalf l' .pending (Or.inr ⟨rfl, rfl⟩)
          simp only [joinLoop, Half.popMatch, hlq, hrq, Src.pull]
          exact this
        · exact (aux_noEnd_head hl).elim
      · -- a match queued in rhs_state
        simp only [joinLoop, Half.popMatch, hlq, hrq]
        refine ⟨hl, hr, rfl, rfl, fun k v1 v2 => ?_, (fun h => by cases h),
          fun _ => Or.inl ⟨(by simp [qlen, hlq, hrq]), rfl⟩⟩
        simp only [JQ, JB, hlq, hrq, count_cons, Step.ready.injEq, beq_iff_eq]
        by_cases e : (k0, w1, w2) = (k, v1, v2) <;> simp [e] <;> omega
    · -- a match queued in lhs_state
      simp only [joinLoop, Half.popMatch, hlq]
      refine ⟨hl, hr, rfl, rfl, fun k v1 v2 => ?_, (fun h => by cases h),
        fun _ => Or.inl ⟨(by simp [qlen, hlq]; omega), rfl⟩⟩
      simp only [JQ, JB, hlq, count_cons, Step.ready.injEq, beq_iff_eq, aux_triple_swap]
      by_cases e : (k0, w1, w2) = (k, v1, v2) <;> simp [e] <;> omega

theorem aux_step (set : Bool) (st : JoinSt κ ν1 ν2) (hl : NoEnd st.lhs) (hr : NoEnd st.rhs) :
    LoopOk set st (joinStep set st) :=
  aux_loop set _ st hl hr (by simp [slen])

/-- the multiplicity of `(k,(v1,v2))` in the join of the final tables -/
def JT (set : Bool) (st : JoinSt κ ν1 ν2) (k : κ) (v1 : ν1) (v2 : ν2) : Nat :=
  tcount (Lfin set st) k v1 * tcount (Rfin set st) k v2

theorem aux_join_drive (set : Bool) (s : Nat) : ∀ (q : Nat) (st : JoinSt κ ν1 ν2), slen st = s → qlen st = q →
    NoEnd st.lhs → NoEnd st.rhs →
    ∃ N, ∀ n, N ≤ n → ∀ k v1 v2,
      count (k, v1, v2) (drive (joinStep set) n st) + JB st k v1 v2 = JQ st k v1 v2 + JT set st k v1 v2 := by
  induction s using Nat.strongRecOn with
  | ind s ihs =>
    intro q
    induction q using Nat.strongRecOn with
    | ind q ihq =>
      intro st hs hq hl hr
      have ok := aux_step set st hl hr
      rcases hstep : joinStep set st with ⟨st', a⟩
      rw [hstep] at ok
      have hT : ∀ k v1 v2, JT set st' k v1 v2 = JT set st k v1 v2 := by
        intro k v1 v2; simp only [JT]; rw [ok.lfin, ok.rfin]
      by_cases hend : a = .ended
      · subst hend
        refine ⟨1, fun n hn k v1 v2 => ?_⟩
        obtain ⟨n', rfl⟩ : ∃ n', n = n' + 1 := ⟨n - 1, by omega⟩
        obtain ⟨e1, e2, e3, e4⟩ := ok.ended rfl
        have hc := ok.cnt k v1 v2
        have hq0 : JQ st' k v1 v2 = 0 := by simp only [JQ] at *; simp [e3, e4]
        have hb : JB st' k v1 v2 = JT set st' k v1 v2 := by
          simp only [JB, JT, Lfin, Rfin] at *; simp [e1, e2, items, finalT]
        have := hT k v1 v2
        simp only [drive, hstep]
        simp only [reduceCtorEq, if_false] at hc
        simp only [count_nil]
        omega
      · -- the rest of the run
        have hrest : ∃ N', ∀ n, N' ≤ n → ∀ k v1 v2,
            count (k, v1, v2) (drive (joinStep set) n st') + JB st' k v1 v2 = JQ st' k v1 v2 + JT set st' k v1 v2 := by
          have hp := ok.progress hend
          simp only at hp
          rcases hp with ⟨h1, h2⟩ | h2
          · exact ihq (qlen st') (by omega) st' (by omega) rfl ok.noEndL ok.noEndR
          · exact ihs (slen st') (by omega) (qlen st') st' rfl rfl ok.noEndL ok.noEndR
        obtain ⟨N', hN'⟩ := hrest
        refine ⟨N' + 1, fun n hn k v1 v2 => ?_⟩
        obtain ⟨n', rfl⟩ : ∃ n', n = n' + 1 := ⟨n - 1, by omega⟩
        have h1 := hN' n' (by omega) k v1 v2
        have hc := ok.cnt k v1 v2
        have := hT k v1 v2
        cases a with
        | ended => exact absurd rfl hend
        | pending =>
          simp only [drive, hstep]
          simp only [reduceCtorEq, if_false] at hc
          omega
        | ready x =>
          simp only [drive, hstep, count_cons]
          simp only [Step.ready.injEq, beq_iff_eq] at hc ⊢
          omega

/-- **Invariant form.** From any state (tables, queued matches), driving the join to the end
under any interleaving and pending placement emits, for each `(k,(v1,v2))`, exactly the queued
matches plus the growth of the join of the tables: `emitted ⊎ join(tables₀) = queued₀ ⊎ join(tables_final)`. -/
theorem join_emitted_plus_old_eq_queued_plus_final (set : Bool) (st : JoinSt κ ν1 ν2)
    (hl : NoEnd st.lhs) (hr : NoEnd st.rhs) :
    ∃ N, ∀ n, N ≤ n → ∀ k v1 v2,
      count (k, v1, v2) (drive (joinStep set) n st) + JB st k v1 v2 = JQ st k v1 v2 + JT set st k v1 v2 :=
  aux_join_drive set _ _ st rfl rfl hl hr

/-! ### the final tables -/

theorem aux_finalT_multi (t : Table κ ν) (its : List (κ × ν)) (k : κ) (v : ν) :
    tcount (finalT false t its) k v = tcount t k v + count (k, v) its := by
  induction its generalizing t with
  | nil => simp [finalT]
  | cons kv its ih =>
    obtain ⟨k0, v0⟩ := kv
    simp only [finalT, foldl_cons] at ih ⊢
    rw [ih, (aux_build false t k0 v0).2 k v, (aux_build false t k0 v0).1, count_cons]
    by_cases e : (k0, v0) = (k, v)
    · simp only [Prod.mk.injEq] at e; simp [e]; try omega
    · have e' : ¬ (k0 = k ∧ v0 = v) := by simpa using e
      simp [e']

theorem aux_finalT_set (t : Table κ ν) (its : List (κ × ν)) (k : κ) (v : ν) :
    tcount (finalT true t its) k v =
      if 0 < tcount t k v then tcount t k v else if (k, v) ∈ its then 1 else 0 := by
  induction its generalizing t with
  | nil => simp [finalT]; try omega
  | cons kv its ih =>
    obtain ⟨k0, v0⟩ := kv
    simp only [finalT, foldl_cons] at ih ⊢
    rw [ih, (aux_build true t k0 v0).2 k v, (aux_build true t k0 v0).1]
    by_cases e : k0 = k ∧ v0 = v
    · obtain ⟨rfl, rfl⟩ := e
      by_cases h0 : tcount t k0 v0 = 0
      · simp [h0]
      · have hpos : 0 < tcount t k0 v0 := by omega
        simp [h0, hpos]
    · have e2 : ¬ ((k, v) = (k0, v0)) := by
        intro h; simp only [Prod.mk.injEq] at h; exact e ⟨h.1.symm, h.2.symm⟩
      simp [e, e2]

theorem aux_tcount_nil (k : κ) (v : ν) : tcount ([] : Table κ ν) k v = 0 := by
  simp [tcount, Table.fullProbe, Table.get]

/-- **Multiset state, fresh start**: every matching pair of arrivals is emitted exactly once per
pair of occurrences: multiplicity = (#occurrences of `(k,v1)` on the left) × (# of `(k,v2)` on the right),
for every interleaving and every placement of `Pending`. -/
theorem join_complete_exactly_once_multiset (lhs : Src (κ × ν1)) (rhs : Src (κ × ν2))
    (hl : NoEnd lhs) (hr : NoEnd rhs) :
    ∃ N, ∀ n, N ≤ n → ∀ k v1 v2,
      count (k, v1, v2) (drive (joinStep false) n ⟨lhs, rhs, Half.empty, Half.empty⟩)
        = count (k, v1) (items lhs) * count (k, v2) (items rhs) := by
  obtain ⟨N, hN⟩ := join_emitted_plus_old_eq_queued_plus_final false ⟨lhs, rhs, Half.empty, Half.empty⟩ hl hr
  refine ⟨N, fun n hn k v1 v2 => ?_⟩
  have := hN n hn k v1 v2
  generalize drive (joinStep false) n (⟨lhs, rhs, Half.empty, Half.empty⟩ : JoinSt κ ν1 ν2) = out at this ⊢
  simpa [JB, JQ, JT, Lfin, Rfin, Half.empty, aux_tcount_nil, aux_finalT_multi] using this

/-- **Set state, fresh start**: `(k,(v1,v2))` is emitted exactly once if `(k,v1)` arrived on the
left and `(k,v2)` on the right (however often), and never otherwise. -/
theorem join_complete_exactly_once_set (lhs : Src (κ × ν1)) (rhs : Src (κ × ν2))
    (hl : NoEnd lhs) (hr : NoEnd rhs) :
    ∃ N, ∀ n, N ≤ n → ∀ k v1 v2,
      count (k, v1, v2) (drive (joinStep true) n ⟨lhs, rhs, Half.empty, Half.empty⟩)
        = if (k, v1) ∈ items lhs ∧ (k, v2) ∈ items rhs then 1 else 0 := by
  obtain ⟨N, hN⟩ := join_emitted_plus_old_eq_queued_plus_final true ⟨lhs, rhs, Half.empty, Half.empty⟩ hl hr
  refine ⟨N, fun n hn k v1 v2 => ?_⟩
  have := hN n hn k v1 v2
  generalize drive (joinStep true) n (⟨lhs, rhs, Half.empty, Half.empty⟩ : JoinSt κ ν1 ν2) = out at this ⊢
  simp only [JB, JQ, JT, Lfin, Rfin, Half.empty, aux_tcount_nil, aux_finalT_set, count_nil,
    Nat.lt_irrefl, if_false, Nat.zero_mul, Nat.add_zero, Nat.zero_add] at this
  rw [this]
  by_cases h1 : (k, v1) ∈ items lhs <;> by_cases h2 : (k, v2) ∈ items rhs <;> simp [h1, h2]

/-- corollary: with set semantics the output has no duplicates -/
theorem join_set_output_nodup (lhs : Src (κ × ν1)) (rhs : Src (κ × ν2)) (hl : NoEnd lhs) (hr : NoEnd rhs) :
    ∃ N, ∀ n, N ≤ n → (drive (joinStep true) n ⟨lhs, rhs, Half.empty, Half.empty⟩).Nodup := by
  obtain ⟨N, hN⟩ := join_complete_exactly_once_set lhs rhs hl hr
  refine ⟨N, fun n hn => ?_⟩
  rw [nodup_iff_count_le_one]
  rintro ⟨k, v1, v2⟩
  rw [hN n hn k v1 v2]; split <;> omega

/-! ### fused -/

theorem join_fused (set : Bool) (st : JoinSt κ ν1 ν2) (hl : NoEnd st.lhs) (hr : NoEnd st.rhs) :
    FusedAt (joinStep set) st := by
  refine aux_fused_of_inv _ (fun st => NoEnd st.lhs ∧ NoEnd st.rhs)
    (fun st => st.lhs = [] ∧ st.rhs = [] ∧ st.ls.queue = [] ∧ st.rs.queue = []) ?_ ?_ ?_ st ⟨hl, hr⟩
  · intro st ⟨h1, h2⟩; have ok := aux_step set st h1 h2; exact ⟨ok.noEndL, ok.noEndR⟩
  · intro st ⟨h1, h2⟩ he; exact (aux_step set st h1 h2).ended he
  · rintro ⟨lhs, rhs, ls, rs⟩ ⟨h1, h2, h3, h4⟩
    simp only at h1 h2 h3 h4; subst h1 h2
    simp [joinStep, joinLoop, Half.popMatch, h3, h4, Src.pull]

/-! ### the new-tick path -/

/-- keys are distinct (what `entry()` maintains) -/
def Table.WF (t : Table κ ν) : Prop := (t.map Prod.fst).Nodup

omit [DecidableEq ν] in
theorem aux_get_none (t : Table κ ν) (k : κ) (h : k ∉ t.map Prod.fst) : t.get k = none := by
  induction t with
  | nil => rfl
  | cons e r ih =>
    obtain ⟨k0, vs⟩ := e
    simp only [map_cons, mem_cons, not_or] at h
    simp [Table.get, Ne.symm h.1, ih h.2]

omit [DecidableEq ν] in
theorem aux_push_keys (t : Table κ ν) (k : κ) (v : ν) :
    (t.push k v).map Prod.fst = if k ∈ t.map Prod.fst then t.map Prod.fst else t.map Prod.fst ++ [k] := by
  induction t with
  | nil => simp [Table.push]
  | cons e r ih =>
    obtain ⟨k0, vs⟩ := e
    by_cases h0 : k0 = k
    · subst h0; simp [Table.push]
    · have : ¬ k = k0 := fun e => h0 e.symm
      simp only [Table.push, h0, if_false, map_cons, ih, mem_cons, this, false_or]
      split <;> simp

omit [DecidableEq ν] in
theorem aux_wf_push (t : Table κ ν) (k : κ) (v : ν) (h : t.WF) : (t.push k v).WF := by
  unfold Table.WF at *
  rw [aux_push_keys]
  split
  · exact h
  · rename_i hk
    rw [nodup_append]
    refine ⟨h, by simp, ?_⟩
    intro a ha b hb; simp at hb; subst hb; intro e; subst e; exact hk ha

theorem aux_wf_build (set : Bool) (t : Table κ ν) (k : κ) (v : ν) (h : t.WF) : (t.build set k v).1.WF := by
  unfold Table.build
  split
  · split
    · split
      · exact h
      · exact aux_wf_push t k v h
    · exact aux_wf_push t k v h
  · exact aux_wf_push t k v h

theorem aux_wf_finalT (set : Bool) (t : Table κ ν) (its : List (κ × ν)) (h : t.WF) : (finalT set t its).WF := by
  induction its generalizing t with
  | nil => exact h
  | cons kv its ih => exact ih _ (aux_wf_build set t kv.1 kv.2 h)

theorem aux_count_inner_l (k0 : κ) (vs : List ν1) (ws : List ν2) (k : κ) (v1 : ν1) (v2 : ν2) :
    count (k, v1, v2) (vs.flatMap fun v => ws.map fun w => (k0, v, w)) =
      if k0 = k then count v1 vs * count v2 ws else 0 := by
  induction vs with
  | nil => simp
  | cons a as ih =>
    simp only [flatMap_cons, count_append, ih, aux_count_map_triple, count_cons]
    by_cases hk : k0 = k
    · subst hk
      by_cases ha : a = v1
      · subst ha; simp [Nat.add_mul]; omega
      · have : ¬ v1 = a := fun e => ha e.symm
        simp [ha, this]
    · have : ¬ k = k0 := fun e => hk e.symm
      simp [hk, this]

theorem aux_count_map_mid (k0 : κ) (v : ν2) (l : List ν1) (k : κ) (v1 : ν1) (v2 : ν2) :
    count (k, v1, v2) (l.map fun w => (k0, w, v)) = if k = k0 ∧ v2 = v then count v1 l else 0 := by
  induction l with
  | nil => simp
  | cons b bs ih =>
    simp only [map_cons, count_cons, ih]
    by_cases h : k = k0 ∧ v2 = v
    · obtain ⟨rfl, rfl⟩ := h; simp
    · have : ¬ ((k0, b, v) = (k, v1, v2)) := by
        intro e; simp only [Prod.mk.injEq] at e; exact h ⟨e.1.symm, e.2.2.symm⟩
      simp [h, this]

theorem aux_count_inner_r (k0 : κ) (vs : List ν2) (ws : List ν1) (k : κ) (v1 : ν1) (v2 : ν2) :
    count (k, v1, v2) (vs.flatMap fun v => ws.map fun w => (k0, w, v)) =
      if k0 = k then count v1 ws * count v2 vs else 0 := by
  induction vs with
  | nil => simp
  | cons a as ih =>
    simp only [flatMap_cons, count_append, ih, aux_count_map_mid, count_cons]
    by_cases hk : k0 = k
    · subst hk
      by_cases ha : a = v2
      · subst ha; simp [Nat.mul_add]; omega
      · have : ¬ v2 = a := fun e => ha e.symm
        simp [ha, this]
    · have : ¬ k = k0 := fun e => hk e.symm
      simp [hk, this]

omit [DecidableEq ν2] in
theorem aux_tcount_cons (k0 : κ) (vs : List ν1) (r : Table κ ν1) (k : κ) (v : ν1) :
    tcount ((k0, vs) :: r) k v = if k0 = k then count v vs else tcount r k v := by
  simp only [tcount, Table.fullProbe, Table.get]; split <;> simp

theorem aux_count_outer_l (L : Table κ ν1) (R : Table κ ν2) (h : L.WF) (k : κ) (v1 : ν1) (v2 : ν2) :
    count (k, v1, v2)
      (L.flatMap fun e => e.2.flatMap fun v => (R.fullProbe e.1).map fun w => (e.1, v, w)) =
      tcount L k v1 * tcount R k v2 := by
  induction L with
  | nil => simp [aux_tcount_nil]
  | cons e r ih =>
    obtain ⟨k0, vs⟩ := e
    have hr : Table.WF r := by unfold Table.WF at *; simp at h; exact h.2
    have hk0 : k0 ∉ r.map Prod.fst := by unfold Table.WF at h; simp at h; simpa using h.1
    simp only [flatMap_cons, count_append, ih hr, aux_count_inner_l, aux_tcount_cons]
    by_cases hk : k0 = k
    · subst hk
      have : tcount r k0 v1 = 0 := by simp [tcount, Table.fullProbe, aux_get_none r k0 hk0]
      rw [this]; simp [tcount]
    · simp [hk]

theorem aux_count_outer_r (L : Table κ ν1) (R : Table κ ν2) (h : R.WF) (k : κ) (v1 : ν1) (v2 : ν2) :
    count (k, v1, v2)
      (R.flatMap fun e => e.2.flatMap fun v => (L.fullProbe e.1).map fun w => (e.1, w, v)) =
      tcount L k v1 * tcount R k v2 := by
  induction R with
  | nil => simp [aux_tcount_nil]
  | cons e r ih =>
    obtain ⟨k0, vs⟩ := e
    have hr : Table.WF r := by unfold Table.WF at *; simp at h; exact h.2
    have hk0 : k0 ∉ r.map Prod.fst := by unfold Table.WF at h; simp at h; simpa using h.1
    simp only [flatMap_cons, count_append, ih hr, aux_count_inner_r]
    rw [aux_tcount_cons (ν1 := ν2)]
    by_cases hk : k0 = k
    · subst hk
      have : tcount r k0 v2 = 0 := by simp [tcount, Table.fullProbe, aux_get_none r k0 hk0]
      rw [this]; simp [tcount]
    · simp [hk]

/-- **New-tick path**: whatever the orientation chosen by `len`, the enumeration contains
`(k,(v1,v2))` exactly `|lhsTable[k,v1]| * |rhsTable[k,v2]|` times: the join of the two tables. -/
theorem newTick_emits_join_of_tables (ls : Half κ ν1 ν2) (rs : Half κ ν2 ν1)
    (hl : ls.table.WF) (hr : rs.table.WF) (k : κ) (v1 : ν1) (v2 : ν2) :
    count (k, v1, v2) (newTickJoin ls rs) = tcount ls.table k v1 * tcount rs.table k v2 := by
  unfold newTickJoin newTickIter
  split
  · exact aux_count_outer_l ls.table rs.table hl k v1 v2
  · exact aux_count_outer_r ls.table rs.table hr k v1 v2

omit [DecidableEq νp] in
/-- draining a list of arrivals into a half-join state builds `finalT` -/
theorem aux_drain_table (set : Bool) (h : Half κ νb νp) (its : List (κ × νb)) :
    (its.foldl (drainG set) h).table = finalT set h.table its := by
  induction its generalizing h with
  | nil => rfl
  | cons kv its ih =>
    simp only [foldl_cons, finalT] at ih ⊢
    rw [ih]; congr 1
    exact (aux_half_build set h kv.1 kv.2).2.1

/-- poll the `symmetric_hash_join(.., is_new_tick = true)` future until it resolves;
the two half-join states it resolves with -/
def driveNew (set : Bool) : Nat → NewSt κ ν1 ν2 → Option (Half κ ν1 ν2 × Half κ ν2 ν1)
  | 0, _ => none
  | n + 1, st =>
    match newTickPoll set st with
    | (st', true) => some (st'.ls, st'.rs)
    | (st', false) => driveNew set n st'

theorem aux_driveNew_rhs (set : Bool) (l : Src (κ × ν1)) (ls : Half κ ν1 ν2) (rhs : Src (κ × ν2))
    (rs : Half κ ν2 ν1) (n : Nat) (h : rhs.length < n) :
    driveNew set n ⟨l, rhs, ls, rs, 1⟩ = some (ls, (items rhs).foldl (drainG set) rs) := by
  induction rhs generalizing n rs with
  | nil => cases n <;> simp_all [driveNew, newTickPoll, foldPoll, items]
  | cons a r ih =>
    cases n with
    | zero => simp at h
    | succ n =>
      cases a with
      | ready x =>
        have := ih (drainG set rs x) (n + 1) (by simp at h; omega)
        simp only [driveNew, newTickPoll] at this ⊢
        simpa [foldPoll, items] using this
      | pending =>
        have := ih rs n (by simpa using h)
        simp [driveNew, newTickPoll, foldPoll, items, this]
      | ended => simp [driveNew, newTickPoll, foldPoll, items]

theorem aux_driveNew_phase (set : Bool) (ls : Half κ ν1 ν2) (rhs : Src (κ × ν2)) (rs : Half κ ν2 ν1) (n : Nat) :
    driveNew set n ⟨[], rhs, ls, rs, 0⟩ = driveNew set n ⟨[], rhs, ls, rs, 1⟩ := by
  cases n with
  | zero => rfl
  | succ n =>
    simp only [driveNew, newTickPoll, foldPoll]

/-- **Drain**: however the inputs pend, the future resolves with both states holding exactly
the arrivals (`build` folded over the items, lhs then rhs) -/
theorem newTick_drain_refines (set : Bool) (lhs : Src (κ × ν1)) (rhs : Src (κ × ν2))
    (ls : Half κ ν1 ν2) (rs : Half κ ν2 ν1) (n : Nat) (h : lhs.length + rhs.length < n) :
    driveNew set n ⟨lhs, rhs, ls, rs, 0⟩ =
      some ((items lhs).foldl (drainG set) ls, (items rhs).foldl (drainG set) rs) := by
  induction lhs generalizing n ls with
  | nil =>
    rw [aux_driveNew_phase, aux_driveNew_rhs set [] ls rhs rs n (by simpa using h)]; simp [items]
  | cons a l ih =>
    cases n with
    | zero => simp at h
    | succ n =>
      cases a with
      | ready x =>
        have := ih (drainG set ls x) (n + 1) (by simp at h ⊢; omega)
        simp only [driveNew, newTickPoll] at this ⊢
        simpa [foldPoll, items] using this
      | pending =>
        have := ih ls n (by simp at h ⊢; omega)
        simp [driveNew, newTickPoll, foldPoll, items, this]
      | ended =>
        -- a premature `Ended` ends the drain of that side (the operator fuses its inputs)
        have := aux_driveNew_rhs set l ls rhs rs (n + 1) (by simp at h ⊢; omega)
        simp only [driveNew, newTickPoll, foldPoll, items, foldl_nil] at this ⊢
        rcases hf : foldPoll (drainG set) rhs rs with ⟨⟨r', rs'⟩, _ | _⟩ <;> simp [hf] at this ⊢ <;> exact this

omit [DecidableEq κ] [DecidableEq ν] in
theorem aux_wf_nil : Table.WF ([] : Table κ ν) := by simp [Table.WF]

/-- **New-tick = incremental** (fresh state): the drain-then-enumerate path used at tick start
yields a permutation of what the incremental path emits, for every pending placement on either path. -/
theorem newTick_eq_incremental (set : Bool) (lhs : Src (κ × ν1)) (rhs : Src (κ × ν2))
    (hl : NoEnd lhs) (hr : NoEnd rhs) :
    ∃ N, ∀ n, N ≤ n → ∀ m, lhs.length + rhs.length < m →
      ∃ ls' rs', driveNew set m ⟨lhs, rhs, Half.empty, Half.empty, 0⟩ = some (ls', rs') ∧
        (newTickJoin ls' rs').Perm (drive (joinStep set) n ⟨lhs, rhs, Half.empty, Half.empty⟩) := by
  obtain ⟨N, hN⟩ := join_emitted_plus_old_eq_queued_plus_final set ⟨lhs, rhs, Half.empty, Half.empty⟩ hl hr
  refine ⟨N, fun n hn m hm => ⟨_, _, newTick_drain_refines set lhs rhs _ _ m hm, ?_⟩⟩
  rw [perm_iff_count]
  rintro ⟨k, v1, v2⟩
  have h1 := hN n hn k v1 v2
  have hwl : ((items lhs).foldl (drainG set) (Half.empty : Half κ ν1 ν2)).table.WF := by
    rw [aux_drain_table]; exact aux_wf_finalT set _ _ aux_wf_nil
  have hwr : ((items rhs).foldl (drainG set) (Half.empty : Half κ ν2 ν1)).table.WF := by
    rw [aux_drain_table]; exact aux_wf_finalT set _ _ aux_wf_nil
  rw [newTick_emits_join_of_tables _ _ hwl hwr, aux_drain_table, aux_drain_table]
  generalize drive (joinStep set) n (⟨lhs, rhs, Half.empty, Half.empty⟩ : JoinSt κ ν1 ν2) = out at h1 ⊢
  simp only [JB, JQ, JT, Lfin, Rfin, Half.empty, aux_tcount_nil, count_nil, Nat.zero_mul, Nat.add_zero,
    Nat.zero_add] at h1
  simpa [Half.empty] using h1.symm

/-! ### `NewTickJoinIter`: the transcribed state machine enumerates what the nested loops denote -/

/-- what a state of the iterator will still yield -/
def NTI.rem {νo νi : Type} (probe : κ → List νi) (s : NTI κ νo νi) : List (κ × νo × νi) :=
  (match s.inner, s.key, s.oval with
    | some ws, some k, some v => ws.map fun w => (k, v, w)
    | _, _, _ => []) ++
  ((match s.ovals, s.key with
    | some vs, some k => vs.flatMap fun v => (probe k).map fun w => (k, v, w)
    | _, _ => []) ++
  (match s.outer with
    | some es => es.flatMap fun e => e.2.flatMap fun v => (probe e.1).map fun w => (e.1, v, w)
    | none => []))

/-- the `unwrap()`s cannot fail -/
def NTI.Good {νo νi : Type} (s : NTI κ νo νi) : Prop :=
  (∀ w ws, s.inner = some (w :: ws) → s.key.isSome ∧ s.oval.isSome) ∧
  (∀ v vs, s.ovals = some (v :: vs) → s.key.isSome)

def BodyOk {νo νi : Type} (probe : κ → List νi) (s : NTI κ νo νi) : NTIRes κ νo νi → Prop
  | .ret s' (some x) => s'.Good ∧ s.rem probe = x :: s'.rem probe
  | .ret _ none => s.rem probe = []
  | .cont s' => s'.Good ∧ s'.rem probe = s.rem probe ∧ s'.measure + 1 = s.measure

theorem aux_ntiBody {νo νi : Type} (probe : κ → List νi) (s : NTI κ νo νi) (h : s.Good) :
    BodyOk probe s (ntiBody probe s) := by
  obtain ⟨outer, key, ovals, oval, inner⟩ := s
  rcases inner with _ | _ | ⟨w, ws⟩ <;> rcases ovals with _ | _ | ⟨v, vs⟩ <;> rcases key with _ | k <;>
    rcases oval with _ | ov <;> rcases outer with _ | _ | ⟨⟨k', vals⟩, rest⟩ <;>
    simp_all [ntiBody, BodyOk, NTI.rem, NTI.Good, NTI.measure] <;> omega

/-- `next()`: with enough fuel the loop returns the head of what is still to come, or `None` when nothing is -/
theorem aux_ntiNext {νo νi : Type} (probe : κ → List νi) (fuel : Nat) (s : NTI κ νo νi) (h : s.Good) (hf : s.measure < fuel) :
    match ntiNext probe fuel s with
    | (s', some x) => s'.Good ∧ s.rem probe = x :: s'.rem probe
    | (_, none) => s.rem probe = [] := by
  induction fuel generalizing s with
  | zero => omega
  | succ fuel ih =>
    have hb := aux_ntiBody probe s h
    simp only [ntiNext]
    rcases hbody : ntiBody probe s with ⟨s', _ | x⟩ | s'
    · rw [hbody] at hb; simpa [BodyOk] using hb
    · rw [hbody] at hb; simpa [BodyOk] using hb
    · rw [hbody] at hb
      obtain ⟨hg, hr, hm⟩ := hb
      have := ih s' hg (by omega)
      rw [hr] at this
      exact this

/-- pulled to its end, the iterator yields exactly what its state promises -/
theorem aux_ntiCollect {νo νi : Type} (probe : κ → List νi) (n : Nat) (s : NTI κ νo νi) (h : s.Good)
    (hn : (s.rem probe).length < n) : ntiCollect probe n s = s.rem probe := by
  induction n generalizing s with
  | zero => omega
  | succ n ih =>
    have hx := aux_ntiNext probe s.fuel s h (by simp [NTI.fuel])
    simp only [ntiCollect]
    rcases hnx : ntiNext probe s.fuel s with ⟨s', _ | x⟩
    · rw [hnx] at hx; simp only at hx; rw [hx]
    · rw [hnx] at hx
      obtain ⟨hg, hr⟩ := hx
      rw [hr] at hn ⊢
      simp only [length_cons] at hn
      dsimp only
      rw [ih s' hg (by omega)]

theorem aux_nti_start {νo νi : Type} (probe : κ → List νi) (t : Table κ νo) :
    (NTI.start t : NTI κ νo νi).Good ∧
    (NTI.start t : NTI κ νo νi).rem probe =
      t.flatMap fun e => e.2.flatMap fun v => (probe e.1).map fun w => (e.1, v, w) := by
  simp [NTI.start, NTI.Good, NTI.rem]

/-- **`NewTickJoinIter` is its nested loops**: the state machine transcribed from `next_lhs_smaller` /
`next_rhs_smaller`, pulled until it ends, yields exactly the enumeration `newTickJoin` (same order) -/
theorem newTickIter_machine_refines (ls : Half κ ν1 ν2) (rs : Half κ ν2 ν1) (n : Nat)
    (hn : (newTickJoin ls rs).length < n) : newTickRun n ls rs = newTickJoin ls rs := by
  by_cases hlt : ls.len < rs.len
  · have hspec : newTickJoin ls rs =
        ls.table.flatMap fun e => e.2.flatMap fun v => (rs.table.fullProbe e.1).map fun w => (e.1, v, w) := by
      simp [newTickJoin, newTickIter, hlt]
    rw [hspec] at hn ⊢
    obtain ⟨hg, hr⟩ := aux_nti_start (νi := ν2) rs.table.fullProbe ls.table
    rw [newTickRun, if_pos hlt, aux_ntiCollect _ n _ hg (by rw [hr]; exact hn), hr]
  · have hspec : newTickJoin ls rs =
        rs.table.flatMap fun x => x.2.flatMap fun v2 => (ls.table.fullProbe x.1).map fun v1 => (x.1, v1, v2) := by
      simp [newTickJoin, newTickIter, hlt]
    rw [hspec] at hn ⊢
    obtain ⟨hg, hr⟩ := aux_nti_start (νi := ν1) ls.table.fullProbe rs.table
    have key : ((NTI.start rs.table : NTI κ ν2 ν1).rem ls.table.fullProbe).map (fun x => (x.1, x.2.2, x.2.1)) =
        rs.table.flatMap fun x => x.2.flatMap fun v2 => (ls.table.fullProbe x.1).map fun v1 => (x.1, v1, v2) := by
      rw [hr]; simp [map_flatMap, Function.comp_def]
    have hlen := congrArg List.length key
    rw [length_map] at hlen
    rw [newTickRun, if_neg hlt, aux_ntiCollect _ n _ hg (by rw [hlen]; exact hn), key]

theorem aux_fullProbe_le (t : Table κ ν) (k : κ) : (t.fullProbe k).length ≤ t.size := by
  induction t with
  | nil => simp [Table.fullProbe, Table.get, Table.size]
  | cons e r ih =>
    obtain ⟨k', vs⟩ := e
    by_cases h : k' = k
    · simp [Table.fullProbe, Table.get, Table.size, h]
    · have : (Table.fullProbe ((k', vs) :: r) k) = Table.fullProbe r k := by simp [Table.fullProbe, Table.get, h]
      rw [this]; simp [Table.size] at ih ⊢; omega

theorem aux_nested_length {νo νi : Type} (probe : κ → List νi) (B : Nat) (hB : ∀ k, (probe k).length ≤ B) (t : Table κ νo) :
    (t.flatMap fun e => e.2.flatMap fun v => (probe e.1).map fun w => (e.1, v, w)).length ≤ t.size * B := by
  induction t with
  | nil => simp [Table.size]
  | cons e r ih =>
    have h1 : (e.2.flatMap fun v => (probe e.1).map fun w => (e.1, v, w)).length = e.2.length * (probe e.1).length := by
      induction e.2 with
      | nil => simp
      | cons v vs ih2 => simp [flatMap_cons, ih2, Nat.add_mul]; omega
    simp only [flatMap_cons, length_append, h1, Table.size, map_cons, sum_cons] at ih ⊢
    have := Nat.mul_le_mul_left e.2.length (hB e.1)
    rw [Nat.add_mul]; omega

/-- the fuel the driver gives `newTickRun` is enough -/
theorem newTickJoin_length_le (ls : Half κ ν1 ν2) (rs : Half κ ν2 ν1) :
    (newTickJoin ls rs).length < ls.table.size * rs.table.size + 1 := by
  have hl := aux_nested_length (νo := ν1) rs.table.fullProbe rs.table.size (aux_fullProbe_le rs.table) ls.table
  have hr := aux_nested_length (νo := ν2) ls.table.fullProbe ls.table.size (aux_fullProbe_le ls.table) rs.table
  by_cases hlt : ls.len < rs.len
  · have hspec : newTickJoin ls rs =
        ls.table.flatMap fun e => e.2.flatMap fun v => (rs.table.fullProbe e.1).map fun w => (e.1, v, w) := by
      simp [newTickJoin, newTickIter, hlt]
    rw [hspec]; omega
  · have hspec : (newTickJoin ls rs).length =
        (rs.table.flatMap fun e => e.2.flatMap fun v => (ls.table.fullProbe e.1).map fun w => (e.1, v, w)).length := by
      simp [newTickJoin, newTickIter, hlt, length_flatMap]
    rw [hspec, Nat.mul_comm]; omega

/-- **The machine emits the join of the tables**: `NewTickJoinIter` as transcribed (either orientation),
on any two tables with distinct keys, with the fuel the driver uses: `(k,(v1,v2))` comes out exactly
`|lhsTable[k,v1]| * |rhsTable[k,v2]|` times -/
theorem newTick_machine_emits_join_of_tables (ls : Half κ ν1 ν2) (rs : Half κ ν2 ν1)
    (hl : ls.table.WF) (hr : rs.table.WF) (n : Nat) (hn : ls.table.size * rs.table.size < n)
    (k : κ) (v1 : ν1) (v2 : ν2) :
    count (k, v1, v2) (newTickRun n ls rs) = tcount ls.table k v1 * tcount rs.table k v2 := by
  rw [newTickIter_machine_refines ls rs n (by have := newTickJoin_length_le ls rs; omega),
    newTick_emits_join_of_tables ls rs hl hr]

/-! ### multi-tick histories: state carried over, inputs appended -/

/-- outputs until the first `Ended`, and the state in which it was reported -/
def driveEnd (step : σ → σ × Step β) : Nat → σ → List β × Option σ
  | 0, _ => ([], none)
  | n + 1, s =>
    match step s with
    | (s', .ready x) => (x :: (driveEnd step n s').1, (driveEnd step n s').2)
    | (s', .pending) => driveEnd step n s'
    | (s', .ended) => ([], some s')

theorem aux_driveEnd_fst (step : σ → σ × Step β) (n : Nat) (s : σ) :
    (driveEnd step n s).1 = drive step n s := by
  induction n generalizing s with
  | zero => rfl
  | succ n ih =>
    simp only [driveEnd, drive]
    rcases step s with ⟨s', (x | _ | _)⟩ <;> simp [ih]

/-- once the end is reached, more fuel changes nothing -/
theorem aux_driveEnd_mono (step : σ → σ × Step β) (n d : Nat) (s e : σ)
    (h : (driveEnd step n s).2 = some e) : driveEnd step (n + d) s = driveEnd step n s := by
  induction n generalizing s with
  | zero => simp [driveEnd] at h
  | succ n ih =>
    have e1 : n + 1 + d = (n + d) + 1 := by omega
    rw [e1]
    simp only [driveEnd] at h ⊢
    rcases hs : step s with ⟨s', (x | _ | _)⟩ <;> simp only [hs] at h ⊢
    · rw [ih s' h]
    · exact ih s' h

/-- induction along a run of the join: every non-final pull makes lexicographic progress -/
theorem aux_join_induct (set : Bool) (P : JoinSt κ ν1 ν2 → Prop)
    (hend : ∀ st, NoEnd st.lhs → NoEnd st.rhs → (joinStep set st).2 = .ended → P st)
    (hstep : ∀ st, NoEnd st.lhs → NoEnd st.rhs → (joinStep set st).2 ≠ .ended → P (joinStep set st).1 → P st)
    (st : JoinSt κ ν1 ν2) (hl : NoEnd st.lhs) (hr : NoEnd st.rhs) : P st := by
  have main : ∀ s q (st : JoinSt κ ν1 ν2), slen st = s → qlen st = q → NoEnd st.lhs → NoEnd st.rhs → P st := by
    intro s
    induction s using Nat.strongRecOn with
    | ind s ihs =>
      intro q
      induction q using Nat.strongRecOn with
      | ind q ihq =>
        intro st hs hq hl hr
        have ok := aux_step set st hl hr
        by_cases he : (joinStep set st).2 = .ended
        · exact hend st hl hr he
        · refine hstep st hl hr he ?_
          rcases ok.progress he with ⟨h1, h2⟩ | h2
          · exact ihq _ (by omega) _ (by omega) rfl ok.noEndL ok.noEndR
          · exact ihs _ (by omega) _ _ rfl rfl ok.noEndL ok.noEndR
  exact main _ _ st rfl rfl hl hr

/-- **Final state of a tick**: driven to its end, the join leaves exactly the arrivals in the
tables and nothing queued -/
theorem join_final_state (set : Bool) (st : JoinSt κ ν1 ν2) (hl : NoEnd st.lhs) (hr : NoEnd st.rhs) :
    ∃ N, ∀ n, N ≤ n → ∃ st', (driveEnd (joinStep set) n st).2 = some st' ∧
      st'.ls.table = Lfin set st ∧ st'.rs.table = Rfin set st ∧ st'.ls.queue = [] ∧ st'.rs.queue = [] := by
  refine aux_join_induct set (fun st => ∃ N, ∀ n, N ≤ n → ∃ st', (driveEnd (joinStep set) n st).2 = some st' ∧
      st'.ls.table = Lfin set st ∧ st'.rs.table = Rfin set st ∧ st'.ls.queue = [] ∧ st'.rs.queue = []) ?_ ?_ st hl hr
  · intro st hl hr he
    have ok := aux_step set st hl hr
    obtain ⟨e1, e2, e3, e4⟩ := ok.ended he
    refine ⟨1, fun n hn => ?_⟩
    obtain ⟨n', rfl⟩ : ∃ n', n = n' + 1 := ⟨n - 1, by omega⟩
    rcases hs : joinStep set st with ⟨st', a⟩
    rw [hs] at he e1 e2 e3 e4 ok
    simp only at he e1 e2 e3 e4
    subst he
    refine ⟨st', by simp [driveEnd, hs], ?_, ?_, e3, e4⟩
    · have := ok.lfin; simp only [Lfin, e1, items, finalT, foldl_nil] at this; exact this
    · have := ok.rfin; simp only [Rfin, e2, items, finalT, foldl_nil] at this; exact this
  · intro st hl hr he ⟨N, hN⟩
    have ok := aux_step set st hl hr
    refine ⟨N + 1, fun n hn => ?_⟩
    obtain ⟨n', rfl⟩ : ∃ n', n = n' + 1 := ⟨n - 1, by omega⟩
    obtain ⟨st'', h1, h2, h3, h4, h5⟩ := hN n' (by omega)
    rcases hs : joinStep set st with ⟨st', a⟩
    rw [hs] at he ok h1 h2 h3
    simp only at he h1 h2 h3
    refine ⟨st'', ?_, h2.trans ok.lfin, h3.trans ok.rfin, h4, h5⟩
    cases a with
    | ended => exact absurd rfl he
    | pending => simpa [driveEnd, hs] using h1
    | ready x => simpa [driveEnd, hs] using h1

/-- a history of ticks over persisted half-join states: each tick has fresh inputs and is
driven to its end; the states carry over -/
def runTicks (set : Bool) (n : Nat) : Half κ ν1 ν2 → Half κ ν2 ν1 →
    List (Src (κ × ν1) × Src (κ × ν2)) → List (κ × ν1 × ν2)
  | _, _, [] => []
  | ls, rs, (l, r) :: rest =>
    match driveEnd (joinStep set) n ⟨l, r, ls, rs⟩ with
    | (outs, some st') => outs ++ runTicks set n st'.ls st'.rs rest
    | (outs, none) => outs

omit [DecidableEq κ] [DecidableEq ν] in
theorem aux_finalT_append [DecidableEq κ] [DecidableEq ν] (set : Bool) (t : Table κ ν) (a b : List (κ × ν)) :
    finalT set t (a ++ b) = finalT set (finalT set t a) b := by
  simp [finalT, foldl_append]

/-- **Persisted state, then new arrivals** (incremental path over any number of ticks): all that
is emitted over the whole history, together with the join of the tables the history started
with, is exactly the join of the tables holding every arrival of every tick — no pair missed,
none repeated, whatever the interleavings and pendings inside each tick. -/
theorem join_persisted_then_new (set : Bool) (ticks : List (Src (κ × ν1) × Src (κ × ν2)))
    (hne : ∀ t ∈ ticks, NoEnd t.1 ∧ NoEnd t.2) (ls : Half κ ν1 ν2) (rs : Half κ ν2 ν1)
    (hql : ls.queue = []) (hqr : rs.queue = []) :
    ∃ N, ∀ n, N ≤ n → ∀ k v1 v2,
      count (k, v1, v2) (runTicks set n ls rs ticks) + tcount ls.table k v1 * tcount rs.table k v2 =
        tcount (finalT set ls.table (ticks.flatMap fun t => items t.1)) k v1 *
        tcount (finalT set rs.table (ticks.flatMap fun t => items t.2)) k v2 := by
  induction ticks generalizing ls rs with
  | nil => exact ⟨0, fun n _ k v1 v2 => by simp [runTicks, finalT]⟩
  | cons t rest ih =>
    obtain ⟨l, r⟩ := t
    have hlr := hne (l, r) (by simp)
    obtain ⟨N1, h1⟩ := join_emitted_plus_old_eq_queued_plus_final set ⟨l, r, ls, rs⟩ hlr.1 hlr.2
    obtain ⟨N2, h2⟩ := join_final_state set ⟨l, r, ls, rs⟩ hlr.1 hlr.2
    -- the state the first tick ends in does not depend on the fuel; fix it with the fuel `max N1 N2`
    obtain ⟨st0, e0, t1, t2, q1, q2⟩ := h2 (max N1 N2) (by omega)
    obtain ⟨N3, h3⟩ := ih (fun t ht => hne t (by simp [ht])) st0.ls st0.rs q1 q2
    refine ⟨max (max N1 N2) N3, fun n hn k v1 v2 => ?_⟩
    obtain ⟨d, rfl⟩ : ∃ d, n = max N1 N2 + d := ⟨n - max N1 N2, by omega⟩
    have e' := aux_driveEnd_mono (joinStep set) (max N1 N2) d _ _ e0
    have c1 := h1 (max N1 N2 + d) (by omega) k v1 v2
    have c3 := h3 (max N1 N2 + d) (by omega) k v1 v2
    rw [← aux_driveEnd_fst, e'] at c1
    simp only [JB, JQ, JT, hql, hqr, count_nil, Nat.zero_add, Lfin, Rfin] at c1
    simp only [t1, t2, Lfin, Rfin] at c3
    rcases hde : driveEnd (joinStep set) (max N1 N2) ⟨l, r, ls, rs⟩ with ⟨outs, o⟩
    rw [hde] at e0 c1 e'
    simp only at e0 c1
    subst e0
    simp only [runTicks, e', count_append, flatMap_cons, aux_finalT_append]
    omega

/-- fresh multiset states, any number of ticks: over the whole history `(k,(v1,v2))` is emitted
once per pair of occurrences among *all* arrivals of *all* ticks -/
theorem join_multi_tick_multiset_fresh (ticks : List (Src (κ × ν1) × Src (κ × ν2)))
    (hne : ∀ t ∈ ticks, NoEnd t.1 ∧ NoEnd t.2) :
    ∃ N, ∀ n, N ≤ n → ∀ k v1 v2,
      count (k, v1, v2) (runTicks false n Half.empty Half.empty ticks) =
        count (k, v1) (ticks.flatMap fun t => items t.1) * count (k, v2) (ticks.flatMap fun t => items t.2) := by
  obtain ⟨N, hN⟩ := join_persisted_then_new false ticks hne Half.empty Half.empty rfl rfl
  refine ⟨N, fun n hn k v1 v2 => ?_⟩
  have := hN n hn k v1 v2
  simpa [Half.empty, aux_tcount_nil, aux_finalT_multi] using this

/-- the same for set states: exactly once iff each half arrived in some tick -/
theorem join_multi_tick_set_fresh (ticks : List (Src (κ × ν1) × Src (κ × ν2)))
    (hne : ∀ t ∈ ticks, NoEnd t.1 ∧ NoEnd t.2) :
    ∃ N, ∀ n, N ≤ n → ∀ k v1 v2,
      count (k, v1, v2) (runTicks true n Half.empty Half.empty ticks) =
        if (k, v1) ∈ (ticks.flatMap fun t => items t.1) ∧ (k, v2) ∈ (ticks.flatMap fun t => items t.2)
        then 1 else 0 := by
  obtain ⟨N, hN⟩ := join_persisted_then_new true ticks hne Half.empty Half.empty rfl rfl
  refine ⟨N, fun n hn k v1 v2 => ?_⟩
  have := hN n hn k v1 v2
  generalize runTicks true n (Half.empty : Half κ ν1 ν2) (Half.empty : Half κ ν2 ν1) ticks = out at this ⊢
  simp only [Half.empty, aux_tcount_nil, aux_finalT_set, Nat.lt_irrefl, if_false, Nat.zero_mul,
    Nat.add_zero] at this
  rw [this]
  by_cases h1 : (k, v1) ∈ (ticks.flatMap fun t => items t.1) <;>
    by_cases h2 : (k, v2) ∈ (ticks.flatMap fun t => items t.2) <;> simp [h1, h2]

/-! ### the new-tick path over persisted state (what `dfir_lang`'s `join` operator runs every tick:
`symmetric_hash_join(fuse(lhs), fuse(rhs), &mut lhs_state, &mut rhs_state, true)`, then `clear()` of the
`'tick` sides at the end of the tick) -/

/-- **One new-tick run on persisted state.** From any persisted tables (keys distinct) and any queued
matches, whatever the pending placement: the future resolves, the tables hold the old contents plus
exactly the new arrivals (`build` semantics: dedup for set state), and the enumeration is the join of
those tables — every pair of a persisted/new left entry and a persisted/new right entry exactly
`multiplicity × multiplicity` times, none missed, none repeated. -/
theorem newTick_on_persisted (set : Bool) (lhs : Src (κ × ν1)) (rhs : Src (κ × ν2))
    (ls : Half κ ν1 ν2) (rs : Half κ ν2 ν1) (hl : ls.table.WF) (hr : rs.table.WF)
    (n : Nat) (h : lhs.length + rhs.length < n) :
    ∃ ls' rs', driveNew set n ⟨lhs, rhs, ls, rs, 0⟩ = some (ls', rs') ∧
      ls'.table = finalT set ls.table (items lhs) ∧ rs'.table = finalT set rs.table (items rhs) ∧
      ls'.table.WF ∧ rs'.table.WF ∧
      ∀ k v1 v2, count (k, v1, v2) (newTickJoin ls' rs') =
        tcount (finalT set ls.table (items lhs)) k v1 * tcount (finalT set rs.table (items rhs)) k v2 := by
  refine ⟨_, _, newTick_drain_refines set lhs rhs ls rs n h, aux_drain_table set ls _, aux_drain_table set rs _, ?_, ?_, ?_⟩
  · rw [aux_drain_table]; exact aux_wf_finalT set _ _ hl
  · rw [aux_drain_table]; exact aux_wf_finalT set _ _ hr
  · intro k v1 v2
    rw [newTick_emits_join_of_tables _ _ (by rw [aux_drain_table]; exact aux_wf_finalT set _ _ hl)
      (by rw [aux_drain_table]; exact aux_wf_finalT set _ _ hr), aux_drain_table, aux_drain_table]

/-- a history of ticks through the new-tick path as the operator runs it: each tick drains its inputs
into the states and enumerates; `cl` / `cr` = `'tick` persistence of that side (`clear()` at the end of
the tick), otherwise the state is carried over.  One output list per tick. -/
def runNewTicks (set : Bool) (n : Nat) (cl cr : Bool) : Half κ ν1 ν2 → Half κ ν2 ν1 →
    List (Src (κ × ν1) × Src (κ × ν2)) → List (List (κ × ν1 × ν2))
  | _, _, [] => []
  | ls, rs, (l, r) :: rest =>
    match driveNew set n ⟨l, r, ls, rs, 0⟩ with
    | some (ls', rs') =>
      newTickJoin ls' rs' ::
        runNewTicks set n cl cr (if cl then ls'.clear else ls') (if cr then rs'.clear else rs') rest
    | none => []

/-- the tables each tick of such a history enumerates: everything that arrived on a side since that
side was last cleared -/
def newTicksSpec (set : Bool) (cl cr : Bool) : Table κ ν1 → Table κ ν2 →
    List (Src (κ × ν1) × Src (κ × ν2)) → List (Table κ ν1 × Table κ ν2)
  | _, _, [] => []
  | L, R, (l, r) :: rest =>
    (finalT set L (items l), finalT set R (items r)) ::
      newTicksSpec set cl cr (if cl then [] else finalT set L (items l)) (if cr then [] else finalT set R (items r)) rest

/-- **Persisted state joined with new arrivals, new-tick path, any number of ticks, any mix of
`'static` / `'tick` persistence**: no tick is lost, and the output of every tick is exactly the join of
what its two sides hold (persisted contents plus this tick's arrivals) — no pair missed, none repeated
within a tick. -/
theorem newTick_persisted_then_new (set : Bool) (cl cr : Bool) (n : Nat)
    (ticks : List (Src (κ × ν1) × Src (κ × ν2))) (hn : ∀ t ∈ ticks, t.1.length + t.2.length < n)
    (ls : Half κ ν1 ν2) (rs : Half κ ν2 ν1) (hl : ls.table.WF) (hr : rs.table.WF) :
    List.Forall₂ (fun out (LR : Table κ ν1 × Table κ ν2) =>
        ∀ k v1 v2, count (k, v1, v2) out = tcount LR.1 k v1 * tcount LR.2 k v2)
      (runNewTicks set n cl cr ls rs ticks) (newTicksSpec set cl cr ls.table rs.table ticks) := by
  induction ticks generalizing ls rs with
  | nil => simp [runNewTicks, newTicksSpec]
  | cons t rest ih =>
    obtain ⟨l, r⟩ := t
    obtain ⟨ls', rs', hd, t1, t2, w1, w2, hc⟩ := newTick_on_persisted set l r ls rs hl hr n (hn (l, r) (by simp))
    simp only [runNewTicks, hd, newTicksSpec]
    refine List.Forall₂.cons hc ?_
    have hrest : ∀ t ∈ rest, t.1.length + t.2.length < n := fun t ht => hn t (by simp [ht])
    have := ih hrest (if cl then ls'.clear else ls') (if cr then rs'.clear else rs')
      (by cases cl <;> simp [Half.clear, Half.empty, w1, aux_wf_nil])
      (by cases cr <;> simp [Half.clear, Half.empty, w2, aux_wf_nil])
    have e1 : (if cl then ls'.clear else ls').table = if cl then [] else finalT set ls.table (items l) := by
      cases cl <;> simp [Half.clear, Half.empty, t1]
    have e2 : (if cr then rs'.clear else rs').table = if cr then [] else finalT set rs.table (items r) := by
      cases cr <;> simp [Half.clear, Half.empty, t2]
    rw [e1, e2] at this
    exact this

/-- `'static` on both sides (`join::<'static>`), fresh multiset states, two ticks: the second tick
replays the join of *all* arrivals of both ticks — each pair of occurrences once -/
theorem newTick_static_two_ticks_multiset (l1 l2 : Src (κ × ν1)) (r1 r2 : Src (κ × ν2)) (n : Nat)
    (h1 : l1.length + r1.length < n) (h2 : l2.length + r2.length < n) :
    ∃ o1 o2, runNewTicks false n false false Half.empty Half.empty [(l1, r1), (l2, r2)] = [o1, o2] ∧
      (∀ k v1 v2, count (k, v1, v2) o1 = count (k, v1) (items l1) * count (k, v2) (items r1)) ∧
      (∀ k v1 v2, count (k, v1, v2) o2 =
        count (k, v1) (items l1 ++ items l2) * count (k, v2) (items r1 ++ items r2)) := by
  have h := newTick_persisted_then_new false false false n [(l1, r1), (l2, r2)]
    (by intro t ht; simp at ht; rcases ht with rfl | rfl <;> assumption)
    (Half.empty : Half κ ν1 ν2) (Half.empty : Half κ ν2 ν1) aux_wf_nil aux_wf_nil
  simp only [newTicksSpec, Half.empty, Bool.false_eq_true, if_false] at h
  rcases hrun : runNewTicks false n false false (Half.empty : Half κ ν1 ν2) (Half.empty : Half κ ν2 ν1)
    [(l1, r1), (l2, r2)] with _ | ⟨o1, _ | ⟨o2, _ | ⟨o3, os⟩⟩⟩ <;>
    (simp only [Half.empty] at hrun; rw [hrun] at h)
  · cases h
  · rcases h with _ | ⟨_, h'⟩; cases h'
  · refine ⟨o1, o2, rfl, ?_, ?_⟩
    · rcases h with _ | ⟨hc, _⟩
      intro k v1 v2; rw [hc k v1 v2]; simp [aux_finalT_multi, aux_tcount_nil]
    · rcases h with _ | ⟨_, h'⟩
      rcases h' with _ | ⟨hc, _⟩
      intro k v1 v2; rw [hc k v1 v2]
      simp [aux_finalT_multi, aux_tcount_nil, count_append, ← aux_finalT_append]
  · rcases h with _ | ⟨_, h'⟩; rcases h' with _ | ⟨_, h''⟩; cases h''

/-! ### non-vacuity -/

/-- set semantics: the duplicate `(0,1)` on the left is dropped, both right values match it;
pendings on both sides in between -/
example : drive (joinStep true) 20
    (⟨[.ready (0, 1), .pending, .ready (0, 1), .ready (1, 2)], [.pending, .ready (0, 5), .ready (0, 6)],
      Half.empty, Half.empty⟩ : JoinSt Nat Nat Nat) = [(0, 1, 5), (0, 1, 6)] := by decide

/-- multiset semantics: the same inputs give every pair of occurrences -/
example : drive (joinStep false) 20
    (⟨[.ready (0, 1), .pending, .ready (0, 1), .ready (1, 2)], [.pending, .ready (0, 5), .ready (0, 6)],
      Half.empty, Half.empty⟩ : JoinSt Nat Nat Nat) = [(0, 1, 5), (0, 1, 5), (0, 1, 6), (0, 1, 6)] := by decide

/-- a probe with two matches: the second one waits in `current_matches` and is emitted by the next pull -/
example : (joinStep false (⟨[], [.ready (0, 9)],
      ⟨[(0, [1, 2])], [], 2⟩, Half.empty⟩ : JoinSt Nat Nat Nat)).1.ls.queue = [(0, 9, 2)] := by decide

/-- persisted tables and a queued match at the start of a tick (hypotheses of the invariant theorem) -/
example : NoEnd ([.ready (0, 1), .pending] : Src (Nat × Nat)) := by
  intro x hx; simp at hx; rcases hx with rfl | rfl <;> simp

/-- the new-tick enumeration of two small tables, lhs outer -/
example : newTickJoin (⟨[(0, [1, 2])], [], 2⟩ : Half Nat Nat Nat) (⟨[(0, [5]), (1, [6, 7])], [], 3⟩ : Half Nat Nat Nat)
    = [(0, 1, 5), (0, 2, 5)] := by decide

example : Table.WF ([(0, [1, 2]), (1, [3])] : Table Nat Nat) := by simp [Table.WF]

/-- two ticks on persisted set state: the pair completed by the second tick comes out in the second tick, once -/
example : runTicks true 20 (Half.empty : Half Nat Nat Nat) (Half.empty : Half Nat Nat Nat)
    [([.ready (0, 1), .pending], [.pending]), ([.pending, .ready (0, 1)], [.ready (0, 7)])] = [(0, 1, 7)] := by
  decide

/-- the operator's path on persisted set state (`'static` left, `'tick` right): the second tick joins the
persisted left entry with the new right arrival only -/
example : runNewTicks true 20 false true (Half.empty : Half Nat Nat Nat) (Half.empty : Half Nat Nat Nat)
    [([.ready (0, 1), .pending], [.pending, .ready (0, 5)]), ([.pending], [.ready (0, 7), .ready (0, 7)])]
    = [[(0, 1, 5)], [(0, 1, 7)]] := by
  decide

/-- the transcribed `NewTickJoinIter` on two small tables: lhs outer (2 < 3), then rhs outer (3 ≥ 2) -/
example : newTickRun 7 (⟨[(0, [1, 2]), (1, [4])], [], 2⟩ : Half Nat Nat Nat) (⟨[(0, [5]), (1, [6, 7])], [], 3⟩ : Half Nat Nat Nat)
    = [(0, 1, 5), (0, 2, 5), (1, 4, 6), (1, 4, 7)] := by decide
example : newTickRun 7 (⟨[(0, [1, 2]), (1, [4])], [], 3⟩ : Half Nat Nat Nat) (⟨[(0, [5]), (1, [6, 7])], [], 2⟩ : Half Nat Nat Nat)
    = [(0, 1, 5), (0, 2, 5), (1, 4, 6), (1, 4, 7)] := by decide

end HvPull
