/-
C11 — Pull combinators match iterator semantics under any pending schedule.

Property theorems only (helper lemmas are `aux_*`).  Every theorem is about the executable
model in `HvPull/Model/Pull.lean` and holds for *every* script (every item sequence and every
placement of `Pending` — and, where the Rust trait bounds do not demand a fused input, every
placement of premature `Ended`), every closure, every fuel value large enough to reach the end.

For a combinator `K`:
* `K_refines`   : driving `K` to completion yields exactly `iterSpec K (items inputs)`;
* `K_fused`     : once `Ended`, always `Ended` (for the types that implement `FusedPull`,
                  under exactly the trait bounds of that impl: inputs `NoEnd` where demanded);
* `K_sizeHint`  : in every state, `size_hint` brackets the number of items still to come,
                  provided the inputs' hints do (`HintOk`).
-/
import HvPull.Model.Pull
import HvPull.Gen.PullTables

namespace HvPull
open List

variable {α β γ : Type}

/-! ### generic helpers -/

theorem aux_after_succ (step : σ → σ × Step β) (k : Nat) (s : σ) :
    after step (k + 1) s = (step (after step k s)).1 := by
  induction k generalizing s with
  | zero => rfl
  | succ k ih => simp only [after] at ih ⊢; rw [ih]

/-- a `Good` invariant, and a `Dead` set entered at the first `Ended` and never left -/
theorem aux_fused_of_inv (step : σ → σ × Step β) (Good Dead : σ → Prop)
    (hgood : ∀ s, Good s → Good (step s).1)
    (hdead : ∀ s, Good s → (step s).2 = .ended → Dead (step s).1)
    (hstay : ∀ s, Dead s → (step s).2 = .ended ∧ Dead (step s).1)
    (s : σ) (hs : Good s) : FusedAt step s := by
  have hg : ∀ k, Good (after step k s) := by
    intro k
    induction k with
    | zero => exact hs
    | succ k ih => rw [aux_after_succ]; exact hgood _ ih
  intro k hk j
  have hd : ∀ j, Dead (after step (k + 1 + j) s) := by
    intro j
    induction j with
    | zero => rw [Nat.add_zero, aux_after_succ]; exact hdead _ (hg k) hk
    | succ j ih => rw [← Nat.add_assoc, aux_after_succ]; exact (hstay _ ih).2
  exact (hstay _ (hd j)).1

theorem aux_noEnd_tail {x : Step α} {s : Src α} (h : NoEnd (x :: s)) : NoEnd s :=
  fun y hy => h y (List.mem_cons_of_mem _ hy)

theorem aux_noEnd_nil : NoEnd ([] : Src α) := fun _ h => by cases h

theorem aux_noEnd_head {s : Src α} (h : NoEnd (Step.ended :: s)) : False :=
  h _ (List.mem_cons_self) rfl

theorem aux_brackets_mono {lo lo' : Nat} {hi hi' : Option Nat} {n : Nat}
    (h : Brackets (lo, hi) n) (hlo : lo' ≤ lo) (hhi : ∀ u, hi' = some u → ∃ v, hi = some v ∧ v ≤ u) :
    Brackets (lo', hi') n := by
  refine ⟨Nat.le_trans hlo h.1, fun u hu => ?_⟩
  obtain ⟨v, hv, hvu⟩ := hhi u hu
  exact Nat.le_trans (h.2 v hv) hvu

/-- the harness's scripted hint is a valid source hint -/
theorem scriptHint_ok (slo : Nat) (shi : Option Nat) : HintOk (scriptHint (α := α) slo shi) := by
  intro s
  refine ⟨Nat.sub_le _ _, fun u hu => ?_⟩
  cases shi with
  | none => simp [scriptHint] at hu
  | some k => simp [scriptHint] at hu; omega

/-! ### map -/

theorem map_refines (f : α → β) (s : Src α) (n : Nat) (h : s.length < n) :
    drive (mapStep f) n s = (items s).map f := by
  induction s generalizing n with
  | nil => cases n <;> simp_all [drive, mapStep, Src.pull, items]
  | cons a r ih =>
    cases n with
    | zero => simp at h
    | succ n =>
      have := ih n (by simpa using h)
      cases a <;> simp_all [drive, mapStep, Src.pull, items]

theorem map_fused (f : α → β) (s : Src α) (hs : NoEnd s) : FusedAt (mapStep f) s := by
  refine aux_fused_of_inv _ NoEnd (· = []) ?_ ?_ ?_ s hs
  · intro s hs; rcases s with _ | ⟨(x | _ | _), r⟩ <;>
      first | exact aux_noEnd_nil | exact aux_noEnd_tail hs
  · intro s hs he; rcases s with _ | ⟨(x | _ | _), r⟩ <;> simp_all [mapStep, Src.pull]
    exact (aux_noEnd_head hs).elim
  · intro s hs; subst hs; simp [mapStep, Src.pull]

theorem map_sizeHint (f : α → β) (h : Src α → Hint) (hh : HintOk h) (s : Src α) (n : Nat)
    (hn : s.length < n) : Brackets (mapHint h s) (drive (mapStep f) n s).length := by
  rw [map_refines f s n hn, length_map]; exact hh s

/-- the usual way a one-input combinator over a fused script is fused:
`Ended` only comes from the exhausted script, and then the script stays exhausted -/
theorem aux_noEnd_step (s : Src α) (hs : NoEnd s) : NoEnd s.pull.1 := by
  rcases s with _ | ⟨x, r⟩
  · exact aux_noEnd_nil
  · exact aux_noEnd_tail hs

/-! ### filter -/

theorem filter_refines (p : α → Bool) (s : Src α) (n : Nat) (h : s.length < n) :
    drive (filterStep p) n s = (items s).filter p := by
  induction s generalizing n with
  | nil => cases n <;> simp_all [drive, filterStep, items]
  | cons a r ih =>
    cases n with
    | zero => simp at h
    | succ n =>
      have h1 := ih n (by simpa using h)
      have h2 := ih (n+1) (by simp at h; omega)
      cases a with
      | ready x =>
        by_cases hp : p x
        · simp_all [drive, filterStep, items]
        · simp only [drive] at h2 ⊢
          simp_all [filterStep, items]
      | pending => simp_all [drive, filterStep, items]
      | ended => simp_all [drive, filterStep, items]

theorem aux_filter_noEnd (p : α → Bool) (s : Src α) (hs : NoEnd s) :
    NoEnd (filterStep p s).1 ∧ ((filterStep p s).2 = .ended → (filterStep p s).1 = []) := by
  induction s with
  | nil => simp [filterStep, aux_noEnd_nil]
  | cons a r ih =>
    have hr := aux_noEnd_tail hs
    cases a with
    | ready x =>
      by_cases hp : p x <;> simp [filterStep, hp]
      · exact hr
      · exact ih hr
    | pending => simp [filterStep]; exact hr
    | ended => exact (aux_noEnd_head hs).elim

theorem filter_fused (p : α → Bool) (s : Src α) (hs : NoEnd s) : FusedAt (filterStep p) s := by
  refine aux_fused_of_inv _ NoEnd (· = []) ?_ ?_ ?_ s hs
  · intro s hs; exact (aux_filter_noEnd p s hs).1
  · intro s hs he; exact (aux_filter_noEnd p s hs).2 he
  · intro s hs; subst hs; simp [filterStep]

theorem filter_sizeHint (p : α → Bool) (h : Src α → Hint) (hh : HintOk h) (s : Src α) (n : Nat)
    (hn : s.length < n) : Brackets (filterHint h s) (drive (filterStep p) n s).length := by
  rw [filter_refines p s n hn]
  refine ⟨Nat.zero_le _, fun u hu => ?_⟩
  exact Nat.le_trans (length_filter_le _ _) ((hh s).2 u hu)

/-! ### filter_map -/

theorem filterMap_refines (f : α → Option β) (s : Src α) (n : Nat) (h : s.length < n) :
    drive (filterMapStep f) n s = (items s).filterMap f := by
  induction s generalizing n with
  | nil => cases n <;> simp_all [drive, filterMapStep, items]
  | cons a r ih =>
    cases n with
    | zero => simp at h
    | succ n =>
      have h1 := ih n (by simpa using h)
      have h2 := ih (n+1) (by simp at h; omega)
      cases a with
      | ready x =>
        cases hp : f x with
        | some y => simp_all [drive, filterMapStep, items]
        | none =>
          simp only [drive] at h2 ⊢
          simp_all [filterMapStep, items]
      | pending => simp_all [drive, filterMapStep, items]
      | ended => simp_all [drive, filterMapStep, items]

theorem aux_filterMap_noEnd (f : α → Option β) (s : Src α) (hs : NoEnd s) :
    NoEnd (filterMapStep f s).1 ∧ ((filterMapStep f s).2 = .ended → (filterMapStep f s).1 = []) := by
  induction s with
  | nil => simp [filterMapStep, aux_noEnd_nil]
  | cons a r ih =>
    have hr := aux_noEnd_tail hs
    cases a with
    | ready x =>
      cases hp : f x <;> simp [filterMapStep, hp]
      · exact ih hr
      · exact hr
    | pending => simp [filterMapStep]; exact hr
    | ended => exact (aux_noEnd_head hs).elim

theorem filterMap_fused (f : α → Option β) (s : Src α) (hs : NoEnd s) : FusedAt (filterMapStep f) s := by
  refine aux_fused_of_inv _ NoEnd (· = []) ?_ ?_ ?_ s hs
  · intro s hs; exact (aux_filterMap_noEnd f s hs).1
  · intro s hs he; exact (aux_filterMap_noEnd f s hs).2 he
  · intro s hs; subst hs; simp [filterMapStep]

theorem filterMap_sizeHint (f : α → Option β) (h : Src α → Hint) (hh : HintOk h) (s : Src α) (n : Nat)
    (hn : s.length < n) : Brackets (filterMapHint h s) (drive (filterMapStep f) n s).length := by
  rw [filterMap_refines f s n hn]
  refine ⟨Nat.zero_le _, fun u hu => ?_⟩
  exact Nat.le_trans (length_filterMap_le _ _) ((hh s).2 u hu)

/-! ### inspect -/

theorem inspect_refines (s : Src α) (log : List α) (n : Nat) (h : s.length < n) :
    drive inspectStep n (s, log) = items s := by
  induction s generalizing n log with
  | nil => cases n <;> simp_all [drive, inspectStep, Src.pull, items]
  | cons a r ih =>
    cases n with
    | zero => simp at h
    | succ n =>
      have := fun l => ih l n (by simpa using h)
      cases a <;> simp_all [drive, inspectStep, Src.pull, items]

/-- the closure is called with exactly the items, in order -/
theorem inspect_log (s : Src α) (hs : NoEnd s) (log : List α) (n : Nat) (h : s.length ≤ n) :
    (after inspectStep n (s, log)).2 = log ++ items s := by
  induction s generalizing n log with
  | nil =>
    induction n generalizing log with
    | zero => simp [after, items]
    | succ n ih => simp [after, inspectStep, Src.pull, items] at ih ⊢; exact ih log
  | cons a r ih =>
    have hr := aux_noEnd_tail hs
    cases n with
    | zero => simp at h
    | succ n =>
      have := fun l => ih hr l n (by simpa using h)
      cases a with
      | ready x => simp_all [after, inspectStep, Src.pull, items]
      | pending => simp_all [after, inspectStep, Src.pull, items]
      | ended => exact (aux_noEnd_head hs).elim

theorem inspect_fused (s : Src α) (log : List α) (hs : NoEnd s) : FusedAt inspectStep (s, log) := by
  refine aux_fused_of_inv _ (fun st => NoEnd st.1) (fun st => st.1 = []) ?_ ?_ ?_ (s, log) hs
  · rintro ⟨s, l⟩ hs; rcases s with _ | ⟨(x | _ | _), r⟩ <;>
      first | exact aux_noEnd_nil | exact aux_noEnd_tail hs
  · rintro ⟨s, l⟩ hs he; rcases s with _ | ⟨(x | _ | _), r⟩ <;> simp_all [inspectStep, Src.pull]
    exact (aux_noEnd_head hs).elim
  · rintro ⟨s, l⟩ hs; simp at hs; subst hs; simp [inspectStep, Src.pull]

theorem inspect_sizeHint (h : Src α → Hint) (hh : HintOk h) (s : Src α) (log : List α) (n : Nat)
    (hn : s.length < n) : Brackets (inspectHint h (s, log)) (drive inspectStep n (s, log)).length := by
  rw [inspect_refines s log n hn]; exact hh s

/-! ### take_while (not fused: after the first failing item it keeps pulling) -/

theorem takeWhile_refines (p : α → Bool) (s : Src α) (n : Nat) (h : s.length < n) :
    drive (takeWhileStep p) n s = (items s).takeWhile p := by
  induction s generalizing n with
  | nil => cases n <;> simp_all [drive, takeWhileStep, Src.pull, items]
  | cons a r ih =>
    cases n with
    | zero => simp at h
    | succ n =>
      have := ih n (by simpa using h)
      cases a with
      | ready x => by_cases hp : p x <;> simp_all [drive, takeWhileStep, Src.pull, items]
      | pending => simp_all [drive, takeWhileStep, Src.pull, items]
      | ended => simp_all [drive, takeWhileStep, Src.pull, items]

theorem takeWhile_sizeHint (p : α → Bool) (h : Src α → Hint) (hh : HintOk h) (s : Src α) (n : Nat)
    (hn : s.length < n) : Brackets (takeWhileHint h s) (drive (takeWhileStep p) n s).length := by
  rw [takeWhile_refines p s n hn]
  refine ⟨Nat.zero_le _, fun u hu => ?_⟩
  exact Nat.le_trans (List.Sublist.length_le (takeWhile_sublist _)) ((hh s).2 u hu)

/-! ### enumerate -/

/-- `Iterator::enumerate` starting at `i` -/
def enumFrom : Nat → List α → List (Nat × α)
  | _, [] => []
  | i, x :: xs => (i, x) :: enumFrom (i + 1) xs

theorem aux_enumFrom_length (i : Nat) (l : List α) : (enumFrom i l).length = l.length := by
  induction l generalizing i with
  | nil => rfl
  | cons x xs ih => simp [enumFrom, ih]

theorem enumerate_refines (s : Src α) (i : Nat) (n : Nat) (h : s.length < n) :
    drive enumerateStep n (s, i) = enumFrom i (items s) := by
  induction s generalizing n i with
  | nil => cases n <;> simp_all [drive, enumerateStep, Src.pull, items, enumFrom]
  | cons a r ih =>
    cases n with
    | zero => simp at h
    | succ n =>
      have := fun j => ih j n (by simpa using h)
      cases a <;> simp_all [drive, enumerateStep, Src.pull, items, enumFrom]

theorem enumerate_fused (s : Src α) (i : Nat) (hs : NoEnd s) : FusedAt enumerateStep (s, i) := by
  refine aux_fused_of_inv _ (fun st => NoEnd st.1) (fun st => st.1 = []) ?_ ?_ ?_ (s, i) hs
  · rintro ⟨s, l⟩ hs; rcases s with _ | ⟨(x | _ | _), r⟩ <;>
      first | exact aux_noEnd_nil | exact aux_noEnd_tail hs
  · rintro ⟨s, l⟩ hs he; rcases s with _ | ⟨(x | _ | _), r⟩ <;> simp_all [enumerateStep, Src.pull]
    exact (aux_noEnd_head hs).elim
  · rintro ⟨s, l⟩ hs; simp at hs; subst hs; simp [enumerateStep, Src.pull]

theorem enumerate_sizeHint (h : Src α → Hint) (hh : HintOk h) (s : Src α) (i : Nat) (n : Nat)
    (hn : s.length < n) : Brackets (enumerateHint h (s, i)) (drive enumerateStep n (s, i)).length := by
  rw [enumerate_refines s i n hn, aux_enumFrom_length]; exact hh s

/-! ### skip -/

theorem skip_refines (s : Src α) (k : Nat) (n : Nat) (h : s.length < n) :
    drive skipStep n (s, k) = (items s).drop k := by
  induction s generalizing n k with
  | nil => cases n <;> simp_all [drive, skipStep, skipGo, items]
  | cons a r ih =>
    cases n with
    | zero => simp at h
    | succ n =>
      have h1 := fun j => ih j n (by simpa using h)
      have h2 := fun j => ih j (n+1) (by simp at h; omega)
      cases a with
      | ready x =>
        cases k with
        | zero => simp_all [drive, skipStep, skipGo, items]
        | succ k =>
          have h3 := h2 k
          simp only [drive, skipStep] at h3 ⊢
          simp_all [skipGo, items]
      | pending => simp_all [drive, skipStep, skipGo, items]
      | ended => simp_all [drive, skipStep, skipGo, items]

theorem aux_skip_noEnd (s : Src α) (k : Nat) (hs : NoEnd s) :
    NoEnd (skipGo s k).1.1 ∧ ((skipGo s k).2 = .ended → (skipGo s k).1.1 = []) := by
  induction s generalizing k with
  | nil => simp [skipGo, aux_noEnd_nil]
  | cons a r ih =>
    have hr := aux_noEnd_tail hs
    cases a with
    | ready x =>
      cases k with
      | zero => simp [skipGo]; exact hr
      | succ k => simp [skipGo]; exact ih k hr
    | pending => simp [skipGo]; exact hr
    | ended => exact (aux_noEnd_head hs).elim

theorem skip_fused (s : Src α) (k : Nat) (hs : NoEnd s) : FusedAt skipStep (s, k) := by
  refine aux_fused_of_inv _ (fun st => NoEnd st.1) (fun st => st.1 = []) ?_ ?_ ?_ (s, k) hs
  · rintro ⟨s, k⟩ hs; exact (aux_skip_noEnd s k hs).1
  · rintro ⟨s, k⟩ hs he; exact (aux_skip_noEnd s k hs).2 he
  · rintro ⟨s, k⟩ hs; simp at hs; subst hs; simp [skipStep, skipGo]

theorem skip_sizeHint (h : Src α → Hint) (hh : HintOk h) (s : Src α) (k : Nat) (n : Nat)
    (hn : s.length < n) : Brackets (skipHint h (s, k)) (drive skipStep n (s, k)).length := by
  rw [skip_refines s k n hn, length_drop]
  obtain ⟨h1, h2⟩ := hh s
  refine ⟨by simp [skipHint]; omega, fun u hu => ?_⟩
  simp only [skipHint, Option.map_eq_some_iff] at hu
  obtain ⟨v, hv, rfl⟩ := hu
  have := h2 v hv; omega

/-! ### skip_while -/

theorem skipWhile_refines (p : α → Bool) (s : Src α) (b : Bool) (n : Nat) (h : s.length < n) :
    drive (skipWhileStep p) n (s, b) = if b then (items s).dropWhile p else items s := by
  induction s generalizing n b with
  | nil => cases n <;> simp_all [drive, skipWhileStep, skipWhileGo, items]
  | cons a r ih =>
    cases n with
    | zero => simp at h
    | succ n =>
      have h1 := fun j => ih j n (by simpa using h)
      have h2 := fun j => ih j (n+1) (by simp at h; omega)
      cases a with
      | ready x =>
        by_cases hb : (b && p x) = true
        · have h3 := h2 b
          simp only [drive, skipWhileStep] at h3 ⊢
          simp_all [skipWhileGo, items]
        · cases b <;> simp_all [drive, skipWhileStep, skipWhileGo, items]
      | pending => cases b <;> simp_all [drive, skipWhileStep, skipWhileGo, items]
      | ended => cases b <;> simp_all [drive, skipWhileStep, skipWhileGo, items]

theorem aux_skipWhile_noEnd (p : α → Bool) (s : Src α) (b : Bool) (hs : NoEnd s) :
    NoEnd (skipWhileGo p s b).1.1 ∧ ((skipWhileGo p s b).2 = .ended → (skipWhileGo p s b).1.1 = []) := by
  induction s with
  | nil => simp [skipWhileGo, aux_noEnd_nil]
  | cons a r ih =>
    have hr := aux_noEnd_tail hs
    cases a with
    | ready x =>
      by_cases hb : (b && p x) = true
      · simp only [skipWhileGo, hb, if_true]; exact ih hr
      · simp only [skipWhileGo, hb]; simp; exact hr
    | pending => simp [skipWhileGo]; exact hr
    | ended => exact (aux_noEnd_head hs).elim

theorem skipWhile_fused (p : α → Bool) (s : Src α) (b : Bool) (hs : NoEnd s) :
    FusedAt (skipWhileStep p) (s, b) := by
  refine aux_fused_of_inv _ (fun st => NoEnd st.1) (fun st => st.1 = []) ?_ ?_ ?_ (s, b) hs
  · rintro ⟨s, k⟩ hs; exact (aux_skipWhile_noEnd p s k hs).1
  · rintro ⟨s, k⟩ hs he; exact (aux_skipWhile_noEnd p s k hs).2 he
  · rintro ⟨s, k⟩ hs; simp at hs; subst hs; simp [skipWhileStep, skipWhileGo]

theorem skipWhile_sizeHint (p : α → Bool) (h : Src α → Hint) (hh : HintOk h) (s : Src α) (b : Bool)
    (n : Nat) (hn : s.length < n) :
    Brackets (skipWhileHint h (s, b)) (drive (skipWhileStep p) n (s, b)).length := by
  rw [skipWhile_refines p s b n hn]
  cases b with
  | false => simpa [skipWhileHint] using hh s
  | true =>
    refine ⟨Nat.zero_le _, fun u hu => ?_⟩
    simp [skipWhileHint] at hu ⊢
    exact Nat.le_trans (List.Sublist.length_le (dropWhile_sublist _)) ((hh s).2 u hu)

/-! ### take (fused whatever the input) -/

theorem take_refines (s : Src α) (k : Nat) (n : Nat) (h : s.length < n) :
    drive takeStep n (s, k) = (items s).take k := by
  induction s generalizing n k with
  | nil => cases n <;> cases k <;> simp_all [drive, takeStep, Src.pull, items]
  | cons a r ih =>
    cases n with
    | zero => simp at h
    | succ n =>
      have h1 := fun j => ih j n (by simpa using h)
      cases k with
      | zero => simp [drive, takeStep]
      | succ k => cases a <;> simp_all [drive, takeStep, Src.pull, items]

theorem take_fused (s : Src α) (k : Nat) : FusedAt takeStep (s, k) := by
  refine aux_fused_of_inv _ (fun _ => True) (fun st => st.2 = 0) ?_ ?_ ?_ (s, k) trivial
  · intros; trivial
  · rintro ⟨s, k⟩ _ he
    cases k with
    | zero => simp [takeStep]
    | succ k => rcases s with _ | ⟨(x | _ | _), r⟩ <;> simp_all [takeStep, Src.pull]
  · rintro ⟨s, k⟩ hs; simp at hs; subst hs; simp [takeStep]

theorem take_sizeHint (h : Src α → Hint) (hh : HintOk h) (s : Src α) (k : Nat) (n : Nat)
    (hn : s.length < n) : Brackets (takeHint h (s, k)) (drive takeStep n (s, k)).length := by
  rw [take_refines s k n hn, length_take]
  obtain ⟨h1, h2⟩ := hh s
  refine ⟨by simp [takeHint]; omega, fun u hu => ?_⟩
  simp only [takeHint, Option.some.injEq] at hu
  cases hv : (h s).2 with
  | none => simp [hv] at hu; omega
  | some v => have := h2 v hv; simp [hv] at hu; omega

/-! ### fuse (any input, fused or not) -/

theorem fuse_refines (s : Src α) (n : Nat) (h : s.length < n) :
    drive fuseStep n (some s) = items s := by
  induction s generalizing n with
  | nil => cases n <;> simp_all [drive, fuseStep, Src.pull, items]
  | cons a r ih =>
    cases n with
    | zero => simp at h
    | succ n =>
      have := ih n (by simpa using h)
      cases a <;> simp_all [drive, fuseStep, Src.pull, items]

theorem fuse_refines_none (n : Nat) : drive (fuseStep (α := α)) n none = [] := by
  cases n <;> simp [drive, fuseStep]

theorem fuse_fused (st : Option (Src α)) : FusedAt fuseStep st := by
  refine aux_fused_of_inv _ (fun _ => True) (fun st => st = none) ?_ ?_ ?_ st trivial
  · intros; trivial
  · rintro (_ | s) _ he
    · simp [fuseStep]
    · rcases s with _ | ⟨(x | _ | _), r⟩ <;> simp_all [fuseStep, Src.pull]
  · rintro st hs; subst hs; simp [fuseStep]

theorem fuse_sizeHint (h : Src α → Hint) (hh : HintOk h) (s : Src α) (n : Nat)
    (hn : s.length < n) : Brackets (fuseHint h (some s)) (drive fuseStep n (some s)).length := by
  rw [fuse_refines s n hn]; exact hh s

theorem fuse_sizeHint_none (h : Src α → Hint) (n : Nat) :
    Brackets (fuseHint h none) (drive (fuseStep (α := α)) n none).length := by
  rw [fuse_refines_none]; simp [fuseHint, Brackets]

/-! ### flat_map / flatten -/

/-- what is still to come: the rest of the current inner iterator, then the mapped items -/
def flatMapSpec (f : α → List β) (st : Src α × Option (List β)) : List β :=
  (st.2.getD []) ++ (items st.1).flatMap f

theorem aux_flatMap_cur (f : α → List β) (s : Src α)
    (HA : ∀ n, s.length + ((items s).flatMap f).length < n →
      drive (flatMapStep f) n (s, none) = (items s).flatMap f)
    (ys : List β) (n : Nat) (hn : s.length + (ys ++ (items s).flatMap f).length < n) :
    drive (flatMapStep f) n (s, some ys) = ys ++ (items s).flatMap f := by
  induction ys generalizing n with
  | nil =>
    cases n with
    | zero => simp at hn
    | succ n =>
      have := HA (n + 1) (by simpa using hn)
      simp only [drive, flatMapStep] at this ⊢
      simpa using this
  | cons y ys ih =>
    cases n with
    | zero => simp at hn
    | succ n =>
      have := ih n (by simp at hn ⊢; omega)
      simp [drive, flatMapStep, this]

theorem aux_flatMap_none (f : α → List β) (s : Src α) (n : Nat)
    (hn : s.length + ((items s).flatMap f).length < n) :
    drive (flatMapStep f) n (s, none) = (items s).flatMap f := by
  induction s generalizing n with
  | nil => cases n <;> simp_all [drive, flatMapStep, flatMapPull, items]
  | cons a r ih =>
    cases n with
    | zero => simp at hn
    | succ n =>
      cases a with
      | ready x =>
        cases hfx : f x with
        | nil =>
          have := ih (n + 1) (by simp [items, hfx] at hn ⊢; omega)
          simp only [drive, flatMapStep] at this ⊢
          simpa [flatMapPull, hfx, items] using this
        | cons y ys =>
          have := aux_flatMap_cur f r ih ys n (by simp [items, hfx] at hn ⊢; omega)
          simp [drive, flatMapStep, flatMapPull, hfx, items, this]
      | pending =>
        have := ih n (by simp [items] at hn ⊢; omega)
        simp [drive, flatMapStep, flatMapPull, items, this]
      | ended => simp [drive, flatMapStep, flatMapPull, items]

theorem flatMap_refines (f : α → List β) (st : Src α × Option (List β)) (n : Nat)
    (hn : st.1.length + (flatMapSpec f st).length < n) :
    drive (flatMapStep f) n st = flatMapSpec f st := by
  obtain ⟨s, cur⟩ := st
  cases cur with
  | none => simpa [flatMapSpec] using aux_flatMap_none f s n (by simpa [flatMapSpec] using hn)
  | some ys => exact aux_flatMap_cur f s (aux_flatMap_none f s) ys n (by simpa [flatMapSpec] using hn)

theorem aux_flatMapPull_noEnd (f : α → List β) (s : Src α) (hs : NoEnd s) :
    NoEnd (flatMapPull f s).1.1 ∧
      ((flatMapPull f s).2 = .ended → (flatMapPull f s).1 = ([], none)) := by
  induction s with
  | nil => simp [flatMapPull, aux_noEnd_nil]
  | cons a r ih =>
    have hr := aux_noEnd_tail hs
    cases a with
    | ready x =>
      cases hfx : f x <;> simp [flatMapPull, hfx]
      · exact ih hr
      · exact hr
    | pending => simp [flatMapPull]; exact hr
    | ended => exact (aux_noEnd_head hs).elim

theorem flatMap_fused (f : α → List β) (st : Src α × Option (List β)) (hs : NoEnd st.1) :
    FusedAt (flatMapStep f) st := by
  refine aux_fused_of_inv _ (fun st => NoEnd st.1) (fun st => st = ([], none)) ?_ ?_ ?_ st hs
  · rintro ⟨s, cur⟩ hs
    rcases cur with _ | _ | ⟨y, ys⟩ <;> simp only [flatMapStep]
    · exact (aux_flatMapPull_noEnd f s hs).1
    · exact (aux_flatMapPull_noEnd f s hs).1
    · exact hs
  · rintro ⟨s, cur⟩ hs he
    rcases cur with _ | _ | ⟨y, ys⟩ <;> simp only [flatMapStep] at he ⊢
    · exact (aux_flatMapPull_noEnd f s hs).2 he
    · exact (aux_flatMapPull_noEnd f s hs).2 he
    · cases he
  · rintro st hs; subst hs; simp [flatMapStep, flatMapPull]

theorem flatMap_sizeHint (f : α → List β) (ih : List β → Nat) (hih : ∀ l, ih l ≤ l.length)
    (st : Src α × Option (List β)) (n : Nat)
    (hn : st.1.length + (flatMapSpec f st).length < n) :
    Brackets (flatMapHint ih st) (drive (flatMapStep f) n st).length := by
  rw [flatMap_refines f st n hn]
  obtain ⟨s, cur⟩ := st
  refine ⟨?_, fun u hu => by simp [flatMapHint] at hu⟩
  cases cur with
  | none => simp [flatMapHint]
  | some c => simp [flatMapHint, flatMapSpec]; have := hih c; omega

theorem flatten_refines (st : Src (List β) × Option (List β)) (n : Nat)
    (hn : st.1.length + (flatMapSpec id st).length < n) :
    drive flattenStep n st = (st.2.getD []) ++ (items st.1).flatten := by
  have := flatMap_refines (fun l : List β => l) st n hn
  change drive (flatMapStep (fun l : List β => l)) n st = _
  simpa [flatMapSpec, List.flatMap_id'] using this

theorem flatten_fused (st : Src (List β) × Option (List β)) (hs : NoEnd st.1) :
    FusedAt flattenStep st := flatMap_fused _ st hs

theorem flatten_sizeHint (ih : List β → Nat) (hih : ∀ l, ih l ≤ l.length)
    (st : Src (List β) × Option (List β)) (n : Nat)
    (hn : st.1.length + (flatMapSpec id st).length < n) :
    Brackets (flattenHint ih st) (drive flattenStep n st).length :=
  flatMap_sizeHint _ ih hih st n hn

/-! ### filter_map_async -/

/-- polls needed to consume a script: every element one poll, every future its pendings more -/
def fmaCost (f : α → Fut β) : Src α → Nat
  | [] => 0
  | .ready x :: r => (f x).1 + 1 + fmaCost f r
  | .pending :: r => 1 + fmaCost f r
  | .ended :: r => 1 + fmaCost f r

def futCost : Option (Fut β) → Nat
  | none => 0
  | some (k, _) => k + 1

def fmaSpec (f : α → Fut β) (st : Src α × Option (Fut β)) : List β :=
  (match st.2 with | some (_, some y) => [y] | _ => []) ++ (items st.1).filterMap (fun x => (f x).2)

theorem aux_fma_cur (f : α → Fut β) (s : Src α)
    (HA : ∀ n, fmaCost f s < n → drive (fmaStep f) n (s, none) = (items s).filterMap (fun x => (f x).2))
    (k : Nat) (o : Option β) (n : Nat) (hn : fmaCost f s + k + 1 < n) :
    drive (fmaStep f) n (s, some (k, o)) = fmaSpec f (s, some (k, o)) := by
  induction k generalizing n with
  | zero =>
    cases n with
    | zero => simp at hn
    | succ n =>
      cases o with
      | none =>
        have := HA (n + 1) (by omega)
        simp only [drive, fmaStep] at this ⊢
        simpa [fmaSpec] using this
      | some y =>
        have := HA n (by omega)
        simp [drive, fmaStep, fmaSpec, this]
  | succ k ih =>
    cases n with
    | zero => simp at hn
    | succ n =>
      have := ih n (by omega)
      simp only [drive, fmaStep]
      cases o <;> simpa [fmaSpec] using this

theorem aux_fma_none (f : α → Fut β) (s : Src α) (n : Nat) (hn : fmaCost f s < n) :
    drive (fmaStep f) n (s, none) = (items s).filterMap (fun x => (f x).2) := by
  induction s generalizing n with
  | nil => cases n <;> simp_all [drive, fmaStep, fmaPull, items]
  | cons a r ih =>
    cases n with
    | zero => simp at hn
    | succ n =>
      cases a with
      | ready x =>
        rcases hfx : f x with ⟨k, o⟩
        simp only [fmaCost, hfx] at hn
        cases k with
        | succ k =>
          have := aux_fma_cur f r ih k o n (by omega)
          simp only [drive, fmaStep, fmaPull, hfx]
          rw [this]; cases o <;> simp [fmaSpec, items, hfx]
        | zero =>
          cases o with
          | some y =>
            have := ih n (by omega)
            simp [drive, fmaStep, fmaPull, hfx, items, this]
          | none =>
            have := ih (n + 1) (by omega)
            simp only [drive, fmaStep] at this ⊢
            simpa [fmaPull, hfx, items] using this
      | pending =>
        have := ih n (by simp [fmaCost] at hn; omega)
        simp [drive, fmaStep, fmaPull, items, this]
      | ended => simp [drive, fmaStep, fmaPull, items]

theorem filterMapAsync_refines (f : α → Fut β) (st : Src α × Option (Fut β)) (n : Nat)
    (hn : fmaCost f st.1 + futCost st.2 < n) :
    drive (fmaStep f) n st = fmaSpec f st := by
  obtain ⟨s, cur⟩ := st
  cases cur with
  | none => simpa [fmaSpec] using aux_fma_none f s n (by simpa [futCost] using hn)
  | some c =>
    obtain ⟨k, o⟩ := c
    exact aux_fma_cur f s (aux_fma_none f s) k o n (by simp [futCost] at hn; omega)

theorem aux_fmaPull_noEnd (f : α → Fut β) (s : Src α) (hs : NoEnd s) :
    NoEnd (fmaPull f s).1.1 ∧ ((fmaPull f s).2 = .ended → (fmaPull f s).1 = ([], none)) := by
  induction s with
  | nil => simp [fmaPull, aux_noEnd_nil]
  | cons a r ih =>
    have hr := aux_noEnd_tail hs
    cases a with
    | ready x =>
      rcases hfx : f x with ⟨_ | k, _ | y⟩ <;> simp [fmaPull, hfx]
      · exact ih hr
      · exact hr
      · exact hr
      · exact hr
    | pending => simp [fmaPull]; exact hr
    | ended => exact (aux_noEnd_head hs).elim

theorem filterMapAsync_fused (f : α → Fut β) (st : Src α × Option (Fut β)) (hs : NoEnd st.1) :
    FusedAt (fmaStep f) st := by
  refine aux_fused_of_inv _ (fun st => NoEnd st.1) (fun st => st = ([], none)) ?_ ?_ ?_ st hs
  · rintro ⟨s, cur⟩ hs
    rcases cur with _ | ⟨_ | k, _ | y⟩ <;> simp only [fmaStep]
    · exact (aux_fmaPull_noEnd f s hs).1
    · exact (aux_fmaPull_noEnd f s hs).1
    · exact hs
    · exact hs
    · exact hs
  · rintro ⟨s, cur⟩ hs he
    rcases cur with _ | ⟨_ | k, _ | y⟩ <;> simp only [fmaStep] at he ⊢
    · exact (aux_fmaPull_noEnd f s hs).2 he
    · exact (aux_fmaPull_noEnd f s hs).2 he
    all_goals cases he
  · rintro st hs; subst hs; simp [fmaStep, fmaPull]

/-! ### flat_map_stream / flatten_stream -/

def fmsCost (f : α → Strm β) : Src α → Nat
  | [] => 0
  | .ready x :: r => (f x).length + 1 + fmsCost f r
  | .pending :: r => 1 + fmsCost f r
  | .ended :: r => 1 + fmsCost f r

def fmsSpec (f : α → Strm β) (st : Src α × Option (Strm β)) : List β :=
  strmItems (st.2.getD []) ++ (items st.1).flatMap (fun x => strmItems (f x))

theorem aux_fms_cur (f : α → Strm β) (s : Src α)
    (HA : ∀ n, fmsCost f s < n →
      drive (fmsStep f) n (s, none) = (items s).flatMap (fun x => strmItems (f x)))
    (t : Strm β) (n : Nat) (hn : fmsCost f s + t.length < n) :
    drive (fmsStep f) n (s, some t) = strmItems t ++ (items s).flatMap (fun x => strmItems (f x)) := by
  induction t generalizing n with
  | nil =>
    cases n with
    | zero => simp at hn
    | succ n =>
      have := HA (n + 1) (by simpa using hn)
      simp only [drive, fmsStep] at this ⊢
      simpa [strmItems] using this
  | cons y t ih =>
    cases n with
    | zero => simp at hn
    | succ n =>
      have := ih n (by simp at hn ⊢; omega)
      cases y <;> simp [drive, fmsStep, this, strmItems]

theorem aux_fms_none (f : α → Strm β) (s : Src α) (n : Nat) (hn : fmsCost f s < n) :
    drive (fmsStep f) n (s, none) = (items s).flatMap (fun x => strmItems (f x)) := by
  induction s generalizing n with
  | nil => cases n <;> simp_all [drive, fmsStep, fmsPull, items]
  | cons a r ih =>
    cases n with
    | zero => simp at hn
    | succ n =>
      cases a with
      | ready x =>
        simp only [fmsCost] at hn
        rcases hfx : f x with _ | ⟨_ | y, t⟩
        · have := ih (n + 1) (by omega)
          simp only [drive, fmsStep] at this ⊢
          simpa [fmsPull, hfx, items, strmItems] using this
        · have := aux_fms_cur f r ih t n (by simp [hfx] at hn; omega)
          simp [drive, fmsStep, fmsPull, hfx, items, this, strmItems]
        · have := aux_fms_cur f r ih t n (by simp [hfx] at hn; omega)
          simp [drive, fmsStep, fmsPull, hfx, items, this, strmItems]
      | pending =>
        have := ih n (by simp [fmsCost] at hn; omega)
        simp [drive, fmsStep, fmsPull, items, this]
      | ended => simp [drive, fmsStep, fmsPull, items]

theorem flatMapStream_refines (f : α → Strm β) (st : Src α × Option (Strm β)) (n : Nat)
    (hn : fmsCost f st.1 + (st.2.getD []).length < n) :
    drive (fmsStep f) n st = fmsSpec f st := by
  obtain ⟨s, cur⟩ := st
  cases cur with
  | none => simpa [fmsSpec, strmItems] using aux_fms_none f s n (by simpa using hn)
  | some t => exact aux_fms_cur f s (aux_fms_none f s) t n (by simpa using hn)

theorem aux_fmsPull_noEnd (f : α → Strm β) (s : Src α) (hs : NoEnd s) :
    NoEnd (fmsPull f s).1.1 ∧ ((fmsPull f s).2 = .ended → (fmsPull f s).1 = ([], none)) := by
  induction s with
  | nil => simp [fmsPull, aux_noEnd_nil]
  | cons a r ih =>
    have hr := aux_noEnd_tail hs
    cases a with
    | ready x =>
      rcases hfx : f x with _ | ⟨_ | y, t⟩ <;> simp [fmsPull, hfx]
      · exact ih hr
      · exact hr
      · exact hr
    | pending => simp [fmsPull]; exact hr
    | ended => exact (aux_noEnd_head hs).elim

theorem flatMapStream_fused (f : α → Strm β) (st : Src α × Option (Strm β)) (hs : NoEnd st.1) :
    FusedAt (fmsStep f) st := by
  refine aux_fused_of_inv _ (fun st => NoEnd st.1) (fun st => st = ([], none)) ?_ ?_ ?_ st hs
  · rintro ⟨s, cur⟩ hs
    rcases cur with _ | _ | ⟨_ | y, t⟩ <;> simp only [fmsStep]
    · exact (aux_fmsPull_noEnd f s hs).1
    · exact (aux_fmsPull_noEnd f s hs).1
    · exact hs
    · exact hs
  · rintro ⟨s, cur⟩ hs he
    rcases cur with _ | _ | ⟨_ | y, t⟩ <;> simp only [fmsStep] at he ⊢
    · exact (aux_fmsPull_noEnd f s hs).2 he
    · exact (aux_fmsPull_noEnd f s hs).2 he
    all_goals cases he
  · rintro st hs; subst hs; simp [fmsStep, fmsPull]

theorem flatMapStream_sizeHint (f : α → Strm β) (ih : Strm β → Nat)
    (hih : ∀ t, ih t ≤ (strmItems t).length) (st : Src α × Option (Strm β)) (n : Nat)
    (hn : fmsCost f st.1 + (st.2.getD []).length < n) :
    Brackets (fmsHint ih st) (drive (fmsStep f) n st).length := by
  rw [flatMapStream_refines f st n hn]
  obtain ⟨s, cur⟩ := st
  refine ⟨?_, fun u hu => by simp [fmsHint] at hu⟩
  cases cur with
  | none => simp [fmsHint]
  | some c => simp [fmsHint, fmsSpec]; have := hih c; omega

theorem flattenStream_refines (st : Src (Strm β) × Option (Strm β)) (n : Nat)
    (hn : fmsCost id st.1 + (st.2.getD []).length < n) :
    drive flattenStreamStep n st =
      strmItems (st.2.getD []) ++ (items st.1).flatMap strmItems := by
  have := flatMapStream_refines (fun t : Strm β => t) st n hn
  change drive (fmsStep (fun t : Strm β => t)) n st = _
  simpa [fmsSpec] using this

theorem flattenStream_fused (st : Src (Strm β) × Option (Strm β)) (hs : NoEnd st.1) :
    FusedAt flattenStreamStep st := flatMapStream_fused _ st hs

theorem flattenStream_sizeHint (ih : Strm β → Nat) (hih : ∀ t, ih t ≤ (strmItems t).length)
    (st : Src (Strm β) × Option (Strm β)) (n : Nat)
    (hn : fmsCost id st.1 + (st.2.getD []).length < n) :
    Brackets (flattenStreamHint ih st) (drive flattenStreamStep n st).length :=
  flatMapStream_sizeHint _ ih hih st n hn

/-! ### filter_map_async: size hint (as fixed in /repo: an in-flight future counts) -/

theorem filterMapAsync_sizeHint (f : α → Fut β) (h : Src α → Hint) (hh : HintOk h)
    (st : Src α × Option (Fut β)) (n : Nat) (hn : fmaCost f st.1 + futCost st.2 < n) :
    Brackets (fmaHint h st) (drive (fmaStep f) n st).length := by
  rw [filterMapAsync_refines f st n hn]
  obtain ⟨s, cur⟩ := st
  obtain ⟨_, h2⟩ := hh s
  have hle := length_filterMap_le (fun x => (f x).2) (items s)
  refine ⟨Nat.zero_le _, fun u hu => ?_⟩
  rcases cur with _ | ⟨k, _ | y⟩ <;> simp [fmaHint, fmaSpec] at hu ⊢
  · have := h2 u hu; omega
  · obtain ⟨v, hv, rfl⟩ := hu; have := h2 v hv; omega
  · obtain ⟨v, hv, rfl⟩ := hu; have := h2 v hv; omega

/-- the hint before the fix (`(0, prev upper)`) -/
def fmaHintOld (h : Src α → Hint) (st : Src α × Option (Fut β)) : Hint := (0, (h st.1).2)

/-- witness of the defect fixed in /repo (0c9b3cb24cb): source exhausted, future in flight that
will yield an item: the old hint promised at most 0 more items, one comes -/
theorem filterMapAsync_sizeHint_old_refuted :
    ¬ Brackets (fmaHintOld (scriptHint 0 (some 0)) (([] : Src Nat), some (0, some 7)))
        (drive (fmaStep (fun _ : Nat => ((0, none) : Fut Nat))) 2 ([], some (0, some 7))).length := by
  simp [Brackets, fmaHintOld, scriptHint, items, drive, fmaStep, fmaPull]

/-! ### stream_ready -/

/-- items until the stream first pends or ends -/
def readyPrefix : Src α → List α
  | .ready x :: r => x :: readyPrefix r
  | _ => []

theorem streamReady_refines (s : Src α) (n : Nat) (h : s.length < n) :
    drive streamReadyStep n s = readyPrefix s := by
  induction s generalizing n with
  | nil => cases n <;> simp_all [drive, streamReadyStep, Src.pull, readyPrefix]
  | cons a r ih =>
    cases n with
    | zero => simp at h
    | succ n =>
      have := ih n (by simpa using h)
      cases a <;> simp_all [drive, streamReadyStep, Src.pull, readyPrefix]

theorem aux_readyPrefix_le (s : Src α) : (readyPrefix s).length ≤ (items s).length := by
  induction s with
  | nil => simp [readyPrefix]
  | cons a r ih => cases a <;> simp [readyPrefix, items]; exact ih

theorem streamReady_sizeHint (h : Src α → Hint) (hh : HintOk h) (s : Src α) (n : Nat)
    (hn : s.length < n) : Brackets (streamReadyHint h s) (drive streamReadyStep n s).length := by
  rw [streamReady_refines s n hn]
  refine ⟨Nat.zero_le _, fun u hu => ?_⟩
  exact Nat.le_trans (aux_readyPrefix_le s) ((hh s).2 u hu)

/-- witness of the defect fixed in /repo (084236a7d7a): forwarding the stream's own hint
promises 2 items for `[ready, pending, ready]`, one comes before `Ended` -/
theorem streamReady_sizeHint_old_refuted :
    ¬ Brackets (scriptHint 0 (some 0) ([.ready 1, .pending, .ready 2] : Src Nat))
        (drive streamReadyStep 4 ([.ready 1, .pending, .ready 2] : Src Nat)).length := by
  simp [Brackets, scriptHint, items, drive, streamReadyStep, Src.pull]

/-! ### sources -/

theorem iter_refines (l : List α) (n : Nat) (h : l.length < n) : drive iterStep n l = l := by
  induction l generalizing n with
  | nil => cases n <;> simp_all [drive, iterStep]
  | cons a r ih =>
    cases n with
    | zero => simp at h
    | succ n => simp [drive, iterStep, ih n (by simpa using h)]

theorem iter_fused (l : List α) : FusedAt iterStep l := by
  refine aux_fused_of_inv _ (fun _ => True) (· = []) ?_ ?_ ?_ l trivial
  · intros; trivial
  · intro l _ he; cases l <;> simp_all [iterStep]
  · intro l hl; subst hl; simp [iterStep]

theorem iter_sizeHint (l : List α) (n : Nat) (h : l.length < n) :
    Brackets (iterHint l) (drive iterStep n l).length := by
  rw [iter_refines l n h]; simp [iterHint, Brackets]

theorem once_refines (o : Option α) (n : Nat) (h : 1 < n) : drive onceStep n o = o.toList := by
  match n, h with
  | n + 2, _ => cases o <;> simp [drive, onceStep]

theorem once_fused (o : Option α) : FusedAt onceStep o := by
  refine aux_fused_of_inv _ (fun _ => True) (· = none) ?_ ?_ ?_ o trivial
  · intros; trivial
  · intro o _ he; cases o <;> simp_all [onceStep]
  · intro o ho; subst ho; simp [onceStep]

theorem once_sizeHint (o : Option α) (n : Nat) (h : 1 < n) :
    Brackets (onceHint o) (drive onceStep n o).length := by
  rw [once_refines o n h]; cases o <;> simp [onceHint, Brackets]

theorem empty_refines (n : Nat) : drive (emptyStep (α := α)) n () = [] := by
  cases n <;> simp [drive, emptyStep]

theorem empty_fused : FusedAt (emptyStep (α := α)) () := by
  intro k _ j; simp [emptyStep]

theorem empty_sizeHint (n : Nat) : Brackets emptyHint (drive (emptyStep (α := α)) n ()).length := by
  rw [empty_refines]; simp [emptyHint, Brackets]

/-- `Repeat` never ends and never pends: `n` polls give `n` copies -/
theorem repeat_refines (x : α) (n : Nat) : drive repeatStep n x = replicate n x := by
  induction n with
  | zero => rfl
  | succ n ih => simp [drive, repeatStep, ih, replicate_succ]

/-- `Pending` never yields and never ends -/
theorem pending_refines (n : Nat) (k : Nat) :
    drive (pendingStep (α := α)) n () = [] ∧
      (pendingStep (α := α) (after (pendingStep (α := α)) k ())).2 = .pending := by
  constructor
  · induction n with
    | zero => rfl
    | succ n ih => simp [drive, pendingStep, ih]
  · simp [pendingStep]

/-- `FromFn` / `PollFn` / `Stream` / `StreamCompat`: the answers are forwarded unchanged -/
theorem fromFn_refines (s : Src α) (n : Nat) (h : s.length < n) : drive fromFnStep n s = items s := by
  induction s generalizing n with
  | nil => cases n <;> simp_all [drive, fromFnStep, Src.pull, items]
  | cons a r ih =>
    cases n with
    | zero => simp at h
    | succ n =>
      have := ih n (by simpa using h)
      cases a <;> simp_all [drive, fromFnStep, Src.pull, items]

theorem fromFn_sizeHint (s : Src α) (n : Nat) : Brackets fromFnHint (drive fromFnStep n s).length := by
  simp [fromFnHint, Brackets]

/-- `Stream<St: FusedStream>` (and a `from_fn`/`poll_fn` closure that keeps answering `Ended`):
a script without premature `Ended` is fused -/
theorem fromFn_fused (s : Src α) (hs : NoEnd s) : FusedAt fromFnStep s := by
  refine aux_fused_of_inv _ NoEnd (· = []) ?_ ?_ ?_ s hs
  · intro s hs; rcases s with _ | ⟨(x | _ | _), r⟩ <;>
      first | exact aux_noEnd_nil | exact aux_noEnd_tail hs
  · intro s hs he; rcases s with _ | ⟨(x | _ | _), r⟩ <;> simp_all [fromFnStep, Src.pull]
    exact (aux_noEnd_head hs).elim
  · intro s hs; subst hs; simp [fromFnStep, Src.pull]

/-- `Stream::size_hint` / `StreamCompat::size_hint` forward the hint of what they wrap -/
theorem stream_sizeHint (h : Src α → Hint) (hh : HintOk h) (s : Src α) (n : Nat) (hn : s.length < n) :
    Brackets (h s) (drive fromFnStep n s).length := by
  rw [fromFn_refines s n hn]; exact hh s

/-- `Pending` is (vacuously) fused: it never reports `Ended` -/
theorem pending_fused : FusedAt (pendingStep (α := α)) () := by
  intro k hk; simp [pendingStep] at hk

/-- `Pending::size_hint = (0, Some(0))`: nothing is ever yielded -/
theorem pending_sizeHint (n : Nat) : Brackets pendingHint (drive (pendingStep (α := α)) n ()).length := by
  rw [(pending_refines (α := α) n 0).1]; simp [pendingHint, Brackets]

/-- `Repeat` is (vacuously) fused: it never reports `Ended` -/
theorem repeat_fused (x : α) : FusedAt repeatStep x := by
  intro k hk; simp [repeatStep] at hk

/-- `Repeat::size_hint = (usize::MAX, None)`: no upper bound is promised and every lower bound is met
(`m` polls yield `m` items, for every `m`) -/
theorem repeat_sizeHint (x : α) : repeatHint.2 = none ∧ ∀ m, (drive repeatStep m x).length = m := by
  refine ⟨rfl, fun m => ?_⟩
  rw [repeat_refines]; simp

/-! ### futures that drain a pull: collect / for_each / accumulate_all -/

/-- polled to completion under any pending placement, the future has folded exactly the items -/
theorem fold_refines (g : σ → α → σ) (s : Src α) (acc : σ) (n : Nat) (h : s.length < n) :
    driveFut g n s acc = some ((items s).foldl g acc) := by
  induction s generalizing n acc with
  | nil => cases n <;> simp_all [driveFut, foldPoll, items]
  | cons a r ih =>
    cases n with
    | zero => simp at h
    | succ n =>
      cases a with
      | ready x =>
        have := ih (g acc x) (n + 1) (by simp at h; omega)
        simp only [driveFut] at this ⊢
        simpa [foldPoll, items] using this
      | pending =>
        have := ih acc n (by simpa using h)
        simp [driveFut, foldPoll, items, this]
      | ended => simp [driveFut, foldPoll, items]

theorem collect_refines (s : Src α) (acc : List α) (n : Nat) (h : s.length < n) :
    driveFut collectG n s acc = some (acc ++ items s) := by
  rw [fold_refines collectG s acc n h]
  congr 1
  generalize items s = l
  induction l generalizing acc with
  | nil => simp
  | cons x xs ih => simp [collectG, ih]

/-- `ForEach`: polled to completion under any pending placement, the closure has been called with
exactly the items, in order (the closure log is the accumulator) -/
theorem forEach_refines (s : Src α) (n : Nat) (h : s.length < n) :
    driveFut collectG n s [] = some (items s) := by
  simpa using collect_refines s [] n h

/-! ### chain (first input fused, as `Chain` demands) -/

theorem aux_chain_second (b : Src α) (n : Nat) (h : b.length < n) :
    drive chainStep n ([], b) = items b := by
  induction b generalizing n with
  | nil => cases n <;> simp_all [drive, chainStep, Src.pull, items]
  | cons x r ih =>
    cases n with
    | zero => simp at h
    | succ n =>
      have := ih n (by simpa using h)
      cases x <;> simp_all [drive, chainStep, Src.pull, items]

theorem chain_refines (a b : Src α) (ha : NoEnd a) (n : Nat) (h : a.length + b.length < n) :
    drive chainStep n (a, b) = items a ++ items b := by
  induction a generalizing n with
  | nil => simpa [items] using aux_chain_second b n (by simpa using h)
  | cons x r ih =>
    have hr := aux_noEnd_tail ha
    cases n with
    | zero => simp at h
    | succ n =>
      have := ih hr n (by simp at h ⊢; omega)
      cases x with
      | ready x => simp_all [drive, chainStep, Src.pull, items]
      | pending => simp_all [drive, chainStep, Src.pull, items]
      | ended => exact (aux_noEnd_head ha).elim

theorem chain_fused (a b : Src α) (ha : NoEnd a) (hb : NoEnd b) : FusedAt chainStep (a, b) := by
  refine aux_fused_of_inv _ (fun st => NoEnd st.1 ∧ NoEnd st.2) (fun st => st = ([], [])) ?_ ?_ ?_
    (a, b) ⟨ha, hb⟩
  · rintro ⟨a, b⟩ ⟨ha, hb⟩
    rcases a with _ | ⟨(x | _ | _), a⟩
    · rcases b with _ | ⟨y, b⟩
      · exact ⟨aux_noEnd_nil, aux_noEnd_nil⟩
      · exact ⟨aux_noEnd_nil, aux_noEnd_tail hb⟩
    · exact ⟨aux_noEnd_tail ha, hb⟩
    · exact ⟨aux_noEnd_tail ha, hb⟩
    · exact (aux_noEnd_head ha).elim
  · rintro ⟨a, b⟩ ⟨ha, hb⟩ he
    rcases a with _ | ⟨(x | _ | _), a⟩
    · rcases b with _ | ⟨(y | _ | _), b⟩ <;> simp_all [chainStep, Src.pull]
      exact (aux_noEnd_head hb).elim
    · simp [chainStep, Src.pull] at he
    · simp [chainStep, Src.pull] at he
    · exact (aux_noEnd_head ha).elim
  · rintro st hs; subst hs; simp [chainStep, Src.pull]

theorem chain_sizeHint (h1 h2 : Src α → Hint) (hh1 : HintOk h1) (hh2 : HintOk h2)
    (a b : Src α) (ha : NoEnd a) (n : Nat) (hn : a.length + b.length < n) :
    Brackets (chainHint h1 h2 (a, b)) (drive chainStep n (a, b)).length := by
  rw [chain_refines a b ha n hn, length_append]
  obtain ⟨l1, u1⟩ := hh1 a
  obtain ⟨l2, u2⟩ := hh2 b
  refine ⟨by simp [chainHint, addHint]; omega, fun u hu => ?_⟩
  simp only [chainHint, addHint] at hu
  cases e1 : (h1 a).2 <;> cases e2 : (h2 b).2 <;> simp [e1, e2] at hu
  have := u1 _ e1; have := u2 _ e2; omega

/-! ### either -/

theorem either_refines_left (l : Src α) (n : Nat) (h : l.length < n) :
    drive eitherStep n (.inl l) = items l := by
  induction l generalizing n with
  | nil => cases n <;> simp_all [drive, eitherStep, Src.pull, items]
  | cons x r ih =>
    cases n with
    | zero => simp at h
    | succ n =>
      have := ih n (by simpa using h)
      cases x <;> simp_all [drive, eitherStep, Src.pull, items]

theorem either_refines_right (r : Src α) (n : Nat) (h : r.length < n) :
    drive eitherStep n (.inr r) = items r := by
  induction r generalizing n with
  | nil => cases n <;> simp_all [drive, eitherStep, Src.pull, items]
  | cons x r ih =>
    cases n with
    | zero => simp at h
    | succ n =>
      have := ih n (by simpa using h)
      cases x <;> simp_all [drive, eitherStep, Src.pull, items]

theorem either_fused (st : Src α ⊕ Src α) (hs : match st with | .inl l => NoEnd l | .inr r => NoEnd r) :
    FusedAt eitherStep st := by
  refine aux_fused_of_inv _ (fun st => match st with | .inl l => NoEnd l | .inr r => NoEnd r)
    (fun st => st = .inl [] ∨ st = .inr []) ?_ ?_ ?_ st hs
  · rintro (l | r) hs
    · rcases l with _ | ⟨x, l⟩ <;> simp [eitherStep, Src.pull]
      · exact aux_noEnd_nil
      · exact aux_noEnd_tail hs
    · rcases r with _ | ⟨x, r⟩ <;> simp [eitherStep, Src.pull]
      · exact aux_noEnd_nil
      · exact aux_noEnd_tail hs
  · rintro (l | r) hs he
    · rcases l with _ | ⟨(x | _ | _), l⟩ <;> simp_all [eitherStep, Src.pull]
      exact (aux_noEnd_head hs).elim
    · rcases r with _ | ⟨(x | _ | _), r⟩ <;> simp_all [eitherStep, Src.pull]
      exact (aux_noEnd_head hs).elim
  · rintro st (hs | hs) <;> subst hs <;> simp [eitherStep, Src.pull]

theorem either_sizeHint (h1 h2 : Src α → Hint) (hh1 : HintOk h1) (hh2 : HintOk h2)
    (st : Src α ⊕ Src α) (n : Nat) (hn : (match st with | .inl l => l.length | .inr r => r.length) < n) :
    Brackets (eitherHint h1 h2 st) (drive eitherStep n st).length := by
  cases st with
  | inl l => rw [either_refines_left l n hn]; exact hh1 l
  | inr r => rw [either_refines_right r n hn]; exact hh2 r

/-! ### zip (no fused requirement) -/

/-- what is still to come: `Iterator::zip` of the remaining items, the buffered item put back -/
def zipSpec (st : ZipSt α β) : List (α × β) :=
  match st.buf with
  | some (.inl a) => List.zip (a :: items st.l) (items st.r)
  | some (.inr b) => List.zip (items st.l) (b :: items st.r)
  | none => List.zip (items st.l) (items st.r)

theorem zip_refines (st : ZipSt α β) (n : Nat) (h : st.l.length + st.r.length < n) :
    drive zipStep n st = zipSpec st := by
  induction n generalizing st with
  | zero => simp at h
  | succ n ih =>
    obtain ⟨l, r, buf⟩ := st
    simp only [drive]
    rcases buf with _ | a | b <;> rcases l with _ | ⟨(x | _ | _), l⟩ <;> rcases r with _ | ⟨(y | _ | _), r⟩ <;>
      simp [zipStep, zipPulls, Src.pull, zipSpec, items] <;>
      (rw [ih _ (by simp at h ⊢; omega)]; simp [zipSpec, items])

theorem zip_sizeHint (h1 : Src α → Hint) (h2 : Src β → Hint) (hh1 : HintOk h1) (hh2 : HintOk h2)
    (st : ZipSt α β) (n : Nat) (hn : st.l.length + st.r.length < n) :
    Brackets (zipHint h1 h2 st) (drive zipStep n st).length := by
  rw [zip_refines st n hn]
  obtain ⟨l, r, buf⟩ := st
  obtain ⟨l1, u1⟩ := hh1 l
  obtain ⟨l2, u2⟩ := hh2 r
  rcases buf with _ | a | b <;> cases e1 : (h1 l).2 <;> cases e2 : (h2 r).2 <;>
    simp [zipHint, zipSides, zipSpec, Brackets, e1, e2] <;>
    (first
      | omega
      | (have := u1 _ e1; omega)
      | (have := u2 _ e2; omega)
      | (have := u1 _ e1; have := u2 _ e2; omega))

/-! ### zip_longest (both inputs fused, as `ZipLongest` demands) -/

/-- `itertools::zip_longest` -/
def zipLongest : List α → List β → List (EOB α β)
  | [], [] => []
  | a :: as, [] => .left a :: zipLongest as []
  | [], b :: bs => .right b :: zipLongest [] bs
  | a :: as, b :: bs => .both a b :: zipLongest as bs

theorem aux_zipLongest_length (l : List α) (r : List β) :
    (zipLongest l r).length = max l.length r.length := by
  induction l generalizing r with
  | nil => induction r with
    | nil => simp [zipLongest]
    | cons b bs ih => simp [zipLongest, ih]
  | cons a as ih => cases r with
    | nil => simp [zipLongest, ih]
    | cons b bs => simp [zipLongest, ih]; try omega

def zipLongestSpec (st : ZipSt α β) : List (EOB α β) :=
  match st.buf with
  | some (.inl a) => zipLongest (a :: items st.l) (items st.r)
  | some (.inr b) => zipLongest (items st.l) (b :: items st.r)
  | none => zipLongest (items st.l) (items st.r)

theorem zipLongest_refines (st : ZipSt α β) (hl : NoEnd st.l) (hr : NoEnd st.r) (n : Nat)
    (h : st.l.length + st.r.length + (if st.buf.isSome then 1 else 0) < n) :
    drive zipLongestStep n st = zipLongestSpec st := by
  induction n generalizing st with
  | zero => simp at h
  | succ n ih =>
    obtain ⟨l, r, buf⟩ := st
    simp only at hl hr
    simp only [drive]
    rcases buf with _ | a | b <;> rcases l with _ | ⟨(x | _ | _), l⟩ <;> rcases r with _ | ⟨(y | _ | _), r⟩ <;>
      (first
        | exact (aux_noEnd_head hl).elim
        | exact (aux_noEnd_head hr).elim
        | (simp [zipLongestStep, zipPulls, Src.pull, zipLongestSpec, items, zipLongest] <;>
           (rw [ih] <;> first
              | (simp [zipLongestSpec, items, zipLongest]; done)
              | exact aux_noEnd_tail hl | exact hl | exact aux_noEnd_nil
              | exact aux_noEnd_tail hr | exact hr
              | (simp at h ⊢; omega))))

theorem zipLongest_fused (st : ZipSt α β) (hl : NoEnd st.l) (hr : NoEnd st.r) :
    FusedAt zipLongestStep st := by
  refine aux_fused_of_inv _ (fun st => NoEnd st.l ∧ NoEnd st.r)
    (fun st => st.l = [] ∧ st.r = [] ∧ st.buf = none) ?_ ?_ ?_ st ⟨hl, hr⟩
  · rintro ⟨l, r, buf⟩ ⟨hl, hr⟩
    simp only at hl hr
    rcases buf with _ | a | b <;> rcases l with _ | ⟨(x | _ | _), l⟩ <;> rcases r with _ | ⟨(y | _ | _), r⟩ <;>
      (first
        | exact (aux_noEnd_head hl).elim
        | exact (aux_noEnd_head hr).elim
        | exact ⟨by first | exact aux_noEnd_tail hl | exact hl | exact aux_noEnd_nil,
                 by first | exact aux_noEnd_tail hr | exact hr | exact aux_noEnd_nil⟩)
  · rintro ⟨l, r, buf⟩ ⟨hl, hr⟩ he
    simp only at hl hr
    rcases buf with _ | a | b <;> rcases l with _ | ⟨(x | _ | _), l⟩ <;> rcases r with _ | ⟨(y | _ | _), r⟩ <;>
      (first
        | exact (aux_noEnd_head hl).elim
        | exact (aux_noEnd_head hr).elim
        | simp_all [zipLongestStep, zipPulls, Src.pull])
  · rintro ⟨l, r, buf⟩ ⟨h1, h2, h3⟩
    simp only at h1 h2 h3; subst h1 h2 h3
    simp [zipLongestStep, zipPulls, Src.pull]

theorem zipLongest_sizeHint (h1 : Src α → Hint) (h2 : Src β → Hint) (hh1 : HintOk h1) (hh2 : HintOk h2)
    (st : ZipSt α β) (hl : NoEnd st.l) (hr : NoEnd st.r) (n : Nat)
    (hn : st.l.length + st.r.length + (if st.buf.isSome then 1 else 0) < n) :
    Brackets (zipLongestHint h1 h2 st) (drive zipLongestStep n st).length := by
  rw [zipLongest_refines st hl hr n hn]
  obtain ⟨l, r, buf⟩ := st
  obtain ⟨l1, u1⟩ := hh1 l
  obtain ⟨l2, u2⟩ := hh2 r
  rcases buf with _ | a | b <;> cases e1 : (h1 l).2 <;> cases e2 : (h2 r).2 <;>
    simp [zipLongestHint, zipSides, zipLongestSpec, aux_zipLongest_length, Brackets, e1, e2] <;>
    (first
      | omega
      | (have := u1 _ e1; have := u2 _ e2; omega))

/-! ### cross_singleton (no fused requirement for the refinement) -/

def crossSpec (st : CrossSt α β) : List (α × β) :=
  match st.state with
  | some v => (items st.item).map (·, v)
  | none =>
    match items st.single with
    | [] => []
    | v :: _ => (items st.item).map (·, v)

theorem aux_cross_some (item : Src α) (single : Src β) (v : β) (n : Nat) (h : item.length < n) :
    drive crossStep n ⟨item, single, some v⟩ = (items item).map (·, v) := by
  induction item generalizing n with
  | nil => cases n <;> simp_all [drive, crossStep, crossItem, Src.pull, items]
  | cons x r ih =>
    cases n with
    | zero => simp at h
    | succ n =>
      have := ih n (by simpa using h)
      cases x <;> simp_all [drive, crossStep, crossItem, Src.pull, items]

theorem cross_refines (st : CrossSt α β) (n : Nat) (h : st.item.length + st.single.length < n) :
    drive crossStep n st = crossSpec st := by
  obtain ⟨item, single, state⟩ := st
  cases state with
  | some v => simpa [crossSpec] using aux_cross_some item single v n (by simp at h; omega)
  | none =>
    simp only at h
    induction single generalizing n with
    | nil => cases n <;> simp_all [drive, crossStep, Src.pull, crossSpec, items]
    | cons y s ih =>
      cases n with
      | zero => simp at h
      | succ n =>
        cases y with
        | pending =>
          have := ih n (by simp at h ⊢; omega)
          simp_all [drive, crossStep, Src.pull, crossSpec, items]
        | ended => simp [drive, crossStep, Src.pull, crossSpec, items]
        | ready v =>
          rcases item with _ | ⟨(x | _ | _), item⟩
          · simp [drive, crossStep, crossItem, Src.pull, crossSpec, items]
          · have := aux_cross_some item s v n (by simp at h; omega)
            simp [drive, crossStep, crossItem, Src.pull, crossSpec, items, this]
          · have := aux_cross_some item s v n (by simp at h; omega)
            simp [drive, crossStep, crossItem, Src.pull, crossSpec, items, this]
          · simp [drive, crossStep, crossItem, Src.pull, crossSpec, items]

theorem cross_fused (st : CrossSt α β) (hi : NoEnd st.item) (hs : NoEnd st.single) :
    FusedAt crossStep st := by
  refine aux_fused_of_inv _ (fun st => NoEnd st.item ∧ NoEnd st.single)
    (fun st => (st.state = none ∧ st.single = []) ∨ (st.state.isSome ∧ st.item = [])) ?_ ?_ ?_ st ⟨hi, hs⟩
  · rintro ⟨item, single, state⟩ ⟨hi, hs⟩
    simp only at hi hs
    rcases state with _ | v <;> rcases single with _ | ⟨(y | _ | _), single⟩ <;>
      rcases item with _ | ⟨(x | _ | _), item⟩ <;>
      (first
        | exact (aux_noEnd_head hi).elim
        | exact (aux_noEnd_head hs).elim
        | exact ⟨by first | exact aux_noEnd_tail hi | exact hi | exact aux_noEnd_nil,
                 by first | exact aux_noEnd_tail hs | exact hs | exact aux_noEnd_nil⟩)
  · rintro ⟨item, single, state⟩ ⟨hi, hs⟩ he
    simp only at hi hs
    rcases state with _ | v <;> rcases single with _ | ⟨(y | _ | _), single⟩ <;>
      rcases item with _ | ⟨(x | _ | _), item⟩ <;>
      (first
        | exact (aux_noEnd_head hi).elim
        | exact (aux_noEnd_head hs).elim
        | simp_all [crossStep, crossItem, Src.pull])
  · rintro ⟨item, single, state⟩ (⟨h1, h2⟩ | ⟨h1, h2⟩)
    · simp only at h1 h2; subst h1 h2; simp [crossStep, Src.pull]
    · simp only at h1 h2; subst h2
      cases state with
      | none => simp at h1
      | some v => simp [crossStep, crossItem, Src.pull]

theorem cross_sizeHint (h1 : Src α → Hint) (hh1 : HintOk h1) (st : CrossSt α β) (n : Nat)
    (hn : st.item.length + st.single.length < n) :
    Brackets (crossHint h1 st) (drive crossStep n st).length := by
  rw [cross_refines st n hn]
  obtain ⟨item, single, state⟩ := st
  obtain ⟨l1, u1⟩ := hh1 item
  cases state with
  | some v => exact ⟨by simpa [crossHint, crossSpec] using l1, fun u hu => by simpa [crossSpec] using u1 u hu⟩
  | none =>
    refine ⟨by simp [crossHint], fun u hu => ?_⟩
    have := u1 u hu
    simp only [crossSpec]
    cases items single <;> simp <;> omega

/-! ### the match tables of Zip / ZipLongest / CrossSingleton, regenerated from the Rust source -/

def kindOf : Step α → Gen.K
  | .ready _ => .ready
  | .pending => .pending
  | .ended => .ended

/-- what a zip step did, read off its answer and the buffer it left -/
def zipActOf (r : ZipSt α β × Step (α × β)) : Gen.Act :=
  match r.2, r.1.buf with
  | .ready _, _ => .both
  | .pending, some (.inl _) => .bufLeft
  | .pending, some (.inr _) => .bufRight
  | .pending, none => .pending
  | .ended, _ => .ended

def zipLongestActOf (r : ZipSt α β × Step (EOB α β)) : Gen.Act :=
  match r.2, r.1.buf with
  | .ready (.both _ _), _ => .both
  | .ready (.left _), _ => .left
  | .ready (.right _), _ => .right
  | .pending, some (.inl _) => .bufLeft
  | .pending, some (.inr _) => .bufRight
  | .pending, none => .pending
  | .ended, _ => .ended

/-- the model's `Zip::pull` takes, for every pair of answers, the arm the Rust `match` takes -/
theorem zip_table_matches_source (st : ZipSt α β) :
    zipActOf (zipStep st) = Gen.zipTable (kindOf (zipPulls st).1.2) (kindOf (zipPulls st).2.2) := by
  obtain ⟨l, r, buf⟩ := st
  rcases buf with _ | a | b <;> rcases l with _ | ⟨(x | _ | _), l⟩ <;> rcases r with _ | ⟨(y | _ | _), r⟩ <;> rfl

theorem zipLongest_table_matches_source (st : ZipSt α β) :
    zipLongestActOf (zipLongestStep st) =
      Gen.zipLongestTable (kindOf (zipPulls st).1.2) (kindOf (zipPulls st).2.2) := by
  obtain ⟨l, r, buf⟩ := st
  rcases buf with _ | a | b <;> rcases l with _ | ⟨(x | _ | _), l⟩ <;> rcases r with _ | ⟨(y | _ | _), r⟩ <;> rfl

/-- singleton side of `CrossSingleton::pull` (only consulted while no value is stored) -/
theorem cross_single_table_matches_source (st : CrossSt α β) (h : st.state = none) :
    (match (crossStep st).1.state, (crossStep st).2 with
      | some _, _ => Gen.Act.store
      | none, .pending => .pending
      | none, _ => .ended) = Gen.crossSingleTable (kindOf st.single.pull.2) := by
  obtain ⟨item, single, state⟩ := st
  simp only at h; subst h
  rcases single with _ | ⟨(y | _ | _), s⟩ <;> rcases item with _ | ⟨(x | _ | _), i⟩ <;> rfl

/-- item side, once a singleton value `v` is stored -/
theorem cross_item_table_matches_source (st : CrossSt α β) (v : β) (h : st.state = some v) :
    (match (crossStep st).2 with
      | .ready _ => Gen.Act.ready
      | .pending => .pending
      | .ended => .ended) = Gen.crossItemTable (kindOf st.item.pull.2) := by
  obtain ⟨item, single, state⟩ := st
  simp only at h; subst h
  rcases item with _ | ⟨(x | _ | _), i⟩ <;> rfl

/-! ### accumulate_all: per key, the values folded in arrival order -/

variable {κ ν ω : Type} [DecidableEq κ]

/-- `HashMap::get` on the association-list model -/
def tblGet : List (κ × ω) → κ → Option ω
  | [], _ => none
  | (k', a) :: t, k => if k' = k then some a else tblGet t k

theorem aux_tblUpsert_get (k k' : κ) (ins : Unit → ω) (upd : ω → ω) (t : List (κ × ω)) :
    tblGet (tblUpsert k ins upd t) k' =
      if k = k' then some (match tblGet t k with | some a => upd a | none => ins ()) else tblGet t k' := by
  induction t with
  | nil => simp [tblUpsert, tblGet]
  | cons e r ih =>
    obtain ⟨k0, a⟩ := e
    by_cases h0 : k0 = k
    · subst h0
      by_cases h1 : k0 = k' <;> simp [tblUpsert, tblGet, h1]
    · by_cases h1 : k = k'
      · subst h1; simp [tblUpsert, tblGet, h0, ih]
      · by_cases h2 : k0 = k'
        · subst h2; simp [tblUpsert, tblGet, h0, h1]
        · simp [tblUpsert, tblGet, h0, h1, h2, ih]

/-- one accumulator step on the value stored for a key (`None` = vacant entry) -/
def accStep (ins : ν → ω) (upd : ω → ν → ω) (o : Option ω) (v : ν) : Option ω :=
  some (match o with | some a => upd a v | none => ins v)

/-- all three accumulators are `entry(k)`-upserts; folding arrivals into the map stores, for each
key, the fold of that key's values in arrival order -/
theorem accumulate_groups_by_key (ins : ν → ω) (upd : ω → ν → ω) (its : List (κ × ν)) (t : List (κ × ω)) (k : κ) :
    tblGet (its.foldl (fun t kv => tblUpsert kv.1 (fun _ => ins kv.2) (fun a => upd a kv.2) t) t) k =
      ((its.filter (fun kv => kv.1 = k)).map Prod.snd).foldl (accStep ins upd) (tblGet t k) := by
  induction its generalizing t with
  | nil => rfl
  | cons kv its ih =>
    obtain ⟨k0, v⟩ := kv
    rw [foldl_cons, ih, aux_tblUpsert_get]
    by_cases h : k0 = k
    · subst h; simp [accStep]
    · simp [h]

/-- `Fold`: `init()` then `fold_fn` per value -/
theorem accFold_spec (init : ω) (f : ω → ν → ω) (its : List (κ × ν)) (k : κ) :
    tblGet (its.foldl (accFold init f) []) k =
      ((its.filter (fun kv => kv.1 = k)).map Prod.snd).foldl (accStep (f init) f) none :=
  accumulate_groups_by_key (f init) f its [] k

/-- `Reduce`: first value, then `reduce_fn` -/
theorem accReduce_spec (f : ν → ν → ν) (its : List (κ × ν)) (k : κ) :
    tblGet (its.foldl (accReduce f) []) k =
      ((its.filter (fun kv => kv.1 = k)).map Prod.snd).foldl (accStep id f) none :=
  accumulate_groups_by_key id f its [] k

/-- `FoldFrom`: `init_fn(first value)`, then `fold_fn` -/
theorem accFoldFrom_spec (init : ν → ω) (f : ω → ν → ω) (its : List (κ × ν)) (k : κ) :
    tblGet (its.foldl (accFoldFrom init f) []) k =
      ((its.filter (fun kv => kv.1 = k)).map Prod.snd).foldl (accStep init f) none :=
  accumulate_groups_by_key init f its [] k

/-- `AccumulateAll` polled to completion under any pending placement -/
theorem accumulateAll_refines (ins : ν → ω) (upd : ω → ν → ω) (s : Src (κ × ν)) (t : List (κ × ω)) (n : Nat)
    (h : s.length < n) (k : κ) :
    (driveFut (fun t kv => tblUpsert kv.1 (fun _ => ins kv.2) (fun a => upd a kv.2) t) n s t).map (tblGet · k) =
      some (((items s |>.filter (fun kv => kv.1 = k)).map Prod.snd).foldl (accStep ins upd) (tblGet t k)) := by
  rw [fold_refines _ s t n h]; simp [accumulate_groups_by_key]

example : tblGet ([(1, 5), (2, 7), (1, 6)].foldl (accReduce (fun a v : Nat => a * 10 + v)) []) 1 = some 56 := by
  decide

/-! ### pipelines: a pull is used through its answers only, so a combinator can be fed the
answer sequence (`trace`) of another one -/

theorem aux_trace_length (step : σ → σ × Step β) (n : Nat) (s : σ) : (trace step n s).length = n := by
  induction n generalizing s with
  | zero => rfl
  | succ n ih => simp [trace, ih]

/-- the items of an answer sequence are what `drive` collects -/
theorem aux_trace_items (step : σ → σ × Step β) (n : Nat) (s : σ) :
    items (trace step n s) = drive step n s := by
  induction n generalizing s with
  | zero => rfl
  | succ n ih =>
    simp only [trace, drive]
    rcases step s with ⟨s', (x | _ | _)⟩ <;> simp [items, ih]

/-- `zip(map f a, filter p b)` — any pending placement in `a` and `b`, any (sufficient) depth of
the answer sequences -/
theorem pipeline_zip_map_filter (f : α → γ) (p : β → Bool) (a : Src α) (b : Src β) (n n' m : Nat)
    (hn : a.length < n) (hn' : b.length < n') (hm : n + n' < m) :
    drive zipStep m ⟨trace (mapStep f) n a, trace (filterStep p) n' b, none⟩ =
      List.zip ((items a).map f) ((items b).filter p) := by
  rw [zip_refines _ _ (by simp [aux_trace_length]; omega)]
  simp [zipSpec, aux_trace_items, map_refines f a n hn, filter_refines p b n' hn']

/-- `take k (flat_map g a)` -/
theorem pipeline_take_flatMap (g : α → List β) (k : Nat) (a : Src α) (n m : Nat)
    (hn : a.length + ((items a).flatMap g).length < n) (hm : n < m) :
    drive takeStep m (trace (flatMapStep g) n (a, none), k) = ((items a).flatMap g).take k := by
  rw [take_refines _ _ _ (by simp [aux_trace_length]; omega), aux_trace_items,
    flatMap_refines g (a, none) n (by simpa [flatMapSpec] using hn)]
  simp [flatMapSpec]

/-! ### pipelines whose outer combinator demands a fused input: the answers of a fused combinator form a
script in which `Ended` stays (`EndStays`), and `Chain` / `ZipLongest` treat such a script like its cut -/

/-- a script whose first `Ended` is followed by `Ended` only: the answers of a fused pull -/
def EndStays : Src α → Prop
  | [] => True
  | .ended :: r => ∀ x ∈ r, x = Step.ended
  | .ready _ :: r => EndStays r
  | .pending :: r => EndStays r

/-- the script up to (not including) its first `Ended` -/
def cut : Src α → Src α
  | [] => []
  | .ended :: _ => []
  | .ready x :: r => .ready x :: cut r
  | .pending :: r => .pending :: cut r

theorem aux_cut_noEnd (s : Src α) : NoEnd (cut s) := by
  induction s with
  | nil => exact aux_noEnd_nil
  | cons a r ih =>
    cases a with
    | ended => exact aux_noEnd_nil
    | ready x => intro y hy; simp [cut] at hy; rcases hy with rfl | hy; · simp
                 exact ih y hy
    | pending => intro y hy; simp [cut] at hy; rcases hy with rfl | hy; · simp
                 exact ih y hy

theorem aux_cut_items (s : Src α) : items (cut s) = items s := by
  induction s with
  | nil => rfl
  | cons a r ih => cases a <;> simp [cut, items, ih]

theorem aux_cut_length (s : Src α) : (cut s).length ≤ s.length := by
  induction s with
  | nil => simp [cut]
  | cons a r ih => cases a <;> simp [cut] <;> omega

theorem aux_allEnded_cut (r : Src α) (h : ∀ x ∈ r, x = Step.ended) : cut r = [] ∧ EndStays r := by
  cases r with
  | nil => simp [cut, EndStays]
  | cons a r =>
    have ha := h a (by simp)
    subst ha
    exact ⟨by simp [cut], fun x hx => h x (by simp [hx])⟩

/-- pulling from a fused script and from its cut gives the same answer, and the rests correspond -/
theorem aux_cut_pull (s : Src α) (hs : EndStays s) :
    (cut s).pull = (cut s.pull.1, s.pull.2) ∧ EndStays s.pull.1 := by
  cases s with
  | nil => simp [cut, Src.pull, EndStays]
  | cons a r =>
    cases a with
    | ended =>
      have := aux_allEnded_cut r hs
      simp [cut, Src.pull, this.1, this.2]
    | ready x => exact ⟨by simp [cut, Src.pull], hs⟩
    | pending => exact ⟨by simp [cut, Src.pull], hs⟩

/-- two machines related by a simulation give the same outputs -/
theorem aux_drive_sim {σ τ : Type} (step : σ → σ × Step β) (step' : τ → τ × Step β) (R : σ → τ → Prop)
    (hsim : ∀ s t, R s t → (step s).2 = (step' t).2 ∧ R (step s).1 (step' t).1)
    (n : Nat) (s : σ) (t : τ) (h : R s t) : drive step n s = drive step' n t := by
  induction n generalizing s t with
  | zero => rfl
  | succ n ih =>
    obtain ⟨h1, h2⟩ := hsim s t h
    simp only [drive]
    rcases hs : step s with ⟨s', a⟩
    rcases ht : step' t with ⟨t', b⟩
    rw [hs, ht] at h1 h2
    simp only at h1 h2
    subst h1
    cases a <;> simp [ih _ _ h2]

/-- the answers of a fused machine form a script in which `Ended` stays -/
theorem aux_trace_endStays (step : σ → σ × Step β) (n : Nat) (s : σ) (h : FusedAt step s) :
    EndStays (trace step n s) := by
  induction n generalizing s with
  | zero => simp [trace, EndStays]
  | succ n ih =>
    have hshift : FusedAt step (step s).1 := by
      intro k hk j
      have := h (k + 1) hk j
      have e : k + 1 + 1 + j = (k + 1 + j) + 1 := by omega
      rw [e] at this; exact this
    simp only [trace]
    rcases h0 : (step s).2 with x | _ | _
    · exact ih _ hshift
    · exact ih _ hshift
    · intro y hy
      have hmem : ∀ (m : Nat) (s' : σ) (y : Step β), y ∈ trace step m s' → ∃ j, y = (step (after step j s')).2 := by
        intro m
        induction m with
        | zero => intro s' y hy; simp [trace] at hy
        | succ m ihm =>
          intro s' y hy
          simp only [trace, mem_cons] at hy
          rcases hy with rfl | hy
          · exact ⟨0, rfl⟩
          · obtain ⟨j, hj⟩ := ihm _ y hy
            exact ⟨j + 1, hj⟩
      obtain ⟨j, rfl⟩ := hmem n _ y hy
      have := h 0 h0 j
      have e : 0 + 1 + j = j + 1 := by omega
      rw [e] at this; exact this

/-- `Chain` only needs its first input to *behave* fused: a script in which `Ended` stays can be cut at its first `Ended` -/
theorem aux_chain_cut (a b : Src α) (ha : EndStays a) (n : Nat) :
    drive chainStep n (a, b) = drive chainStep n (cut a, b) := by
  refine aux_drive_sim chainStep chainStep (fun s t => EndStays s.1 ∧ t = (cut s.1, s.2)) ?_ n (a, b) (cut a, b) ⟨ha, rfl⟩
  rintro ⟨a, b⟩ _ ⟨ha, rfl⟩
  obtain ⟨hp, he⟩ := aux_cut_pull a ha
  simp only [chainStep, hp]
  rcases hpa : a.pull with ⟨a', (x | _ | _)⟩ <;> rw [hpa] at he <;> simp_all

/-- `chain_refines` for a first input that behaves fused (e.g. the answers of a fused combinator) -/
theorem chain_refines_endStays (a b : Src α) (ha : EndStays a) (n : Nat) (h : a.length + b.length < n) :
    drive chainStep n (a, b) = items a ++ items b := by
  rw [aux_chain_cut a b ha, chain_refines (cut a) b (aux_cut_noEnd a) n (by have := aux_cut_length a; omega),
    aux_cut_items]

/-- `chain(fuse(a), skip k b)` — `a` may report `Ended` prematurely (that is what `fuse` is for) -/
theorem pipeline_chain_fuse_skip (k : Nat) (a b : Src α) (n n' m : Nat)
    (hn : a.length < n) (hn' : b.length < n') (hm : n + n' < m) :
    drive chainStep m (trace fuseStep n (some a), trace skipStep n' (b, k)) = items a ++ (items b).drop k := by
  rw [chain_refines_endStays _ _ (aux_trace_endStays _ _ _ (fuse_fused _)) m (by simp [aux_trace_length]; omega),
    aux_trace_items, aux_trace_items, fuse_refines a n hn, skip_refines b k n' hn']

/-- `ZipLongest` only needs its inputs to *behave* fused -/
theorem aux_zipLongest_cut (st : ZipSt α β) (hl : EndStays st.l) (hr : EndStays st.r) (n : Nat) :
    drive zipLongestStep n st = drive zipLongestStep n ⟨cut st.l, cut st.r, st.buf⟩ := by
  refine aux_drive_sim zipLongestStep zipLongestStep
    (fun s t => EndStays s.l ∧ EndStays s.r ∧ t = ⟨cut s.l, cut s.r, s.buf⟩) ?_ n st _ ⟨hl, hr, rfl⟩
  rintro ⟨l, r, buf⟩ _ ⟨hl, hr, rfl⟩
  obtain ⟨hpl, hel⟩ := aux_cut_pull l hl
  obtain ⟨hpr, her⟩ := aux_cut_pull r hr
  simp only at hl hr
  rcases buf with _ | a | b <;> simp only [zipLongestStep, zipPulls, hpl, hpr] <;>
    rcases hpl' : l.pull with ⟨l', (x | _ | _)⟩ <;> rcases hpr' : r.pull with ⟨r', (y | _ | _)⟩ <;>
    rw [hpl'] at hel <;> rw [hpr'] at her <;> simp_all

theorem zipLongest_refines_endStays (l : Src α) (r : Src β) (hl : EndStays l) (hr : EndStays r) (n : Nat)
    (h : l.length + r.length < n) :
    drive zipLongestStep n ⟨l, r, none⟩ = zipLongest (items l) (items r) := by
  rw [aux_zipLongest_cut _ hl hr, zipLongest_refines _ (aux_cut_noEnd l) (aux_cut_noEnd r) n (by
    have := aux_cut_length l; have := aux_cut_length r; simp; omega)]
  simp [zipLongestSpec, aux_cut_items]

/-- `zip_longest(fuse(take_while p a), enumerate b)` — `b` fused as `ZipLongest` demands of `Enumerate<B>` -/
theorem pipeline_zipLongest_fuse_takeWhile_enumerate (p : α → Bool) (a : Src α) (b : Src β) (hb : NoEnd b)
    (n0 n n' m : Nat) (hn0 : a.length < n0) (hn : n0 < n) (hn' : b.length < n') (hm : n + n' < m) :
    drive zipLongestStep m ⟨trace fuseStep n (some (trace (takeWhileStep p) n0 a)), trace enumerateStep n' (b, 0), none⟩ =
      zipLongest ((items a).takeWhile p) (enumFrom 0 (items b)) := by
  rw [zipLongest_refines_endStays _ _ (aux_trace_endStays _ _ _ (fuse_fused _))
      (aux_trace_endStays _ _ _ (enumerate_fused b 0 hb)) m (by simp [aux_trace_length]; omega),
    aux_trace_items, aux_trace_items, fuse_refines _ n (by simp [aux_trace_length]; omega), aux_trace_items,
    takeWhile_refines p a n0 hn0, enumerate_refines b 0 n' hn']

/-! ### non-vacuity: concrete instances of the hypotheses and of the statements -/

/-- a fused script with pendings between the items -/
example : NoEnd ([.ready 1, .pending, .ready 2, .pending] : Src Nat) := by
  intro x hx; simp at hx; rcases hx with rfl | rfl | rfl | rfl <;> simp

/-- a script that is not fused: it reports `Ended` and then yields again -/
example : ¬ NoEnd ([.ready 1, .ended, .ready 2] : Src Nat) := by
  intro h; exact h .ended (by simp) rfl

/-- a valid, inexact source hint -/
example : HintOk (scriptHint (α := Nat) 1 (some 2)) := scriptHint_ok 1 (some 2)
example : scriptHint 1 (some 2) ([.ready 1, .pending, .ready 2] : Src Nat) = (1, some 4) := by
  simp [scriptHint, items]

/-- zip: the left item is buffered across the right side's `Pending` -/
example : drive zipStep 10 (⟨[.ready 1, .pending, .ready 2], [.pending, .ready 5, .ready 6, .ready 7], none⟩ : ZipSt Nat Nat)
    = [(1, 5), (2, 6)] := by
  simp [drive, zipStep, zipPulls, Src.pull]

/-- zip_longest keeps going after one side ended -/
example : drive zipLongestStep 10 (⟨[.ready 1], [.pending, .ready 5, .pending, .ready 6], none⟩ : ZipSt Nat Nat)
    = [.both 1 5, .right 6] := by
  simp [drive, zipLongestStep, zipPulls, Src.pull]

/-- flat_map: the inner iterator survives across polls; empty inner iterators are skipped in one poll -/
example : drive (flatMapStep (fun x : Nat => List.replicate x x)) 10 ([.ready 2, .ready 0, .pending, .ready 1], none)
    = [2, 2, 1] := by
  simp [drive, flatMapStep, flatMapPull, List.replicate]

/-- filter_map_async: a future that pends twice, in front of a pending source -/
example : drive (fmaStep (fun x : Nat => ((2, some (x + 10)) : Fut Nat))) 10 ([.ready 1, .pending, .ready 2], none)
    = [11, 12] := by
  simp [drive, fmaStep, fmaPull]

/-- chain needs a fused first input: on this unfused one it interleaves -/
example : drive chainStep 10 (([.ended, .ready 1] : Src Nat), [.ready 7, .ready 8]) = [7, 1, 8] := by
  simp [drive, chainStep, Src.pull]

/-- fuse turns the same unfused script into a fused pull -/
example : drive fuseStep 10 (some ([.ready 3, .ended, .ready 1] : Src Nat)) = [3] := by
  simp [drive, fuseStep, Src.pull]

/-- cross_singleton: the singleton arrives late; items wait -/
example : drive crossStep 10 (⟨[.ready 1, .ready 2], [.pending, .ready 9, .ready 8], none⟩ : CrossSt Nat Nat)
    = [(1, 9), (2, 9)] := by
  simp [drive, crossStep, crossItem, Src.pull]

/-- take is fused even over an unfused input -/
example : FusedAt takeStep (([.ready 1, .ended, .ready 2] : Src Nat), 5) := take_fused _ _

/-- the answers of `fuse` over an unfused script: `Ended` stays; chained with a second input -/
example : trace fuseStep 4 (some ([.ready 3, .ended, .ready 1] : Src Nat)) = [.ready 3, .ended, .ended, .ended] := by
  decide
example : drive chainStep 9 (trace fuseStep 4 (some ([.ready 3, .ended, .ready 1] : Src Nat)),
    trace skipStep 4 (([.ready 7, .pending, .ready 8] : Src Nat), 1)) = [3, 8] := by decide

end HvPull
