/- C13 driver part (stub until the join model lands) -/
structure JoinSt where
  dummy : Unit
def JoinSt.init : JoinSt := ⟨()⟩
def stepJoin (st : JoinSt) (_ws : List String) : JoinSt × String := (st, "bad-op")
