/-
C13 part of `hvdrv_pull` (see harness/hv_pull/src/c13.rs for the op lines).
-/
import HvPull.Model.Join
open HvPull

abbrev HalfN := Half Nat Nat Nat

inductive CurTick where
  | none
  | inc (st : JoinSt Nat Nat Nat)
  /-- new-tick future / resolved pull; `resolved`, `enumerated` -/
  | new (st : NewSt Nat Nat Nat) (resolved : Bool) (enumerated : Bool)

structure JDrv where
  kind : Option Bool
  ls : HalfN
  rs : HalfN
  cur : CurTick

def JDrv.init : JDrv := ⟨none, Half.empty, Half.empty, .none⟩

def parsePairItem (s : String) : Option (Nat × Nat) :=
  match s.splitOn "." with
  | [a, b] => do pure ((← a.toNat?), (← b.toNat?))
  | _ => none

/-- a script of pairs without `e` -/
def parsePairScript (s : String) : Option (Src (Nat × Nat)) :=
  if s == "-" then some [] else
  (s.splitOn ",").mapM fun t =>
    if t == "p" then some Step.pending
    else if t.startsWith "r" then (parsePairItem (t.drop 1).toString).map Step.ready
    else none

def showOut (x : Nat × Nat × Nat) : String := s!"({x.1},({x.2.1},{x.2.2}))"

def showTable (t : Table Nat Nat) : String :=
  let t := t.mergeSort (fun a b => a.1 ≤ b.1)
  if t.isEmpty then "-" else
  ";".intercalate (t.map fun (k, vs) => s!"{k}={",".intercalate (vs.map toString)}")

def stepJoin (st : JDrv) (ws : List String) : JDrv × String :=
  match ws, st.kind, st.cur with
  | ["state", k], none, _ =>
    if k == "set" then ({ st with kind := some true }, "ok")
    else if k == "multi" then ({ st with kind := some false }, "ok")
    else (st, "bad-op")
  | ["tick", m, l, r], some _, .none =>
    match parsePairScript l, parsePairScript r with
    | some l, some r =>
      if m == "inc" then ({ st with cur := .inc ⟨l, r, st.ls, st.rs⟩ }, "ok")
      else if m == "new" then ({ st with cur := .new ⟨l, r, st.ls, st.rs, 0⟩ false false }, "ok")
      else (st, "bad-op")
    | _, _ => (st, "bad-op")
  | ["poll"], some set, .inc j =>
    let (j', a) := joinStep set j
    ({ st with cur := .inc j' },
      match a with
      | .ready x => s!"R {showOut x}"
      | .pending => "P"
      | .ended => "E")
  | ["poll"], some set, .new n false e =>
    let (n', done) := newTickPoll set n
    ({ st with cur := .new n' done e }, if done then "resolved" else "P")
  | ["enum"], some _, .new n true false =>
    -- the multiset: sorted lexicographically (order depends on hash iteration / orientation)
    -- the transcribed `NewTickJoinIter` state machine, pulled to its end (fuel: `newTickJoin_length_le`)
    let outs := (newTickRun (n.ls.table.size * n.rs.table.size + 1) n.ls n.rs).mergeSort (fun a b =>
      a.1 < b.1 || (a.1 == b.1 && (a.2.1 < b.2.1 || (a.2.1 == b.2.1 && a.2.2 ≤ b.2.2))))
    ({ st with cur := .new n true true },
      if outs.isEmpty then "-" else ";".intercalate (outs.map showOut))
  | ["endtick", c], some _, cur =>
    let ok := c == "none" || c == "l" || c == "r" || c == "lr"
    let cl := c == "l" || c == "lr"
    let cr := c == "r" || c == "lr"
    let fin (ls rs : HalfN) : JDrv × String :=
      ({ st with ls := if cl then ls.clear else ls, rs := if cr then rs.clear else rs, cur := .none }, "ok")
    match ok, cur with
    | true, .inc j => fin j.ls j.rs
    | true, .new n _ _ => fin n.ls n.rs
    | _, _ => (st, "bad-op")
  | ["len"], some _, .none => (st, s!"l={st.ls.len} r={st.rs.len}")
  | ["dump"], some _, .none => (st, s!"L:{showTable st.ls.table} R:{showTable st.rs.table}")
  | _, _, _ => (st, "bad-op")
