/-
`hvdrv_pull`: line-protocol driver for the C11 / C13 models.  One output line per input line.

C11 (see harness/hv_pull/src/c11.rs for the op lines):
  #case <n> <tags>                     reset; echoes the line
  src <A|B> <slo> <shi|inf> <script>   -> ok            script: `r<item>`,`p`,`e` comma separated, `-` empty
  mk <combinator> [k=v ...]            -> ok | bad-op
  hint                                 -> h=<lo>,<hi|inf> | h=-
  poll                                 -> R <v> h=.. | P h=.. | E h=.. | D <result> | D done
  log                                  -> values seen by the inspect / for_each closure
C13: see `HvPull.Driver.JoinDrv`.
-/
import HvPull.Model.Pull
import HvPull.Driver.JoinDrv
open HvPull

inductive ITok where
  | n (v : Nat)
  | p
  deriving DecidableEq

abbrev Item := List ITok

def parseItem (s : String) : Option Item :=
  if s.isEmpty then some [] else
  (s.splitOn ".").mapM fun t => if t == "p" then some ITok.p else t.toNat?.map ITok.n

def parseScript (s : String) : Option (Src Item) :=
  if s == "-" then some [] else
  (s.splitOn ",").mapM fun t =>
    if t == "p" then some Step.pending
    else if t == "e" then some Step.ended
    else if t.startsWith "r" then (parseItem (t.drop 1).toString).map Step.ready
    else none

def asNat : Item → Option Nat
  | [.n v] => some v
  | _ => none
def asList (i : Item) : Option (List Nat) := i.mapM fun t => match t with | .n v => some v | .p => none
def asPair : Item → Option (Nat × Nat)
  | [.n a, .n b] => some (a, b)
  | _ => none
def asStrm (i : Item) : Strm Nat := i.map fun t => match t with | .n v => some v | .p => none

def mapScript (f : Item → Option α) (s : Src Item) : Option (Src α) :=
  s.mapM fun t => match t with
    | .ready x => (f x).map Step.ready
    | .pending => some .pending
    | .ended => some .ended

def hasEnd (s : Src α) : Bool := s.any fun t => match t with | .ended => true | _ => false
def hasPend (s : Src α) : Bool := s.any fun t => match t with | .pending => true | _ => false

structure SrcSpec where
  script : Src Item
  slo : Nat
  shi : Option Nat

inductive Ans where
  | r (v : String)
  | p
  | e
  | d (v : String)

/-- a built machine, unrolled: the machines take no input after `mk`, so the driver computes the
answers to the first `cap` polls up front (keeps everything in `Type`) -/
structure Mach where
  hint0 : String
  log : Option String
  /-- answer line and closure log after that poll -/
  polls : List (String × Option String × String)

def cap : Nat := 160

def showNats (l : List Nat) : String :=
  if l.isEmpty then "-" else ";".intercalate (l.map toString)
def showPair (a b : String) : String := s!"({a},{b})"
def showHint : Option Hint → String
  | none => "h=-"
  | some (lo, hi) => s!"h={lo},{match hi with | some u => toString u | none => "inf"}"

def unroll {σ : Type} (step : σ → σ × Ans) (hint : σ → Option Hint) (log : σ → Option String) :
    Nat → σ → List (String × Option String × String)
  | 0, _ => []
  | n + 1, s =>
    let (s', a) := step s
    let out := match a with
      | .r v => s!"R {v} {showHint (hint s')}"
      | .p => s!"P {showHint (hint s')}"
      | .e => s!"E {showHint (hint s')}"
      | .d v => s!"D {v}"
    (out, log s', showHint (hint s')) :: unroll step hint log n s'

def ofPull {σ β : Type} (st : σ) (step : σ → σ × Step β) (sh : β → String) (hint : σ → Hint)
    (log : σ → Option String := fun _ => none) : Mach :=
  let step' := fun s => match step s with
      | (s', .ready x) => (s', Ans.r (sh x))
      | (s', .pending) => (s', .p)
      | (s', .ended) => (s', .e)
  { hint0 := showHint (some (hint st)), log := log st,
    polls := unroll step' (fun s => some (hint s)) log cap st }

/-- a draining future: `(source, accumulator, done)`; never polled again once done -/
def ofFut {α σ : Type} (s : Src α) (acc : σ) (g : σ → α → σ) (sh : σ → String)
    (log : σ → Option String := fun _ => none) : Mach :=
  let step' := fun (x : Src α × σ × Bool) =>
      let (s, acc, done) := x
      if done then ((s, acc, true), Ans.d "done") else
      match foldPoll g s acc with
      | ((s', acc'), true) => ((s', acc', true), .d (sh acc'))
      | ((s', acc'), false) => ((s', acc', false), .p)
  { hint0 := showHint none, log := log acc,
    polls := unroll step' (fun _ => none) (fun x => log x.2.1) cap (s, acc, false) }

/-- another machine used as a source: its answer sequence and its hints (see `HvPull.trace`) -/
structure TSrc (β : Type) where
  script : Src β
  hint : Src β → Hint

def traceSrc {σ β : Type} (st : σ) (step : σ → σ × Step β) (hint : σ → Hint) : TSrc β :=
  ⟨trace step cap st, traceHint (hint st) (traceHints step hint cap st) cap⟩

def tblOf (f : String → Option α) (s : String) : Option (List α) :=
  match (s.splitOn ";").mapM f with
  | some [] => none
  | r => r
def tblNat := tblOf String.toNat?
def tblOpt := tblOf fun t => if t == "-" then some none else t.toNat?.map some
def tblList := tblOf fun t => if t == "_" then some [] else (t.splitOn ".").mapM String.toNat?
def tblFut : String → Option (List (Fut Nat)) := tblOf fun t =>
  match t.splitOn ":" with
  | [k, o] => do
    let k ← k.toNat?
    let o ← if o == "-" then some none else o.toNat?.map some
    pure (k, o)
  | _ => none
def tblStrm : String → Option (List (Strm Nat)) := tblOf fun t =>
  if t == "_" then some [] else (parseItem t).map asStrm
def at' [Inhabited α] (t : List α) (x : Nat) : α := t.getD (x % t.length) default

def accF (a v : Nat) : Nat := (a * 3 + v + 1) % 1000

def showEOB : EOB Nat Nat → String
  | .both a b => s!"B({a},{b})"
  | .left a => s!"L({a})"
  | .right b => s!"R({b})"

def showTbl (t : List (Nat × Nat)) : String :=
  let t := t.mergeSort (fun a b => a.1 ≤ b.1)
  if t.isEmpty then "-" else ";".intercalate (t.map fun (k, v) => s!"{k}:{v}")

structure St where
  srcs : List (String × SrcSpec)
  params : List (String × String)
  mach : Option Mach
  join : JDrv

def St.src (st : St) (k : String) : Option SrcSpec := st.srcs.lookup k
def St.natSrc (st : St) (k : String) : Option (Src Nat × (Src Nat → Hint)) := do
  let s ← st.src k
  let sc ← mapScript asNat s.script
  pure (sc, scriptHint s.slo s.shi)
def St.p (st : St) (k : String) : Option String := st.params.lookup k

def build (st : St) (name : String) : Option Mach := do
  let nat := fun (n : Nat) => toString n
  let pairNN := fun (x : Nat × Nat) => showPair (toString x.1) (toString x.2)
  match name with
  | "iter" =>
    let l ← if (← st.p "l") == "-" then some [] else tblNat (← st.p "l")
    pure (ofPull l iterStep nat iterHint)
  | "once" => let x ← (← st.p "x").toNat?; pure (ofPull (some x) onceStep nat onceHint)
  | "empty" => pure (ofPull () (emptyStep (α := Nat)) nat (fun _ => emptyHint))
  | "repeat" => let x ← (← st.p "x").toNat?; pure (ofPull x repeatStep nat (fun _ => repeatHint))
  | "pending" => pure (ofPull () (pendingStep (α := Nat)) nat (fun _ => pendingHint))
  | "from_fn" =>
    let (s, _) ← st.natSrc "A"
    if hasPend s then none else pure (ofPull s fromFnStep nat (fun _ => fromFnHint))
  | "poll_fn" => let (s, _) ← st.natSrc "A"; pure (ofPull s fromFnStep nat (fun _ => fromFnHint))
  | "stream" => let (s, _) ← st.natSrc "A"; pure (ofPull s fromFnStep nat (scriptHint 0 (some 0)))
  | "stream_ready" => let (s, _) ← st.natSrc "A"; pure (ofPull s streamReadyStep nat (streamReadyHint (scriptHint 0 (some 0))))
  | "stream_compat" => let (s, h) ← st.natSrc "A"; pure (ofPull s fromFnStep nat h)
  | "map" =>
    let t ← tblNat (← st.p "f"); let (s, h) ← st.natSrc "A"
    pure (ofPull s (mapStep (at' t)) nat (mapHint h))
  | "filter" =>
    let t ← tblNat (← st.p "p"); let (s, h) ← st.natSrc "A"
    pure (ofPull s (filterStep (fun x => at' t x != 0)) nat (filterHint h))
  | "filter_map" =>
    let t ← tblOpt (← st.p "f"); let (s, h) ← st.natSrc "A"
    pure (ofPull s (filterMapStep (at' t)) nat (filterMapHint h))
  | "inspect" =>
    let (s, h) ← st.natSrc "A"
    pure (ofPull (s, ([] : List Nat)) inspectStep nat (inspectHint h) (fun s => some (showNats s.2)))
  | "take_while" =>
    let t ← tblNat (← st.p "p"); let (s, h) ← st.natSrc "A"
    pure (ofPull s (takeWhileStep (fun x => at' t x != 0)) nat (takeWhileHint h))
  | "enumerate" =>
    let (s, h) ← st.natSrc "A"
    pure (ofPull (s, 0) enumerateStep pairNN (enumerateHint h))
  | "skip" =>
    let n ← (← st.p "n").toNat?; let (s, h) ← st.natSrc "A"
    pure (ofPull (s, n) skipStep nat (skipHint h))
  | "skip_while" =>
    let t ← tblNat (← st.p "p"); let (s, h) ← st.natSrc "A"
    pure (ofPull (s, true) (skipWhileStep (fun x => at' t x != 0)) nat (skipWhileHint h))
  | "take" =>
    let n ← (← st.p "n").toNat?; let (s, h) ← st.natSrc "A"
    pure (ofPull (s, n) takeStep nat (takeHint h))
  | "fuse" =>
    let (s, h) ← st.natSrc "A"
    pure (ofPull (some s) fuseStep nat (fuseHint h))
  | "flat_map" =>
    let t ← tblList (← st.p "f"); let (s, _) ← st.natSrc "A"
    pure (ofPull (s, none) (flatMapStep (at' t)) nat (flatMapHint List.length))
  | "flatten" =>
    let sp ← st.src "A"; let s ← mapScript asList sp.script
    pure (ofPull (s, none) flattenStep nat (flattenHint List.length))
  | "filter_map_async" =>
    let t ← tblFut (← st.p "f"); let (s, h) ← st.natSrc "A"
    pure (ofPull (s, none) (fmaStep (at' t)) nat (fmaHint h))
  | "flat_map_stream" =>
    let t ← tblStrm (← st.p "f"); let (s, _) ← st.natSrc "A"
    pure (ofPull (s, none) (fmsStep (at' t)) nat (fmsHint (fun c => (strmItems c).length)))
  | "flatten_stream" =>
    let sp ← st.src "A"; let s ← mapScript (fun i => some (asStrm i)) sp.script
    pure (ofPull (s, none) flattenStreamStep nat (flattenStreamHint (fun c => (strmItems c).length)))
  | "chain" =>
    let (a, ha) ← st.natSrc "A"; let (b, hb) ← st.natSrc "B"
    if hasEnd a then none else pure (ofPull (a, b) chainStep nat (chainHint ha hb))
  | "either" =>
    let (a, ha) ← st.natSrc "A"; let (b, hb) ← st.natSrc "B"
    match ← st.p "side" with
    | "l" => pure (ofPull (Sum.inl a) eitherStep nat (eitherHint ha hb))
    | "r" => pure (ofPull (Sum.inr b) eitherStep nat (eitherHint ha hb))
    | _ => none
  | "zip" =>
    let (a, ha) ← st.natSrc "A"; let (b, hb) ← st.natSrc "B"
    pure (ofPull (⟨a, b, none⟩ : ZipSt Nat Nat) zipStep pairNN (zipHint ha hb))
  | "zip_longest" =>
    let (a, ha) ← st.natSrc "A"; let (b, hb) ← st.natSrc "B"
    if hasEnd a || hasEnd b then none else
    pure (ofPull (⟨a, b, none⟩ : ZipSt Nat Nat) zipLongestStep showEOB (zipLongestHint ha hb))
  | "cross" =>
    let (a, ha) ← st.natSrc "A"; let (b, _) ← st.natSrc "B"
    let init ← match ← st.p "init" with
      | "-" => some none
      | v => v.toNat?.map some
    pure (ofPull (⟨a, b, init⟩ : CrossSt Nat Nat) crossStep pairNN (crossHint ha))
  | "pz" =>
    -- zip(map f A, filter p B)
    let tf ← tblNat (← st.p "f"); let tp ← tblNat (← st.p "p")
    let (a, ha) ← st.natSrc "A"; let (b, hb) ← st.natSrc "B"
    let a' := traceSrc a (mapStep (at' tf)) (mapHint ha)
    let b' := traceSrc b (filterStep (fun x => at' tp x != 0)) (filterHint hb)
    pure (ofPull (⟨a'.script, b'.script, none⟩ : ZipSt Nat Nat) zipStep pairNN (zipHint a'.hint b'.hint))
  | "pt" =>
    -- take n (flat_map g A)
    let tg ← tblList (← st.p "f"); let n ← (← st.p "n").toNat?
    let (a, _) ← st.natSrc "A"
    let a' := traceSrc (a, (none : Option (List Nat))) (flatMapStep (at' tg)) (flatMapHint List.length)
    pure (ofPull (a'.script, n) takeStep nat (takeHint a'.hint))
  | "pc" =>
    -- chain(fuse(A), skip n B)
    let n ← (← st.p "n").toNat?
    let (a, ha) ← st.natSrc "A"; let (b, hb) ← st.natSrc "B"
    let a' := traceSrc (some a) fuseStep (fuseHint ha)
    let b' := traceSrc (b, n) skipStep (skipHint hb)
    pure (ofPull (a'.script, b'.script) chainStep nat (chainHint a'.hint b'.hint))
  | "pl" =>
    -- zip_longest(fuse(take_while p A), enumerate B)
    let tp ← tblNat (← st.p "p")
    let (a, ha) ← st.natSrc "A"; let (b, hb) ← st.natSrc "B"
    if hasEnd b then none else
    let a1 := traceSrc a (takeWhileStep (fun x => at' tp x != 0)) (takeWhileHint ha)
    let a' := traceSrc (some a1.script) fuseStep (fuseHint a1.hint)
    let b' := traceSrc (b, 0) enumerateStep (enumerateHint hb)
    pure (ofPull (⟨a'.script, b'.script, none⟩ : ZipSt Nat (Nat × Nat)) zipLongestStep
      (fun e => match e with
        | .both x y => s!"B({x},{pairNN y})"
        | .left x => s!"L({x})"
        | .right y => s!"R({pairNN y})")
      (zipLongestHint a'.hint b'.hint))
  | "collect" =>
    let (s, _) ← st.natSrc "A"
    pure (ofFut s ([] : List Nat) collectG showNats)
  | "for_each" =>
    let (s, _) ← st.natSrc "A"
    pure (ofFut s ([] : List Nat) collectG (fun _ => "unit") (fun acc => some (showNats acc)))
  | "acc" =>
    let sp ← st.src "A"; let s ← mapScript asPair sp.script
    match ← st.p "kind" with
    | "fold" => pure (ofFut s ([] : List (Nat × Nat)) (accFold 0 accF) showTbl)
    | "reduce" => pure (ofFut s ([] : List (Nat × Nat)) (accReduce accF) showTbl)
    | "foldfrom" => pure (ofFut s ([] : List (Nat × Nat)) (accFoldFrom (· + 100) accF) showTbl)
    | _ => none
  | _ => none

def parseParams (ws : List String) : Option (List (String × String)) :=
  ws.mapM fun kv => match kv.splitOn "=" with
    | [k, v] => some (k, v)
    | _ => none

def stepC11 (st : St) (ws : List String) : St × String :=
  match ws, st.mach with
  | ["src", k, slo, shi, sc], none =>
    match slo.toNat?, (if shi == "inf" then some none else shi.toNat?.map some), parseScript sc with
    | some slo, some shi, some script =>
      if k == "A" || k == "B" then
        ({ st with srcs := (k, ⟨script, slo, shi⟩) :: st.srcs.filter (·.1 != k) }, "ok")
      else (st, "bad-op")
    | _, _, _ => (st, "bad-op")
  | "mk" :: name :: ps, none =>
    match parseParams ps with
    | some params =>
      let st := { st with params := params }
      match build st name with
      | some m => ({ st with mach := some m }, "ok")
      | none => (st, "bad-op")
    | none => (st, "bad-op")
  | ["hint"], some m => (st, m.hint0)
  | ["poll"], some m =>
    match m.polls with
    | (out, lg, h) :: rest => ({ st with mach := some { m with polls := rest, log := lg, hint0 := h } }, out)
    | [] => (st, "cap-exceeded")
  | ["log"], some m =>
    match m.log with
    | some s => (st, s)
    | none => (st, "bad-op")
  | _, _ => (st, "bad-op")

def initSt : St := ⟨[], [], none, JDrv.init⟩

def step (mode : String) (st : St) (line : String) : String × St × String :=
  let l := line.trimAscii.toString
  match l.splitOn " " with
  | "#case" :: _ :: tag :: _ =>
    -- C13 cases are tagged `join…`
    (if tag.startsWith "join" then "c13" else "c11", initSt, l)
  | "#case" :: _ => ("c11", initSt, l)
  | ws =>
    if mode == "c13" then
      let (j, out) := stepJoin st.join ws
      (mode, { st with join := j }, out)
    else
      let (st', out) := stepC11 st ws
      (mode, st', out)

partial def loop (h : IO.FS.Stream) (out : IO.FS.Stream) (mode : String) (st : St) : IO Unit := do
  let line ← h.getLine
  if line.isEmpty then return ()
  let (mode', st', o) := step mode st line
  out.putStrLn o
  loop h out mode' st'

def main : IO Unit := do
  let stdin ← IO.getStdin
  let stdout ← IO.getStdout
  loop stdin stdout "c11" initSt
