/-
Model of `dfir_pipes::pull` (C11).  No imports outside Lean core.

A pull source is a *script* `List (Step α)`: `ready x` = `PullStep::Ready(x, ())`,
`pending` = `PullStep::Pending`, `ended` = `PullStep::Ended` reported in the middle of a
script (a source that is *not* fused); the end of the list is `Ended` forever.
A fused source is a script without `ended` entries (`NoEnd`).
Each combinator is a step function transcribed from its `Pull::pull`; buffer fields of the
Rust struct are components of the state.  `loop { … continue }` in the Rust code becomes
structural recursion over the script.  `usize` is `Nat` (no overflow), `Meta = ()` is erased,
`Pin`/`Context`/`Toggle` bookkeeping is erased.
-/
namespace HvPull

inductive Step (α : Type) where
  | ready (x : α)
  | pending
  | ended
  deriving DecidableEq, Repr

abbrev Src (α : Type) := List (Step α)

/-- one `pull` of a scripted source -/
def Src.pull : Src α → Src α × Step α
  | [] => ([], .ended)
  | s :: rest => (rest, s)

/-- the items a source yields before it first reports `Ended` (pendings erased) -/
def items : Src α → List α
  | [] => []
  | .ready x :: r => x :: items r
  | .pending :: r => items r
  | .ended :: _ => []

/-- a fused script never reports `Ended` before its end -/
def NoEnd (s : Src α) : Prop := ∀ x ∈ s, x ≠ Step.ended

/-- `(lower, upper)` as returned by `size_hint` -/
abbrev Hint := Nat × Option Nat

/-- `lower ≤ n ≤ upper` -/
def Brackets (h : Hint) (n : Nat) : Prop := h.1 ≤ n ∧ ∀ u, h.2 = some u → n ≤ u

/-- the size hint offered by a source brackets what it will still yield, in every state -/
def HintOk (h : Src α → Hint) : Prop := ∀ s, Brackets (h s) (items s).length

/-- the hint of the harness's scripted source: exact count, loosened by a slack on each side -/
def scriptHint (slo : Nat) (shi : Option Nat) (s : Src α) : Hint :=
  ((items s).length - slo, shi.map (· + (items s).length))

/-- drive a machine: collect `Ready` items until the first `Ended` (at most `n` polls) -/
def drive (step : σ → σ × Step β) : Nat → σ → List β
  | 0, _ => []
  | n + 1, s =>
    match step s with
    | (s', .ready x) => x :: drive step n s'
    | (s', .pending) => drive step n s'
    | (_, .ended) => []

/-- state after `k` polls -/
def after (step : σ → σ × Step β) : Nat → σ → σ
  | 0, s => s
  | k + 1, s => after step k (step s).1

/-- the first `n` answers of a machine, as a script (a pull is used through its answers only) -/
def trace (step : σ → σ × Step β) : Nat → σ → Src β
  | 0, _ => []
  | n + 1, s => (step s).2 :: trace step n (step s).1

/-- the size hints after each of the first `n` answers -/
def traceHints (step : σ → σ × Step β) (hint : σ → Hint) : Nat → σ → List Hint
  | 0, _ => []
  | n + 1, s => hint (step s).1 :: traceHints step hint n (step s).1

/-- the hint of a traced machine as a function of what is left of its trace -/
def traceHint (hint0 : Hint) (hints : List Hint) (total : Nat) (rem : Src β) : Hint :=
  let k := total - rem.length
  if k = 0 then hint0 else hints.getD (k - 1) (0, none)

/-- once `Ended`, `Ended` on every later poll -/
def FusedAt (step : σ → σ × Step β) (s : σ) : Prop :=
  ∀ k, (step (after step k s)).2 = .ended → ∀ j, (step (after step (k + 1 + j) s)).2 = .ended

/-! ### sources (`iter`, `once`, `empty`, `repeat`, `pending`, `from_fn`/`poll_fn`, `stream`) -/

/-- `Iter<I>`: the iterator is the list it will yield (never pends) -/
def iterStep : List α → List α × Step α
  | [] => ([], .ended)
  | x :: r => (r, .ready x)
def iterHint (l : List α) : Hint := (l.length, some l.length)

/-- `Once` -/
def onceStep : Option α → Option α × Step α
  | some x => (none, .ready x)
  | none => (none, .ended)
def onceHint (o : Option α) : Hint := match o with
  | some _ => (1, some 1)
  | none => (0, some 0)

/-- `Empty` -/
def emptyStep (_ : Unit) : Unit × Step α := ((), .ended)
def emptyHint : Hint := (0, some 0)

/-- `Repeat` -/
def repeatStep (x : α) : α × Step α := (x, .ready x)
/-- `(usize::MAX, None)` -/
def repeatHint : Hint := (18446744073709551615, none)

/-- `Pending` -/
def pendingStep (_ : Unit) : Unit × Step α := ((), .pending)
def pendingHint : Hint := (0, some 0)

/-- `FromFn`/`PollFn`: the closure is a script; `Stream<St>`: `poll_next` answers
`Ready(Some x)`/`Pending`/`Ready(None)` are the same three steps -/
def fromFnStep (s : Src α) : Src α × Step α := s.pull
def fromFnHint : Hint := (0, none)

/-- `StreamReady`: a pending stream is reported as ended -/
def streamReadyStep (s : Src α) : Src α × Step α :=
  match s.pull with
  | (r, .ready x) => (r, .ready x)
  | (r, .pending) => (r, .ended)
  | (r, .ended) => (r, .ended)
/-- `(0, stream upper)` -/
def streamReadyHint (h : Src α → Hint) (s : Src α) : Hint := (0, (h s).2)

/-! ### one-input combinators without own state -/

def mapStep (f : α → β) (s : Src α) : Src α × Step β :=
  match s.pull with
  | (r, .ready x) => (r, .ready (f x))
  | (r, .pending) => (r, .pending)
  | (r, .ended) => (r, .ended)
def mapHint (h : Src α → Hint) (s : Src α) : Hint := h s

def filterStep (p : α → Bool) : Src α → Src α × Step α
  | [] => ([], .ended)
  | .ready x :: r => if p x then (r, .ready x) else filterStep p r
  | .pending :: r => (r, .pending)
  | .ended :: r => (r, .ended)
def filterHint (h : Src α → Hint) (s : Src α) : Hint := (0, (h s).2)

def filterMapStep (f : α → Option β) : Src α → Src α × Step β
  | [] => ([], .ended)
  | .ready x :: r => match f x with
    | some y => (r, .ready y)
    | none => filterMapStep f r
  | .pending :: r => (r, .pending)
  | .ended :: r => (r, .ended)
def filterMapHint (h : Src α → Hint) (s : Src α) : Hint := (0, (h s).2)

/-- `Inspect`: the second component is the list of values the closure has been called with -/
def inspectStep (st : Src α × List α) : (Src α × List α) × Step α :=
  match st.1.pull with
  | (r, .ready x) => ((r, st.2 ++ [x]), .ready x)
  | (r, .pending) => ((r, st.2), .pending)
  | (r, .ended) => ((r, st.2), .ended)
def inspectHint (h : Src α → Hint) (st : Src α × List α) : Hint := h st.1

/-- `TakeWhile` (the first failing item is consumed and dropped; not fused) -/
def takeWhileStep (p : α → Bool) (s : Src α) : Src α × Step α :=
  match s.pull with
  | (r, .ready x) => if p x then (r, .ready x) else (r, .ended)
  | (r, .pending) => (r, .pending)
  | (r, .ended) => (r, .ended)
def takeWhileHint (h : Src α → Hint) (s : Src α) : Hint := (0, (h s).2)

/-! ### one-input combinators with a counter / flag -/

def enumerateStep (st : Src α × Nat) : (Src α × Nat) × Step (Nat × α) :=
  match st.1.pull with
  | (r, .ready x) => ((r, st.2 + 1), .ready (st.2, x))
  | (r, .pending) => ((r, st.2), .pending)
  | (r, .ended) => ((r, st.2), .ended)
def enumerateHint (h : Src α → Hint) (st : Src α × Nat) : Hint := h st.1

def skipGo : Src α → Nat → (Src α × Nat) × Step α
  | [], k => (([], k), .ended)
  | .ready x :: r, k => if k > 0 then skipGo r (k - 1) else ((r, k), .ready x)
  | .pending :: r, k => ((r, k), .pending)
  | .ended :: r, k => ((r, k), .ended)
def skipStep (st : Src α × Nat) : (Src α × Nat) × Step α := skipGo st.1 st.2
def skipHint (h : Src α → Hint) (st : Src α × Nat) : Hint :=
  ((h st.1).1 - st.2, (h st.1).2.map (· - st.2))

def skipWhileGo (p : α → Bool) : Src α → Bool → (Src α × Bool) × Step α
  | [], b => (([], b), .ended)
  | .ready x :: r, b => if b && p x then skipWhileGo p r b else ((r, false), .ready x)
  | .pending :: r, b => ((r, b), .pending)
  | .ended :: r, b => ((r, b), .ended)
def skipWhileStep (p : α → Bool) (st : Src α × Bool) : (Src α × Bool) × Step α :=
  skipWhileGo p st.1 st.2
def skipWhileHint (h : Src α → Hint) (st : Src α × Bool) : Hint :=
  if st.2 then (0, (h st.1).2) else h st.1

def takeStep (st : Src α × Nat) : (Src α × Nat) × Step α :=
  if st.2 = 0 then (st, .ended) else
  match st.1.pull with
  | (r, .ready x) => ((r, st.2 - 1), .ready x)
  | (r, .pending) => ((r, st.2), .pending)
  | (r, .ended) => ((r, 0), .ended)
def takeHint (h : Src α → Hint) (st : Src α × Nat) : Hint :=
  (min (h st.1).1 st.2, some (match (h st.1).2 with | some u => min u st.2 | none => st.2))

/-- `Fuse`: `prev: Option<Prev>` -/
def fuseStep : Option (Src α) → Option (Src α) × Step α
  | none => (none, .ended)
  | some s => match s.pull with
    | (r, .ready x) => (some r, .ready x)
    | (r, .pending) => (some r, .pending)
    | (_, .ended) => (none, .ended)
def fuseHint (h : Src α → Hint) : Option (Src α) → Hint
  | none => (0, some 0)
  | some s => h s

/-! ### flat_map / flatten: `current: Option<(Iter, Meta)>`; an iterator is the list it yields -/

def flatMapPull (f : α → List β) : Src α → (Src α × Option (List β)) × Step β
  | [] => (([], none), .ended)
  | .ready x :: r => match f x with
    | y :: ys => ((r, some ys), .ready y)
    | [] => flatMapPull f r
  | .pending :: r => ((r, none), .pending)
  | .ended :: r => ((r, none), .ended)
def flatMapStep (f : α → List β) (st : Src α × Option (List β)) : (Src α × Option (List β)) × Step β :=
  match st.2 with
  | some (y :: ys) => ((st.1, some ys), .ready y)
  | some [] => flatMapPull f st.1
  | none => flatMapPull f st.1
/-- `ih` is the inner iterator's `size_hint().0` -/
def flatMapHint (ih : List β → Nat) (st : Src α × Option (List β)) : Hint :=
  (match st.2 with | some c => ih c | none => 0, none)

/-- `Flatten::pull` is `FlatMap::pull` with `iterable.into_iter()` in place of `func(item).into_iter()` -/
def flattenStep (st : Src (List β) × Option (List β)) := flatMapStep (fun l : List β => l) st
def flattenHint (ih : List β → Nat) (st : Src (List β) × Option (List β)) : Hint := flatMapHint ih st

/-! ### filter_map_async: a future is `(number of Pending polls, output)` -/

abbrev Fut (β : Type) := Nat × Option β

def fmaPull (f : α → Fut β) : Src α → (Src α × Option (Fut β)) × Step β
  | [] => (([], none), .ended)
  | .ready x :: r => match f x with
    | (k + 1, o) => ((r, some (k, o)), .pending)
    | (0, some y) => ((r, none), .ready y)
    | (0, none) => fmaPull f r
  | .pending :: r => ((r, none), .pending)
  | .ended :: r => ((r, none), .ended)
def fmaStep (f : α → Fut β) (st : Src α × Option (Fut β)) : (Src α × Option (Fut β)) × Step β :=
  match st.2 with
  | some (k + 1, o) => ((st.1, some (k, o)), .pending)
  | some (0, some y) => ((st.1, none), .ready y)
  | some (0, none) => fmaPull f st.1
  | none => fmaPull f st.1
/-- `(0, upper + 1 if a future is in flight)` -/
def fmaHint (h : Src α → Hint) (st : Src α × Option (Fut β)) : Hint :=
  (0, match st.2 with
      | some _ => (h st.1).2.map (· + 1)
      | none => (h st.1).2)

/-! ### flat_map_stream / flatten_stream: an inner stream is a `List (Option β)`
(`some y` = `Ready(Some y)`, `none` = `Pending`, end of list = `Ready(None)`) -/

abbrev Strm (β : Type) := List (Option β)
def strmItems (t : Strm β) : List β := t.filterMap id

def fmsPull (f : α → Strm β) : Src α → (Src α × Option (Strm β)) × Step β
  | [] => (([], none), .ended)
  | .ready x :: r => match f x with
    | some y :: t => ((r, some t), .ready y)
    | none :: t => ((r, some t), .pending)
    | [] => fmsPull f r
  | .pending :: r => ((r, none), .pending)
  | .ended :: r => ((r, none), .ended)
def fmsStep (f : α → Strm β) (st : Src α × Option (Strm β)) : (Src α × Option (Strm β)) × Step β :=
  match st.2 with
  | some (some y :: t) => ((st.1, some t), .ready y)
  | some (none :: t) => ((st.1, some t), .pending)
  | some [] => fmsPull f st.1
  | none => fmsPull f st.1
def fmsHint (ih : Strm β → Nat) (st : Src α × Option (Strm β)) : Hint :=
  (match st.2 with | some c => ih c | none => 0, none)

def flattenStreamStep (st : Src (Strm β) × Option (Strm β)) := fmsStep (fun t : Strm β => t) st
def flattenStreamHint (ih : Strm β → Nat) (st : Src (Strm β) × Option (Strm β)) : Hint := fmsHint ih st

/-! ### two-input combinators -/

/-- `Chain` -/
def chainStep (st : Src α × Src α) : (Src α × Src α) × Step α :=
  match st.1.pull with
  | (a, .ready x) => ((a, st.2), .ready x)
  | (a, .pending) => ((a, st.2), .pending)
  | (a, .ended) =>
    match st.2.pull with
    | (b, out) => ((a, b), out)
def addHint (x y : Hint) : Hint :=
  (x.1 + y.1, match x.2, y.2 with | some a, some b => some (a + b) | _, _ => none)
def chainHint (h1 h2 : Src α → Hint) (st : Src α × Src α) : Hint := addHint (h1 st.1) (h2 st.2)

/-- `Either` -/
def eitherStep (st : Src α ⊕ Src α) : (Src α ⊕ Src α) × Step α :=
  match st with
  | .inl l => match l.pull with | (l', out) => (.inl l', out)
  | .inr r => match r.pull with | (r', out) => (.inr r', out)
def eitherHint (h1 h2 : Src α → Hint) : Src α ⊕ Src α → Hint
  | .inl l => h1 l
  | .inr r => h2 r

structure ZipSt (α β : Type) where
  l : Src α
  r : Src β
  buf : Option (α ⊕ β)

/-- the first half of `Zip::pull`/`ZipLongest::pull`: take the buffered item or pull -/
def zipPulls (st : ZipSt α β) : (Src α × Step α) × (Src β × Step β) :=
  (match st.buf with
    | some (.inl a) => (st.l, .ready a)
    | _ => st.l.pull,
   match st.buf with
    | some (.inr b) => (st.r, .ready b)
    | _ => st.r.pull)

/-- the `match (pull_left, pull_right)` table of `Zip::pull` -/
def zipStep (st : ZipSt α β) : ZipSt α β × Step (α × β) :=
  match zipPulls st with
  | ((l', pl), (r', pr)) =>
    match pl, pr with
    | .ready a, .ready b => (⟨l', r', none⟩, .ready (a, b))
    | .ready a, .pending => (⟨l', r', some (.inl a)⟩, .pending)
    | .pending, .ready b => (⟨l', r', some (.inr b)⟩, .pending)
    | .pending, .pending => (⟨l', r', none⟩, .pending)
    | .ready _, .ended => (⟨l', r', none⟩, .ended)
    | .ended, .ready _ => (⟨l', r', none⟩, .ended)
    | .pending, .ended => (⟨l', r', none⟩, .ended)
    | .ended, .pending => (⟨l', r', none⟩, .ended)
    | .ended, .ended => (⟨l', r', none⟩, .ended)

/-- both sides' hints with the buffered item added back -/
def zipSides (h1 : Src α → Hint) (h2 : Src β → Hint) (st : ZipSt α β) : Hint × Hint :=
  match st.buf with
  | some (.inl _) => (((h1 st.l).1 + 1, (h1 st.l).2.map (· + 1)), h2 st.r)
  | some (.inr _) => (h1 st.l, ((h2 st.r).1 + 1, (h2 st.r).2.map (· + 1)))
  | none => (h1 st.l, h2 st.r)
def zipHint (h1 : Src α → Hint) (h2 : Src β → Hint) (st : ZipSt α β) : Hint :=
  match zipSides h1 h2 st with
  | ((min1, max1), (min2, max2)) =>
    (min min1 min2,
     match max1, max2 with
     | some a, some b => some (min a b)
     | some a, none => some a
     | none, some b => some b
     | none, none => none)

/-- `itertools::EitherOrBoth` -/
inductive EOB (α β : Type) where
  | both (a : α) (b : β)
  | left (a : α)
  | right (b : β)
  deriving DecidableEq, Repr

/-- the `match (pull_left, pull_right)` table of `ZipLongest::pull` -/
def zipLongestStep (st : ZipSt α β) : ZipSt α β × Step (EOB α β) :=
  match zipPulls st with
  | ((l', pl), (r', pr)) =>
    match pl, pr with
    | .ready a, .ready b => (⟨l', r', none⟩, .ready (.both a b))
    | .ready a, .ended => (⟨l', r', none⟩, .ready (.left a))
    | .ended, .ready b => (⟨l', r', none⟩, .ready (.right b))
    | .ready a, .pending => (⟨l', r', some (.inl a)⟩, .pending)
    | .pending, .ready b => (⟨l', r', some (.inr b)⟩, .pending)
    | .pending, .pending => (⟨l', r', none⟩, .pending)
    | .pending, .ended => (⟨l', r', none⟩, .pending)
    | .ended, .pending => (⟨l', r', none⟩, .pending)
    | .ended, .ended => (⟨l', r', none⟩, .ended)
def zipLongestHint (h1 : Src α → Hint) (h2 : Src β → Hint) (st : ZipSt α β) : Hint :=
  match zipSides h1 h2 st with
  | ((min1, max1), (min2, max2)) =>
    (max min1 min2,
     match max1, max2 with
     | some a, some b => some (max a b)
     | _, _ => none)

structure CrossSt (α β : Type) where
  item : Src α
  single : Src β
  state : Option β

def crossItem (st : CrossSt α β) (v : β) (single' : Src β) : CrossSt α β × Step (α × β) :=
  match st.item.pull with
  | (i', .ready x) => (⟨i', single', some v⟩, .ready (x, v))
  | (i', .pending) => (⟨i', single', some v⟩, .pending)
  | (i', .ended) => (⟨i', single', some v⟩, .ended)

/-- `CrossSingleton::pull` -/
def crossStep (st : CrossSt α β) : CrossSt α β × Step (α × β) :=
  match st.state with
  | some v => crossItem st v st.single
  | none =>
    match st.single.pull with
    | (s', .ready v) => crossItem st v s'
    | (s', .pending) => (⟨st.item, s', none⟩, .pending)
    | (s', .ended) => (⟨st.item, s', none⟩, .ended)
def crossHint (h1 : Src α → Hint) (st : CrossSt α β) : Hint :=
  (match st.state with | some _ => (h1 st.item).1 | none => 0, (h1 st.item).2)

/-! ### futures that drain a pull: `Collect`, `ForEach`, `AccumulateAll` are folds -/

/-- one `Future::poll`: pull until `Pending` (→ `false`) or `Ended` (→ `true`, done) -/
def foldPoll (g : σ → α → σ) : Src α → σ → (Src α × σ) × Bool
  | [], acc => (([], acc), true)
  | .ready x :: r, acc => foldPoll g r (g acc x)
  | .pending :: r, acc => ((r, acc), false)
  | .ended :: r, acc => ((r, acc), true)

/-- poll the future until it is done (at most `n` polls); `none` = still pending -/
def driveFut (g : σ → α → σ) : Nat → Src α → σ → Option σ
  | 0, _, _ => none
  | n + 1, s, acc =>
    match foldPoll g s acc with
    | ((_, acc'), true) => some acc'
    | ((s', acc'), false) => driveFut g n s' acc'

/-- `Collect` into a `Vec`, `ForEach` (closure log) -/
def collectG (acc : List α) (x : α) : List α := acc ++ [x]

/-- a `HashMap` as an association list (first match wins; new keys are appended) -/
def tblUpsert (k : κ) [DecidableEq κ] (ins : Unit → ω) (upd : ω → ω) : List (κ × ω) → List (κ × ω)
  | [] => [(k, ins ())]
  | (k', a) :: t => if k' = k then (k', upd a) :: t else (k', a) :: tblUpsert k ins upd t

/-- `Fold::accumulate`: `entry.or_insert_with(init)` then `fold_fn` -/
def accFold [DecidableEq κ] (init : ω) (f : ω → ν → ω) (t : List (κ × ω)) (kv : κ × ν) : List (κ × ω) :=
  tblUpsert kv.1 (fun _ => f init kv.2) (fun a => f a kv.2) t
/-- `Reduce::accumulate`: vacant → insert the item, occupied → `reduce_fn` -/
def accReduce [DecidableEq κ] (f : ν → ν → ν) (t : List (κ × ν)) (kv : κ × ν) : List (κ × ν) :=
  tblUpsert kv.1 (fun _ => kv.2) (fun a => f a kv.2) t
/-- `FoldFrom::accumulate`: vacant → `init_fn(item)`, occupied → `fold_fn` -/
def accFoldFrom [DecidableEq κ] (init : ν → ω) (f : ω → ν → ω) (t : List (κ × ω)) (kv : κ × ν) : List (κ × ω) :=
  tblUpsert kv.1 (fun _ => init kv.2) (fun a => f a kv.2) t

end HvPull
