/-
Model of `dfir_pipes::pull::{half_join_state, symmetric_hash_join}` (C13).  Core Lean only.

* `FxHashMap<Key, SmallVec<[Val; 1]>>` is an association list: `get` finds the first entry of
  a key, `entry(k)` updates that entry in place or appends a new one (so keys stay distinct).
  Hash iteration order is the list order here; the harness sorts what depends on it.
* `VecDeque` `current_matches` is a list (push back = append, pop front = head).
* `set = true` is `HalfSetJoinState` (dedup on build), `set = false` is `HalfMultisetJoinState`.
* `SymmetricHashJoin::pull`'s `loop` is `joinLoop` with explicit fuel (every `continue` has
  consumed a script element; `joinStep` supplies `|lhs| + |rhs| + 1`).
* `NewTickJoinIter` is modelled by the list its nested loops enumerate (`newTickIter`).
-/
import HvPull.Model.Pull
namespace HvPull

abbrev Table (κ ν : Type) := List (κ × List ν)

def Table.get [DecidableEq κ] : Table κ ν → κ → Option (List ν)
  | [], _ => none
  | (k', vs) :: r, k => if k' = k then some vs else Table.get r k

/-- `entry(k)`: occupied → push onto its vec, vacant → insert `smallvec![v]` -/
def Table.push [DecidableEq κ] : Table κ ν → κ → ν → Table κ ν
  | [], k, v => [(k, [v])]
  | (k', vs) :: r, k, v => if k' = k then (k', vs ++ [v]) :: r else (k', vs) :: Table.push r k v

/-- `full_probe`: the values of a key (empty if absent) -/
def Table.fullProbe [DecidableEq κ] (t : Table κ ν) (k : κ) : List ν := (t.get k).getD []

/-- `build` on the table: `(table', inserted)` -/
def Table.build [DecidableEq κ] [DecidableEq ν] (set : Bool) (t : Table κ ν) (k : κ) (v : ν) : Table κ ν × Bool :=
  if set then
    match t.get k with
    | some vs => if vs.contains v then (t, false) else (t.push k v, true)
    | none => (t.push k v, true)
  else (t.push k v, true)

structure Half (κ νb νp : Type) where
  table : Table κ νb
  /-- `current_matches` -/
  queue : List (κ × νp × νb)
  len : Nat

def Half.empty : Half κ νb νp := ⟨[], [], 0⟩

def Half.build [DecidableEq κ] [DecidableEq νb] (set : Bool) (h : Half κ νb νp) (k : κ) (v : νb) :
    Half κ νb νp × Bool :=
  match h.table.build set k v with
  | (t, true) => ({ h with table := t, len := h.len + 1 }, true)
  | (_, false) => (h, false)

/-- `probe`: first match returned, the others queued -/
def Half.probe [DecidableEq κ] (h : Half κ νb νp) (k : κ) (v : νp) : Half κ νb νp × Option (κ × νp × νb) :=
  match h.table.get k with
  | none => (h, none)
  | some [] => (h, none)
  | some (b :: bs) => ({ h with queue := h.queue ++ bs.map (fun b' => (k, v, b')) }, some (k, v, b))

def Half.popMatch (h : Half κ νb νp) : Half κ νb νp × Option (κ × νp × νb) :=
  match h.queue with
  | [] => (h, none)
  | m :: r => ({ h with queue := r }, some m)

def Half.clear (_ : Half κ νb νp) : Half κ νb νp := Half.empty

structure JoinSt (κ ν1 ν2 : Type) where
  lhs : Src (κ × ν1)
  rhs : Src (κ × ν2)
  /-- `lhs_state`: built from V1, probed with V2; queue entries are `(k, v2, v1)` -/
  ls : Half κ ν1 ν2
  /-- `rhs_state`: queue entries are `(k, v1, v2)` -/
  rs : Half κ ν2 ν1

section
variable {κ ν1 ν2 : Type} [DecidableEq κ] [DecidableEq ν1] [DecidableEq ν2]

/-- `if mine.build(k, v) && let Some(m) = other.probe(&k, &v) { return m } continue`:
`(mine', other', the match returned if any)` -/
def buildProbe {νb νp : Type} [DecidableEq νb] (set : Bool) (mine : Half κ νb νp) (other : Half κ νp νb)
    (k : κ) (v : νb) : Half κ νb νp × Half κ νp νb × Option (κ × νb × νp) :=
  match mine.build set k v with
  | (mine', true) =>
    match other.probe k v with
    | (other', r) => (mine', other', r)
  | (mine', false) => (mine', other, none)

/-- `SymmetricHashJoin::pull` (output `(k, (v1, v2))`) -/
def joinLoop (set : Bool) : Nat → JoinSt κ ν1 ν2 → JoinSt κ ν1 ν2 × Step (κ × ν1 × ν2)
  | 0, st => (st, .pending)
  | fuel + 1, st =>
    match st.ls.popMatch with
    | (ls', some (k, v2, v1)) => ({ st with ls := ls' }, .ready (k, v1, v2))
    | (_, none) =>
    match st.rs.popMatch with
    | (rs', some (k, v1, v2)) => ({ st with rs := rs' }, .ready (k, v1, v2))
    | (_, none) =>
    match st.lhs.pull with
    | (lhs', .ready (k, v1)) =>
      match buildProbe set st.ls st.rs k v1 with
      | (ls', rs', some (k, v1, v2)) => ({ st with lhs := lhs', ls := ls', rs := rs' }, .ready (k, v1, v2))
      | (ls', rs', none) => joinLoop set fuel { st with lhs := lhs', ls := ls', rs := rs' }
    | (lhs', lstep) =>
      match st.rhs.pull with
      | (rhs', .ready (k, v2)) =>
        match buildProbe set st.rs st.ls k v2 with
        | (rs', ls', some (k, v2, v1)) =>
          ({ st with lhs := lhs', rhs := rhs', ls := ls', rs := rs' }, .ready (k, v1, v2))
        | (rs', ls', none) => joinLoop set fuel { st with lhs := lhs', rhs := rhs', ls := ls', rs := rs' }
      | (rhs', rstep) =>
        if lstep = .pending ∨ rstep = .pending then ({ st with lhs := lhs', rhs := rhs' }, .pending)
        else ({ st with lhs := lhs', rhs := rhs' }, .ended)

def joinStep (set : Bool) (st : JoinSt κ ν1 ν2) : JoinSt κ ν1 ν2 × Step (κ × ν1 × ν2) :=
  joinLoop set (st.lhs.length + st.rhs.length + 1) st

/-- `drain_pull_into_state`'s fold step -/
def drainG (set : Bool) {νb νp : Type} [DecidableEq νb] (h : Half κ νb νp) (kv : κ × νb) : Half κ νb νp :=
  (h.build set kv.1 kv.2).1

/-- what `NewTickJoinIter` enumerates: outer = the smaller side's entries in table order,
then its values, then `full_probe` of the other side -/
def newTickIter (lhsSmaller : Bool) (L : Table κ ν1) (R : Table κ ν2) : List (κ × ν1 × ν2) :=
  if lhsSmaller then
    L.flatMap fun (k, v1s) => v1s.flatMap fun v1 => (R.fullProbe k).map fun v2 => (k, v1, v2)
  else
    R.flatMap fun (k, v2s) => v2s.flatMap fun v2 => (L.fullProbe k).map fun v1 => (k, v1, v2)

/-- `symmetric_hash_join(.., is_new_tick = true)` once both drains are done -/
def newTickJoin (ls : Half κ ν1 ν2) (rs : Half κ ν2 ν1) : List (κ × ν1 × ν2) :=
  newTickIter (ls.len < rs.len) ls.table rs.table

/-- the `symmetric_hash_join(.., is_new_tick = true)` future: drains lhs, then rhs (phase 0 / 1),
resolved in phase 2 -/
structure NewSt (κ ν1 ν2 : Type) where
  lhs : Src (κ × ν1)
  rhs : Src (κ × ν2)
  ls : Half κ ν1 ν2
  rs : Half κ ν2 ν1
  phase : Nat

/-- one `Future::poll` of it: `true` = resolved -/
def newTickPoll (set : Bool) (st : NewSt κ ν1 ν2) : NewSt κ ν1 ν2 × Bool :=
  match st.phase with
  | 0 =>
    match foldPoll (drainG set) st.lhs st.ls with
    | ((l', ls'), false) => ({ st with lhs := l', ls := ls' }, false)
    | ((l', ls'), true) =>
      match foldPoll (drainG set) st.rhs st.rs with
      | ((r', rs'), false) => (⟨l', r', ls', rs', 1⟩, false)
      | ((r', rs'), true) => (⟨l', r', ls', rs', 2⟩, true)
  | 1 =>
    match foldPoll (drainG set) st.rhs st.rs with
    | ((r', rs'), false) => ({ st with rhs := r', rs := rs' }, false)
    | ((r', rs'), true) => ({ st with rhs := r', rs := rs', phase := 2 }, true)
  | _ => (st, true)

end
end HvPull
