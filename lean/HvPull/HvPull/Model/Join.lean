/-
Model of `dfir_pipes::pull::{half_join_state, symmetric_hash_join}` (C13).  Core Lean only.

* `FxHashMap<Key, SmallVec<[Val; 1]>>` is an association list: `get` finds the first entry of
  a key, `entry(k)` updates that entry in place or appends a new one (so keys stay distinct).
  Hash iteration order is the list order here; the harness sorts what depends on it.
* `VecDeque` `current_matches` is a list (push back = append, pop front = head).
* `set = true` is `HalfSetJoinState` (dedup on build), `set = false` is `HalfMultisetJoinState`.
* `SymmetricHashJoin::pull`'s `loop` is `joinLoop` with explicit fuel (every `continue` has
  consumed a script element; `joinStep` supplies `|lhs| + |rhs| + 1`).
* `NewTickJoinIter` is modelled by the list its nested loops enumerate (`newTickIter`).
-/
import HvPull.Model.Pull
namespace HvPull

abbrev Table (κ ν : Type) := List (κ × List ν)

def Table.get [DecidableEq κ] : Table κ ν → κ → Option (List ν)
  | [], _ => none
  | (k', vs) :: r, k => if k' = k then some vs else Table.get r k

/-- `entry(k)`: occupied → push onto its vec, vacant → insert `smallvec![v]` -/
def Table.push [DecidableEq κ] : Table κ ν → κ → ν → Table κ ν
  | [], k, v => [(k, [v])]
  | (k', vs) :: r, k, v => if k' = k then (k', vs ++ [v]) :: r else (k', vs) :: Table.push r k v

/-- `full_probe`: the values of a key (empty if absent) -/
def Table.fullProbe [DecidableEq κ] (t : Table κ ν) (k : κ) : List ν := (t.get k).getD []

/-- `build` on the table: `(table', inserted)` -/
def Table.build [DecidableEq κ] [DecidableEq ν] (set : Bool) (t : Table κ ν) (k : κ) (v : ν) : Table κ ν × Bool :=
  if set then
    match t.get k with
    | some vs => if vs.contains v then (t, false) else (t.push k v, true)
    | none => (t.push k v, true)
  else (t.push k v, true)

structure Half (κ νb νp : Type) where
  table : Table κ νb
  /-- `current_matches` -/
  queue : List (κ × νp × νb)
  len : Nat

def Half.empty : Half κ νb νp := ⟨[], [], 0⟩

def Half.build [DecidableEq κ] [DecidableEq νb] (set : Bool) (h : Half κ νb νp) (k : κ) (v : νb) :
    Half κ νb νp × Bool :=
  match h.table.build set k v with
  | (t, true) => ({ h with table := t, len := h.len + 1 }, true)
  | (_, false) => (h, false)

/-- `probe`: first match returned, the others queued -/
def Half.probe [DecidableEq κ] (h : Half κ νb νp) (k : κ) (v : νp) : Half κ νb νp × Option (κ × νp × νb) :=
  match h.table.get k with
  | none => (h, none)
  | some [] => (h, none)
  | some (b :: bs) => ({ h with queue := h.queue ++ bs.map (fun b' => (k, v, b')) }, some (k, v, b))

def Half.popMatch (h : Half κ νb νp) : Half κ νb νp × Option (κ × νp × νb) :=
  match h.queue with
  | [] => (h, none)
  | m :: r => ({ h with queue := r }, some m)

def Half.clear (_ : Half κ νb νp) : Half κ νb νp := Half.empty

structure JoinSt (κ ν1 ν2 : Type) where
  lhs : Src (κ × ν1)
  rhs : Src (κ × ν2)
  /-- `lhs_state`: built from V1, probed with V2; queue entries are `(k, v2, v1)` -/
  ls : Half κ ν1 ν2
  /-- `rhs_state`: queue entries are `(k, v1, v2)` -/
  rs : Half κ ν2 ν1

section
variable {κ ν1 ν2 : Type} [DecidableEq κ] [DecidableEq ν1] [DecidableEq ν2]

/-- `if mine.build(k, v) && let Some(m) = other.probe(&k, &v) { return m } continue`:
`(mine', other', the match returned if any)` -/
def buildProbe {νb νp : Type} [DecidableEq νb] (set : Bool) (mine : Half κ νb νp) (other : Half κ νp νb)
    (k : κ) (v : νb) : Half κ νb νp × Half κ νp νb × Option (κ × νb × νp) :=
  match mine.build set k v with
  | (mine', true) =>
    match other.probe k v with
    | (other', r) => (mine', other', r)
  | (mine', false) => (mine', other, none)

/-- `SymmetricHashJoin::pull` (output `(k, (v1, v2))`) -/
def joinLoop (set : Bool) : Nat → JoinSt κ ν1 ν2 → JoinSt κ ν1 ν2 × Step (κ × ν1 × ν2)
  | 0, st => (st, .pending)
  | fuel + 1, st =>
    match st.ls.popMatch with
    | (ls', some (k, v2, v1)) => ({ st with ls := ls' }, .ready (k, v1, v2))
    | (_, none) =>
    match st.rs.popMatch with
    | (rs', some (k, v1, v2)) => ({ st with rs := rs' }, .ready (k, v1, v2))
    | (_, none) =>
    match st.lhs.pull with
    | (lhs', .ready (k, v1)) =>
      match buildProbe set st.ls st.rs k v1 with
      | (ls', rs', some (k, v1, v2)) => ({ st with lhs := lhs', ls := ls', rs := rs' }, .ready (k, v1, v2))
      | (ls', rs', none) => joinLoop set fuel { st with lhs := lhs', ls := ls', rs := rs' }
    | (lhs', lstep) =>
      match st.rhs.pull with
      | (rhs', .ready (k, v2)) =>
        match buildProbe set st.rs st.ls k v2 with
        | (rs', ls', some (k, v2, v1)) =>
          ({ st with lhs := lhs', rhs := rhs', ls := ls', rs := rs' }, .ready (k, v1, v2))
        | (rs', ls', none) => joinLoop set fuel { st with lhs := lhs', rhs := rhs', ls := ls', rs := rs' }
      | (rhs', rstep) =>
        if lstep = .pending ∨ rstep = .pending then ({ st with lhs := lhs', rhs := rhs' }, .pending)
        else ({ st with lhs := lhs', rhs := rhs' }, .ended)

def joinStep (set : Bool) (st : JoinSt κ ν1 ν2) : JoinSt κ ν1 ν2 × Step (κ × ν1 × ν2) :=
  joinLoop set (st.lhs.length + st.rhs.length + 1) st

/-- `drain_pull_into_state`'s fold step -/
def drainG (set : Bool) {νb νp : Type} [DecidableEq νb] (h : Half κ νb νp) (kv : κ × νb) : Half κ νb νp :=
  (h.build set kv.1 kv.2).1

/-- what `NewTickJoinIter` enumerates: outer = the smaller side's entries in table order,
then its values, then `full_probe` of the other side -/
def newTickIter (lhsSmaller : Bool) (L : Table κ ν1) (R : Table κ ν2) : List (κ × ν1 × ν2) :=
  if lhsSmaller then
    L.flatMap fun (k, v1s) => v1s.flatMap fun v1 => (R.fullProbe k).map fun v2 => (k, v1, v2)
  else
    R.flatMap fun (k, v2s) => v2s.flatMap fun v2 => (L.fullProbe k).map fun v1 => (k, v1, v2)

/-! ### `NewTickJoinIter` as the state machine it is

One orientation (`next_lhs_smaller`; `next_rhs_smaller` is the same code with the roles of the two
sides swapped): `νo` = values of the outer (smaller) side, `νi` = values of the probed side.  The
`Option<Iter>` fields are `Option (List _)` (`some []` = `Some` of an exhausted iterator). -/

structure NTI (κ νo νi : Type) where
  /-- `outer_iter` -/
  outer : Option (List (κ × List νo))
  /-- `current_key` -/
  key : Option κ
  /-- `outer_val_iter` -/
  ovals : Option (List νo)
  /-- `current_outer_val` -/
  oval : Option νo
  /-- `inner_val_iter` -/
  inner : Option (List νi)

/-- `NewTickJoinIter::new_lhs_smaller` / `new_rhs_smaller` -/
def NTI.start (t : Table κ νo) : NTI κ νo νi := ⟨some t, none, none, none, none⟩

/-- what one iteration of the `loop` in `next_lhs_smaller` does: `return` or `continue` -/
inductive NTIRes (κ νo νi : Type) where
  | ret (s : NTI κ νo νi) (o : Option (κ × νo × νi))
  | cont (s : NTI κ νo νi)

/-- the body of the `loop` of `next_lhs_smaller` (`probe` = `other_state.full_probe`);
`unwrap()` of a `None` is modelled as `return None` (unreachable, see `aux_ntiBody`) -/
def ntiBody (probe : κ → List νi) (s : NTI κ νo νi) : NTIRes κ νo νi :=
  -- if let Some(iter) = inner_val_iter { if let Some(w) = iter.next() { return Some(..) } inner_val_iter = None }
  match s.inner with
  | some (w :: ws) =>
    match s.key, s.oval with
    | some k, some v => .ret { s with inner := some ws } (some (k, v, w))
    | _, _ => .ret s none
  | _ =>
    let s1 : NTI κ νo νi := { s with inner := none }
    -- if let Some(iter) = outer_val_iter { if let Some(v) = iter.next() { current_outer_val = v;
    --   inner_val_iter = Some(other.full_probe(key)); continue } outer_val_iter = None; current_key = None }
    match s1.ovals with
    | some (v :: vs) =>
      match s1.key with
      | some k => .cont { s1 with ovals := some vs, oval := some v, inner := some (probe k) }
      | none => .ret s1 none
    | ov =>
      let s2 : NTI κ νo νi := match ov with
        | some _ => { s1 with ovals := none, key := none }
        | none => s1
      -- if let Some(iter) = outer_iter { if let Some((k, vals)) = iter.next() { current_key = k;
      --   outer_val_iter = Some(vals.iter()); continue } outer_iter = None }
      match s2.outer with
      | some ((k, vals) :: rest) => .cont { s2 with outer := some rest, key := some k, ovals := some vals }
      | some [] => .ret { s2 with outer := none } none
      | none => .ret s2 none

/-- `Iterator::next` of one orientation: the `loop` with explicit fuel (every `continue` consumes an
outer value or an outer table entry; `NTI.fuel` is enough) -/
def ntiNext (probe : κ → List νi) : Nat → NTI κ νo νi → NTI κ νo νi × Option (κ × νo × νi)
  | 0, s => (s, none)
  | fuel + 1, s =>
    match ntiBody probe s with
    | .ret s' o => (s', o)
    | .cont s' => ntiNext probe fuel s'

/-- outer values and outer entries still to be consumed -/
def NTI.measure (s : NTI κ νo νi) : Nat :=
  (match s.ovals with | some vs => vs.length | none => 0) +
  (match s.outer with | some es => (es.map fun e => e.2.length + 1).sum | none => 0)

def NTI.fuel (s : NTI κ νo νi) : Nat := s.measure + 1

/-- `pull::iter(NewTickJoinIter)` pulled until `Ended` (at most `n` items) -/
def ntiCollect (probe : κ → List νi) : Nat → NTI κ νo νi → List (κ × νo × νi)
  | 0, _ => []
  | n + 1, s =>
    match ntiNext probe s.fuel s with
    | (s', some x) => x :: ntiCollect probe n s'
    | (_, none) => []

/-- everything `symmetric_hash_join(.., is_new_tick = true)` yields once resolved: the orientation is
chosen by `len()`, the rhs-outer orientation yields `(k, (v1, v2))` from its `(k, v2, v1)` -/
def newTickRun (n : Nat) (ls : Half κ ν1 ν2) (rs : Half κ ν2 ν1) : List (κ × ν1 × ν2) :=
  if ls.len < rs.len then ntiCollect rs.table.fullProbe n (NTI.start ls.table)
  else (ntiCollect ls.table.fullProbe n (NTI.start rs.table)).map fun x => (x.1, x.2.2, x.2.1)

/-- number of stored values of a table -/
def Table.size (t : Table κ ν) : Nat := (t.map fun e => e.2.length).sum

/-- `symmetric_hash_join(.., is_new_tick = true)` once both drains are done (denotationally) -/
def newTickJoin (ls : Half κ ν1 ν2) (rs : Half κ ν2 ν1) : List (κ × ν1 × ν2) :=
  newTickIter (ls.len < rs.len) ls.table rs.table

/-- the `symmetric_hash_join(.., is_new_tick = true)` future: drains lhs, then rhs (phase 0 / 1),
resolved in phase 2 -/
structure NewSt (κ ν1 ν2 : Type) where
  lhs : Src (κ × ν1)
  rhs : Src (κ × ν2)
  ls : Half κ ν1 ν2
  rs : Half κ ν2 ν1
  phase : Nat

/-- one `Future::poll` of it: `true` = resolved -/
def newTickPoll (set : Bool) (st : NewSt κ ν1 ν2) : NewSt κ ν1 ν2 × Bool :=
  match st.phase with
  | 0 =>
    match foldPoll (drainG set) st.lhs st.ls with
    | ((l', ls'), false) => ({ st with lhs := l', ls := ls' }, false)
    | ((l', ls'), true) =>
      match foldPoll (drainG set) st.rhs st.rs with
      | ((r', rs'), false) => (⟨l', r', ls', rs', 1⟩, false)
      | ((r', rs'), true) => (⟨l', r', ls', rs', 2⟩, true)
  | 1 =>
    match foldPoll (drainG set) st.rhs st.rs with
    | ((r', rs'), false) => ({ st with rhs := r', rs := rs' }, false)
    | ((r', rs'), true) => ({ st with rhs := r', rs := rs', phase := 2 }, true)
  | _ => (st, true)

end
end HvPull
