SPEC = dict(
    id="C05",
    lean_project="HvLatSpec", props_module="HvLatSpec.Props.C05", driver="hvdrv_latspec",
    harness="hv_latspec", bin="hv_latspec", mode="c05",
    cases={"quick": 1500, "thorough": 30000},
    level="proof",
    design_ref="DESIGN.md §5 C05",
    technique="Lean 4 invariant/history proofs over the transcribed merge functions; comparison theorems over decision tables re-translated from the Rust source on every run; differential correspondence with the real lattices on all tombstone backends",
    level_text=("Theorems (Lean, all histories, no bound): for SetUnionWithTombstones, merging any list of arbitrary "
                "replica states (duplicates, replicas that are themselves live-and-tombstoned) into bottom in ANY order "
                "(List.Perm-quantified) gives live = (union of inserted) minus (union of tombstones) and tombstones = union of "
                "tombstones (merge_history_live/_tomb, merge_order_irrelevant); tombstones are monotone; an item tombstoned "
                "in a disjoint state, or by any replica of a prefix of the history, is never live after any continuation "
                "(never_resurrect, never_resurrect_history); live∩tomb=∅ and duplicate-freeness are invariants of merge for "
                "arbitrary `other` (inv_disjoint, merge_wf, reachable_disjoint_wf); a `false` changed flag means nothing changed. "
                "For MapUnionWithTombstones the same key-level theorems hold for arbitrary replicas (inv_disjoint, "
                "never_resurrect(_history), merge_history_tomb, tombstones_monotone), and for replicas with distinct keys the "
                "value of every key after any history in any order is bottom if the key was tombstoned anywhere and otherwise "
                "the join of all replica values (merge_history_value, live_key_iff: bottom values are invisible), generically "
                "in the nested value lattice (any ValOps refining a SemilatticeSup with bottom; instantiated for set-union "
                "values, setOps_spec). tombstone_union_with_spec / tombstone_collect_spec: the bare TombstoneSet surface (union_with, extend, "
                "collect) is set union and union_with answers the old length. "
                "Comparisons (PartialOrd/PartialEq of both lattices, Model/TombCmp.lean): TSet.cmp_spec — partial_cmp of "
                "SetUnionWithTombstones is the order of the lattice (Less/Greater/Equal/None from the two tests a<=b, b<=a, where a<=b iff a's "
                "tombstones are b's and a's live items are live or tombstoned in b) for duplicate-free disjoint states; TSet.le_iff_merge_noop / "
                "le_iff_merge_flag_false — a<=b iff merging a into b changes nothing iff that merge's flag is false; TSet.eq_iff, "
                "TSet.eq_iff_cmp_equal. TMap.cmp_spec — partial_cmp of MapUnionWithTombstones is the order (tombstones included, values "
                "compared key-wise outside the other side's tombstones, absent = bottom), never reaching an unreachable!() row, generically in a value "
                "lattice meeting CmpSpec (setCmpOps_spec: the set-union values the harness runs); TMap.le_iff_merge_noop, TMap.eq_iff. The decision "
                "tables (set_cmp_filter's pair table, the nested match on set_cmp(tombstones), the map variant's final 4-flag table) are NOT "
                "hand-modelled: translation T regenerates Gen/TombCmp.lean from the two Rust files on every run and the theorems are about the "
                "generated definitions (a collapsed / swallowed arm makes them fail). "
                "The model transcribes both `impl Merge` bodies statement by statement and is tied to "
                "the code by running the same histories (bounded-exhaustive small scopes with every re-merge order + seeded "
                "random, other-representations Vec/HashSet/BTreeSet/Option/Singleton/tombstone-only/same) on the real "
                "HashSet, BTreeSet+HashSet, RoaringTombstoneSet and FstTombstoneSet backends and diffing every answer "
                "(flag, live, tombstones) against the compiled model; the property itself (formula, never-resurrect, "
                "disjointness, order independence, backend agreement, changed flag) is evaluated on the real code against "
                "an independent bookkeeping of inserted/tombstoned items; `tb union` lines run TombstoneSet::union_with/extend/contains/len and "
                "FromIterator/IntoIterator of the HashSet, roaring and FST backends on the same inputs against a BTreeSet oracle; `ts cmp` / `tm cmp` "
                "lines (all 27x27 pairs of set states over three items, all 25x25 pairs of map states over two keys, seeded perturbations over "
                "3..5 items/keys that differ in live entries and tombstones at once) run partial_cmp and == in both directions on the backends "
                "that implement them (HashSet / BTreeSet+HashSet sets, HashSet-tombstone maps) against an independent order oracle, duality, "
                "== <-> Equal and cmp-vs-merge-flag."),
    level_note=("Trusted: Lean kernel + propext/Classical.choice/Quot.sound; HashSet/BTreeSet/RoaringTreemap/fst::Set are "
                "modelled as duplicate-free lists (their internals are exercised by the correspondence, not proved); "
                "backend interchangeability is established by correspondence (all backends must print the model's answer), "
                "the theorems are about the shared model. Map value-level theorems assume replicas without duplicate keys "
                "(duplicate-key Vec replicas are still run in the correspondence). partial_cmp/eq exist only for the HashSet/BTreeSet tombstone "
                "backings (roaring/FST tombstone sets are not cc_traits Iter/Get); the helper bodies set_cmp / set_cmp_filter / the map key loop are "
                "hand-transcribed (exercised by correspondence), only the match tables are translated; comparison theorems assume duplicate-free, "
                "disjoint states with distinct map keys (what merges from bottom produce on hash backings)."),
    trusted_base=["std HashSet/BTreeSet/HashMap, roaring::RoaringTreemap, fst::Set modelled as duplicate-free lists / association lists",
                  "u64 <-> String key bijection (k<n>) used to run the FST backend on the same histories"],
    assumptions=["items/keys are u64 (strings k<n> for FST); Hash/Eq/Ord of the element types are coherent",
                 "map value-level theorems: replica maps have distinct keys and the value lattice satisfies ValSpec (proved for set-union values)"],
)


# ----------------------------------------------------------------------------- translation (T)
# The decision tables of `PartialOrd::partial_cmp` of the two tombstone lattices are re-extracted from the
# Rust source on every run into lean/HvLatSpec/HvLatSpec/Gen/TombCmp.lean:
#   set_union_with_tombstones.rs : the `match (is_a_greater_than_b, is_b_greater_than_a)` of set_cmp_filter and the
#                                  nested `match set_cmp(&self.tombstones, &other.tombstones) { … }`
#   map_union_with_tombstones.rs : the final `match (self_any_greater, other_any_greater, self_tombstones_greater,
#                                  other_tombstones_greater) { … }`
# The model (Model/TombCmp.lean), the driver and the theorems of Props/C05.lean use the generated definitions, so a
# collapsed / reordered / swallowed arm changes what the theorems are about (they stop compiling) and what the
# driver answers.
import os as _os
import re as _re

_TOK = {"Some(Less)": "some .lt", "Some(Equal)": "some .eq", "Some(Greater)": "some .gt", "None": "none",
        "_": "_", "true": "true", "false": "false"}


def _strip_comments(s):
    s = _re.sub(r"/\*.*?\*/", "", s, flags=_re.S)
    return _re.sub(r"//[^\n]*", "", s)


def _block_after(src, head):
    """text between the `{` that follows `head` and its matching `}`"""
    i = src.index(head)
    j = src.index("{", i + len(head) - 1) if not head.rstrip().endswith("{") else i + len(head.rstrip()) - 1
    depth, k = 0, j
    while True:
        c = src[k]
        if c == "{":
            depth += 1
        elif c == "}":
            depth -= 1
            if depth == 0:
                return src[j + 1:k]
        k += 1


def _arms(body):
    """split `pat => expr,` / `pat => { block }` arms at nesting depth 0"""
    out, i, n = [], 0, len(body)
    while True:
        m = _re.compile(r"\s*(.+?)\s*=>\s*", _re.S).match(body, i)
        if not m:
            if body[i:].strip():
                raise ValueError(f"unparsed arm text `{body[i:].strip()[:60]}`")
            return out
        pat, i = " ".join(m.group(1).split()), m.end()
        if body[i] == "{":
            depth, k = 0, i
            while True:
                if body[k] == "{":
                    depth += 1
                elif body[k] == "}":
                    depth -= 1
                    if depth == 0:
                        break
                k += 1
            out.append((pat, ("block", body[i + 1:k])))
            i = k + 1
            if body[i:i + 1] == ",":
                i += 1
        else:
            depth, k = 0, i
            while k < n and not (body[k] == "," and depth == 0):
                if body[k] in "([{":
                    depth += 1
                elif body[k] in ")]}":
                    depth -= 1
                k += 1
            out.append((pat, ("expr", " ".join(body[i:k].split()))))
            i = k + 1


def _tok(t):
    t = t.strip()
    if t not in _TOK:
        raise ValueError(f"untranslatable token `{t}`")
    return _TOK[t]


def _tuple_pat(p, n):
    p = p.strip()
    if not (p.startswith("(") and p.endswith(")")):
        raise ValueError(f"expected a {n}-tuple pattern, got `{p}`")
    parts = [x.strip() for x in p[1:-1].split(",") if x.strip()]
    if len(parts) != n:
        raise ValueError(f"expected a {n}-tuple pattern, got `{p}`")
    return ", ".join(_tok(x) for x in parts)


def translate(ctx):
    res = []
    out = ["/- GENERATED by checks/C05.py (translate) from /repo/lattices/src/set_union_with_tombstones.rs and",
           "   map_union_with_tombstones.rs — do not edit.  `match` arms in source order (first match wins, as in Rust). -/",
           "namespace HvLatSpec.Gen", ""]
    try:
        src = _strip_comments(open(_os.path.join(ctx["repo"], "lattices/src/set_union_with_tombstones.rs")).read())
        src = src.split("#[cfg(test)]")[0]
        # 1. set_cmp_filter's table
        body = _block_after(src, "match (is_a_greater_than_b, is_b_greater_than_a) {")
        arms = _arms(body)
        out += ["/-- `match (is_a_greater_than_b, is_b_greater_than_a)` in `set_cmp_filter` -/",
                "def setFilterTable (aG bG : Bool) : Option Ordering :=", "  match aG, bG with"]
        for pat, (kind, e) in arms:
            if kind != "expr":
                raise ValueError("set_cmp_filter table: block arm")
            out.append(f"  | {_tuple_pat(pat, 2)} => {_tok(e)}")
        out.append("")
        res.append(("set_union_with_tombstones.rs: set_cmp_filter table", True, f"{len(arms)} arms"))
        # 2. the nested match of partial_cmp
        body = _block_after(src, "match set_cmp(&self.tombstones, &other.tombstones) {")
        top = _arms(body)
        want_args = "&self.set, &other.set, &self.tombstones, &other.tombstones"
        outer, n_inner = [], 0
        for pat, (kind, e) in top:
            if kind == "block":
                m = _re.fullmatch(r"\s*match set_cmp_filter\((.*?)\)\s*\{(.*)\}\s*", e, _re.S)
                if not m:
                    raise ValueError(f"arm `{pat}`: expected `match set_cmp_filter(..) {{..}}`")
                if " ".join(m.group(1).replace(",\n", ", ").split()).rstrip(",") != want_args:
                    raise ValueError(f"arm `{pat}`: set_cmp_filter called with `{' '.join(m.group(1).split())}`")
                name = "setTomb" + {"Some(Less)": "Less", "Some(Greater)": "Greater", "Some(Equal)": "Equal", "None": "None", "_": "Any"}[pat] + (str(n_inner) if pat == "_" else "")
                n_inner += 1
                inner = _arms(m.group(2))
                out += [f"/-- the `{pat} =>` branch: `match set_cmp_filter({want_args})` -/",
                        f"def {name} (r : Option Ordering) : Option Ordering :=", "  match r with"]
                for ip, (ik, ie) in inner:
                    if ik != "expr":
                        raise ValueError(f"arm `{pat}`/`{ip}`: block")
                    out.append(f"  | {_tok(ip)} => {_tok(ie)}")
                out.append("")
                outer.append((pat, f"{name} filt"))
            elif e == "set_cmp(&self.set, &other.set)":
                outer.append((pat, "plain"))
            else:
                outer.append((pat, _tok(e)))
        out += ["/-- `match set_cmp(&self.tombstones, &other.tombstones)`: `filt` = `set_cmp_filter(&self.set, &other.set,",
                "&self.tombstones, &other.tombstones)`, `plain` = `set_cmp(&self.set, &other.set)` -/",
                "def setOuter (t filt plain : Option Ordering) : Option Ordering :=", "  match t with"]
        for pat, e in outer:
            out.append(f"  | {_tok(pat)} => {e}")
        out.append("")
        res.append(("set_union_with_tombstones.rs: partial_cmp decision tree", True, f"{len(top)} outer arms, {n_inner} nested tables"))
        # 3. the map variant's final table
        src = _strip_comments(open(_os.path.join(ctx["repo"], "lattices/src/map_union_with_tombstones.rs")).read())
        src = src.split("#[cfg(test)]")[0]
        hm = _re.search(r"match\s*\(\s*self_any_greater\s*,\s*other_any_greater\s*,\s*self_tombstones_greater\s*,\s*other_tombstones_greater\s*,?\s*\)\s*\{", src)
        if not hm:
            raise ValueError("map partial_cmp: final 4-tuple match not found")
        arms = _arms(_block_after(src[hm.start():], src[hm.start():hm.end()]))
        out += ["/-- final `match (self_any_greater, other_any_greater, self_tombstones_greater, other_tombstones_greater)`",
                "of the map variant; outer `none` = `unreachable!()` -/",
                "def mapFinalTable (sg og stg otg : Bool) : Option (Option Ordering) :=", "  match sg, og, stg, otg with"]
        for pat, (kind, e) in arms:
            if kind != "expr":
                raise ValueError("map final table: block arm")
            out.append(f"  | {_tuple_pat(pat, 4)} => " + ("none" if e == "unreachable!()" else f"some ({_tok(e)})"))
        out.append("")
        res.append(("map_union_with_tombstones.rs: partial_cmp final table", True, f"{len(arms)} arms"))
    except (ValueError, KeyError, IndexError) as ex:
        res.append(("tombstone lattices: partial_cmp tables translate", False, str(ex)))
        return res
    out += ["end HvLatSpec.Gen", ""]
    text = "\n".join(out)
    gp = _os.path.join(ctx["verif"], "lean/HvLatSpec/HvLatSpec/Gen/TombCmp.lean")
    _os.makedirs(_os.path.dirname(gp), exist_ok=True)
    if not _os.path.exists(gp) or open(gp).read() != text:
        with open(gp, "w") as f:
            f.write(text)
    return res


SPEC["translate"] = translate
