SPEC = dict(
    id="C05",
    lean_project="HvLatSpec", props_module="HvLatSpec.Props.C05", driver="hvdrv_latspec",
    harness="hv_latspec", bin="hv_latspec", mode="c05",
    cases={"quick": 1500, "thorough": 30000},
    level="proof",
    design_ref="DESIGN.md §5 C05",
    technique="Lean 4 invariant/history proofs over the transcribed merge functions + differential correspondence with the real lattices on all tombstone backends",
    level_text=("Theorems (Lean, all histories, no bound): for SetUnionWithTombstones, merging any list of arbitrary "
                "replica states (duplicates, replicas that are themselves live-and-tombstoned) into bottom in ANY order "
                "(List.Perm-quantified) gives live = (union of inserted) minus (union of tombstones) and tombstones = union of "
                "tombstones (merge_history_live/_tomb, merge_order_irrelevant); tombstones are monotone; an item tombstoned "
                "in a disjoint state, or by any replica of a prefix of the history, is never live after any continuation "
                "(never_resurrect, never_resurrect_history); live∩tomb=∅ and duplicate-freeness are invariants of merge for "
                "arbitrary `other` (inv_disjoint, merge_wf, reachable_disjoint_wf); a `false` changed flag means nothing changed. "
                "For MapUnionWithTombstones the same key-level theorems hold for arbitrary replicas (inv_disjoint, "
                "never_resurrect(_history), merge_history_tomb, tombstones_monotone), and for replicas with distinct keys the "
                "value of every key after any history in any order is bottom if the key was tombstoned anywhere and otherwise "
                "the join of all replica values (merge_history_value, live_key_iff: bottom values are invisible), generically "
                "in the nested value lattice (any ValOps refining a SemilatticeSup with bottom; instantiated for set-union "
                "values, setOps_spec). tombstone_union_with_spec / tombstone_collect_spec: the bare TombstoneSet surface (union_with, extend, "
                "collect) is set union and union_with answers the old length. "
                "The model transcribes both `impl Merge` bodies statement by statement and is tied to "
                "the code by running the same histories (bounded-exhaustive small scopes with every re-merge order + seeded "
                "random, other-representations Vec/HashSet/BTreeSet/Option/Singleton/tombstone-only/same) on the real "
                "HashSet, BTreeSet+HashSet, RoaringTombstoneSet and FstTombstoneSet backends and diffing every answer "
                "(flag, live, tombstones) against the compiled model; the property itself (formula, never-resurrect, "
                "disjointness, order independence, backend agreement, changed flag) is evaluated on the real code against "
                "an independent bookkeeping of inserted/tombstoned items; `tb union` lines run TombstoneSet::union_with/extend/contains/len and "
                "FromIterator/IntoIterator of the HashSet, roaring and FST backends on the same inputs against a BTreeSet oracle."),
    level_note=("Trusted: Lean kernel + propext/Classical.choice/Quot.sound; HashSet/BTreeSet/RoaringTreemap/fst::Set are "
                "modelled as duplicate-free lists (their internals are exercised by the correspondence, not proved); "
                "backend interchangeability is established by correspondence (all backends must print the model's answer), "
                "the theorems are about the shared model. Map value-level theorems assume replicas without duplicate keys "
                "(duplicate-key Vec replicas are still run in the correspondence). partial_cmp/eq of the tombstone "
                "lattices belong to C03 and are not modelled here."),
    trusted_base=["std HashSet/BTreeSet/HashMap, roaring::RoaringTreemap, fst::Set modelled as duplicate-free lists / association lists",
                  "u64 <-> String key bijection (k<n>) used to run the FST backend on the same histories"],
    assumptions=["items/keys are u64 (strings k<n> for FST); Hash/Eq/Ord of the element types are coherent",
                 "map value-level theorems: replica maps have distinct keys and the value lattice satisfies ValSpec (proved for set-union values)"],
)
