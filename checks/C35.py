import os
import re

_CALLS = {
    "serialize": "serialize", "deserialize": "deserialize", "options": "options", "DefaultOptions::new": "defaultOptionsNew",
    "with_fixint_encoding": "withFixint", "with_varint_encoding": "withVarint", "with_little_endian": "withLittle",
    "with_big_endian": "withBig", "with_native_endian": "withNative", "with_limit": "withLimit", "with_no_limit": "withNoLimit",
    "allow_trailing_bytes": "allowTrailing", "reject_trailing_bytes": "rejectTrailing", "serialize_into": "serializeInto",
    "deserialize_from": "deserializeFrom", "serialized_size": "serializedSize",
}
_TERMINAL = {"serialize", "deserialize", "serialize_into", "deserialize_from", "serialized_size", "deserialize_seed",
             "deserialize_from_seed", "deserialize_from_custom", "deserialize_in_place"}

# the two generator functions with every `bincode::` call chain replaced by BINCODE[<args of the terminal call>], all
# white space removed: pins the rest of the closures (into_tagless / from_tagless / unwrap / into) that Model/Net.lean transcribes
_SKEL_SER = ("letroot=get_this_crate();ifis_demux{parse_quote!{#root::runtime_support::stageleft::runtime_support::fn1_type_hint::"
             "<(#root::__staged::location::MemberId<_>,#t_type),_>(|(id,data)|{(id.into_tagless(),BINCODE[&data].unwrap().into())})}}"
             "else{parse_quote!{#root::runtime_support::stageleft::runtime_support::fn1_type_hint::<#t_type,_>(|data|{BINCODE[&data].unwrap().into()})}}")
_SKEL_DE = ("letroot=get_this_crate();ifletSome(c_type)=tagged{parse_quote!{|res|{let(id,b)=res.unwrap();"
            "(#root::__staged::location::MemberId::<#c_type>::from_tagless(idas#root::__staged::location::TaglessMemberId),BINCODE[&b].unwrap())}}}"
            "else{parse_quote!{|res|{BINCODE[&res.unwrap()].unwrap()}}}")


def _balanced(s, i, op, cl):
    """s[i] == op; index just after the matching cl"""
    assert s[i] == op
    d = 0
    j = i
    while j < len(s):
        if s[j] == op:
            d += 1
        elif s[j] == cl:
            d -= 1
            if d == 0:
                return j + 1
        j += 1
    raise ValueError("unbalanced " + op)


def _fn_body(src, name):
    m = re.search(r"\bfn\s+" + name + r"\s*\(", src)
    if not m:
        raise ValueError("fn %s not found" % name)
    i = src.index("{", _balanced(src, m.end() - 1, "(", ")"))
    return src[i + 1:_balanced(src, i, "{", "}") - 1]


def _chains(body):
    """[(call names up to the terminal one, args of the terminal call, start, end)] for every `bincode::` use"""
    res = []
    for m in re.finditer(r"(?:#root\s*::\s*)?runtime_support\s*::\s*bincode\s*::\s*", body):
        i = m.end()
        names, targs = [], None
        while True:
            pm = re.compile(r"\s*([A-Za-z_]\w*(?:\s*::\s*[A-Za-z_]\w*)*)").match(body, i)
            if not pm:
                raise ValueError("cannot parse the bincode call chain at: " + body[m.start():m.start() + 80])
            name = re.sub(r"\s+", "", pm.group(1))
            i = pm.end()
            tf = re.compile(r"\s*::\s*<").match(body, i)
            if tf:
                i = _balanced(body, tf.end() - 1, "<", ">")
            pa = re.compile(r"\s*\(").match(body, i)
            if not pa:
                raise ValueError("`bincode::%s` is not a call: %s" % (name, body[m.start():m.start() + 80]))
            j = _balanced(body, pa.end() - 1, "(", ")")
            args = body[pa.end():j - 1]
            i = j
            names.append(name)
            if name in _TERMINAL:
                targs = re.sub(r"\s+", "", args)
                break
            dm = re.compile(r"\s*\.").match(body, i)
            if not dm:
                break
            i = dm.end()
        res.append((names, targs, m.start(), i))
    return res


def _skeleton(body, chains):
    out, k = "", 0
    for (_, targs, a, b) in chains:
        out += body[k:a] + "BINCODE[%s]" % (targs if targs is not None else "?")
        k = b
    return re.sub(r"\s+", "", out + body[k:])


def translate(ctx):
    """(T) the (de)serialisation expressions of the generated closures: every `bincode::` call chain in
    serialize_bincode_with_type / deserialize_bincode_with_type goes to Gen/Networking.lean (the theorem
    generated_closures_use_model_config evaluates it to the configuration the model implements), the rest of the
    closure text is pinned here."""
    path = os.path.join(ctx["repo"], "hydro_lang/src/live_collections/stream/networking.rs")
    res = []
    src = re.sub(r"//[^\n]*", "", open(path).read())
    gen = {}
    texts = {}
    for fn, key, skel in (("serialize_bincode_with_type", "ser", _SKEL_SER), ("deserialize_bincode_with_type", "de", _SKEL_DE)):
        body = re.sub(r"\buse\s[^;]*;", "", _fn_body(src, fn))
        ch = _chains(body)
        unknown = sorted({n for (ns, _, _, _) in ch for n in ns if n not in _CALLS})
        gen[key] = [[_CALLS.get(n, "other") for n in ns] for (ns, _, _, _) in ch]
        texts[key] = [re.sub(r"\s+", " ", body[a:b]).strip() for (_, _, a, b) in ch]
        res.append(("networking.rs %s: %d bincode call chain(s) %s" % (fn, len(ch), [".".join(ns) for (ns, _, _, _) in ch]),
                    len(ch) > 0 and not unknown, "unknown bincode API: %s" % unknown if unknown else ""))
        sk = _skeleton(body, ch)
        res.append(("networking.rs %s: closure text around the bincode calls (unwrap / into / into_tagless / from_tagless) as transcribed in Model/Net.lean" % fn,
                    sk == skel, "" if sk == skel else "closure text changed: " + sk[:400]))
    L = ["/- GENERATED by checks/C35.py from hydro_lang/src/live_collections/stream/networking.rs on every run. Do not edit. -/",
         "import HvNet.Model.Bincode", "namespace HvNet.Gen", "",
         "/-- the `bincode::` call chains (up to the terminal method) in `serialize_bincode_with_type`, in source order -/",
         "def serChains : List (List Call) := [" + ", ".join("[" + ", ".join("." + c for c in ch) + "]" for ch in gen["ser"]) + "]",
         "/-- the `bincode::` call chains in `deserialize_bincode_with_type`, in source order -/",
         "def deChains : List (List Call) := [" + ", ".join("[" + ", ".join("." + c for c in ch) + "]" for ch in gen["de"]) + "]", ""]
    for key in ("ser", "de"):
        for t in texts[key]:
            L.append("-- " + key + ": " + t)
    L += ["", "end HvNet.Gen", ""]
    out = os.path.join(ctx["verif"], "lean", "HvNet", "HvNet", "Gen", "Networking.lean")
    os.makedirs(os.path.dirname(out), exist_ok=True)
    new = "\n".join(L)
    if not os.path.exists(out) or open(out).read() != new:
        with open(out, "w") as f:
            f.write(new)
    return res


SPEC = dict(
    id="C35",
    lean_project="HvNet", props_module="HvNet.Props.C35", driver="hvdrv_net",
    harness="hv_net", bin="hv_net", mode="c35",
    cases={"quick": 1500, "thorough": 40000},
    level="proof",
    translate=translate,
    design_ref="DESIGN.md §5 C35",
    technique="Lean 4 proof by induction on the payload value/descriptor (bincode wire format, demux routing) + differential correspondence with the send/receive closures emitted by the production Hydro code generator",
    level_text=("Theorems: for every well-typed value of every payload descriptor (fixed-width LE ints u8..u128/i8..i128, bool, char, "
                "String, Option, Vec, tuples/structs/newtypes/unit, enums incl. Result) the model decoder applied to the encoding "
                "followed by arbitrary bytes returns exactly that value and exactly those bytes (decode_consumes_exactly, by mutual "
                "induction; UTF-8 and two's complement proved from arithmetic), hence decode∘encode = id, trailing bytes are ignored and "
                "encoding is injective; MemberId <-> TaglessMemberId round-trips in both directions and as a payload; demux_map delivers "
                "every item to the sink of exactly its key, in order, and panics on a missing key; end to end (cluster_delivery) every "
                "member receives exactly the values addressed to it tagged with the sender's id. Tie: build.rs compiles 48 flows "
                "(12 nested payload types x o2o/o2m/m2o/m2m) through FlowBuilder + generate_embedded, so the closures of "
                "serialize_bincode_with_type / deserialize_bincode_with_type are the generated ones; the harness runs them in-process, "
                "routes cluster sends through the real sinktools::demux_map, and diffs bytes, decoded values (also of truncated / "
                "bit-flipped / random byte strings: same value or same error), deliveries and panics against the compiled Lean model; "
                "an independent oracle checks round trip, addressee-only delivery, sender tags and MemberId round trip on the real code. "
                "Configuration tie (T): a translator re-extracts on every run every `bincode::` call chain of serialize_bincode_with_type / "
                "deserialize_bincode_with_type into Gen/Networking.lean; generated_closures_use_model_config proves (decide) that each chain "
                "denotes the configuration the codec implements (fixint, little endian, NO size limit, trailing bytes allowed), the rest of "
                "the closure text (unwrap / into / into_tagless / from_tagless) is pinned textually. Large payloads: every channel whose type "
                "holds a Vec/String is driven with values whose encodings are 65535, 65536, 70 KiB, 200 KiB, 1 MiB (thorough: up to 4 MiB) "
                "through the real send closure and the plain, the tagged and the demuxed+tagged receive closures; the oracle compares the "
                "reconstructed value exactly; the model works on a compact description (spine + repeat count) and is compared by length and "
                "position-sensitive checksum of the encoding (rope_bytes, rope_len_ck: these are length/checksum of the model's encoding of the "
                "expanded value; big_payload_roundtrip: the receive closures reconstruct it whatever its size). Back-pressure: DemuxMap's "
                "poll_ready / poll_flush / poll_close are transcribed (try_fold + ready_both!) over scripted member sinks that stall "
                "independently; demux_poll_polls_every_member, demux_poll_ready_iff_all_ready, demux_flush/close_healthy_member_delivered, "
                "demux_deliver_despite_stall (one Pending member does not keep the items of the others from being flushed; Ready only when all "
                "are), demux_poll_order_independent; the harness drives the real sinktools::demux_map over such sinks (2-3 members; all op "
                "sequences of length 3 (thorough: 4) over snd/flush/close x flush scripts {r,p,pr} x close scripts {r,p}, plus random scripts "
                "and sequences), each case on 24 fresh maps (HashMap order is random per map), answers diffed against the model, oracle: every "
                "member sink polled once per call, Ready iff all ready, every item sent to a non-stalled member is delivered after flush/close."),
    level_note=("Trusted: Lean kernel + propext/Classical.choice/Quot.sound; serde derive and the bincode crate are modelled by the wire "
                "format (exercised on sampled values only); the descriptor of each Rust payload type is written by hand in the harness "
                "(a wrong descriptor shows up as a byte disagreement); floats, maps and recursive types are outside the descriptor "
                "universe; TaglessMemberId is the Legacy{raw_id:u32} variant (the only one under the embedded runtime feature); the "
                "transport between network_out and network_in is the harness (demux_map over in-memory sinks), not TCP: the sender tag "
                "attached to each message is supplied by that transport (in production by hydro_deploy's connection handling); what "
                "is verified is that the generated tagged receive closure hands exactly that tag to the user through from_tagless "
                "and that the demux send closure hands exactly the addressed id to the transport through into_tagless. The bincode API "
                "vocabulary and what each builder method does to the configuration (Config.set / Config.ofChain) is transcribed by hand from "
                "bincode 1.3.3. Large values are spines ending in vec![v; n] or a String of n copies of one char (not arbitrary large values). "
                "The scripted member sinks are infallible: the error branch (`?`) of DemuxMap's folds is not modelled or exercised."),
    trusted_base=["serde derive + bincode 1.3.3 modelled by their wire format; exercised by correspondence on sampled values",
                  "hand-written descriptor per Rust payload type in harness/hv_net/src/val.rs",
                  "in-process transport (sinktools::demux_map over for_each sinks) instead of hydro_deploy's TCP/demux wiring",
                  "checks/C35.py translator (regex extraction of the bincode call chains) and the hand-transcribed meaning of bincode's option setters",
                  "scripted buffering member sinks stand for per-member connection sinks"],
    assumptions=["payload types are built from the descriptor universe (no f32/f64, maps, recursive types)",
                 "64-bit target (usize/isize travel as 8 bytes)",
                 "TaglessMemberId::Legacy is the only variant (features embedded_runtime/deploy)"],
)
