SPEC = dict(
    id="C35",
    lean_project="HvNet", props_module="HvNet.Props.C35", driver="hvdrv_net",
    harness="hv_net", bin="hv_net", mode="c35",
    cases={"quick": 1500, "thorough": 40000},
    level="proof",
    design_ref="DESIGN.md §5 C35",
    technique="Lean 4 proof by induction on the payload value/descriptor (bincode wire format, demux routing) + differential correspondence with the send/receive closures emitted by the production Hydro code generator",
    level_text=("Theorems: for every well-typed value of every payload descriptor (fixed-width LE ints u8..u128/i8..i128, bool, char, "
                "String, Option, Vec, tuples/structs/newtypes/unit, enums incl. Result) the model decoder applied to the encoding "
                "followed by arbitrary bytes returns exactly that value and exactly those bytes (decode_consumes_exactly, by mutual "
                "induction; UTF-8 and two's complement proved from arithmetic), hence decode∘encode = id, trailing bytes are ignored and "
                "encoding is injective; MemberId <-> TaglessMemberId round-trips in both directions and as a payload; demux_map delivers "
                "every item to the sink of exactly its key, in order, and panics on a missing key; end to end (cluster_delivery) every "
                "member receives exactly the values addressed to it tagged with the sender's id. Tie: build.rs compiles 48 flows "
                "(12 nested payload types x o2o/o2m/m2o/m2m) through FlowBuilder + generate_embedded, so the closures of "
                "serialize_bincode_with_type / deserialize_bincode_with_type are the generated ones; the harness runs them in-process, "
                "routes cluster sends through the real sinktools::demux_map, and diffs bytes, decoded values (also of truncated / "
                "bit-flipped / random byte strings: same value or same error), deliveries and panics against the compiled Lean model; "
                "an independent oracle checks round trip, addressee-only delivery, sender tags and MemberId round trip on the real code."),
    level_note=("Trusted: Lean kernel + propext/Classical.choice/Quot.sound; serde derive and the bincode crate are modelled by the wire "
                "format (exercised on sampled values only); the descriptor of each Rust payload type is written by hand in the harness "
                "(a wrong descriptor shows up as a byte disagreement); floats, maps and recursive types are outside the descriptor "
                "universe; TaglessMemberId is the Legacy{raw_id:u32} variant (the only one under the embedded runtime feature); the "
                "transport between network_out and network_in is the harness (demux_map over in-memory sinks), not TCP: the sender tag "
                "attached to each message is supplied by that transport (in production by hydro_deploy's connection handling); what "
                "is verified is that the generated tagged receive closure hands exactly that tag to the user through from_tagless "
                "and that the demux send closure hands exactly the addressed id to the transport through into_tagless."),
    trusted_base=["serde derive + bincode 1.3.3 modelled by their wire format; exercised by correspondence on sampled values",
                  "hand-written descriptor per Rust payload type in harness/hv_net/src/val.rs",
                  "in-process transport (sinktools::demux_map over for_each sinks) instead of hydro_deploy's TCP/demux wiring"],
    assumptions=["payload types are built from the descriptor universe (no f32/f64, maps, recursive types)",
                 "64-bit target (usize/isize travel as 8 bytes)",
                 "TaglessMemberId::Legacy is the only variant (features embedded_runtime/deploy)"],
)
