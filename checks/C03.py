SPEC = dict(
    id="C03",
    lean_project="HvLat", props_module="HvLat.Props.C03", driver="hvdrv_lat",
    harness="hv_lat", bin="hv_lat", mode="c03",
    cases={"quick": 1500, "thorough": 12000},
    level="proof",
    design_ref="DESIGN.md §5 C03",
    technique="Lean 4: comparison/equality/top/default laws as a second per-constructor lawfulness bundle (all nestings by induction) + differential correspondence",
    level_text=("Theorems, for every type of the universe (as C01 incl. DomPair over a totally ordered key, at every nesting depth, with "
                "MapUnion/WithBot over a non-degenerate value lattice) and all well-formed values: partial_cmp equals naive_cmp (the comparison read off the two "
                "merge flags), a <= b iff merging a into b leaves b unchanged, == iff partial_cmp == Equal iff same lattice value, "
                "== is an equivalence, <= is reflexive / antisymmetric / transitive (also strictly) / dual, comparisons do not depend "
                "on the representation, is_bot iff least, is_top iff greatest, bottoms are unique and is_bot respects ==, default is "
                "bottom. The cross-representation code paths (SetUnion length-first comparison, MapUnion chaining both non-bottom key "
                "sets with early exits, VecUnion length flags, the derive macro's field loop) are modelled as written. Tie: cmp / eq / "
                "trans / isbot / istop / default on ~150 concrete Rust types + cross-representation and compare-only pairs "
                "(VecSet/ArraySet/OptionSet/SingletonSet, VecMap/ArrayMap/...) diffed with the compiled model; oracle on the real "
                "code: partial_cmp == naive_cmp, == <=> Equal, duality, transitivity, <= <=> merge no-op, is_bot/is_top against an "
                "independent specification and against a pool of values, default is bottom. "
                "F1 (WithTop::is_top true for Some(top)) was reproduced by this check, fixed in /repo and the model follows the fix. "
                "Domain ok3 = every nesting in which no MapUnion value type / WithBot inner type is a ONE-POINT lattice (all of whose values are bottom: (), "
                "Pair/derive structs/DomPair/MapUnion/WithBot of such); everything else shipped is inside, DomPair needs a totally ordered key "
                "(for a partially ordered key DomPair is not a lattice, C01 domPair_not_assoc_witness; two such types are kept correspondence-only). "
                "F11 (known, genuine w.r.t. the clause `is_top exactly for a greatest element` and IsTop's own doc `any element equal to top is top`): "
                "WithBot<()>::new(None) == Some(()) and Some(()).is_top() but None.is_top() == false; MapUnion<_,()>::is_top() is constantly false "
                "although all its values are equal. Only one-point instantiations are affected (no information can be stored in them) and a repair "
                "needs an extra trait bound (Default or a type-level `is trivial`), so it is recorded, not patched; witness proved as "
                "degenerate_isTop_refuted, oracle signature c03-istop-degenerate. "
                "Translation: the match-arm tables of WithBot/WithTop (merge, partial_cmp, eq; lattice_from/is_bot/is_top bodies), Conflict (partial_cmp, eq) and the IsTop/IsBot/Default impls of Max/Min in ord.rs (incl. the list of types impls_numeric! is instantiated with) are re-extracted from lattices/src on every run into Gen/Tables.lean as Lean functions; gen_* theorems prove them equal to the hand-written model, so a changed/added/reordered arm breaks the check even without a failing input. "
                "PARTIAL: Point (no theorem in C03): "
                "its partial_cmp / == are a two-line model, diffed on all pairs over {0,1,2}, and the oracle checks on the real code that two points "
                "are comparable (no panic) exactly when equal and then Equal; union-find/tombstones are C04/C05."),
    level_note=("Trusted as C01. is_top-iff-greatest for SetUnion/MapUnion/VecUnion uses that the element/key type is unbounded in the "
                "model (u32 in the harness); a set/map over a finite element/key type (e.g. SetUnion<HashSet<bool>>) has a greatest element for which is_top() is false - the crate's "
                "is_top for collections is a constant false; not instantiated by the harness (same family as F11, not recorded separately)."),
    trusted_base=["std containers modelled as lists; element and key types modelled as unbounded naturals",
                  "lean/HvLat/translate_tables.py: our translator from Rust match arms / IsTop-IsBot-Default impl bodies to the Lean functions of Gen/Tables.lean (unknown syntax = broken tie)"],
    assumptions=["set/map backings hold no duplicate keys", "MapUnion/WithBot value lattices have a non-bottom value (ok3)",
                 "element/key types are effectively unbounded"],
)


# Translation (T): the match-arm tables of WithBot/WithTop (merge, partial_cmp, eq, lattice_from, is_bot, is_top),
# Conflict (partial_cmp, eq) and the IsTop/IsBot/Default table of ord.rs are re-extracted from lattices/src on
# every run into lean/HvLat/HvLat/Gen/Tables.lean; the `gen_*` theorems prove them equal to the model.
def _translate(ctx):
    import importlib.util, os
    p = os.path.join(ctx["verif"], "lean", "HvLat", "translate_tables.py")
    sp = importlib.util.spec_from_file_location("hvlat_translate_tables", p)
    mod = importlib.util.module_from_spec(sp)
    sp.loader.exec_module(mod)
    return mod.translate(ctx)


SPEC["translate"] = _translate


# The tombstone lattices (set_union_with_tombstones / map_union_with_tombstones) are lattices of the same
# crate: their merge flags and comparisons are modelled in HvLatSpec (C05's model), so this property also
# runs that part (same theorems module, same harness mode, same oracle signatures as ./check C05).
def _with_c05_part(spec):
    import importlib.util, os
    here = os.path.dirname(os.path.abspath(__file__))
    sp = importlib.util.spec_from_file_location("check_C05_for_" + spec["id"], os.path.join(here, "C05.py"))
    mod = importlib.util.module_from_spec(sp)
    sp.loader.exec_module(mod)
    c5 = mod.SPEC
    keys = ("lean_project", "props_module", "driver", "harness", "bin", "mode", "cases", "extra_args",
            "translate", "extra", "theorems", "harness_timeout", "driver_timeout")
    own = {k: spec[k] for k in keys if k in spec}
    other = {k: c5[k] for k in keys if k in c5}
    spec["parts"] = [own, other]
    return spec


SPEC = _with_c05_part(SPEC)
