SPEC = dict(
    id="C24",
    lean_project="HvTick", props_module="HvTick.Props.C24", driver="hvdrv_tick",
    harness="hv_tick", bin="hv_tick", mode="c24",
    cases={"quick": 700, "thorough": 12000},
    level="proof",
    design_ref="DESIGN.md §5 C24",
    technique="Lean 4 proofs over a model of the emitted tick closure skeleton + run_tick/run_available, fixed-width "
              "arithmetic theorems for TickInstant/TickDuration; differential correspondence on a dfir_syntax! corpus",
    level_text=("Model: the tick closure emitted by DfirGraph::as_code (body; `if any non-lazy tick-delayed buf non-empty "
                "{schedule_subgraph(true)}`; mem::swap(buf, back) per delayed handoff; per-operator tick-end code; __end_tick) "
                "and run_tick_sync / run_available_sync of context.rs (flag store/swap points, source channel waker "
                "registration), over a pipeline stage language (defer_tick, defer_tick_lazy, map, unique<'tick|'static>, "
                "inspect taps, union/tee/filter cycles through defer_tick[_lazy], fold<'tick|'static>). Theorems for every "
                "program of that language, every state, input and injection: tick_counter_succ / runAvailable_counter (one "
                "per executed tick), deferTick_exactly_next_tick + deferTick_first_tick_empty (what enters a delay stage in a "
                "tick leaves it exactly in the following tick, nothing the same tick), runAvailable_continues_iff (another "
                "tick iff an external wake fired after the flag was cleared, or a non-lazy delayed handoff holds data; "
                "sched_iff), lazy_alone_does_not_continue / runAvailable_stops_on_lazy_only, tick_state_cleared_static_kept, "
                "unique_static_keeps. Arithmetic on UInt64/Int64: tickSub_exact (the wrapping_add(i64::MIN)/overflowing_sub "
                "trick is the exact difference iff it fits i64, panic otherwise), instAdd_exact, instSubDur_exact, "
                "endTick_is_succ. Tie: 25 pipelines compiled by the real dfir_syntax! and run with random sends between and "
                "(through the context.rs program-point hooks) inside run_tick_sync/run_available_sync calls; per-tick tap "
                "outputs, tick counter and number of ticks run are diffed against the model; arithmetic compared on all "
                "boundary pairs + random values; independent oracles read the properties off adjacent taps."),
    level_note=("The stage language is a corpus, not all of DFIR: the claim for arbitrary programs rests on the closure "
                "skeleton being program-independent (read from as_code) — the theorems are proved for the stage language only. "
                "run_tick's boolean return value (work_done) is not modelled. std's checked_add_signed/checked_add/"
                "checked_sub/checked_neg/unsigned_abs are taken by their documented results; the async run_available is "
                "covered by C27's harness, the sync one here. Per-operator tick-end code is modelled for unique and fold only."),
    trusted_base=["std integer primitives (checked_*, unsigned_abs) by documented behaviour",
                  "tokio unbounded mpsc: send wakes and consumes the receiver's registered waker; poll to Pending registers it",
                  "values are small i64 (no overflow inside map/fold of the corpus)"],
    assumptions=["programs are pipelines of the stage language of programs/c24.txt", "ticks do not suspend (sync runners)"],
)
