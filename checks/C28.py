import importlib.util
import os
import subprocess

_HERE = os.path.dirname(os.path.abspath(__file__))
_HARNESS = os.path.join(os.path.dirname(_HERE), "harness", "hv_hydro")


def _translate(ctx):
    """(T) re-extract the emit_core lowering table into Gen/Lowering.lean; check the corpus files are the
    ones gen_programs.py generates (terms <-> Rust programs)."""
    sp = importlib.util.spec_from_file_location("hv_hydro_translate", os.path.join(_HARNESS, "translate_lowering.py"))
    mod = importlib.util.module_from_spec(sp)
    sp.loader.exec_module(mod)
    res = mod.translate(ctx["repo"], ctx["verif"])
    p = subprocess.run(["python3", os.path.join(_HARNESS, "gen_programs.py"), "--check"], capture_output=True, text=True)
    res.append(("program corpus = gen_programs.py output (term <-> Rust source)", p.returncode == 0,
                (p.stdout + p.stderr).strip()[:200]))
    return res


SPEC = dict(
    id="C28",
    lean_project="HvHydro", props_module="HvHydro.Props.C28", driver="hvdrv_hydro",
    harness="hv_hydro", bin="hv_hydro", mode="c28",
    cases={"quick": 1500, "thorough": 40000},
    translate=_translate,
    level="proof",
    design_ref="DESIGN.md §5 C28",
    technique="Lean 4 proof by induction on program terms (batch homomorphism per operator, Perm for unordered streams) "
              "+ translated lowering table + differential correspondence with programs compiled by the production code generator",
    level_text=("Theorems: for every program term of the modelled safe top-level fragment (sources, map/filter/flat_map/"
                "filter_map, enumerate, scan incl. termination, unique, keyed scan, merge_unordered, chain with a bounded "
                "first side, join of two unbounded streams = join_multiset<'static,'static> -> multiset_delta, fold, reduce, "
                "keyed fold, fold/reduce of a top-level bounded stream = fold_no_replay/reduce_no_replay, cross_singleton with a "
                "top-level bounded singleton, join / anti_join / filter_not_in with a top-level bounded side = "
                "join_multiset_half<'static,'tick> / anti_join<'tick,'static> / difference<'tick,'static>, singleton/optional "
                "map and filter; added in review: KeyedStream::generator = Scan over HashMap<K,Option<A>> + FlatMap with its "
                "Yield/Return/Break/Continue protocol (limit, enumerate, first), KeyedStream::entries, keyed reduce = "
                "reduce_keyed<'static>, keyed streams with NoOrder values (merge_unordered of keyed streams) under keyed fold / "
                "keyed reduce with a commutativity proof — the final map is shown to be a function of the value multiset, "
                "`aux_kfold_perm` / `aux_kreduce_perm` —, and join of a top-level bounded with an unbounded stream read as the "
                "unordered unbounded stream it is) that is well-kinded by the safe-API typing rules, and for "
                "EVERY partition of the inputs into ticks, the accumulated output of the per-tick DFIR model equals the "
                "stream-level meaning on the whole inputs (sequence for TotalOrder/keyed, multiset for NoOrder, last value "
                "for singleton/optional/keyed singleton) — `program_eventually_deterministic`, by induction on the term; "
                "`partition_independent` is the corollary for two arbitrary partitions. The model is tied to the code by "
                "(T) re-extracting on every run which DFIR operator and lifetime emit_core chooses per HydroNode variant "
                "(theorem `lowering_table_matches`) and (C) compiling 140 corpus programs (hand-written + generated "
                "compositions) through FlowBuilder::generate_embedded in build.rs, running them in-process tick by tick "
                "under all / random partitions and diffing every tick's output and the final output with the Lean driver; "
                "the property itself is checked on the real code against a plain-Rust-iterator reference and across partitions. "
                "REFUTED clause (finding F282, known): hydro_lang types bounded.join(unbounded) as Bounded; the well-kindedness rule "
                "of the theorem does not accept that claim (it kinds the join as an unbounded NoOrder stream), and "
                "`joinBoundedLeft_typedBounded_refuted` proves on the concrete witness that the Bounded singleton built on it "
                "(fold -> fold_no_replay, into_stream) emits a partition-dependent stream — reproduced on the real code "
                "(corpus f282_*, oracle sigs …@foldb+joinlb)."),
    level_note=("Trusted / not modelled: the DFIR operators' per-tick behaviour is transcribed by hand from "
                "dfir_lang/src/graph/ops/*.rs (tied only by correspondence); hash iteration order is canonicalised by "
                "sorting for NoOrder / keyed-singleton outputs; tee is modelled as duplication of a deterministic sub-term; "
                "merge_ordered (takes a nondet! token, i.e. not a safe API), resolve_futures, networking, atomic regions, "
                "Stream::reduce / unique-by-key on NoOrder input, cross_product, keyed sort/unique/chain, fold_early_stop with a "
                "user closure, value_counts, reduce_watermark, sample/timeout, cycles (forward_ref) are outside the modelled "
                "fragment; KeyedStream::first is observed through entries(); the `sKN` kind tag of the corpus (KeyedStream with "
                "NoOrder values) is modelled as the unordered stream of its entries; Term.kind deliberately REJECTS the API's "
                "Bounded typing of bounded.join(unbounded) (F282) — programs relying on it are outside the theorem and refuted; "
                "the observer uses snapshot/assume_ordering (nondet) only to read the collections."),
    trusted_base=["per-tick semantics of DFIR operators (fold/reduce/scan/unique/enumerate/join_multiset/multiset_delta/"
                  "cross_singleton/fold_no_replay/chain) transcribed from dfir_lang/src/graph/ops, exercised by correspondence",
                  "harness/hv_hydro/gen_programs.py maps program terms to Rust programs (checked to be reproducible each run)",
                  "FxHashMap/FxHashSet iteration order canonicalised by sorting"],
    # finding F282 (known): Stream::join types bounded.join(unbounded) as Bounded (known_findings.d/F282.json)
    # finding F281 (fixed in /repo fca9e7739ab): filter_not_in recorded Bounded metadata -> fold_no_replay on an unbounded stream
    assumptions=["closures passed to q!() are pure and total; commutativity proofs supplied by the user hold (Term.WF)",
                 "at least one tick runs; top-level bounded sources deliver all their data in the first tick",
                 "i64 arithmetic does not overflow on the generated inputs"],
)
