import json
import os
import re
import sys

sys.path.insert(0, os.path.dirname(os.path.abspath(__file__)))
import hydro2_scan as scan  # noqa: E402

HERE = os.path.dirname(os.path.abspath(__file__))
PINS = os.path.join(HERE, "c34_pins.json")


def _builder_fn(repo, name):
    """text of `fn <name>` inside `impl DfirBuilder for ProdDfirBuilder` (compile/ir/mod.rs)"""
    src = scan._strip_comments_only(open(os.path.join(repo, "hydro_lang", "src", "compile", "ir", "mod.rs")).read())
    i = src.find("impl DfirBuilder for ProdDfirBuilder")
    if i < 0:
        return None
    m = re.search(r"\bfn\s+" + name + r"\b", src[i:])
    if not m:
        return None
    st = i + m.start()
    j = src.find("{", st)
    depth, k = 0, j
    while k < len(src):
        if src[k] == "{":
            depth += 1
        elif src[k] == "}":
            depth -= 1
            if depth == 0:
                break
        k += 1
    return re.sub(r"\s+", " ", src[st:k + 1]).strip()


_AGG_ARMS = {
    "emit_core::Fold|FoldKeyed|Scan arm": r"HydroNode::Fold\s*\{\s*\.\.\s*\}\s*\|\s*HydroNode::FoldKeyed\s*\{\s*\.\.\s*\}[^=]*=>\s*\{",
    "emit_core::Reduce|ReduceKeyed arm": r"HydroNode::Reduce\s*\{\s*\.\.\s*\}\s*\|\s*HydroNode::ReduceKeyed\s*\{\s*\.\.\s*\}\s*=>\s*\{",
}


def _agg_arms(repo):
    """text of the emit_core match arms that lower fold / reduce style state (they choose the DFIR state
    lifetime `'static` vs `'tick` from `input_top_level`)"""
    src = scan._strip_comments_only(open(os.path.join(repo, "hydro_lang", "src", "compile", "ir", "mod.rs")).read())
    out = {}
    for name, pat in _AGG_ARMS.items():
        ms = list(re.finditer(pat, src))
        if len(ms) != 1:
            out[name] = None
            continue
        j = ms[0].end() - 1
        depth, k = 0, j
        while k < len(src):
            if src[k] == "{":
                depth += 1
            elif src[k] == "}":
                depth -= 1
                if depth == 0:
                    break
            k += 1
        out[name] = re.sub(r"\s+", " ", src[ms[0].start():k + 1]).strip()
    return out


def _agg_facts(arms):
    """the facts the model relies on: state of an aggregation whose INPUT location is top level - which
    includes `Atomic` - gets the cross-tick lifetime, and the flag is computed with `is_top_level()`"""
    bad = []
    for name, txt in arms.items():
        if not txt:
            bad.append(name + ": arm not found")
            continue
        defs = re.findall(r"let input_top_level = ([^;]*);", txt)
        if defs != ["input.metadata().location_id.is_top_level()"]:
            bad.append("%s: input_top_level = %s" % (name, defs))
        if not re.search(r"let lifetime = if input_top_level \{ graph_builders\.cross_tick_state_lifetime\(&out_location\) \} "
                         r"else \{ graph_builders\.tick_state_lifetime\(&out_location\) \};", txt):
            bad.append(name + ": lifetime is not `if input_top_level { cross_tick } else { tick }`")
    return bad


def _location_preds(repo):
    """`LocationId::is_top_level` must count Atomic as top level (that is what keeps atomic state across ticks)"""
    out = {}
    for fn in ("is_top_level", "is_root"):
        out["location/dynamic.rs::" + fn] = scan.fn_body(repo, "location/dynamic.rs", fn, 0)
    return out


def current(repo):
    cur = {}
    for (f, fn, occ) in [("live_collections/stream/mod.rs", "atomic", 0),
                         ("live_collections/stream/mod.rs", "batch_atomic", 0),
                         ("live_collections/stream/mod.rs", "end_atomic", 0),
                         ("live_collections/stream/mod.rs", "all_ticks_atomic", 0),
                         ("live_collections/keyed_stream/mod.rs", "atomic", 0),
                         ("live_collections/keyed_stream/mod.rs", "end_atomic", 0),
                         ("live_collections/singleton.rs", "snapshot_atomic", 0),
                         ("live_collections/keyed_singleton.rs", "snapshot_atomic", 0)]:
        cur["%s::%s" % (f, fn)] = scan.fn_body(repo, f, fn, occ)
    src = open(os.path.join(repo, "hydro_lang", "src", "live_collections", "batch_atomic.rs")).read()
    cur["batch_atomic.rs"] = re.sub(r"\s+", " ", scan._strip_comments_only(src)).strip()
    for fn in ("begin_atomic", "end_atomic", "batch", "yield_from_tick"):
        cur["ProdDfirBuilder::" + fn] = _builder_fn(repo, fn)
    cur.update(_agg_arms(repo))
    cur.update(_location_preds(repo))
    return cur


def translate(ctx):
    cur = current(ctx["repo"])
    if os.environ.get("HV_C34_WRITE_PINS") == "1":
        with open(PINS, "w") as fh:
            json.dump(cur, fh, indent=1, sort_keys=True)
    exp = json.load(open(PINS)) if os.path.exists(PINS) else {}
    changed = [k for k in sorted(set(cur) | set(exp)) if cur.get(k) != exp.get(k)]
    ident = all(cur.get("ProdDfirBuilder::" + fn) and "#out_ident = #in_ident;" in cur["ProdDfirBuilder::" + fn]
                for fn in ("begin_atomic", "end_atomic", "yield_from_tick"))
    arms = {k: cur.get(k) for k in _AGG_ARMS}
    bad = _agg_facts(arms)
    tl = cur.get("location/dynamic.rs::is_top_level") or ""
    atomic_top = bool(re.search(r"LocationId::Atomic\(_\) => true", tl))
    return [("emit_core Fold/FoldKeyed and Reduce/ReduceKeyed arms: state lifetime is cross-tick iff the INPUT location "
             "`is_top_level()` (not `is_root()`), so fold AND reduce state of an atomic region survives the tick", not bad,
             "; ".join(bad) if bad else "both arms: input_top_level = input.metadata().location_id.is_top_level()"),
            ("LocationId::is_top_level counts Atomic(_) as top level", atomic_top, str(atomic_top)),
            ("atomic region API + production lowering text the model was written from is unchanged (%d fragments)" % len(exp),
             not changed, "changed: " + ", ".join(changed) if changed else "all equal"),
            ("production begin_atomic / end_atomic / yield_from_tick emit `out = in` (same DFIR tick)", ident, str(ident))]


_common = dict(lean_project="HvHydro2", driver="hvdrv_hydro2")
SPEC = dict(
    id="C34",
    parts=[
        dict(_common, props_module="HvHydro2.Props.C34", harness="hv_hydro2", bin="hv_hydro2", mode="c34",
             cases={"quick": 600, "thorough": 12000}, translate=translate),
        # simulator tie: the summing register and the last-writer-wins (reduce) register compiled with the
        # simulator backend, every schedule (exhaustive)
        dict(_common, harness="hv_hydro2_sim", bin="hv_hydro2_sim", mode="c34sim",
             cases={"quick": 12, "thorough": 40}),
    ],
    harness_timeout=7200,
    level="proof",
    design_ref="DESIGN.md §5 C34",
    technique="Lean 4 proofs over a model of an atomic region with explicit batch decisions + pinned API/lowering text (T) + production-generated atomic write/ack/read programs under random tick partitions (C, part 1) + the summing register compiled with the simulator backend and run under CompiledSim::exhaustive with scripted write / await-ack / read scenarios, every explored execution judged by the property oracle and by the model's admissibility predicate (C, part 2)",
    level_text=("Partial (fold-style and reduce-style registers; the simulator part covers the summing and the last-writer-wins register). Theorems, for every "
                "schedule of the atomic region (how many buffered writes each run takes): ack_implies_visible — the state an "
                "atomic snapshot reads in tick t is the fold of exactly the writes acknowledged in ticks 0..t; "
                "atomic_snapshot_reads_acked_prefix — that set is a prefix of all writes in order (so a read value is the fold "
                "of a prefix of the writes containing every acknowledged one: the shape simAtomicOk accepts); "
                "later_snapshot_extends_earlier — a later atomic snapshot is an earlier one with the writes acknowledged "
                "in between folded in; acks_partition_writes — acknowledgements are the writes, each once, in order; "
                "keyed_counter_read_after_write — for the tutorial's per-key counter a get sees exactly the increments of "
                "its key acknowledged so far, hence at least those acknowledged at any earlier tick; "
                "reduce-style state (Stream::last / max / keyed reduce inside the region, same model with keep-last / keep-max "
                "as the fold): lastWriter_ack_implies_visible — an atomic snapshot of tick t reads the LAST write acknowledged in "
                "ticks 0..t and is never empty once something was acknowledged; lastWriter_read_after_ack — a read d ticks later "
                "without new acknowledgements still reads it; max_ack_implies_visible; keyed_lww_read_after_write; "
                "lww_snapshot_admissible (the clause of the simulator verdict simLwwOk); "
                "prod_atomic_acks_same_tick; nonatomic_snapshot_can_miss_ack (contrast: an ordinary snapshot hook may "
                "re-release an older version). T: the text of atomic / batch_atomic / end_atomic / snapshot_atomic, "
                "batch_atomic.rs and ProdDfirBuilder::{begin_atomic,end_atomic,batch,yield_from_tick} is pinned and the "
                "`out = in` lowering re-read each run; the emit_core arms Fold/FoldKeyed/Scan and Reduce/ReduceKeyed are pinned and "
                "re-read: the DFIR state lifetime is cross-tick iff the aggregation's INPUT location is_top_level() (which counts "
                "Atomic, unlike is_root()). C part 1 (production): the summing register of location/tick.rs's test "
                "and an integer-keyed copy of hydro_test::tutorials::keyed_counter (plus a non-atomic contrast program), and three reduce-style registers - last-writer-wins (.last()), "
                "high-water mark (.max()), per-key last-writer-wins (keyed reduce; a get of a key joins the atomic snapshot) - "
                "half of whose runs have >= 3 ticks with writes only in the early ticks and reads in later ticks, are "
                "compiled through generate_embedded, run on fresh instances under random tick partitions of writes and "
                "reads, per-tick acks and read responses diffed against the compiled model; oracle on the real code: "
                "every response in tick t reflects all writes acknowledged in ticks < t, never a write not yet fed, and "
                "the acks are exactly the writes; for the reduce-style registers: a read never sees an empty register / no "
                "register after an acknowledged write, sees the last acknowledged write or a later one (max: at least every "
                "acknowledged one). C part 2 (simulator): the summing register and the .last() register built on sim_input/sim_output "
                "and compiled with flow.sim().compiled() (SimBuilder begin_atomic / end_atomic / batch and the atomic snapshot "
                "hook) is run under CompiledSim::exhaustive with scripted test bodies (send writes / await an "
                "acknowledgement / send reads / await a response; 5 fixed scripts incl. those of the library's own test + "
                "seeded random ones, <= 3 writes, <= 2 reads); for EVERY explored execution the observed timeline is judged on "
                "the real observations: a response is the sum of a prefix of the writes that contains every write whose "
                "acknowledgement the test body had observed BEFORE it issued the read (acknowledged => visible to every "
                "later atomic snapshot), consecutive awaited responses never go back, and the acknowledgements are exactly "
                "the writes in order; the Lean driver judges the same timeline with simAtomicOk (for the .last() register: a response is the "
                "value of the last write acknowledged before the read was issued or of a later write, never empty after an "
                "acknowledgement; simLwwOk)."),
    level_note=("Modelled, not verified: that all operators of an atomic region and the atomic snapshot run in one tick is "
                "the model's construction; it is tied by the production corpus (lowering `out = in` on one DFIR graph) and, "
                "for the summing and the last-writer-wins register only, by the exhaustive simulator runs; the keyed counter / keyed registers (use::atomic of a keyed "
                "singleton joined with a keyed batch) is not run in the simulator. In production a stale-by-one-tick "
                "snapshot would not violate the property as stated (ack and read are simultaneous); it is caught by the "
                "correspondence only — in the simulator part it IS a property violation (script: write, await ack, read)."),
    trusted_base=["hand-written model of the atomic region (pinned text, not translated)",
                  "hydro_lang emit_core lowering of BeginAtomic / EndAtomic / Batch / fold / reduce / reduce_keyed / join_keyed_singleton for the 6 corpus flows (production) and the 2 simulator flows: exercised and diffed",
                  "bolero's exhaustive driver enumerates the simulator's decision space (C37)"],
    assumptions=["production code generation (one DFIR tick runs the atomic region and the slices that read it)",
                 "writes of the summing register are positive in generated cases (so 'reflects' is >= and prefix sums identify the prefix)"],
)
