import json
import os
import re
import sys

sys.path.insert(0, os.path.dirname(os.path.abspath(__file__)))
import hydro2_scan as scan  # noqa: E402

HERE = os.path.dirname(os.path.abspath(__file__))
PINS = os.path.join(HERE, "c34_pins.json")


def _builder_fn(repo, name):
    """text of `fn <name>` inside `impl DfirBuilder for ProdDfirBuilder` (compile/ir/mod.rs)"""
    src = scan._strip_comments_only(open(os.path.join(repo, "hydro_lang", "src", "compile", "ir", "mod.rs")).read())
    i = src.find("impl DfirBuilder for ProdDfirBuilder")
    if i < 0:
        return None
    m = re.search(r"\bfn\s+" + name + r"\b", src[i:])
    if not m:
        return None
    st = i + m.start()
    j = src.find("{", st)
    depth, k = 0, j
    while k < len(src):
        if src[k] == "{":
            depth += 1
        elif src[k] == "}":
            depth -= 1
            if depth == 0:
                break
        k += 1
    return re.sub(r"\s+", " ", src[st:k + 1]).strip()


def current(repo):
    cur = {}
    for (f, fn, occ) in [("live_collections/stream/mod.rs", "atomic", 0),
                         ("live_collections/stream/mod.rs", "batch_atomic", 0),
                         ("live_collections/stream/mod.rs", "end_atomic", 0),
                         ("live_collections/stream/mod.rs", "all_ticks_atomic", 0),
                         ("live_collections/keyed_stream/mod.rs", "atomic", 0),
                         ("live_collections/keyed_stream/mod.rs", "end_atomic", 0),
                         ("live_collections/singleton.rs", "snapshot_atomic", 0),
                         ("live_collections/keyed_singleton.rs", "snapshot_atomic", 0)]:
        cur["%s::%s" % (f, fn)] = scan.fn_body(repo, f, fn, occ)
    src = open(os.path.join(repo, "hydro_lang", "src", "live_collections", "batch_atomic.rs")).read()
    cur["batch_atomic.rs"] = re.sub(r"\s+", " ", scan._strip_comments_only(src)).strip()
    for fn in ("begin_atomic", "end_atomic", "batch", "yield_from_tick"):
        cur["ProdDfirBuilder::" + fn] = _builder_fn(repo, fn)
    return cur


def translate(ctx):
    cur = current(ctx["repo"])
    if os.environ.get("HV_C34_WRITE_PINS") == "1":
        with open(PINS, "w") as fh:
            json.dump(cur, fh, indent=1, sort_keys=True)
    exp = json.load(open(PINS)) if os.path.exists(PINS) else {}
    changed = [k for k in sorted(set(cur) | set(exp)) if cur.get(k) != exp.get(k)]
    ident = all(cur.get("ProdDfirBuilder::" + fn) and "#out_ident = #in_ident;" in cur["ProdDfirBuilder::" + fn]
                for fn in ("begin_atomic", "end_atomic", "yield_from_tick"))
    return [("atomic region API + production lowering text the model was written from is unchanged (%d fragments)" % len(exp),
             not changed, "changed: " + ", ".join(changed) if changed else "all equal"),
            ("production begin_atomic / end_atomic / yield_from_tick emit `out = in` (same DFIR tick)", ident, str(ident))]


_common = dict(lean_project="HvHydro2", driver="hvdrv_hydro2")
SPEC = dict(
    id="C34",
    parts=[
        dict(_common, props_module="HvHydro2.Props.C34", harness="hv_hydro2", bin="hv_hydro2", mode="c34",
             cases={"quick": 600, "thorough": 12000}, translate=translate),
        # simulator tie: the summing register compiled with the simulator backend, every schedule (exhaustive)
        dict(_common, harness="hv_hydro2_sim", bin="hv_hydro2_sim", mode="c34sim",
             cases={"quick": 12, "thorough": 40}),
    ],
    harness_timeout=7200,
    level="proof",
    design_ref="DESIGN.md §5 C34",
    technique="Lean 4 proofs over a model of an atomic region with explicit batch decisions + pinned API/lowering text (T) + production-generated atomic write/ack/read programs under random tick partitions (C, part 1) + the summing register compiled with the simulator backend and run under CompiledSim::exhaustive with scripted write / await-ack / read scenarios, every explored execution judged by the property oracle and by the model's admissibility predicate (C, part 2)",
    level_text=("Partial (two corpus shapes; the simulator part covers the summing register only). Theorems, for every "
                "schedule of the atomic region (how many buffered writes each run takes): ack_implies_visible — the state an "
                "atomic snapshot reads in tick t is the fold of exactly the writes acknowledged in ticks 0..t; "
                "atomic_snapshot_reads_acked_prefix — that set is a prefix of all writes in order (so a read value is the fold "
                "of a prefix of the writes containing every acknowledged one: the shape simAtomicOk accepts); "
                "later_snapshot_extends_earlier — a later atomic snapshot is an earlier one with the writes acknowledged "
                "in between folded in; acks_partition_writes — acknowledgements are the writes, each once, in order; "
                "keyed_counter_read_after_write — for the tutorial's per-key counter a get sees exactly the increments of "
                "its key acknowledged so far, hence at least those acknowledged at any earlier tick; "
                "prod_atomic_acks_same_tick; nonatomic_snapshot_can_miss_ack (contrast: an ordinary snapshot hook may "
                "re-release an older version). T: the text of atomic / batch_atomic / end_atomic / snapshot_atomic, "
                "batch_atomic.rs and ProdDfirBuilder::{begin_atomic,end_atomic,batch,yield_from_tick} is pinned and the "
                "`out = in` lowering re-read each run. C part 1 (production): the summing register of location/tick.rs's test "
                "and an integer-keyed copy of hydro_test::tutorials::keyed_counter (plus a non-atomic contrast program) are "
                "compiled through generate_embedded, run on fresh instances under random tick partitions of writes and "
                "reads, per-tick acks and read responses diffed against the compiled model; oracle on the real code: "
                "every response in tick t reflects all writes acknowledged in ticks < t, never a write not yet fed, and "
                "the acks are exactly the writes. C part 2 (simulator): the summing register built on sim_input/sim_output "
                "and compiled with flow.sim().compiled() (SimBuilder begin_atomic / end_atomic / batch and the atomic snapshot "
                "hook) is run under CompiledSim::exhaustive with scripted test bodies (send writes / await an "
                "acknowledgement / send reads / await a response; 5 fixed scripts incl. those of the library's own test + "
                "seeded random ones, <= 3 writes, <= 2 reads); for EVERY explored execution the observed timeline is judged on "
                "the real observations: a response is the sum of a prefix of the writes that contains every write whose "
                "acknowledgement the test body had observed BEFORE it issued the read (acknowledged => visible to every "
                "later atomic snapshot), consecutive awaited responses never go back, and the acknowledgements are exactly "
                "the writes in order; the Lean driver judges the same timeline with simAtomicOk."),
    level_note=("Modelled, not verified: that all operators of an atomic region and the atomic snapshot run in one tick is "
                "the model's construction; it is tied by the production corpus (lowering `out = in` on one DFIR graph) and, "
                "for the summing register only, by the exhaustive simulator runs; the keyed counter (use::atomic of a keyed "
                "singleton joined with a keyed batch) is not run in the simulator. In production a stale-by-one-tick "
                "snapshot would not violate the property as stated (ack and read are simultaneous); it is caught by the "
                "correspondence only — in the simulator part it IS a property violation (script: write, await ack, read)."),
    trusted_base=["hand-written model of the atomic region (pinned text, not translated)",
                  "hydro_lang emit_core lowering of BeginAtomic / EndAtomic / Batch / fold / join_keyed_singleton for the 3 corpus flows (production) and the simulator flow: exercised and diffed",
                  "bolero's exhaustive driver enumerates the simulator's decision space (C37)"],
    assumptions=["production code generation (one DFIR tick runs the atomic region and the slices that read it)",
                 "writes of the summing register are positive in generated cases (so 'reflects' is >= and prefix sums identify the prefix)"],
)
