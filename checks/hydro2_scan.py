"""
Source scanners shared by checks/C31..C34.py (family hv_hydro2).

scan_trusted_sites(repo): every *call* of a `*_trusted*` escape hatch in hydro_lang/src
(`assume_ordering_trusted`, `assume_ordering_trusted_bounded`, `assume_retries_trusted`,
`assert_has_consistency_of_trusted`, and anything else matching `\\w+_trusted\\w*`), with its file,
enclosing fn, turbofish argument and whether it sits in a `mod tests`.  The scanner is a small
Rust lexer (comments, strings, char literals, raw strings) + brace tracker; it does not parse Rust.
"""
import os
import re


def _strip(src):
    """replace comments and string/char literals by spaces (same length, newlines kept)"""
    out = []
    i, n = 0, len(src)
    while i < n:
        c = src[i]
        if src.startswith("//", i):
            j = src.find("\n", i)
            j = n if j < 0 else j
            out.append(" " * (j - i))
            i = j
        elif src.startswith("/*", i):
            depth, j = 1, i + 2
            while j < n and depth:
                if src.startswith("/*", j):
                    depth += 1
                    j += 2
                elif src.startswith("*/", j):
                    depth -= 1
                    j += 2
                else:
                    j += 1
            out.append("".join(ch if ch == "\n" else " " for ch in src[i:j]))
            i = j
        elif c == '"' or (c == "r" and re.match(r'r#*"', src[i:]) and (i == 0 or not (src[i - 1].isalnum() or src[i - 1] == "_"))):
            if c == "r":
                m = re.match(r'r(#*)"', src[i:])
                close = '"' + m.group(1)
                j = src.find(close, i + len(m.group(0)))
                j = n if j < 0 else j + len(close)
            else:
                j = i + 1
                while j < n and src[j] != '"':
                    j += 2 if src[j] == "\\" else 1
                j += 1
            out.append("".join(ch if ch == "\n" else " " for ch in src[i:j]))
            i = j
        elif c == "'":
            m = re.match(r"'(\\.[^']*|[^'\\])'", src[i:])
            if m:
                out.append(" " * len(m.group(0)))
                i += len(m.group(0))
            else:  # lifetime
                out.append(c)
                i += 1
        else:
            out.append(c)
            i += 1
    return "".join(out)


def _scopes(code):
    """yield (pos, stack) at every position of interest lazily: returns a function pos -> (fn, in_test)"""
    # stack entries: (kind, name) for each open brace
    events = []  # (pos, fn_name, in_test) valid from pos on
    stack = []
    last_boundary = 0
    fn_re = re.compile(r"\bfn\s+([A-Za-z_]\w*)")
    mod_re = re.compile(r"\bmod\s+([A-Za-z_]\w*)")

    def current():
        fn = ""
        test = False
        for kind, name in stack:
            if kind == "fn":
                fn = name
            if kind == "mod" and name in ("tests", "test"):
                test = True
        return fn, test

    i, n = 0, len(code)
    paren = 0
    while i < n:
        c = code[i]
        if c == "{":
            header = code[last_boundary:i]
            m = None
            # a fn header: last `fn name` in the header with no `=` / `=>` closure bodies in between
            fm = list(fn_re.finditer(header))
            mm = list(mod_re.finditer(header))
            if fm and paren == 0:
                stack.append(("fn", fm[-1].group(1)))
            elif mm and paren == 0:
                stack.append(("mod", mm[-1].group(1)))
            else:
                stack.append(("blk", ""))
            last_boundary = i + 1
            events.append((i, *current()))
        elif c == "}":
            if stack:
                stack.pop()
            last_boundary = i + 1
            events.append((i, *current()))
        elif c == ";" and paren == 0:
            last_boundary = i + 1
        elif c == "(":
            paren += 1
        elif c == ")":
            paren = max(0, paren - 1)
        i += 1
    return events


def _scope_at(events, pos):
    lo, hi = 0, len(events)
    while lo < hi:
        mid = (lo + hi) // 2
        if events[mid][0] <= pos:
            lo = mid + 1
        else:
            hi = mid
    if lo == 0:
        return "", False
    return events[lo - 1][1], events[lo - 1][2]


CALL_RE = re.compile(r"\.\s*(\w+_trusted\w*)\s*(::\s*<)?")


def scan_trusted_sites(repo):
    root = os.path.join(repo, "hydro_lang", "src")
    sites = []
    for d, dirs, files in os.walk(root):
        dirs.sort()
        for f in sorted(files):
            if not f.endswith(".rs"):
                continue
            path = os.path.join(d, f)
            rel = os.path.relpath(path, root)
            src = open(path, encoding="utf-8").read()
            if "_trusted" not in src:
                continue
            code = _strip(src)
            events = _scopes(code)
            for m in CALL_RE.finditer(code):
                callee = m.group(1)
                j = m.end()
                targ = ""
                if m.group(2):
                    depth, k = 1, j
                    while k < len(code) and depth:
                        if code[k] == "<":
                            depth += 1
                        elif code[k] == ">":
                            depth -= 1
                        k += 1
                    targ = re.sub(r"\s+", "", code[j:k - 1])
                    j = k
                # must be a call
                rest = code[j:j + 40].lstrip()
                if not rest.startswith("("):
                    continue
                fn, test = _scope_at(events, m.start())
                line = code.count("\n", 0, m.start()) + 1
                sites.append({"file": rel, "fn": fn, "callee": callee, "targ": targ, "test": test, "line": line})
    return sites


def fn_body(repo, relfile, fn_name, occurrence=0):
    """normalised text (comments stripped, whitespace collapsed) of `fn fn_name` in the file:
    the enclosing depth-0 `impl` header, the signature (generics, where clause) and the body"""
    path = os.path.join(repo, "hydro_lang", "src", relfile)
    src = open(path, encoding="utf-8").read()
    code = _strip_comments_only(src)
    ms = list(re.finditer(r"\bfn\s+" + re.escape(fn_name) + r"\b", code))
    if occurrence >= len(ms):
        return None
    start = ms[occurrence].start()
    # enclosing impl header: last `impl` at brace depth 0 before the fn
    depth, hdr, last_boundary = 0, "", 0
    for i in range(start):
        c = code[i]
        if c == "{":
            if depth == 0:
                h = code[last_boundary:i]
                m = re.search(r"\bimpl\b[\s\S]*$", h)
                hdr = m.group(0) if m else ""
            depth += 1
            last_boundary = i + 1
        elif c == "}":
            depth -= 1
            last_boundary = i + 1
            if depth == 0:
                hdr = ""
        elif c == ";" and depth == 0:
            last_boundary = i + 1
    i = code.find("{", ms[occurrence].end())
    depth, j = 0, i
    while j < len(code):
        if code[j] == "{":
            depth += 1
        elif code[j] == "}":
            depth -= 1
            if depth == 0:
                break
        j += 1
    return re.sub(r"\s+", " ", hdr + " :: " + code[start:j + 1]).strip()


def _strip_comments_only(src):
    return strip_verif_items(_strip_comments_raw(src))


def strip_verif_items(code):
    """drop every item / statement guarded by `#[cfg(hydro_project_hydro_verif)]` (add-only hooks of other
    checks must not disturb the pinned text)"""
    attr = re.compile(r"#\[cfg\(hydro_project_hydro_verif\)\]")
    out, i = [], 0
    while True:
        m = attr.search(code, i)
        if not m:
            out.append(code[i:])
            break
        out.append(code[i:m.start()])
        j, depth = m.end(), 0
        while j < len(code):
            c = code[j]
            if c in "{([":
                depth += 1
            elif c in "})]":
                depth -= 1
                if depth == 0 and c == "}":
                    j += 1
                    break
                if depth < 0:
                    break
            elif c == ";" and depth == 0:
                j += 1
                break
            j += 1
        i = j
    return "".join(out)


def _strip_comments_raw(src):
    out = []
    i, n = 0, len(src)
    while i < n:
        if src.startswith("//", i):
            j = src.find("\n", i)
            j = n if j < 0 else j
            i = j
        elif src.startswith("/*", i):
            depth, j = 1, i + 2
            while j < n and depth:
                if src.startswith("/*", j):
                    depth += 1
                    j += 2
                elif src.startswith("*/", j):
                    depth -= 1
                    j += 2
                else:
                    j += 1
            i = j
        elif src[i] == '"':
            j = i + 1
            while j < n and src[j] != '"':
                j += 2 if src[j] == "\\" else 1
            out.append(src[i:j + 1])
            i = j + 1
        else:
            out.append(src[i])
            i += 1
    return "".join(out)


def write_if_changed(path, text):
    old = open(path).read() if os.path.exists(path) else None
    if old != text:
        os.makedirs(os.path.dirname(path), exist_ok=True)
        with open(path, "w") as f:
            f.write(text)


if __name__ == "__main__":
    import json
    import sys
    for s in scan_trusted_sites(sys.argv[1] if len(sys.argv) > 1 else "/repo"):
        print(json.dumps(s))
