SPEC = dict(
    id="C37",
    lean_project="HvSim", props_module="HvSim.Props.C37", driver="hvdrv_sim",
    harness="hv_sim", bin="hv_sim", mode="c37",
    cases={"quick": 650, "thorough": 6000},
    level="proof",
    design_ref="DESIGN.md §5 C37",
    technique="Lean 4 completeness proofs (for every allowed decision there is a tape) + set comparison with the real hooks run under bolero's exhaustive driver",
    level_text=("Partial. Proved for every queue/forcing: every prefix size of an ordered input is released by some tape; every "
                "split of an unordered input into an in-order sub-multiset and the rest is released by some tape (the min_index "
                "pruning loses no subset) and, on distinct items, a released batch determines the whole call sequence that produced it (each subset is visited exactly once); every combination of per-key prefixes of a keyed ordered input and of per-key sub-multisets of a keyed unordered input; every buffered "
                "snapshot version of a singleton and the unchanged snapshot; every single release (and silence) of TopLevelStreamOrderHook and either front of TopLevelMergeOrderedHook; every non-empty subset selection of TopLevelFoldHook (released in some order); every ready tick/observation is picked by the "
                "scheduler's draw; a single-hook tick/observation resolves to that hook's forced decision space. "
                "Stated but not proved (def ...Statement): run_hooks reaches every multi-hook decision vector with a non-trivial "
                "component; completeness for KeyedSingleton, the keyed TopLevel* hooks, the fold hook's Fisher-Yates "
                "permutation. Tie: for small queues of every hook kind the real hook is run under bolero's real exhaustive "
                "driver until it reports the space exhausted; the set of (released, remaining) outcomes and the number of "
                "executions are compared with the model's (specified sets for the proved kinds, cross-checked against a "
                "search over the model's decision tree; that search for the others)."),
    level_note=("Trusted: bolero's exhaustive driver (its depth-first search is exercised on the real hooks, not modelled); "
                "FxHashMap iteration order as an input; the end-to-end CompiledSim::exhaustive loop (dylib build, tokio runtime, "
                "quiescence forking) is not modelled and only exercised by the F36 end-to-end reproduction."),
    trusted_base=["bolero exhaustive::Driver (state/step/select) exercised, not modelled",
                  "FxHashMap iteration order taken as an explicit input",
                  "CompiledSim::exhaustive / LaunchedSim::step outside run_hooks not modelled"],
    assumptions=["small scopes for the set comparison (queues up to 4 items, up to 3 keys); theorems are unbounded"],
)
