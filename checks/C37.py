SPEC = dict(
    id="C37",
    lean_project="HvSim", props_module="HvSim.Props.C37", driver="hvdrv_sim",
    harness="hv_sim", bin="hv_sim", mode="c37",
    cases={"quick": 650, "thorough": 6000},
    level="proof",
    design_ref="DESIGN.md §5 C37",
    technique="Lean 4 completeness proofs (for every allowed decision there is a tape) + set comparison with the real hooks run under bolero's exhaustive driver",
    level_text=("Partial. Proved for every queue/forcing: every prefix size of an ordered input is released by some tape; every "
                "split of an unordered input into an in-order sub-multiset and the rest is released by some tape (the min_index "
                "pruning loses no subset) and, on distinct items, a released batch determines the whole call sequence that produced it (each subset is visited exactly once); every combination of per-key prefixes of a keyed ordered input and of per-key sub-multisets of a keyed unordered input; every buffered "
                "snapshot version of a singleton and the unchanged snapshot; every single release (and silence) of TopLevelStreamOrderHook, either front of TopLevelMergeOrderedHook, every (key, item) of TopLevelKeyedStreamOrderHook, every key front of TopLevelPartiallyOrderedStreamHook and every candidate front of TopLevelKeyedMergeOrderedHook (and their silence); every non-empty subset selection of TopLevelFoldHook (released in some order); every ready tick/observation is picked by the "
                "scheduler's draw; a single-hook tick/observation resolves to that hook's forced decision space. "
                "Multi-hook ticks: the two-pass tape-framing argument of run_hooks is proved for arbitrary hook kinds (runHooks_reaches_every_framed_vector: given, per hook, a decision that is reachable by a tape prefix independent of what follows - unforced, and forced when non-trivial - every decision vector with a non-trivial component is produced by the concatenation of the per-hook prefixes, first-pass hooks first, the last undecided hook on its forced tape iff nothing non-trivial precedes it); the per-hook framing facts are proved for StreamHook and KeyedStreamHook (both orders), SingletonHook, PassthroughSingletonHook and KeyedSingletonHook (hookTarget_of_decision; for the keyed singleton via keyedSingleton_every_decision_reachable: every per-key combination of unchanged / withheld / buffered version is reached), which gives runHooks_reaches_every_vector_partial = the full statement restricted to hook lists of those kinds, i.e. every hook kind the builder puts into a tick. "
                "Stated but not proved (def runHooksReachesEveryVectorStatement): the same for arbitrary hook lists, i.e. lists containing TopLevel* hooks (which the scheduler always resolves alone, one observation = one hook); also without theorem: the fold hook's Fisher-Yates "
                "permutation (every order), the in-tick inline hooks. Tie: for small queues of every hook kind the real hook is run under bolero's real exhaustive "
                "driver (exhaustive::Driver::default(), step() until Break - the loop bolero's engine runs for CompiledSim::exhaustive's .exhaustive().run_with_replay) until it reports the space exhausted; the set of (released, remaining) outcomes and the number of "
                "executions are compared with the model's (specified sets for the proved kinds, cross-checked against a "
                "depth-first search over the model's decision tree that mirrors State::step; that search for the others)."),
    level_note=("Assumed about bolero (exercised on the real hooks, not modelled or proved): exhaustive::State::step/select perform a depth-first enumeration of "
                "all answer sequences - each request with bound b>0 gets a frame taking every value 0..=b, a request with a single possible answer (bound 0) draws nothing, step() bumps the deepest frame with room and drops the deeper ones, Break when none has room - so that every choice tape of the model (up to the value-to-range mapping; the theorems produce tapes whose entries lie inside the requested ranges) is visited once; "
                "the theorems say 'there is a tape', the conclusion 'exhaustive mode runs it' rests on this assumption. "
                "FxHashMap iteration order as an input; the end-to-end CompiledSim::exhaustive loop (dylib build, tokio runtime, "
                "quiescence forking via decide_quiescence_branch, LaunchedSim::step's interleaving of async DFIRs and ticks) is not modelled; it is exercised only by hydro_lang's own sim tests (incl. the F36 regression test)."),
    trusted_base=["bolero exhaustive::Driver (state/step/select) exercised, not modelled",
                  "FxHashMap iteration order taken as an explicit input",
                  "CompiledSim::exhaustive / LaunchedSim::step outside run_hooks not modelled"],
    assumptions=["small scopes for the set comparison (queues up to 4 items, up to 3 keys); theorems are unbounded"],
)
