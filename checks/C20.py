import os as _os

def _theorems():
    """property theorems of Props/C20.lean and Props/C20Modules.lean (the latter imports the former)"""
    import re as _re
    here = _os.path.dirname(_os.path.dirname(_os.path.abspath(__file__)))
    names = []
    for f in ("C20.lean", "C20Modules.lean"):
        src = open(_os.path.join(here, "lean", "HvPart", "HvPart", "Props", f)).read()
        src = _re.sub(r"/-.*?-/", "", src, flags=_re.S)
        for m in _re.finditer(r"^theorem\s+([^\s:({\[]+)", src, _re.M):
            if not m.group(1).startswith("aux_"):
                names.append("HvPart." + m.group(1))
    return names

SPEC = dict(
    id="C20",
    lean_project="HvPart", props_module="HvPart.Props.C20Modules", driver="hvdrv_part",
    theorems=_theorems(),
    harness="hv_part", bin="hv_part", mode="c20",
    cases={"quick": 1800, "thorough": 40000},
    level="proof",
    design_ref="DESIGN.md §5 C20",
    technique="Lean 4 proofs over a model of DiMulGraph / remove_intermediate_node / insert_intermediate_node / eliminate_extra_unions_tees + exact differential correspondence of the whole DiMulGraph state (slot-map keys included) + JSON round-trip oracle on the real code",
    level_text=("Theorems (all graphs, any fresh keys): remove_intermediate_node replaces the in-edge and out-edge of the removed node by one "
                "edge keeping the producer's source port and the consumer's destination port and leaves every other wire and node untouched "
                "(removeNode_wires); insert_intermediate_node replaces one edge by two with the old outer ports and elided ports at the new node "
                "(insertNode_wires, also the 'exactly one handoff per edge' primitive of C18); eliminate_extra_unions_tees is exactly a sequence "
                "of such contractions of the single-input single-output union/tee operators of the graph it was given "
                "(eliminate_is_removal_sequence, findUnaryOps_spec, eliminate_preserves_wiring). merge_modules (Props/C20Modules.lean): remove_module_boundary reports its "
                "diagnostic exactly when the port keys of the in-edges and out-edges of the boundary differ (removeModuleBoundary_error_iff); "
                "otherwise every iteration removes the in-edge and out-edge with one port key and inserts one edge from the outer producer to "
                "the outer consumer keeping the producer's source port and the consumer's destination port (mmStep_wires), the boundary node is "
                "dropped, every wire not removed survives with its ports (removeModuleBoundary_wires, _wires_perm, _keeps_other_wires), and "
                "merge_modules is exactly the sequence of these removals over the module-boundary nodes of the initial graph, an error "
                "propagating (mergeModules_is_boundary_sequence, mergeModules_preserves_wiring(_perm), mergeModules_nodes) - freshness of the "
                "allocated slot-map keys (mmFresh) is a hypothesis there as in the other wiring theorems. PARTIAL: of the assert_valid invariant "
                "only the insert_edge clause is a theorem (insertEdge_registers_partial); the serde JSON round trip is not a theorem (it "
                "cannot be modelled; judged by the oracle). Tie: on generated programs the real FlatGraphBuilder output is dumped (nodes, edges with slot-map keys, ports), "
                "eliminate_extra_unions_tees / insert_intermediate_node / merge_modules (on synthetic module-boundary graphs) are run on the real "
                "DfirGraph and on the compiled model, and node list, edge list with keys in iteration order, adjacency lists, wiring and the "
                "assert_valid predicate are diffed exactly; independently the harness contracts unary unions/tees out of the original wiring and "
                "compares, checks operator texts/loops/references unchanged, and for the partitioned graph does serde_json -> from_str -> "
                "insert_node_op_insts_all (what dfir_rs Context::new does) and compares every public accessor, the re-serialised JSON, mermaid/dot "
                "renderings and the code generated from the loaded graph."),
    level_note=("Freshness of slot-map keys is a hypothesis of the wiring theorems (the driver's LIFO free-list model reproduces the real keys). "
                "Adjacency-list order and span-derived `loc_*` identifiers are not preserved by the JSON round trip and are canonicalised "
                "(neither influences wiring or codegen order). Finding F20 (`#var` markers in operator arguments were lost by the round trip) is fixed in /repo (GraphNode::Operator is serialised with its raw arguments); operator arguments are compared exactly."),
    trusted_base=["slotmap key freshness / LIFO slot reuse", "serde / serde_json (round trip exercised, not modelled)",
                  "PortIndexValue ordering re-stated in the model (Int < Path < Elided)"],
    assumptions=["flat graphs come from FlatGraphBuilder::build on generated programs; module-boundary graphs are built through the public DfirGraph API"],
)
