SPEC = dict(
    id="C39",
    lean_project="HvNet", props_module="HvNet.Props.C39", driver="hvdrv_net",
    harness="hv_net", bin="hv_net", mode="c39",
    cases={"quick": 1200, "thorough": 30000},
    refuted=["HvNet.Quorum.quorumW_values_batching_independent_refuted"],
    level="proof",
    design_ref="DESIGN.md §5 C39",
    technique="Lean 4 invariant proof over the tick state machines of hydro_std::quorum / request_response + differential correspondence with the flows compiled by the production Hydro code generator, run tick by tick under every batching of small sequences",
    level_text=("Theorems (all batchings of all response sequences with at most max responses per key, 1 <= min <= max; proved by an "
                "invariant relating the carried state not_all / min_but_not_max to the response history): collect_quorum emits in each "
                "tick exactly the keys whose success count reaches min in that tick, each once (quorum_fires_at_min); no key twice over "
                "the run (quorum_once_per_key); a key is reported iff it got min successes (quorum_reports_exactly); any two batchings "
                "of one sequence report the same multiset (batching_independent); the error stream is the error responses in order "
                "(errors_passed_through). collect_quorum_with_response: per tick the values of a key are all its successes so far if it "
                "reaches min in that tick and nothing otherwise (quorumW_fires_at_min), so a key is reported in exactly one tick with at "
                "least min values (quorumW_reports_once); batching independence of the emitted *values* is REFUTED for min < max "
                "(quorumW_values_batching_independent_refuted; finding F39, reproduced on the real code); for min = max the values per key and hence the multiset are batching independent "
                "(quorumW_min_eq_max_values / _batching_independent). F39 contradicts the title (\"batching-independent\") and "
                "the nondet! justification in quorum.rs, not the literal once-per-key / exactly-when / error clauses, which are proved. "
                "Observation only, no clause of C39 and not judged by the oracle: the interleaving of DIFFERENT keys in the emitted sequence follows the "
                "batch boundaries (quorumW_cross_key_interleaving_follows_batches_observation; counted in the histogram). "
                "join_responses: under the documented contract each tick outputs the join of its responses with all unanswered "
                "metadata so far (join_tick_output); over a whole run of any number of ticks a key with exactly one metadata entry "
                "and exactly one response yields exactly one output pairing them (join_run_matches_exactly_once), a key without a "
                "response yields none (join_run_no_response_no_output); per tick one metadata + one response give exactly one "
                "output, none otherwise (join_responses_once), answered keys never reappear. Tie: build.rs compiles collect_quorum / collect_quorum_with_response for 8 (min,max) pairs and "
                "join_responses through FlowBuilder + generate_embedded; the harness feeds batches through channels and runs one DFIR tick "
                "per batch, diffing every tick's output with the compiled Lean state machine (also outside the <= max domain), and for "
                "each sequence of length <= 7 reruns the real flow under every composition into batches and evaluates the property "
                "(fires exactly when min is reached, once per key, same key set across batchings, errors in order, same value multiset "
                "across batchings -- the last one reports F39 under its own narrow signature) directly."),
    level_note=("Trusted: Lean kernel + propext/Classical.choice/Quot.sound; DFIR operators (fold_keyed, anti_join, join_multiset, "
                "defer_tick state) are modelled by list functions and only exercised; one run_tick = one batch (production tick partition "
                "of the embedded backend); the simulator's exhaustive mode is not used; keys/values are u32; the per-key response bound "
                "(<= max) is a hypothesis of the theorems."),
    trusted_base=["DFIR operator semantics (keyed fold, anti_join multiset-on-pos, join_multiset, cross-tick state) modelled as list functions",
                  "embedded backend: one run_tick of the generated Dfir = one batch of the sliced! block"],
    assumptions=["1 <= min <= max and at most max responses per key (the quorum theorems)",
                 "join_responses contract: metadata in the same or an earlier tick than the response for its key"],
)
