import importlib.util as _u, os as _os, subprocess as _sp

def _translate(ctx):
    p = _os.path.join(ctx["verif"], "lean", "HvPart", "tools", "translate.py")
    sp = _u.spec_from_file_location("hvpart_translate", p)
    m = _u.module_from_spec(sp)
    sp.loader.exec_module(m)
    return m.run(("color", "catalogue", "hash", "c17model", "c17proofs", "c17thms"))

def _extra(ctx):
    """compile the same generated programs in two further, separate processes and compare the per-case hashes of
    generated code and graph JSON/renderings with each other (different std RandomState seeds per process)"""
    binpath = ctx.get("binpath")
    if not binpath or not _os.path.exists(binpath):
        return [("multi-process determinism", False, "harness binary missing", None)]
    n = ctx["spec"]["cases"].get(ctx["tier"], 300)
    outs = []
    for tag in ("procA", "procB"):
        od = _os.path.join(ctx["work"], "extra_" + tag)
        _os.makedirs(od, exist_ok=True)
        p = _sp.run([binpath, "c42", "--seed", str(ctx["seed"]), "--cases", str(n), "--out", od, "--tier", ctx["tier"]],
                    capture_output=True, text=True, timeout=3600)
        if p.returncode != 0:
            return [("multi-process determinism", False, f"run {tag} failed: {p.stderr[-200:]}", None)]
        outs.append(open(_os.path.join(od, "hashes.txt")).read().splitlines())
    a, b = outs
    if len(a) != len(b):
        return [("multi-process determinism", False, f"{len(a)} vs {len(b)} cases", None)]
    bad = [i for i in range(len(a)) if a[i] != b[i]]
    if bad:
        caseno = a[bad[0]].split()[0]
        ops = open(_os.path.join(ctx["work"], "extra_procA", "ops.txt")).read().splitlines()
        lines, on = [], False
        for l in ops:
            if l.startswith("#case"):
                on = l.split()[1] == caseno
            if on:
                lines.append(l)
        return [("multi-process determinism", False,
                 f"{len(bad)} of {len(a)} programs compile to different code/graph in two processes; first: case {caseno}", lines)]
    return [("multi-process determinism", True, f"{len(a)} programs compiled in 2 separate processes: identical code + graph JSON + mermaid/dot", None)]

def _theorems():
    """property theorems of Props/C42.lean and Props/C42Lift.lean (the latter imports the former)"""
    import re as _re
    here = _os.path.dirname(_os.path.dirname(_os.path.abspath(__file__)))
    names = []
    for f in ("C42.lean", "C42Lift.lean"):
        src = open(_os.path.join(here, "lean", "HvPart", "HvPart", "Props", f)).read()
        src = _re.sub(r"/-.*?-/", "", src, flags=_re.S)
        for m in _re.finditer(r"^theorem\s+([^\s:({\[]+)", src, _re.M):
            if not m.group(1).startswith("aux_"):
                names.append("HvPart." + m.group(1))
    return names

SPEC = dict(
    id="C42",
    lean_project="HvPart", props_module="HvPart.Props.C42Lift", driver="hvdrv_part",
    theorems=_theorems(),
    harness="hv_part", bin="hv_part", mode="c42",
    cases={"quick": 1500, "thorough": 30000},
    translate=_translate,
    extra=_extra,
    level="proof",
    design_ref="DESIGN.md §5 C42",
    technique="site scanner (translated manifest checked by a Lean theorem) + Lean proof that the single iterated hash container is order-independent + repeated in-process and multi-process compilation of generated DFIR programs",
    level_text=("(T) every run scans the anchored files (dfir_lang graph/*.rs, ops/mod.rs, union_find.rs, hydro_lang compile/ir/mod.rs) for "
                "HashMap/HashSet/FxHash*/SparseSecondaryMap-typed bindings and whether they are iterated; theorem hash_sites_match_manifest "
                "(decide) requires the result to equal the manifest the model was written against, so a new hash container or a newly iterated "
                "one breaks the check. The only iterated site is SubgraphMerge::enemies in try_merge; the model takes its iteration order as "
                "an explicit argument and the theorems show: the enemy map after the loop denotes the same sets for any two orders "
                "(remapEnemies_order_invariant); one try_merge from states equal up to the representation of enemy sets, under any two orders, "
                "returns the same answer and states again equal up to that representation, all other fields identical "
                "(tryMerge_hash_order_invariant), and subgraphs()/find ignore the representation; lifted to the whole partitioner "
                "(Props/C42Lift.lean): SubgraphMerge::new establishes, and try_merge under any iteration order preserves, a symmetric+irreflexive "
                "enemy table, and the complete outcome of the partitioner model (Ok with subgraphs, order, handoffs, delay marks, colours, "
                "union-find / Err cycle / panic) is identical for every iteration order of the enemy HashSet "
                "(partition_hash_order_invariant, partition_hash_order_invariant2; at the identity order the parametrised fixpoint is the model "
                "the driver runs, partitionWithP_id). NOT MODELLED: as_code and the Hydro IR emission (their hash containers are lookup-only "
                "per the scanner) and no Hydro flows are compiled here - for those the claim rests on the scanner and on the differential "
                "compilation only. Tie (C): each generated "
                "program is compiled 3x in one process through build_dfir_code (fresh RandomState per map) and in 2 further separate processes; "
                "generated code, graph JSON, mermaid, dot and diagnostics must be identical; the compiled model (fixed order) is diffed against "
                "the real partitioner (random hash order) on every case."),
    level_note=("The scanner is syntactic (declaration lines mentioning a hash type; iteration = iterator method or for-loop on that name). "
                "Hydro-side determinism (hydro_lang compile/ir, trybuild naming) is covered by the scanner only."),
    trusted_base=["the syntactic site scanner", "std RandomState differs between maps/processes (so repeated compilation samples different orders)",
                  "slotmap/BTreeMap/Vec iteration is deterministic"],
    assumptions=["graphs reachable from DFIR surface syntax (same generator as C18/C19)"],
)
