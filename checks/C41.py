SPEC = dict(
    id="C41",
    lean_project="HvNet", props_module="HvNet.Props.C41", driver="hvdrv_net",
    harness="hv_net", bin="hv_net", mode="c41",
    cases={"quick": 400, "thorough": 6000},
    refuted=["HvNet.Emit.completed_program_accepted_refuted"],
    level="proof",
    design_ref="DESIGN.md §5 C41",
    technique="PARTIAL: Lean 4 proof (graph projection + rank certificate) over an abstract model of the Hydro IR -> DFIR emission; correspondence of that model with generated Hydro programs compiled in-process by the production builder (IR -> flat graph -> partition_graph -> as_code); 'the generated Rust compiles' only sampled (rustc on a fixed set of 24 generated programs at harness build time)",
    level_text=("PARTIAL. (1) PROVED, on an abstraction. Model/Emit.lean: an IR is a list of nodes (kind: source, operator, tee, "
                "DeferTick, CycleSource c, CycleSink c, network send half, network receive half, sink; inputs); emitEdge is the "
                "non-delaying edge relation of the emitted operator graph, over-approximated: every IR node owns a forward pipeline of "
                "operators, any operator of a producer may feed any operator of its consumer, consumers of a CycleSource are wired to "
                "the CycleSink's operators (`cycle_c = input -> identity()`, the CycleSource itself emits nothing), edges into a "
                "DeferTick (`defer_tick_lazy()`) are the only delaying ones, the two halves of a Network node are not connected. "
                "Theorem emitted_graph_no_same_tick_cycle: for EVERY such IR, under the hypothesis that the IR dependency graph "
                "without the edges into DeferTicks (and without network send->receive links) has no cycle, emitEdge has no cycle, for "
                "any pipeline lengths and wiring positions. rank_certifies_acyclic / accepted_ir_emits_acyclic_graph: the executable "
                "verdict `accepts` the driver prints is sound for that hypothesis (accepts = true => no emitEdge cycle; the converse, "
                "reject => real cycle, is correspondence-only). predictedEdges_sound: every non-delaying edge of the projection the "
                "driver predicts (and the harness compares with the real graph) is an emitEdge, so the observed graphs lie inside the "
                "relation the theorem is about. The hypothesis is NOT implied by 'type-checks and completes all forward references': "
                "completed_program_accepted_refuted proves that the clause as stated (CompletedProgramAcceptedStatement) fails on the "
                "model for a top-level forward reference closed through local operators only, and the real builder rejects exactly "
                "that program with 'Cyclical dataflow within a tick' although ForwardHandle::complete documents asynchronous cycles "
                "outside a tick as allowed (finding F41, known). Only pipe edges are modelled: handoff references (singleton refs "
                "captured in closures), access groups and DFIR loop blocks, which partition_graph also counts as same-tick "
                "dependencies, are not. (2) CORRESPONDENCE ONLY. A tape-driven generator composes Hydro programs over the public "
                "API from 26 operator kinds (top-level map/filter/clone(tee)/batch/send/merge_ordered, tick map/clone/all_ticks/fold/"
                "max/first/chain/cross_singleton/filter_not_in/unique+sort/enumerate/defer_tick, singleton and optional operators, "
                "tick cycles, top-level and tick-level forward references, network round trips between two processes); each program "
                "is built with FlowBuilder and compiled in-process by generate_embedded (production path: emit_core, "
                "eliminate_extra_unions_tees, partition_graph, as_code -- no rustc). The harness extracts the abstract IR from the "
                "real HydroRoot/HydroNode tree; the model must predict accept / reject-cycle and, edge for edge with delay flags, the "
                "projection of the real emitted DFIR graph onto the IR nodes owning its operators. Independent oracle on the real "
                "builder: no undelayed local IR cycle => compiles; undelayed cycle through a tick-level forward reference (excluded "
                "by the documented contract of complete) => rejected with the same-tick-cycle diagnostic; undelayed cycle closed "
                "by top-level forward references only => must compile (fails: F41); any other failure (panic in emission / as_code) "
                "is a violation. (3) SAMPLED ONLY. 'and compile': 24 fixed generated programs are emitted in build.rs and compiled by "
                "rustc together with the harness; a program of the sample that the builder refuses is reported by the check."),
    level_note=("NOT modelled / not verified: Rust typing of the generated code (decided by rustc on the 24 sampled programs only, "
                "never for the programs generated at check time); operator-internal code generation; the simulator builder "
                "(hydro_lang::sim, feature `sim`) is not exercised at all although the property's quantifier names it (its compile path "
                "ends in a cargo-built dylib and has no in-process entry point); only Process locations (two of them) are used -- no "
                "clusters, externals, atomic regions, keyed collections; singleton references inside closures (handoff references / "
                "access groups) are outside both the model and the generator, so a same-tick cycle through such a reference is not "
                "covered by the theorem. The abstract-IR extraction in the harness and the owner mapping by DFIR variable names are "
                "trusted glue. F41 (known): `let (h, s) = p.forward_ref(); h.complete(input.merge_ordered(s, ..).map(..))` on a "
                "Process type-checks, completes its forward reference, and is rejected by partition_graph; model and oracle agree on "
                "the rejection, the oracle reports it under the signature top-level-forward-ref-local-cycle-rejected-as-same-tick-cycle."),
    trusted_base=["rustc for the type-correctness of generated code (sampled programs only)",
                  "abstract-IR extraction from HydroNode (harness/hv_net/src/c41.rs) and the operator-owner mapping by DFIR variable names",
                  "emission modelled as an over-approximation (any pipeline position may feed any position); real per-operator codegen only exercised",
                  "partition_graph itself (its cycle detection is C19/C17's subject); here only: no cycle of non-delaying pipe edges is handed to it"],
    assumptions=["every IR dependency cycle passes through a DeferTick (tick cycle) or a network channel (hypothesis of the theorem; refuted as a consequence of well-typedness: F41)",
                 "programs are built from the generator's operator set on two processes; only pipe edges carry same-tick dependencies (no handoff references / access groups / loop blocks)"],
)
