SPEC = dict(
    id="C41",
    lean_project="HvNet", props_module="HvNet.Props.C41", driver="hvdrv_net",
    harness="hv_net", bin="hv_net", mode="c41",
    cases={"quick": 400, "thorough": 6000},
    level="proof",
    design_ref="DESIGN.md §5 C41",
    technique="Lean 4 proof (graph projection + rank certificate) over an abstract IR->DFIR emission model + generated Hydro programs compiled by the production builder (runtime: IR -> flat graph -> partition_graph -> as_code; build time: rustc on a fixed sample)",
    level_text=("PARTIAL. Theorem emitted_graph_no_same_tick_cycle: for every abstract IR (nodes with inputs, shared tees, CycleSink/"
                "CycleSource, DeferTick, network send/receive halves, any pipeline lengths and wiring positions), if every IR dependency "
                "cycle passes through a DeferTick or a network channel then the emitted operator graph has no cycle of non-delaying edges, "
                "i.e. nothing for partition_graph to reject (proved by projecting emitted paths onto IR paths); rank_certifies_acyclic and "
                "accepted_ir_emits_acyclic_graph make the model's executable verdict sound for that hypothesis. Tie: a tape-driven "
                "generator composes Hydro programs over the public API (map/filter/clone(tee)/batch/all_ticks/fold/max/first/chain/"
                "cross_singleton/unique/sort/enumerate/defer_tick, tick cycles, top-level forward references, network round trips "
                "between two processes); each is compiled in-process by FlowBuilder + generate_embedded (the production path incl. "
                "partition_graph and as_code). The harness extracts the abstract IR from the real HydroRoot/HydroNode tree, the model "
                "must predict accept / reject-cycle and the projection of the real emitted DFIR graph onto the IR nodes owning its "
                "operators (edge for edge, delay flags included); an independent oracle requires: no undelayed IR cycle => compiles, "
                "undelayed cycle => rejected with the same-tick-cycle diagnostic, anything else (panic in emission / as_code) is a "
                "violation. 24 generated programs are emitted in build.rs and compiled by rustc with the harness."),
    level_note=("NOT modelled: Rust typing of the generated code ('the generated Rust compiles' is decided by rustc on the 24 sampled "
                "programs only); operator-internal code generation; the simulator builder (sim feature) is not exercised; singleton "
                "references inside closures (handoff references / access groups), clusters, atomic regions, keyed collections and "
                "external ports are outside the generator. A top-level forward reference closed on itself without a DeferTick/network "
                "hop type-checks and is rejected by partition_graph with the 'Cyclical dataflow within a tick' diagnostic: this is the "
                "hypothesis of the theorem (reading of 'completes all of its forward references and tick cycles'), the model and the "
                "oracle expect exactly that rejection."),
    trusted_base=["rustc for the type-correctness of generated code (sampled programs only)",
                  "abstract-IR extraction from HydroNode (harness/hv_net/src/c41.rs) and the operator-owner mapping by DFIR variable names",
                  "emission modelled as an over-approximation (any pipeline position may feed any position); real per-operator codegen only exercised"],
    assumptions=["every IR dependency cycle passes through a DeferTick (tick cycle) or a network channel (hypothesis of the theorem)",
                 "programs are built from the generator's operator set on two processes"],
)
