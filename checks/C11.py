SPEC = dict(
    id="C11",
    lean_project="HvPull", props_module="HvPull.Props.C11", driver="hvdrv_pull",
    harness="hv_pull", bin="hv_pull", mode="c11",
    cases={"quick": 3000, "thorough": 40000},
    level="proof",
    design_ref="DESIGN.md §5 C11",
    technique="Lean 4 refinement proofs (script induction, buffered item in the invariant) + poll-by-poll differential correspondence with the real combinators",
    level_text=("Theorems, for every script (all item sequences, every placement of Pending and, where the trait bounds "
                "allow an unfused input, of premature Ended), every closure and every sufficient fuel: K_refines "
                "(items until the first Ended = the std iterator adapter on the pending-erased inputs), K_fused (once "
                "Ended always Ended, under exactly the FusedPull impl's bounds) and K_sizeHint (size_hint brackets the "
                "items still to come in every state, given the inputs' hints do) for map, filter, filter_map, inspect, "
                "take_while, enumerate, skip, skip_while, take, fuse, flat_map, flatten, filter_map_async, flat_map_stream, "
                "flatten_stream, chain, either, zip, zip_longest, cross_singleton, iter/once/empty/repeat/pending/from_fn/"
                "poll_fn/stream/stream_ready sources, and the draining futures collect/for_each/accumulate_all (as folds). "
                "Tie: the harness implements a scripted Pull / Stream / Future, drives each real dfir_pipes combinator poll "
                "by poll (answer + size_hint after every poll, closure logs) and the same op lines run through the compiled "
                "model; std-iterator / fused / bracket oracles are evaluated on the real code."),
    level_note=("Trusted: Lean kernel + propext/Classical.choice/Quot.sound; Pin/Context/Toggle/Meta bookkeeping erased; "
                "usize as Nat (saturating/checked arithmetic never overflows in the model); inner iterators/streams/futures "
                "modelled as the list / script / (pendings, output) they produce; each theorem is about one combinator over "
                "scripted sources (nested pipelines are covered by composition only informally); send_sink/send_push/next "
                "are not modelled; harness/differ are our code."),
    trusted_base=["Pin, Context merging, Toggle type-level CanPend/CanEnd bookkeeping and Meta are erased",
                  "inner iterators / streams / futures are modelled by the finite list / script they produce",
                  "usize arithmetic modelled on Nat (no overflow)"],
    assumptions=["closures are pure functions of the item (the harness uses table-driven closures)",
                 "a source's size_hint brackets its remaining items in every state (HintOk), as the trait asks"],
)
