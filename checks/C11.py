"""C11 registration + translator of the Zip/ZipLongest/CrossSingleton match tables."""
import os, re

GEN_REL = "lean/HvPull/HvPull/Gen/PullTables.lean"


def _strip_comments(src):
    return re.sub(r"//[^\n]*", "", src)


def _block_after(src, start):
    """text of the balanced {...} block whose '{' is the first one at/after `start`"""
    i = src.index("{", start)
    depth, j = 0, i
    while True:
        c = src[j]
        if c == "{":
            depth += 1
        elif c == "}":
            depth -= 1
            if depth == 0:
                return src[i + 1:j]
        j += 1


def _arms(block):
    """[(pattern_text, body_text)] of a match block"""
    arms, i, n = [], 0, len(block)
    while True:
        k = block.find("=>", i)
        if k < 0:
            break
        pat = block[i:k].strip()
        j = k + 2
        while block[j].isspace():
            j += 1
        if block[j] == "{":
            depth, e = 0, j
            while True:
                if block[e] == "{":
                    depth += 1
                elif block[e] == "}":
                    depth -= 1
                    if depth == 0:
                        break
                e += 1
            body = block[j:e + 1]
            e += 1
        else:
            depth, e = 0, j
            while e < n and not (block[e] == "," and depth == 0):
                if block[e] in "({[":
                    depth += 1
                elif block[e] in ")}]":
                    depth -= 1
                e += 1
            body = block[j:e]
        arms.append((pat, body))
        while e < n and (block[e].isspace() or block[e] == ","):
            e += 1
        i = e
    return arms


KIND = {"Ready": "ready", "Pending": "pending", "Ended": "ended"}


def _pair_table(src, what):
    src = _strip_comments(src)
    start = src.index("match (pull_left, pull_right)")
    table = {}
    for pat, body in _arms(_block_after(src, start)):
        pairs = re.findall(r"\(\s*PullStep::(\w+)\s*\([^()]*\)\s*,\s*PullStep::(\w+)\s*\([^()]*\)\s*\)", pat)
        if not pairs:
            raise ValueError(f"{what}: cannot read pattern `{pat[:60]}`")
        if "PullStep::Ready(" in body:
            if "EitherOrBoth::Both" in body or "EitherOrBoth" not in body:
                act = "both"
            elif "EitherOrBoth::Left" in body:
                act = "left"
            elif "EitherOrBoth::Right" in body:
                act = "right"
            else:
                raise ValueError(f"{what}: ready arm not understood")
        elif "this.buffer" in body and "Either::Left" in body and "PullStep::pending()" in body:
            act = "bufLeft"
        elif "this.buffer" in body and "Either::Right" in body and "PullStep::pending()" in body:
            act = "bufRight"
        elif body.strip().rstrip(",") in ("PullStep::pending()", "{ PullStep::pending() }"):
            act = "pending"
        elif body.strip().rstrip(",") in ("PullStep::ended()", "{ PullStep::ended() }"):
            act = "ended"
        else:
            raise ValueError(f"{what}: body not understood `{body.strip()[:60]}`")
        for a, b in pairs:
            key = (KIND[a], KIND[b])
            if key in table:
                raise ValueError(f"{what}: arm {key} twice")
            table[key] = act
    if len(table) != 9:
        raise ValueError(f"{what}: {len(table)} of 9 arms found")
    return table


def _single_table(src, scrutinee_re, what, classify):
    src = _strip_comments(src)
    m = re.search(scrutinee_re, src, re.S)
    if not m:
        raise ValueError(f"{what}: match not found")
    table = {}
    for pat, body in _arms(_block_after(src, m.end() - 1)):
        k = re.match(r"PullStep::(\w+)\s*\(", pat)
        if not k:
            raise ValueError(f"{what}: cannot read pattern `{pat[:60]}`")
        table[KIND[k.group(1)]] = classify(body)
    if len(table) != 3:
        raise ValueError(f"{what}: {len(table)} of 3 arms found")
    return table


def _cls_single(body):
    if "singleton_state.insert(" in body:
        return "store"
    if "return PullStep::pending()" in body:
        return "pending"
    if "return PullStep::ended()" in body:
        return "ended"
    raise ValueError("cross singleton arm not understood")


def _cls_item(body):
    if "PullStep::Ready(" in body and "singleton.clone()" in body:
        return "ready"
    if body.strip().rstrip(",") == "PullStep::pending()":
        return "pending"
    if body.strip().rstrip(",") == "PullStep::ended()":
        return "ended"
    raise ValueError("cross item arm not understood")


def translate(ctx):
    repo, verif = ctx["repo"], ctx["verif"]
    d = os.path.join(repo, "dfir_pipes/src/pull")
    res = []
    tables = {}
    for name, f in (("zipTable", "zip.rs"), ("zipLongestTable", "zip_longest.rs")):
        try:
            tables[name] = _pair_table(open(os.path.join(d, f)).read(), f)
            res.append((f"{f} match (pull_left, pull_right)", True, "9 arms"))
        except Exception as ex:
            res.append((f"{f} match (pull_left, pull_right)", False, repr(ex)))
    try:
        src = open(os.path.join(d, "cross_singleton.rs")).read()
        tables["crossSingleTable"] = _single_table(
            src, r"match\s+this\s*\.singleton_pull\s*\.pull\([^{]*\{", "cross_singleton.rs singleton", _cls_single)
        tables["crossItemTable"] = _single_table(
            src, r"match\s+this\s*\.item_pull\s*\.pull\([^{]*\{", "cross_singleton.rs item", _cls_item)
        res.append(("cross_singleton.rs singleton/item matches", True, "3+3 arms"))
    except Exception as ex:
        res.append(("cross_singleton.rs singleton/item matches", False, repr(ex)))
    if not all(ok for _, ok, _ in res):
        return res
    ks = ["ready", "pending", "ended"]
    out = ["/- GENERATED by checks/C11.py (translate) from /repo/dfir_pipes/src/pull/{zip,zip_longest,cross_singleton}.rs.",
           "   Do not edit: rewritten on every `./check C11`. -/",
           "namespace HvPull.Gen",
           "",
           "/-- kind of a `PullStep` -/",
           "inductive K where",
           "  | ready | pending | ended",
           "  deriving DecidableEq, Repr",
           "",
           "/-- what a match arm does -/",
           "inductive Act where",
           "  | both | left | right | bufLeft | bufRight | pending | ended | store | ready",
           "  deriving DecidableEq, Repr",
           ""]
    for name in ("zipTable", "zipLongestTable"):
        out.append(f"def {name} : K → K → Act")
        for a in ks:
            for b in ks:
                out.append(f"  | .{a}, .{b} => .{tables[name][(a, b)]}")
        out.append("")
    for name in ("crossSingleTable", "crossItemTable"):
        out.append(f"def {name} : K → Act")
        for a in ks:
            out.append(f"  | .{a} => .{tables[name][a]}")
        out.append("")
    out.append("end HvPull.Gen")
    text = "\n".join(out) + "\n"
    p = os.path.join(verif, GEN_REL)
    old = open(p).read() if os.path.exists(p) else None
    if old != text:
        os.makedirs(os.path.dirname(p), exist_ok=True)
        with open(p, "w") as f:
            f.write(text)
    return res

SPEC = dict(
    id="C11",
    lean_project="HvPull", props_module="HvPull.Props.C11", driver="hvdrv_pull",
    harness="hv_pull", bin="hv_pull", mode="c11",
    cases={"quick": 3300, "thorough": 46000},
    translate=translate,
    level="proof",
    design_ref="DESIGN.md §5 C11",
    technique="Lean 4 refinement proofs (script induction, buffered item in the invariant) + poll-by-poll differential correspondence with the real combinators",
    level_text=("Theorems, for every script (all item sequences, every placement of Pending and, where the trait bounds "
                "allow an unfused input, of premature Ended), every closure and every sufficient fuel: K_refines "
                "(items until the first Ended = the std iterator adapter on the pending-erased inputs), K_fused (once "
                "Ended always Ended, under exactly the FusedPull impl's bounds) and K_sizeHint (size_hint brackets the "
                "items still to come in every state, given the inputs' hints do) for map, filter, filter_map, inspect, "
                "take_while, enumerate, skip, skip_while, take, fuse, flat_map, flatten, filter_map_async, flat_map_stream, "
                "flatten_stream, chain, either, zip, zip_longest, cross_singleton, iter/once/empty/repeat/pending/from_fn/"
                "poll_fn/stream/stream_compat/stream_ready sources (fromFn_fused = Stream over a FusedStream; pending/repeat are "
                "vacuously fused, repeat_sizeHint: no upper bound, every lower bound met), and the draining futures "
                "collect/for_each/accumulate_all (as folds: collect_refines, forEach_refines, accumulateAll_refines). "
                "Tie: the harness implements a scripted Pull / Stream / Future, drives each real dfir_pipes combinator poll "
                "by poll (answer + size_hint after every poll, closure logs) and the same op lines run through the compiled "
                "model; std-iterator / fused / bracket oracles are evaluated on the real code. The match tables of Zip, "
                "ZipLongest and CrossSingleton are re-extracted from the Rust source on every run (Gen/PullTables.lean) and "
                "the model is proved to take the same arm (K_table_matches_source). Two-level pipelines (zip(map,filter), "
                "take(flat_map), chain(fuse,skip), zip_longest(fuse(take_while),enumerate)) are driven on the real code and in "
                "the model through answer traces; each of the four has its composition theorem (pipeline_zip_map_filter, "
                "pipeline_take_flatMap, pipeline_chain_fuse_skip, pipeline_zipLongest_fuse_takeWhile_enumerate); for the two whose outer "
                "combinator demands a fused input, chain_refines_endStays / zipLongest_refines_endStays show that the answers of a "
                "fused combinator (a script in which Ended stays) serve as well as an Ended-free script."),
    level_note=("Trusted: Lean kernel + propext/Classical.choice/Quot.sound; Pin/Context/Toggle/Meta bookkeeping erased; "
                "usize as Nat (saturating/checked arithmetic never overflows in the model); inner iterators/streams/futures "
                "modelled as the list / script / (pendings, output) they produce; each theorem is about one combinator over "
                "scripted sources; pipelines are modelled by feeding a combinator the answer trace of another (a pull is used "
                "through its answers and hints only) with four composition theorems for the pipelines the harness drives; send_sink/send_push/next "
                "are not modelled; the size-hint theorems take the inputs' hints as functions of the remaining script (HintOk), so for "
                "pipelines the bracket of the inner combinator's hint is checked by the oracle on the real code, not composed in Lean; "
                "harness/differ are our code."),
    trusted_base=["Pin, Context merging, Toggle type-level CanPend/CanEnd bookkeeping and Meta are erased",
                  "inner iterators / streams / futures are modelled by the finite list / script they produce",
                  "usize arithmetic modelled on Nat (no overflow)"],
    assumptions=["closures are pure functions of the item (the harness uses table-driven closures)",
                 "a source's size_hint brackets its remaining items in every state (HintOk), as the trait asks"],
)
