import os
import subprocess


def _two_processes(ctx):
    """SPEC["extra"]: the same seed/cases in two separately started processes (different ASLR, different
    std RandomState seeds, different allocation addresses) must produce byte-identical transcripts:
    op lines (they carry the observed FxHashMap iteration orders), decision logs, outputs, verdicts."""
    binpath = ctx.get("binpath")
    if not binpath or not os.path.exists(binpath):
        return [("two-process replay", False, "harness binary missing", None)]
    tier = ctx["tier"]
    n = {"quick": 1200, "thorough": 20000}.get(tier, 1200)
    outs = []
    for tag in ("a", "b"):
        od = os.path.join(ctx["work"], f"twoproc_{tag}")
        os.makedirs(od, exist_ok=True)
        env = dict(os.environ)
        # make the two processes differ in everything that is not the decision input
        env["HV_SIM_PAD"] = "x" * (1 if tag == "a" else 4099)
        p = subprocess.run([binpath, "c38", "--seed", str(ctx["seed"] + 1000), "--cases", str(n), "--out", od,
                            "--tier", tier, "--pad", "0" if tag == "a" else "7919"],
                           cwd=od, env=env, capture_output=True, text=True, timeout=3600)
        if p.returncode != 0:
            return [("two-process replay", False, f"run {tag} rc={p.returncode}: {p.stderr[-200:]}", None)]
        outs.append(od)
    res = []
    for f in ("ops.txt", "impl.txt", "prop.txt"):
        a = open(os.path.join(outs[0], f)).read().splitlines()
        b = open(os.path.join(outs[1], f)).read().splitlines()
        if a == b:
            res.append((f"two-process replay: {f} identical", True, f"{len(a)} lines", None))
        else:
            i = next((k for k, (x, y) in enumerate(zip(a, b)) if x != y), min(len(a), len(b)))
            ops = open(os.path.join(outs[0], "ops.txt")).read().splitlines()
            # the case around the first difference
            j = i
            while j > 0 and not ops[min(j, len(ops) - 1)].startswith("#case"):
                j -= 1
            k = j + 1
            while k < len(ops) and not ops[k].startswith("#case"):
                k += 1
            res.append((f"replay-diverged-across-processes@{f}", False,
                        f"line {i}: `{a[i] if i < len(a) else '<eof>'}` vs `{b[i] if i < len(b) else '<eof>'}`", ops[j:k]))
    return res


SPEC = dict(
    id="C38",
    lean_project="HvSim", props_module="HvSim.Props.C38", driver="hvdrv_sim",
    harness="hv_sim", bin="hv_sim", mode="c38",
    cases={"quick": 1500, "thorough": 30000},
    extra=_two_processes,
    level="proof",
    design_ref="DESIGN.md §5 C38",
    technique="replay correspondence (same process, two separately started processes, model trace) + small model lemmas (call-level replay); determinism of the pure model itself is trivial",
    level_text=("Partial; the claim is carried by replay correspondence, not by a theorem. What is proved about the model: (1) trivial-by-construction statements "
                "(run_deterministic, hook_decision_deterministic: the model is a function of (hook states, tape), so equal inputs give equal runs - these carry no information about the code); "
                "(2) driver_calls_replay: every driver call logs exactly what it drew and advances the tape by one entry; recorded_call_replays: a driver primitive re-run on the value it logged (as offset into the requested range) returns the same value and logs the same call - the call-level fact behind 'a recorded decision log reproduces the run'; its lifting to whole run_hooks runs (per-hook tape framing as in C37) is NOT proved; "
                "(3) passthrough_decision_ignores_tape: a hook that makes no driver call decides the same on every tape. "
                "The real content of the property - that the implementation has no input other than (hook states incl. FxHashMap iteration order, driver answers): no dependence on std hash seeds, addresses, "
                "allocation order - is NOT a theorem. FxHashMap iteration order is not modelled (FxHasher is unseeded, so the order is a function of the insertion/removal history; the model takes the observed order as an input on every op line). It is checked by comparison of runs: every generated case (hook creation, feeding, decisions, run_hooks; keyed hooks favoured) is (1) replayed on fresh real hooks in "
                "the same process, (2) run in two separately started processes with different environment/heap layout, and "
                "(3) diffed against the compiled model; decision logs, outputs, panics and the observed FxHashMap iteration orders "
                "(two maps built by the same insertion sequence must iterate identically) must coincide."),
    level_note=("Not covered: CompiledSim::fuzz_repro end to end (bolero's bytes driver, the compiled dylib, tokio runtime); "
                "HashMap-typed Hooks/InlineHooks registries in compiled.rs (keyed by location, looked up, not iterated for "
                "decisions); the inline hooks' internal FxHashMaps (KeyedStreamOrderHook)."),
    trusted_base=["replay determinism of the implementation is established by comparison of runs, not by proof",
                  "bolero bytes driver / fuzz_repro / dylib loading not exercised"],
    assumptions=["two processes on the same machine/toolchain; FxHasher has no per-process seed"],
)
