import glob as _glob, json as _json, os as _os


def _stale_corpus(ctx):
    """A corpus witness names a program of the generated corpus (harness/hv_dfir/corpus/build.rs); when the
    generator changes, the harness can only skip it (`stale-corpus-case`). A regression witness that
    silently stops running is a broken tie: re-record the corpus file."""
    stale = []
    for st in _glob.glob(_os.path.join(ctx["work"], "p*_corpus_*", "stats.json")):
        try:
            n = _json.load(open(st)).get("hist", {}).get("stale-corpus-case", 0)
        except Exception as ex:  # unreadable stats = cannot vouch for the witness
            n = -1
        if n:
            stale.append(f"{_os.path.basename(_os.path.dirname(st))}:{n}")
    return [("corpus witnesses still name compiled corpus programs", not stale,
             "stale: " + ", ".join(stale) if stale else "all corpus cases ran", None)]


SPEC = dict(
    id="C23",
    lean_project="HvDfir", props_module="HvDfir.Props.C23", driver="hvdrv_dfir",
    harness="hv_dfir", bin="hv_dfir", mode="c23",
    cases={"quick": 1200, "thorough": 15000},
    harness_timeout=7200,
    level="proof",
    design_ref="DESIGN.md §5 C23",
    technique="Lean 4 theorems on the program denotation (every node evaluated once per tick on complete inputs, through any depth of pass-through stages) + differential execution and direct oracles on compiled pipelines in front of blocking inputs",
    level_text=("Partial. Theorems (every well-formed program, every state/input/depth): blocking_input_complete — what a node "
                "emits in a tick is its operator semantics applied, per input port, to the concatenation of everything the port's "
                "producers emitted in that tick, expanded through any number of union/tee/identity/map-id/inspect/chain levels "
                "(the handoff/union/tee chains of the partitioned graph); blocking_input_complete_any_partition — the same for the "
                "tick evaluated subgraph by subgraph (runSchedule) for every partition whose flattened order is well formed; "
                "instances for fold and for anti_join's negative side; "
                "no_retraction_within_tick (a node's outputs are written once per tick and not touched by the rest of the tick) and "
                "no_retraction_across_ticks (a longer history only appends outputs). Tie: ~200 compiled dfir_syntax! pipelines: 90 of "
                "depth 0-6 (identity, map id, tee+dropped branch, union+empty source, partition/union and tee/filter/union diamonds) "
                "in front of fold, reduce, sort, persist, unique, multiset_delta, fold_keyed, reduce_keyed, lattice_reduce and both "
                "inputs of anti_join, difference, join, cross_join_multiset, zip; 110 whose LAST stage(s) directly in front of the "
                "blocking input port are the nodes eliminate_extra_unions_tees splices out (unary tee(), unary union() with elided "
                "and with explicit [0] input port, chains of 2-3 of them) - every one-input operator above x 4 shapes, each port "
                "([pos]/[neg], [0]/[1]) of anti_join, difference, join, cross_join, cross_join_multiset, zip x 4 shapes x every "
                "persistence combination, both ports at once, and the same directly behind a named output port (partition [0]); "
                "all run tick by tick and diffed against the Lean interpreter; oracles on the real code: the documented result "
                "recomputed directly from the raw source inputs, prefix-independence of earlier ticks' outputs, and for every "
                "operator input of every program that the partitioned graph of the real dfir_lang pipeline hands the operator the "
                "producers in the order the program text connects them (computed by the corpus build script; a program whose "
                "mis-wiring rustc could reject is replaced by a stub and reported instead of breaking the build)."),
    level_note=("The theorem is about the per-tick denotation (well-formedness = producers before consumers is a hypothesis, it is the "
                "conclusion of C18); the generated tick closure (subgraph order, handoff buffers, eager drains in write_fn) is tied "
                "by execution, not by proof. Singleton references (#var) are not in the model."),
    trusted_base=["rustc + dfir_macro expansion of the corpus", "closure library / item encoding shared between build.rs and the Lean model"],
    extra=_stale_corpus,
    assumptions=["programs are acyclic within a tick (cycles only through defer_tick)"],
)
