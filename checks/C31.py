import json
import os
import re
import sys

sys.path.insert(0, os.path.dirname(os.path.abspath(__file__)))
import hydro2_scan as scan  # noqa: E402

HERE = os.path.dirname(os.path.abspath(__file__))
PINS = os.path.join(HERE, "c31_pins.json")


def _norm_file(repo, rel, cut_tests=True):
    src = open(os.path.join(repo, "hydro_lang", "src", rel), encoding="utf-8").read()
    if cut_tests:
        i = src.find("#[cfg(test)]")
        if i >= 0:
            src = src[:i]
    return re.sub(r"\s+", " ", scan._strip_comments_only(src)).strip()


def current(repo):
    cur = {
        "sliced/mod.rs (macro expansion, Slicable/Unslicable/cycle tuples; tests cut)": _norm_file(repo, "live_collections/sliced/mod.rs"),
        "sliced/style.rs (batch/snapshot/atomic/state styles)": _norm_file(repo, "live_collections/sliced/style.rs"),
        "location/tick.rs::cycle": scan.fn_body(repo, "location/tick.rs", "cycle"),
        "location/tick.rs::cycle_with_initial": scan.fn_body(repo, "location/tick.rs", "cycle_with_initial"),
        "singleton.rs::create_source_with_initial": scan.fn_body(repo, "live_collections/singleton.rs", "create_source_with_initial"),
    }
    return cur


def translate(ctx):
    cur = current(ctx["repo"])
    if os.environ.get("HV_C31_WRITE_PINS") == "1":
        with open(PINS, "w") as fh:
            json.dump(cur, fh, indent=1, sort_keys=True)
    exp = json.load(open(PINS)) if os.path.exists(PINS) else {}
    changed = [k for k in sorted(set(cur) | set(exp)) if cur.get(k) != exp.get(k)]
    # structural facts the model relies on, re-read from the current text
    m = cur["sliced/mod.rs (macro expansion, Slicable/Unslicable/cycle tuples; tests cut)"]
    one_tick = m.count("Slicable::create_tick(") == 1 and "Slicable::slice(__styled, &__tick, __backtraces)" in m
    same_tick = "($($T.slice(tick, $T_bt),)+)" in m
    next_tick = "$($H.complete_next_tick($S);)*" in m
    return [("sliced! expansion text the model was written from is unchanged (%d fragments)" % len(exp), not changed,
             "changed: " + ", ".join(changed) if changed else "all equal"),
            ("sliced!: one tick per slice, every hook sliced against it, states completed for the next tick",
             one_tick and same_tick and next_tick, "create_tick once=%s same tick for all=%s complete_next_tick=%s" % (one_tick, same_tick, next_tick))]


SPEC = dict(
    id="C31",
    lean_project="HvHydro2", props_module="HvHydro2.Props.C31", driver="hvdrv_hydro2",
    harness="hv_hydro2", bin="hv_hydro2", mode="c31",
    cases={"quick": 600, "thorough": 12000},
    translate=translate,
    level="proof",
    design_ref="DESIGN.md §5 C31",
    technique="Lean 4 proofs over a hand-written model of the sliced! expansion with explicit hook decisions + pinned macro text (T) + production-generated slice programs under random tick partitions (C)",
    level_text=("Partial (the macro expansion is modelled by hand; the simulator is not run). Theorems: "
                "slice_batches_partition_input — for every release schedule of a batch hook (buffer, release a prefix; "
                "production = release all) the released batches followed by the remaining buffer are exactly the "
                "arrivals in order, and prod_batches_are_arrivals; snapshots_monotone — for every decision script of a "
                "snapshot hook (re-release / pick a queued version and drop older ones, as in sim::runtime::SingletonHook) "
                "the released versions never go back (invariant proof, also never from the future); prod_hooks_same_point "
                "— in production a batch hook and a snapshot hook of count() of the same source are cut at the same point; "
                "state_carries_to_next_slice / slice_outputs_use_carried_state — slice t+1 sees exactly what slice t "
                "assigned, slice 0 the initial value, with closed forms for the two corpus bodies. T: the non-test text of "
                "sliced/mod.rs and sliced/style.rs and the tick-cycle constructors is pinned, and 'one create_tick, every "
                "hook sliced against it, complete_next_tick' is re-read from the source each run. C: six sliced! programs "
                "(batch only; batch+snapshot of the same source; two batch hooks; use::state counter; use::state_null "
                "previous-last; keyed snapshot lookups) compiled through generate_embedded, run under random tick "
                "partitions on fresh instances, diffed per tick against the compiled model; oracles on the real code: "
                "batches partition the input in order, snapshots never go back / never from the future, "
                "count-snapshot = elements batched so far, state carried exactly one slice."),
    level_note=("Not covered: SimBuilder::batch and the simulator schedules (the hook models follow sim/runtime.rs but are "
                "tied to production only, where every hook releases everything — C36 ties the simulator hooks); "
                "hooks_same_point is proved for the production schedule only (in the simulator the hooks of one slice "
                "decide independently inside one tick); NoOrder batch hooks are not modelled."),
    trusted_base=["hand-written model of the sliced! macro expansion (pinned text, not translated)",
                  "hydro_lang emit_core lowering of Batch / DeferTick / CycleSource for the 6 corpus flows: exercised and diffed, not translated"],
    assumptions=["production code generation: one DFIR tick per slice, a batch is what arrived in that tick"],
)
