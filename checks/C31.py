import json
import os
import re
import sys

sys.path.insert(0, os.path.dirname(os.path.abspath(__file__)))
import hydro2_scan as scan  # noqa: E402

HERE = os.path.dirname(os.path.abspath(__file__))
PINS = os.path.join(HERE, "c31_pins.json")


def _norm_file(repo, rel, cut_tests=True):
    src = open(os.path.join(repo, "hydro_lang", "src", rel), encoding="utf-8").read()
    if cut_tests:
        i = src.find("#[cfg(test)]")
        if i >= 0:
            src = src[:i]
    return re.sub(r"\s+", " ", scan._strip_comments_only(src)).strip()


def current(repo):
    cur = {
        "sliced/mod.rs (macro expansion, Slicable/Unslicable/cycle tuples; tests cut)": _norm_file(repo, "live_collections/sliced/mod.rs"),
        "sliced/style.rs (batch/snapshot/atomic/state styles)": _norm_file(repo, "live_collections/sliced/style.rs"),
        "location/tick.rs::cycle": scan.fn_body(repo, "location/tick.rs", "cycle"),
        "location/tick.rs::cycle_with_initial": scan.fn_body(repo, "location/tick.rs", "cycle_with_initial"),
        "singleton.rs::create_source_with_initial": scan.fn_body(repo, "live_collections/singleton.rs", "create_source_with_initial"),
    }
    return cur


def translate(ctx):
    cur = current(ctx["repo"])
    if os.environ.get("HV_C31_WRITE_PINS") == "1":
        with open(PINS, "w") as fh:
            json.dump(cur, fh, indent=1, sort_keys=True)
    exp = json.load(open(PINS)) if os.path.exists(PINS) else {}
    changed = [k for k in sorted(set(cur) | set(exp)) if cur.get(k) != exp.get(k)]
    # structural facts the model relies on, re-read from the current text
    m = cur["sliced/mod.rs (macro expansion, Slicable/Unslicable/cycle tuples; tests cut)"]
    one_tick = m.count("Slicable::create_tick(") == 1 and "Slicable::slice(__styled, &__tick, __backtraces)" in m
    same_tick = "($($T.slice(tick, $T_bt),)+)" in m
    next_tick = "$($H.complete_next_tick($S);)*" in m
    return [("sliced! expansion text the model was written from is unchanged (%d fragments)" % len(exp), not changed,
             "changed: " + ", ".join(changed) if changed else "all equal"),
            ("sliced!: one tick per slice, every hook sliced against it, states completed for the next tick",
             one_tick and same_tick and next_tick, "create_tick once=%s same tick for all=%s complete_next_tick=%s" % (one_tick, same_tick, next_tick))]


_common = dict(lean_project="HvHydro2", driver="hvdrv_hydro2")
SPEC = dict(
    id="C31",
    parts=[
        dict(_common, props_module="HvHydro2.Props.C31", harness="hv_hydro2", bin="hv_hydro2", mode="c31",
             cases={"quick": 600, "thorough": 12000}, translate=translate),
        # simulator tie: the slice programs compiled with the simulator backend, every schedule (exhaustive)
        dict(_common, harness="hv_hydro2_sim", bin="hv_hydro2_sim", mode="c31sim",
             cases={"quick": 4, "thorough": 12}),
    ],
    harness_timeout=7200,
    level="proof",
    design_ref="DESIGN.md §5 C31",
    technique="Lean 4 proofs over a hand-written model of the sliced! expansion with explicit hook decisions + pinned macro text (T) + production-generated slice programs under random tick partitions (C, part 1) + the same slice programs compiled with the simulator backend and run under CompiledSim::exhaustive, every explored execution judged by the property oracle and by the model (C, part 2)",
    level_text=("Partial (the macro expansion is modelled by hand). Theorems: "
                "slice_batches_partition_input — for every release schedule of a batch hook (buffer, release a prefix; "
                "production = release all) the released batches followed by the remaining buffer are exactly the "
                "arrivals in order, and prod_batches_are_arrivals; snapshots_monotone — for every decision script of a "
                "snapshot hook (re-release / pick a queued version and drop older ones, as in sim::runtime::SingletonHook) "
                "the released versions never go back (invariant proof, also never from the future); prod_hooks_same_point "
                "— in production a batch hook and a snapshot hook of count() of the same source are cut at the same point; "
                "state_carries_to_next_slice / slice_outputs_use_carried_state — slice t+1 sees exactly what slice t "
                "assigned, slice 0 the initial value, with closed forms for the corpus bodies; "
                "simBatchesOk_iff_partition / simSnapsOk_iff / model_snapshots_accepted — the verdict the driver gives on a "
                "recorded simulator execution (the release schedule read off the observed batches, replayed through the "
                "batch-hook model runBatches) is exactly the partition clause, the snapshot verdict is exactly 'never back, "
                "never from the future', and everything the model's snapshot hook can release is accepted. "
                "T: the non-test text of sliced/mod.rs and sliced/style.rs and the tick-cycle constructors is pinned, and 'one "
                "create_tick, every hook sliced against it, complete_next_tick' is re-read from the source each run. "
                "C part 1 (production): six sliced! programs (batch only; batch+snapshot of the same source; two batch hooks; "
                "use::state counter; use::state_null previous-last; keyed snapshot lookups) compiled through "
                "generate_embedded, run under random tick partitions on fresh instances, diffed per tick against the "
                "compiled model; oracles on the real code: batches partition the input in order, snapshots never go back / "
                "never from the future, count-snapshot = elements batched so far, state carried exactly one slice. "
                "C part 2 (simulator): five of these programs (all but the keyed lookup; each slice also reports the batch it "
                "saw) built on sim_input/sim_output, compiled with flow.sim().compiled() (SimBuilder::batch, the snapshot hooks "
                "and the tick-cycle state through the simulator's code generator) and run under CompiledSim::exhaustive on "
                "small inputs (1-5 elements, all queued before the first tick; fixed + seeded scenarios): EVERY execution the "
                "simulator explores is recorded; the oracles on the real observations: the batches of the slices partition "
                "the input in order (per input for two hooks), every scheduled slice releases something, count snapshots "
                "never go back and never exceed the input, the use::state / use::state_null outputs are exactly the body "
                "applied to the value carried from the previous slice; the Lean driver judges the same executions with "
                "runBatches / runSliced / simSnapsOk (a rejected execution is a disagreement). The histogram records whether "
                "executions with re-released snapshots, snapshots ahead of / behind the batches, and one-sided empty batches "
                "were reached."),
    level_note=("The simulator part explores bounded scenarios only (that is what the property's quantifier asks for); it "
                "judges executions, it does not compare the SET of explored executions with the model's schedule space "
                "(completeness of exploration is C37). hooks_same_point is proved for the production schedule only: in the "
                "simulator the hooks of one slice are released together in one tick but a snapshot hook decides its version "
                "independently of the batch hook (observed: snapshots ahead of and behind the batched prefix), so 'same "
                "point' there means 'same tick', which the model has by construction (one step = one slice). NoOrder "
                "batch hooks, keyed batch hooks and use::atomic hooks (see C34) are not in the C31 models; the hook "
                "implementations themselves are tied in C36."),
    trusted_base=["hand-written model of the sliced! macro expansion (pinned text, not translated)",
                  "hydro_lang emit_core lowering of Batch / DeferTick / CycleSource for the 7 corpus flows (production) and the 5 simulator flows: exercised and diffed, not translated",
                  "bolero's exhaustive driver enumerates the simulator's decision space (C37)"],
    assumptions=["production code generation: one DFIR tick per slice, a batch is what arrived in that tick",
                 "simulator scenarios: all input is sent before the first tick and the run ends at quiescence (SimReceiver::collect)"],
)
