SPEC = dict(
    id="C36",
    lean_project="HvSim", props_module="HvSim.Props.C36", driver="hvdrv_sim",
    harness="hv_sim", bin="hv_sim", mode="c36",
    cases={"quick": 2600, "thorough": 60000},
    level="proof",
    design_ref="DESIGN.md §5 C36",
    technique="Lean 4 proofs over all choice tapes (invariants / induction over the hooks' loops and over histories) + differential correspondence of the real hooks and run_hooks under a scripted bolero driver",
    level_text=("Model: every SimHook of hydro_lang/src/sim/runtime.rs (StreamHook total/no order, KeyedStreamHook both orders, "
                "SingletonHook, PassthroughSingletonHook, KeyedSingletonHook, the six TopLevel* hooks) and every SimInlineHook (StreamOrderHook, MergeOrderedHook, KeyedStreamOrderHook, PartiallyOrderedStreamHook, KeyedMergeOrderedHook) transcribed line by line as "
                "functions of (pending queues, choice tape, force_nontrivial), plus run_hooks' two passes, hook_can_release and "
                "can_run of compiled.rs. Theorems, for every tape: ordered inputs release a prefix, unordered ones complementary "
                "in-order sub-multisets (Split), per key for keyed inputs (KeyedRel, keyedRel_per_key); released ++ remaining is a permutation of the "
                "pending items for every stream-releasing hook kind (released_plus_remaining_perm, stated on Hook.auto + Hook.release, i.e. on what run_hooks calls per hook); over every history of pushes/decisions the released versions of a SingletonHook "
                "(snapshot_version_monotone) and of a PassthroughSingletonHook incl. its unchanged re-releases (passthrough_snapshot_version_monotone) never decrease; "
                "a KeyedSingletonHook decision is, per key, unchanged / withheld / a buffered version with the older ones dropped, hence never older than the key's last snapshot; StreamOrderHook releases a permutation and MergeOrderedHook an order-preserving interleaving; "
                "run_hooks on the whole hook list of a runnable tick (SimTick::can_run) with idle, well-formed hooks never panics, every hook records and releases a decision and at least one decision is non-trivial, for every tape and every hook kind (runHooks_runnable_tick_releases = hook_auto_total + the two-pass forcing argument runHooks_some_nontrivial); same for a single-hook observation. "
                "F36 (run_hooks panicked on a runnable tick holding a PassthroughSingletonHook with an empty buffer: every tape, reproduced end to end) is FIXED in /repo: the hook now keeps last_released and re-releases it as a trivial decision, is_ready() waits for the fold's first value; the former refutation theorem is replaced by the positive theorem above and the witness is a passing corpus case + a hydro_lang regression test. Tie: the same op lines (hook "
                "creation, feeding, autonomous_decision with a tape, release_decision, can_run, run_hooks via a cfg-guarded "
                "re-export) run on the real hooks with a scripted DynDriver and on the compiled model; every answer, the "
                "driver-call log (ranges + values), the sequence of hook calls run_hooks makes with the force_nontrivial argument of each (observed through a recording SimHook wrapper) and the queue contents are diffed; the property is also evaluated on the real "
                "outputs by an independent oracle (prefix/subset/permutation/version/is_ready/progress checks written against the property, with its own record of released snapshots)."),
    level_note=("Trusted: Lean kernel + propext/Classical.choice/Quot.sound; FxHashMap iteration order is an input of the model "
                "(observed from the real map and written into the op line); Hook.WF (distinct hash-map keys; a KeyedSingletonHook key with an empty queue has been released before) is a hypothesis of the no-panic theorem; it holds for freshly created hooks fed by entry(k).or_default().push_back(v) (by inspection of builder.rs, not modelled) and is preserved by every decision + release (hook_wf_preserved, runHooks_preserves_wf); run_hooks is shown to act hook by hook (runHooks_is_hookwise), which carries the per-hook theorems to each component of its result: runHooks_tick_decisions_sound states the prefix / sub-multiset / per-key / snapshot clause (HookSound, by hook kind) for every hook of a tick on run_hooks' own output, runHooks_nothing_lost_nothing_twice the permutation clause; the choice-tape convention 'every generate() consumes one entry' is that of the harness's scripted driver - bolero's exhaustive driver draws nothing for one-value ranges and its byte driver consumes by type width, which changes tapes but not the sets of decisions; unsync mpsc channel, VecDeque, bolero's Borrowed/"
                "scope plumbing are exercised, not modelled; the keyed inline hooks have no theorem (correspondence + oracle only); the scheduler loop around "
                "run_hooks (LaunchedSim::step) are not modelled; harness/differ are our code."),
    trusted_base=["FxHashMap iteration order taken as an explicit input (association list in observed order)",
                  "dfir_rs unsync mpsc channel / VecDeque / bolero scope exercised by correspondence, not modelled",
                  "LaunchedSim::step (async DFIR progress, tick execution, inline hooks) not modelled"],
    assumptions=["items are u32; every generate() call consumes one tape entry mapped into its range",
                 "hooks are idle (no pending manual decision) when run_hooks starts, as in the scheduler"],
)
