SPEC = dict(
    id="C36",
    lean_project="HvSim", props_module="HvSim.Props.C36", driver="hvdrv_sim",
    harness="hv_sim", bin="hv_sim", mode="c36",
    cases={"quick": 2600, "thorough": 60000},
    level="proof",
    design_ref="DESIGN.md §5 C36",
    technique="Lean 4 proofs over all choice tapes (invariants / induction over the hooks' loops and over histories) + differential correspondence of the real hooks and run_hooks under a scripted bolero driver",
    level_text=("Model: every SimHook of hydro_lang/src/sim/runtime.rs (StreamHook total/no order, KeyedStreamHook both orders, "
                "SingletonHook, PassthroughSingletonHook, KeyedSingletonHook, the six TopLevel* hooks) and every SimInlineHook (StreamOrderHook, MergeOrderedHook, KeyedStreamOrderHook, PartiallyOrderedStreamHook, KeyedMergeOrderedHook) transcribed line by line as "
                "functions of (pending queues, choice tape, force_nontrivial), plus run_hooks' two passes, hook_can_release and "
                "can_run of compiled.rs. Theorems, for every tape: ordered inputs release a prefix, unordered ones complementary "
                "in-order sub-multisets (Split), per key for keyed inputs (KeyedRel); released ++ remaining is a permutation of the "
                "pending items; over every history of pushes/decisions a SingletonHook's released versions never decrease; "
                "a KeyedSingletonHook decision is, per key, unchanged / withheld / a buffered version with the older ones dropped, hence never older than the key's last snapshot; StreamOrderHook releases a permutation and MergeOrderedHook an order-preserving interleaving; a runnable tick with idle hooks that completes run_hooks made a non-trivial decision; the unconditional form is refuted on the model (F36: a tick holding an empty PassthroughSingletonHook panics for every tape; reproduced end to end, known finding). Tie: the same op lines (hook "
                "creation, feeding, autonomous_decision with a tape, release_decision, can_run, run_hooks via a cfg-guarded "
                "re-export) run on the real hooks with a scripted DynDriver and on the compiled model; every answer, the "
                "driver-call log (ranges + values) and the queue contents are diffed; the property is also evaluated on the real "
                "outputs by an independent oracle."),
    level_note=("Trusted: Lean kernel + propext/Classical.choice/Quot.sound; FxHashMap iteration order is an input of the model "
                "(observed from the real map and written into the op line); unsync mpsc channel, VecDeque, bolero's Borrowed/"
                "scope plumbing are exercised, not modelled; the keyed inline hooks have no theorem (correspondence + oracle only); the scheduler loop around "
                "run_hooks (LaunchedSim::step) are not modelled; harness/differ are our code."),
    trusted_base=["FxHashMap iteration order taken as an explicit input (association list in observed order)",
                  "dfir_rs unsync mpsc channel / VecDeque / bolero scope exercised by correspondence, not modelled",
                  "LaunchedSim::step (async DFIR progress, tick execution, inline hooks) not modelled"],
    refuted=["HvSim.runHooks_runnable_tick_panics_refuted"],
    assumptions=["items are u32; every generate() call consumes one tape entry mapped into its range",
                 "hooks are idle (no pending manual decision) when run_hooks starts, as in the scheduler"],
)
