SPEC = dict(
    id="C17",
    lean_project="HvGraphAlg", props_module="HvGraphAlg.Props.C17", driver="hvdrv_graphalg",
    harness="hv_graphalg", bin="hv_graphalg", mode="c17",
    cases={"quick": 1200, "thorough": 30000},
    level="proof",
    design_ref="DESIGN.md §5 C17",
    technique="Lean 4 invariant proofs over line-by-line models of topo_sort / UnionFind / SubgraphMerge + differential correspondence with the real code",
    level_text=("Theorems (all finite graphs, unbounded size): the line-by-line model of topo_sort (recursive DFS with temporary/"
                "permanent marks, the map_err cycle reconstruction and the final drain; FnMut predecessor closure) terminates, "
                "returns Ok exactly when the visited graph is acyclic, Ok(order) lists exactly the reachable nodes once with every "
                "edge p->x having p strictly earlier, Err(cycle) is a genuine cycle (non-empty, nodes distinct, consecutive edges, "
                "closes). UnionFind (insert-self-then-recurse find with full path compression, union keeping a's root): find "
                "terminates, returns the tree root, compression changes no root, and after ANY history of union/find/same_set "
                "same_set(a,b) <-> a,b connected by the unioned pairs. SubgraphMerge (new, try_merge with window cycle check and "
                "window re-sort, subgraphs) is modelled line by line and tied by correspondence; its invariant theorems are in progress "
                "(partial). Tie: bounded-exhaustive digraphs (all <=3-node digraphs with loops, all loop-free 4-node digraphs; thorough: "
                "all 4-node digraphs with loops, all loop-free 5-node digraphs), exhaustive small union histories, exhaustive small "
                "DAG x merge orders, plus seeded random graphs / merge sequences / enemy sets, run through the real pub functions and "
                "the compiled model, every answer diffed; property clauses evaluated on the real code by independent Rust oracles."),
    level_note=("Trusted: Lean kernel + propext/Classical.choice/Quot.sound; slotmap maps modelled as partial functions, "
                "absent-key panics modelled as defaults (a real panic is a `panic` answer and shows up as a difference); HashSet "
                "iteration order in the enemy remap is unobservable; debug_assert!s are exercised (harness builds with "
                "debug-assertions) but not modelled except the one in subgraphs(); validate_topo_sort is modelled and diffed, no theorem."),
    trusted_base=["slotmap SecondaryMap/SparseSecondaryMap modelled as partial functions; slotmap key Ord = insertion order of a fresh SlotMap",
                  "std HashMap/HashSet/BTreeSet/Vec modelled by abstract behaviour (HashSet iteration order is unobservable in try_merge)"],
    assumptions=["node ids are slotmap keys of one SlotMap without removals (stale-version keys not modelled)",
                 "recursion depth of topo_sort / find is not bounded by the stack (no stack-overflow modelling)"],
)
