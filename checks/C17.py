SPEC = dict(
    id="C17",
    lean_project="HvGraphAlg", props_module="HvGraphAlg.Props.C17", driver="hvdrv_graphalg",
    harness="hv_graphalg", bin="hv_graphalg", mode="c17",
    cases={"quick": 1200, "thorough": 30000},
    level="proof",
    design_ref="DESIGN.md §5 C17",
    technique="Lean 4 invariant proofs over line-by-line models of topo_sort / UnionFind / SubgraphMerge + differential correspondence with the real code",
    level_text=("Theorems (all finite graphs / all histories, unbounded): the line-by-line model of topo_sort (recursive DFS with "
                "temporary/permanent marks, the map_err cycle reconstruction and the final drain; FnMut predecessor closure) "
                "terminates, returns Ok exactly when the visited graph is acyclic, Ok(order) lists exactly the reachable nodes once "
                "with every edge p->x having p strictly earlier, Err(cycle) is a genuine cycle (non-empty, nodes distinct, consecutive "
                "edges, closes). UnionFind (insert-self-then-recurse find with full path compression, union keeping a's root): find "
                "terminates, returns the tree root, compression changes no root, and after ANY history of union/find/same_set "
                "same_set(a,b) <-> a,b connected by the unioned pairs. SubgraphMerge (new; try_merge with enemy check, window cycle "
                "check, union, predecessor/enemy remap, window re-sort via topo_sort with the path-compressing closure, rebuild of "
                "toposort_node and sg_idx): invariant Inv = order is a permutation of the nodes and the concatenation of the groups, "
                "each group is the contiguous range sg_idx..+sg_len headed by its representative and equals its union-find class, the "
                "order is a topological order of the node graph (hence of the quotient graph), subgraph_preds/enemies describe the "
                "quotient edges / enemy classes, no enemy pair in one group. Proved: new_establishes_Inv, tryMerge_preserves_Inv "
                "(never panics/bug, a refused call changes nothing, a successful call joins exactly the two classes), all merge "
                "sequences by induction (merge_sequences_preserve_Inv, new_then_merges_Inv) and all histories of try_merge/find/"
                "same_set calls from new (reachable_Inv), subgraphs() yields exactly the groups, tryMerge_refuses_iff (false <-> "
                "enemy pair between the groups or a third group on a quotient path between them), "
                "tryMerge_refuses_iff_cycle_or_conflict (the same with the cycle stated independently of the search: false <-> "
                "different groups and (enemy pair between them or the quotient graph of the partition with the two groups "
                "united has a cycle, MergeWouldCycle; equivalence mergeWouldCycle_iff in Proofs/SMQuotient.lean)), "
                "reachable_tryMerge_refuses_iff (that characterisation and no-panic in every state reachable from new), "
                "sameSet_find_agree_with_groups (the union-find inside SubgraphMerge: same_set(a,b) <-> a,b in one subgraphs() "
                "group, find(a) = first node of a's group), "
                "cycle-check loop termination. All SubgraphMerge/topo theorems assume node ids and predecessors < n (the "
                "driver checks this before calling the model; the model fuel n+1 is proved sufficient). Tie: bounded-exhaustive digraphs (all <=3-node digraphs "
                "with loops, all loop-free 4-node digraphs; thorough: all 4-node digraphs with loops, all loop-free 5-node digraphs), "
                "exhaustive small union histories, every loop-free digraph on <=3 (thorough <=4) nodes x several all-pairs merge "
                "orders x enemy sets, plus seeded random graphs / merge sequences / enemy sets, run through the real pub functions "
                "and the compiled model, every answer (order, cycle, representative, bool + full subgraphs() listing) diffed; the "
                "property clauses are evaluated on the real code by independent Rust oracles."),
    level_note=("Trusted: Lean kernel + propext/Classical.choice/Quot.sound; slotmap maps modelled as partial functions, "
                "absent-key panics modelled as defaults (a real panic is a `panic` answer and shows up as a difference); HashSet "
                "iteration order in the enemy remap is unobservable; sort_unstable+dedup / BTreeSet modelled as sorted-set insertion; "
                "debug_assert!s are exercised (harness builds with debug-assertions) but not modelled except the one in subgraphs(); "
                "validate_topo_sort: theorem for duplicate-free orders only (duplicates are diffed, not proved). The invariant's "
                "ghost group list is proved equal to the subgraphs() listing (subgraphs_yields_groups). Driver only: between two "
                "input lines the model's partial maps are re-tabulated over the keys < n (tableLookup/tabulate in Driver/Main.lean, "
                "for speed; agreement on keys < n is by construction, not a theorem). validate_topo_sort is outside the fixed "
                "statement (extra). The input-distribution histogram counts the anchored try_merge branches (window size, "
                "direct u->v edge skipped, predecessor group outside the window pruned, cycle through 1/2/.. intermediate groups, "
                "declared vs inherited enemy, argument order swapped, other groups moved by the window re-sort)."),
    trusted_base=["slotmap SecondaryMap/SparseSecondaryMap modelled as partial functions; slotmap key Ord = insertion order of a fresh SlotMap",
                  "std HashMap/HashSet/BTreeSet/Vec modelled by abstract behaviour (HashSet iteration order is unobservable in try_merge)"],
    assumptions=["node ids are slotmap keys of one SlotMap without removals (stale-version keys not modelled)",
                 "recursion depth of topo_sort / find is not bounded by the stack (no stack-overflow modelling)"],
)
