import importlib.util
import os
import subprocess

_HERE = os.path.dirname(os.path.abspath(__file__))
_HARNESS = os.path.join(os.path.dirname(_HERE), "harness", "hv_hydro")


def _translate(ctx):
    """(T) re-extract the emit_core lowering table into Gen/Lowering.lean; check the corpus files are the
    ones gen_programs.py generates (terms <-> Rust programs)."""
    sp = importlib.util.spec_from_file_location("hv_hydro_translate", os.path.join(_HARNESS, "translate_lowering.py"))
    mod = importlib.util.module_from_spec(sp)
    sp.loader.exec_module(mod)
    res = mod.translate(ctx["repo"], ctx["verif"])
    p = subprocess.run(["python3", os.path.join(_HARNESS, "gen_programs.py"), "--check"], capture_output=True, text=True)
    res.append(("program corpus = gen_programs.py output (term <-> Rust source)", p.returncode == 0,
                (p.stdout + p.stderr).strip()[:200]))
    return res


SPEC = dict(
    id="C30",
    lean_project="HvHydro", props_module="HvHydro.Props.C30", driver="hvdrv_hydro",
    harness="hv_hydro", bin="hv_hydro", mode="c30",
    cases={"quick": 1500, "thorough": 40000},
    translate=_translate,
    level="proof",
    design_ref="DESIGN.md §5 C30",
    technique="Lean 4 proofs about the per-tick model ('tick lifetimes, defer_tick_lazy) + differential correspondence with "
              "tick programs compiled by the production code generator",
    level_text=("Theorems (for all batches, histories and closures): inside a tick fold/count/reduce/first/last/limit/enumerate/"
                "unique/cross_singleton/join with a bounded side/anti_join/chain equal the corresponding List function of the "
                "tick's batch (`tick_op_eq_list_op_*`; join and anti_join keep the other side's order); a collection that uses "
                "neither defer_tick nor a cycle depends on the current tick only, whatever the earlier ticks were "
                "(`tick_state_no_leak`, `tick_state_no_leak_run`); defer_tick and a tick cycle deliver exactly the previous "
                "tick's content and nothing in the first tick (`deferTick_one_tick_later`, `tickCycle_one_tick_later`); "
                "a tick cycle with an INITIAL value (`Tick::cycle_with_initial`, behind `sliced!{use::state}`) over an Optional "
                "reads the initial value in the first tick and afterwards exactly what the previous tick sent — null after a "
                "tick that sent null, however non-null the initial collection still is (`optionalCycle_initial_only_first_tick`, "
                "`optionalCycle_null_stays_null`; Singleton: `singletonCycle_initial_only_first_tick`), proved on the "
                "transcription of hydro_lang's create_source_with_initial (`from_previous_tick.or(initial.filter_if("
                "optional_first_tick(()).is_some()))` out of ChainFirst / DeferTick / SingletonSource{first_tick_only} / "
                "CrossSingleton nodes), whose source text — with filter_if, is_some, into_singleton, or, unwrap_or, zip inside a tick, "
                "Tick::cycle[_with_initial], optional_first_tick — is re-extracted every run (`cycle_sources_match`); "
                "`Optional::or`/`unwrap_or` = first non-null (`tick_op_eq_list_op_or`), `tick.singleton` every tick / "
                "`optional_first_tick` first tick only (`singletonSource_every_tick_firstTick_only_first`); "
                "across_ticks(fold) continues from the previous tick's accumulator (`acrossTicks_accumulates`); sort returns a "
                "permutation that is pairwise ordered by the element order, proved a total order (`tick_op_eq_list_op_sort`). "
                "The tick model `evalAt` is denotational (a collection is a function of the tick history), so the tick_op / "
                "no-leak theorems unfold it; what carries the 'tick lifetime is `tick_persistence_machine_no_leak` (added in "
                "review): an operator state machine whose cell is re-initialised by write_tick_end after every tick equals the "
                "per-batch function, whatever state it started from. Tie: 79 tick programs "
                "(all operators, defer_tick on streams and optionals, stream tick cycles, Optional cycles with an initial "
                "value whose body sends null while the initial is non-null, plain Optional cycles, Singleton cycles with "
                "initial, across_ticks; cycle programs also run over 3..7 ticks) compiled through FlowBuilder::generate_embedded, run "
                "tick by tick with random batches; every tick's output is diffed with the Lean driver and checked on the real "
                "code against plain Rust iterators and against a fresh single-tick instance (state leak); added in review: "
                "`lazyDefer_does_not_schedule_tick` — on a hand-transcribed model of run_available_sync + the end-of-tick "
                "schedule test of the generated tick closure (only NON-lazy tick-boundary handoffs set can_start_tick), a "
                "program all of whose handoffs are lazy (what DeferTick lowers to) runs exactly one tick per run_available "
                "call however much deferred data is pending; tied to the code by an ORACLE only: every case is also driven through the runtime's own scheduler (run_available_sync "
                "per fed batch instead of run_tick_sync) and must run exactly one tick per step — data parked in a "
                "defer_tick_lazy handoff (DeferTick, tick cycles) does not schedule a tick by itself — and give the same "
                "per-step outputs, i.e. the deferred values arrive exactly in the next tick that runs; (T) the lowering "
                "table incl. tick_state_lifetime = 'tick and DeferTick -> defer_tick_lazy is re-extracted every run "
                "(theorem lowering_table_matches of C28)."),
    level_note=("Trusted / not modelled: per-tick semantics of the DFIR operators transcribed by hand (tied by correspondence); "
                "one tick cycle per program (a Stream, Optional or Singleton of i64; Optional/Singleton with or without initial value); "
                "the library code that assembles cycle_with_initial is pinned textually (whitespace-normalised function "
                "bodies), not parsed; KeyedSingleton / KeyedStream cycles and `sliced!` state syntax itself are not in the corpus; max/min are instances of reduce; hash order of keyed fold output canonicalised by sorting; ticks are driven explicitly by "
                "run_tick_sync in the model; the scheduler model behind lazyDefer_does_not_schedule_tick (run_available_sync, "
                "the `if false || !buf.is_empty()` test of meta_graph.rs, which handoffs are lazy) is transcribed by hand and "
                "tied only by the run_available oracle on the real code, with input streams that never wake the runtime; keyed collections inside a tick other than fold_keyed are not modelled."),
    trusted_base=["per-tick semantics of DFIR operators with 'tick persistence transcribed from dfir_lang/src/graph/ops",
                  "harness/hv_hydro/gen_programs.py maps tick terms to Rust programs (reproducibility checked each run)",
                  "DFIR sort() modelled as List.mergeSort under Ord of i64/tuples"],
    assumptions=["closures passed to q!() are pure and total", "every tick is run explicitly (run_tick_sync) by the embedding code"],
)
