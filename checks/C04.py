_common = dict(lean_project="HvLatSpec", driver="hvdrv_latspec", harness="hv_latspec", bin="hv_latspec")
SPEC = dict(
    id="C04",
    parts=[
        dict(_common, props_module="HvLatSpec.Props.C04", mode="c04", cases={"quick": 2000, "thorough": 60000}),
        dict(_common, props_module="HvLatSpec.Props.C04UF", mode="c04uf", cases={"quick": 1500, "thorough": 40000}),
    ],
    level="proof",
    design_ref="DESIGN.md §5 C04",
    technique="Lean 4 refinement proof by induction on a type descriptor (abs(merge a b) = join (abs a) (abs b)) + union-find forest/partition proof (same <-> Relation.EqvGen) + differential correspondence with the real lattices",
    level_text=("Part 1 (Props/C04.lean): a descriptor universe Max<u64>, Min<u64>, (), Conflict, SetUnion, MapUnion, WithBot, WithTop, "
                "Pair (derive(Lattice)), VecUnion, DomPair<Max<u64>,_> with `merge`/`lattice_from`/`is_bot` transcribed per impl, an abstraction `abs` into the "
                "mathematical object (number with max/min, option-lifted, membership predicate, key->Option value with absent keys and "
                "bottom values both erased, product, finite sequence with extension, equal-or-conflict, dominating-key pair) and theorems, by induction on the "
                "descriptor hence for every nesting and every receiver representation (hash-like or Vec) with the other side an arbitrary "
                "list (= any IntoIterator representation): merge_refines_join, merge_wf, latticeFrom_abs, merge_repr_independent, "
                "history_refines_join (folds of merges), isBot_is_identity. Part 2 (Props/C04UF.lean): the parent map as association list, "
                "`find` with both loops and path compression exactly as in union_find.rs (incl. the loop-detected branch) with fuel map "
                "size+1; theorems find_fuel_suffices (pigeonhole bound on forests), find_preserves_same, union_preserves_forest, "
                "reachable_forest, merge_is_partition_join and the property same_iff_eqvGen: after ANY list of union/merge/same operations "
                "from the empty map, `same a b` is true iff Relation.EqvGen of all unioned/merged pairs relates a and b. No partial theorems. "
                "Tie: the harness drives the real crate through 37 concrete nested types x receiver families (HashSet+HashMap, BTreeSet+BTreeMap, "
                "Vec+HashMap) x other representations (Hash*, BTree*, Vec+VecMap, Vec+HashMap, Singleton, Option, Array) on single merges, "
                "merge histories, lattice_from and is_bot, and UnionFind<HashMap>/<BTreeMap> with VecMap/BTreeMap/HashMap/Singleton/Option/"
                "Array others on union/merge/same histories; every answer (flag, canonical value; for union-find the exact parent map after "
                "path compression) is diffed against the compiled model, and the property is evaluated on the real code against an "
                "independent Rust implementation of the abstract join / an independent partition oracle."),
    level_note=("Trusted: Lean kernel + propext/Classical.choice/Quot.sound; std/hashbrown collections modelled as duplicate-free lists / "
                "association lists; the refinement theorem assumes representable values (u64 range, distinct map keys: the documented "
                "precondition of VecMap); Point (merge panics on inequal values) and DomPair with a partially ordered key (not in the property's list of models) and Max/Min over other carriers than "
                "u64 are not modelled; F8: find may diverge on cyclic maps built with UnionFind::new — outside the domain (reachable_forest), "
                "never executed; lattice_from for union-find is only run on parent<=child inputs."),
    trusted_base=["std HashSet/BTreeSet/Vec/HashMap/BTreeMap and lattices::collections small containers modelled as lists / association lists",
                  "HashMap-other iteration order in UnionFind::merge is not modelled: after such a merge the raw parent map is not compared (same/parts/flags still are)"],
    assumptions=["values are u64; map keys distinct in both operands for the refinement theorem (duplicate-key Vec others are still run in the correspondence)",
                 "union-find histories start from the empty map or a parent<=child forest"],
)


# The tombstone lattices are lattice types of the same crate; their mathematical model
# (live = inserted \ tombstoned, tombstones = union; see Props/C05.lean) is C05's model, so this
# property also runs that part (same theorems module, harness mode and oracle as ./check C05).
def _with_c05_part(spec):
    import importlib.util, os
    here = os.path.dirname(os.path.abspath(__file__))
    sp = importlib.util.spec_from_file_location("check_C05_for_C04", os.path.join(here, "C05.py"))
    mod = importlib.util.module_from_spec(sp)
    sp.loader.exec_module(mod)
    c5 = mod.SPEC
    keys = ("lean_project", "props_module", "driver", "harness", "bin", "mode", "cases", "extra_args",
            "translate", "extra", "theorems", "harness_timeout", "driver_timeout")
    spec["parts"] = list(spec["parts"]) + [{k: c5[k] for k in keys if k in c5}]
    return spec


SPEC = _with_c05_part(SPEC)
