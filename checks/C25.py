import os
import re


def translate(ctx):
    """text anchors of the ordering construction the model transcribes (a rewrite of these breaks the tie)"""
    repo = ctx["repo"]
    f2p = open(os.path.join(repo, "dfir_lang/src/graph/flat_to_partitioned.rs")).read()
    mg = open(os.path.join(repo, "dfir_lang/src/graph/meta_graph.rs")).read()
    fb = open(os.path.join(repo, "dfir_lang/src/graph/flat_graph_builder.rs")).read()
    g = f2p[f2p.find("fn find_access_group_ordering"):f2p.find("fn find_subgraph_unionfind")]
    a1 = ("groups.values().tuple_windows()" in g and "pairs.push((node_a, node_b))" in g)
    u = f2p[f2p.find("fn find_subgraph_unionfind"):f2p.find("fn make_subgraphs")]
    a2 = ("all_preds.entry(node_id).unwrap().or_default().push(src);" in u and
          re.search(r"all_preds\s*\.entry\(consumer\)\s*\.unwrap\(\)\s*\.or_default\(\)\s*\.push\(node_id\);", u) is not None and
          "for &(src, dst) in access_group_pairs" in u and ".chain(access_group_pairs.iter().copied())" in u)
    a3 = ("BTreeMap<GraphNodeId, BTreeMap<Option<u32>, Vec<(GraphNodeId, &'a ResolvedHandoffRef, Span)>>>" in mg and
          ".entry(resolved_ref.access_group)" in mg)
    a4 = ("Every `#mut` must be in its own group" in fb and "If any singleton reference has an explicit group number, they all must have one" in fb)
    return [("find_access_group_ordering: consecutive groups (tuple_windows), all pairs", a1, "flat_to_partitioned.rs"),
            ("find_subgraph_unionfind: ref target -> borrower, borrower -> pipe consumer, access-group preds + enemies", a2, "flat_to_partitioned.rs"),
            ("reference groups keyed by Option<u32> in a BTreeMap (None first, ascending)", a3, "meta_graph.rs"),
            ("builder validation: all-or-none explicit groups, every #mut in its own group", a4, "flat_graph_builder.rs")]


SPEC = dict(
    id="C25",
    lean_project="HvTick", props_module="HvTick.Props.C25", driver="hvdrv_tick",
    harness="hv_tick", bin="hv_tick", mode="c25",
    cases={"quick": 500, "thorough": 8000},
    translate=translate,
    level="proof",
    design_ref="DESIGN.md §5 C25",
    technique="Lean 4 proofs about the partitioner's reference-ordering edges and about execution of closures holding "
              "references; differential correspondence on a dfir_syntax! corpus of #{N} [mut] references (DFIR side)",
    level_text=("Partial (DFIR side only). Model: the edges built for a referenced handoff — producer -> handoff, handoff -> "
                "borrower, borrower -> pipe consumer, and for consecutive access groups (BTreeMap<Option<u32>> order, "
                "tuple_windows) every member of the earlier -> every member of the later — and the execution of closures "
                "(each for all its items) on a singleton or Vec state. Theorems: access_groups_in_order (the consecutive-group "
                "edges order every pair of groups, for any number of groups and gaps), "
                "ref_runs_after_producers_before_consumers, ref_reads_final_value (in a group-ordered schedule with every #mut "
                "in its own group, a reader sees the producers' value with exactly the earlier groups' mutators applied, each "
                "for all its items, none of a later group), sortByGroup_sorted. Hypothesis taken from C17/C18: the emitted "
                "subgraph order respects the partitioner's predecessor edges. Tie: 18 programs with 1-7 read/write closures in "
                "shuffled textual order on a singleton() or handoff() state compiled by the real dfir_syntax!, run with random "
                "sends and 0-3 trigger items per tick; every recorded read and the pipe consumer's final value are diffed against "
                "the model and checked by an independent reference interpreter; text anchors of the construction are re-checked "
                "on every run."),
    level_note=("Not covered: hydro_lang/src/handoff_ref.rs (the Hydro-level capture of references) and the token rewriting of "
                "process_singletons.rs are exercised only implicitly (the corpus goes through preprocess/postprocess_singletons); "
                "the step from `all_preds` to the emitted order (SubgraphMerge) is C17/C18's theorem, assumed here; strictness of "
                "borrower -> consumer positions relies on rustc rejecting a subgraph that both borrows and drains the buffer."),
    trusted_base=["emitted subgraph order is a topological order of all_preds with enemies separated (C17/C18)",
                  "the ordering construction is tied by text anchors + behaviour, not by a structural diff of the edge list"],
    assumptions=["one referenced state per program in the corpus", "every #mut reference has its own access group (enforced by the builder)"],
)
