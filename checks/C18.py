import importlib.util as _u, os as _os

def _translate(ctx):
    p = _os.path.join(ctx["verif"], "lean", "HvPart", "tools", "translate.py")
    sp = _u.spec_from_file_location("hvpart_translate", p)
    m = _u.module_from_spec(sp)
    sp.loader.exec_module(m)
    return m.run(("color", "catalogue", "hash", "c17model", "c17proofs", "c17thms"))

SPEC = dict(
    id="C18",
    lean_project="HvPart", props_module="HvPart.Props.C18", driver="hvdrv_part",
    harness="hv_part", bin="hv_part", mode="c18",
    cases={"quick": 2500, "thorough": 60000},
    translate=_translate,
    level="proof",
    design_ref="DESIGN.md §5 C18",
    technique="Lean 4 invariant proofs over a transcription of partition_graph (merge fixpoint, handoff insertion, delay marking) + decision tables re-translated from the Rust source + differential correspondence with the real partitioner on generated DFIR programs + independent output-condition oracle",
    level_text=("Proved for every flat graph and every accepting run of the model (no hypothesis about SubgraphMerge/topo_sort left): nodes merged "
                "into one group share their loop context (subgraph_single_loop); an operator-operator edge without an inserted handoff joins two "
                "different nodes of one group, a self-loop edge always gets a handoff, handoffs are inserted only on operator-operator edges, one "
                "per edge id (cross_edge_has_handoff, self_edge_has_handoff, handoff_only_on_operator_edges); SubgraphMerge never puts an enemy "
                "pair into one group (enemies_separated_holds: enemy-table invariant of new/try_merge proved for this project's transcription in "
                "Props/EnemiesSep.lean and lifted through the merge fixpoint), hence every edge into a delayed input received a handoff marked "
                "with the declared delay, remapped to Loop/LoopLazy in nested loops (delay_edge_marked, incl. a delayed self-edge) and "
                "delayed-edge ends, consecutive access groups and handoff/borrower pairs are in different groups (barrier_pairs_cross); in the "
                "emitted order the producer of every non-delayed pipe edge precedes its consumer (order_respects_pipe_producers: the final "
                "validate_topo_sort assert, transcribed - an ok outcome means it passed after make_loops_contiguous). Table theorems, by decide "
                "over tables re-translated from the Rust source on every run: can_connect_colorize only joins "
                "Pull->Pull/Pull->Comp/Pull->Push/Comp->Push/Push->Push and never recolours; node_color gives pull nodes out-degree<=1, push nodes "
                "in-degree<=1; no catalogue operator can be Comp; only defer_tick/defer_tick_lazy declare delays; the Tick->Loop remap. PARTIAL: "
                "the pull-then-push shape is proved per merge step only (merge_joins_pull_to_push_partial; the global in-tree/out-tree argument "
                "is not formalised, PullThenPushStatement is a def); reference-producer / borrower-before-consumer / access-group order and loop "
                "contiguity are not general theorems (ReferenceProducerOrderStatement is a def; they need the SubgraphMerge order invariant of C17 "
                "for this transcription and a proof of make_loops_contiguous) - they are decided on the real output by the oracle and by exact "
                "correspondence of the subgraph order; proved only on the former witnesses (reference_producer_order_on_witness_partial, "
                "borrower_outside_loop_block_rejected). Finding F18 (a `#ref` / access-group dependency into a loop block was hoisted before its "
                "producer) is FIXED in /repo: loop-ingress ordering edges are now added for every same-tick dependency, not only pipes. Tie: the "
                "real FlatGraphBuilder -> eliminate -> partition_graph runs on generated programs; the dumped flat graph is partitioned by the "
                "compiled model and subgraph membership, final subgraph order, handoff edges and delay marks are diffed; the oracle evaluates "
                "every clause of C18 directly on the real partitioned DfirGraph."),
    level_note=("SubgraphMerge is re-transcribed (Model/Merge.lean) and executed; of its invariants only 'no enemies in one group' is proved for "
                "this transcription, the range/order invariant is C17's (other transcription) and covered here by correspondence. topo_sort in "
                "SubgraphMerge::new is C17's transcription, copied with its proof on every run (HvPart/C17). "
                "The model represents inserted handoffs by the flat edge they replace (slot ids of new nodes are not modelled)."),
    trusted_base=["that a SubgraphMerge group is emitted as exactly one subgraph, in an order respecting every dependency (C17's range/order invariant; here correspondence + oracle)",
                  "slotmap / BTreeSet iteration orders (ascending keys)",
                  "FlatGraphBuilder is exercised, not modelled"],
    assumptions=["graphs reachable from DFIR surface syntax via FlatGraphBuilder::build + merge_modules + eliminate_extra_unions_tees + adjacent-handoff rejection",
                 "edge ids are unique (slot-map keys)"],
)
