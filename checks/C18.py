import importlib.util as _u, os as _os

def _translate(ctx):
    p = _os.path.join(ctx["verif"], "lean", "HvPart", "tools", "translate.py")
    sp = _u.spec_from_file_location("hvpart_translate", p)
    m = _u.module_from_spec(sp)
    sp.loader.exec_module(m)
    return m.run(("color", "catalogue", "hash"))

SPEC = dict(
    id="C18",
    lean_project="HvPart", props_module="HvPart.Props.C18", driver="hvdrv_part",
    harness="hv_part", bin="hv_part", mode="c18",
    cases={"quick": 2500, "thorough": 60000},
    translate=_translate,
    refuted=["HvPart.reference_producer_order_refuted", "HvPart.reference_producer_order_statement_refuted"],
    level="proof",
    design_ref="DESIGN.md §5 C18",
    technique="Lean 4 invariant proofs over a transcription of partition_graph (merge fixpoint, handoff insertion, delay marking) + decision tables re-translated from the Rust source + differential correspondence with the real partitioner on generated DFIR programs + independent output-condition oracle",
    level_text=("Proved for every flat graph and every accepting run of the model: nodes merged into one group share their loop context "
                "(subgraph_single_loop); an operator-operator edge without an inserted handoff joins two nodes of one group, handoffs are inserted "
                "only on operator-operator edges, one per edge id (cross_edge_has_handoff, handoff_only_on_operator_edges); every edge into a "
                "delayed input received a handoff marked with the declared delay, remapped to Loop/LoopLazy in nested loops (delay_edge_marked) and "
                "barrier/access-order pairs are in different groups (barrier_pairs_cross) - both using SubgraphMerge's 'enemies never share a group' "
                "(C17) as explicit hypothesis EnemiesSeparated. Table theorems, by decide over tables re-translated from the Rust source on every "
                "run: can_connect_colorize only joins Pull->Pull/Pull->Comp/Pull->Push/Comp->Push/Push->Push and never recolours; node_color gives "
                "pull nodes out-degree<=1, push nodes in-degree<=1; no catalogue operator can be Comp; only defer_tick/defer_tick_lazy declare "
                "delays; the Tick->Loop remap. PARTIAL: the pull-then-push shape is proved per merge step only "
                "(merge_joins_pull_to_push_partial; the global in-tree/out-tree argument is not formalised); producer order, reference order and "
                "loop contiguity are not theorems (they rest on C17's SubgraphMerge invariant and make_loops_contiguous) - they are decided on the "
                "real output by the oracle and by exact correspondence of the subgraph order. REFUTED: reference producers before borrowers "
                "(reference_producer_order_statement_refuted, finding F18: a `#ref` from inside a loop block to a handoff outside is hoisted by "
                "make_loops_contiguous before the producer of the handoff). Tie: the real FlatGraphBuilder -> eliminate -> partition_graph runs on "
                "generated programs; the dumped flat graph is partitioned by the compiled model and subgraph membership, final subgraph order, "
                "handoff edges and delay marks are diffed; the oracle evaluates every clause of C18 directly on the real partitioned DfirGraph."),
    level_note=("SubgraphMerge/topo_sort are re-transcribed and executed (their invariants are C17); EnemiesSeparated is a hypothesis. "
                "The model represents inserted handoffs by the flat edge they replace (slot ids of new nodes are not modelled)."),
    trusted_base=["SubgraphMerge invariant (groups = contiguous ranges, order respects edges, no enemies in a group) taken from C17",
                  "slotmap / BTreeSet iteration orders (ascending keys)",
                  "FlatGraphBuilder is exercised, not modelled"],
    assumptions=["graphs reachable from DFIR surface syntax via FlatGraphBuilder::build + merge_modules + eliminate_extra_unions_tees + adjacent-handoff rejection",
                 "edge ids are unique (slot-map keys)"],
)
