import hashlib
import os
import re

PAXOS = "/repo/hydro_test/src/cluster/paxos.rs"
PWC = "/repo/hydro_test/src/cluster/paxos_with_client.rs"
GEN = "lean/HvProto/HvProto/Gen/PaxosTable.lean"

OPS = {"==": "eq", ">=": "ge", "<=": "le", "!=": "ne", ">": "gt", "<": "lt"}


def _norm(src):
    # drop // comments (not inside strings - good enough for this file), collapse whitespace
    src = re.sub(r"//[^\n]*", "", src)
    return " ".join(src.split())


def _op(norm, pre, post):
    hits = [o for o in OPS if f"{pre} {o} {post}" in norm]
    # `>=` contains no other operator as a substring once surrounded by spaces, so at most one hit
    if len(hits) != 1:
        return None
    return hits[0]


def _fn_body(src, name):
    """text of `fn name ... { ... }` (brace matched)"""
    m = re.search(r"\bfn\s+" + re.escape(name) + r"\b", src)
    if not m:
        return None
    i = src.index("{", src.index(")", m.end()))
    # skip the where-clause / return type: find the first `{` at paren depth 0 after the signature
    depth = 0
    j = m.end()
    while j < len(src):
        c = src[j]
        if c in "(<[":
            depth += 1
        elif c in ")>]":
            if c == ">" and src[j - 1] in "-=":
                pass
            else:
                depth -= 1
        elif c == "{" and depth <= 0:
            i = j
            break
        j += 1
    depth = 0
    for k in range(i, len(src)):
        if src[k] == "{":
            depth += 1
        elif src[k] == "}":
            depth -= 1
            if depth == 0:
                return src[i:k + 1]
    return None


# sha256 of the normalised bodies of the functions the abstract Paxos model was transcribed from.
# The operator table below makes the *comparison operators and quorum sizes* of these functions part of
# the theorems (a change there re-checks the proofs); every other change to their text is reported as
# "the model was not re-derived" (the tie is broken until the model is re-transcribed).
FINGERPRINTS = {
    "acceptor_p1": "520ad9313b487b0d",
    "acceptor_p2": "f1b1cd217a1bf3ec",
    "p_p1b": "c77211e0ff46de6a",
    "recommit_after_leader_election": "a35b4ea6ae3b24f0",
    "sequence_payload": "8832cd1074d0bec6",
    "index_payloads": "46ee589611ba75e4",
    "p_ballot_calc": "372d412df06222b7",
    "paxos_core": "b2ebb90d18741ef9",
    "with_client": "9eb55070a0f1aa18",
}

# the operator sites are masked before fingerprinting so that an operator mutation is handled by the
# table (theorems re-checked) and not double-reported
MASKS = [
    (r"if Some\(ballot\) (==|>=|<=|!=|>|<) max_ballot \{ Ok\(log\) \}", "if Some(ballot) OP max_ballot { Ok(log) }"),
    (r"if Some\(&p2a\.ballot\) (==|>=|<=|!=|>|<) max_ballot\.as_ref\(\)", "if Some(&p2a.ballot) OP max_ballot.as_ref()"),
    (r"if entry\.ballot (==|>=|<=|!=|>|<) prev_entry\.ballot", "if entry.ballot OP prev_entry.ballot"),
    (r"if Some\(p2a\.ballot\) (==|>=|<=|!=|>|<) max_ballot \{ Ok\(\(\)\) \}", "if Some(p2a.ballot) OP max_ballot { Ok(()) }"),
    (r"let higher_ballot = new_entry\.ballot (==|>=|<=|!=|>|<) curr_entry_payload\.ballot;", "let higher_ballot = new_entry.ballot OP curr_entry_payload.ballot;"),
    (r"if count (==|>=|<=|!=|>|<) f \{ return None; \}", "if count OP f { return None; }"),
]


def _fp(body):
    n = _norm(body)
    for pat, rep in MASKS:
        n = re.sub(pat, rep, n)
    return hashlib.sha256(n.encode()).hexdigest()[:16]


def _quorum(norm, pat):
    m = re.search(pat, norm)
    if not m:
        return None
    return m.group(1).strip(), m.group(2).strip()


def _lean_nat_fn(expr):
    """`f + 1` / `2 * f + 1` style expression over `f` -> Lean; None if anything else"""
    e = expr.replace(" ", "")
    if not re.fullmatch(r"[0-9f+*]+", e):
        return None
    return re.sub(r"([+*])", r" \1 ", e)


def translate(ctx):
    res = []
    src = open(PAXOS).read()
    norm = _norm(src)
    table = {}
    sites = [
        ("p1bOkCmp", "if Some(ballot)", "max_ballot { Ok(log) }", "acceptor_p1: `if Some(ballot) == max_ballot { Ok(log) } else { Err(max_ballot) }`"),
        ("p2aLogCmp", "if Some(&p2a.ballot)", "max_ballot.as_ref()", "acceptor_p2: `if Some(&p2a.ballot) >= max_ballot.as_ref()` (entry goes to the log fold)"),
        ("logReplaceCmp", "if entry.ballot", "prev_entry.ballot", "acceptor_p2: `if entry.ballot > prev_entry.ballot` (stored entry is replaced)"),
        ("p2bOkCmp", "if Some(p2a.ballot)", "max_ballot { Ok(()) }", "acceptor_p2: `if Some(p2a.ballot) == max_ballot { Ok(()) }`"),
        ("recommitHigherCmp", "let higher_ballot = new_entry.ballot", "curr_entry_payload.ballot;", "recommit_after_leader_election: `let higher_ballot = new_entry.ballot > curr_entry_payload.ballot;`"),
        ("recommitSkipCmp", "if count", "f { return None; }", "recommit_after_leader_election: `if count > f { return None; }`"),
    ]
    ok_all = True
    for name, pre, post, doc in sites:
        op = _op(norm, pre, post)
        res.append((f"paxos.rs operator {name}", op is not None, f"`{pre} {op} {post}`" if op else "site not found / ambiguous"))
        if op is None:
            ok_all = False
        table[name] = (OPS.get(op, "eq"), doc)
    # Ballot order
    num_first = "self.num .cmp(&other.num) .then_with(|| self.proposer_id.cmp(&other.proposer_id))" in norm
    pid_first = "self.proposer_id .cmp(&other.proposer_id) .then_with(|| self.num.cmp(&other.num))" in norm
    res.append(("paxos.rs impl Ord for Ballot", num_first != pid_first, "num then proposer_id" if num_first else ("proposer_id then num" if pid_first else "not recognised")))
    ok_all = ok_all and (num_first != pid_first)
    # quorum sizes
    q1 = _quorum(norm, r"&acceptor_tick, ([^,]+), ([^,]+), config,")
    q2 = _quorum(norm, r"collect_quorum\(a_to_proposers_p2b, ([^,]+), ([^,)]+)\)")
    qq = {}
    for nm, q in (("p1", q1), ("p2", q2)):
        good = q is not None and _lean_nat_fn(q[0]) and _lean_nat_fn(q[1])
        res.append((f"paxos.rs quorum {nm}", bool(good), f"{q[0]} of {q[1]}" if q else "site not found"))
        ok_all = ok_all and bool(good)
        qq[nm] = (_lean_nat_fn(q[0]), _lean_nat_fn(q[1])) if good else ("f + 1", "2 * f + 1")
    # fingerprints of everything else in the decision functions
    srcs = {"with_client": open(PWC).read()}
    for fn, want in FINGERPRINTS.items():
        body = _fn_body(srcs.get(fn, src), fn)
        got = _fp(body) if body else None
        res.append((f"paxos.rs fn {fn} unchanged since the model was transcribed", got == want,
                    f"fingerprint {got} (model transcribed from {want})"))
    if ok_all:
        lines = ["-- GENERATED by checks/C40.py (translate) from /repo/hydro_test/src/cluster/paxos.rs. Do not edit.",
                 "namespace HvProto.Gen",
                 "inductive Cmp where", "  | lt | le | eq | ge | gt | ne", "deriving DecidableEq, Repr"]
        for name, (op, doc) in table.items():
            lines.append(f"/-- {doc} -/")
            lines.append(f"def {name} : Cmp := .{op}")
        lines.append("/-- `impl Ord for Ballot`: `self.num.cmp(&other.num).then_with(|| self.proposer_id.cmp(&other.proposer_id))` -/")
        lines.append(f"def ballotOrderNumFirst : Bool := {'true' if num_first else 'false'}")
        lines.append("/-- paxos_core: `leader_election(.., f + 1, 2 * f + 1, ..)` -/")
        lines.append(f"def p1Quorum (f : Nat) : Nat := {qq['p1'][0]}")
        lines.append(f"def p1Participants (f : Nat) : Nat := {qq['p1'][1]}")
        lines.append("/-- sequence_payload: `collect_quorum(a_to_proposers_p2b, f + 1, 2 * f + 1)` -/")
        lines.append(f"def p2Quorum (f : Nat) : Nat := {qq['p2'][0]}")
        lines.append(f"def p2Participants (f : Nat) : Nat := {qq['p2'][1]}")
        lines.append("end HvProto.Gen")
        text = "\n".join(lines) + "\n"
        path = os.path.join(ctx["verif"], GEN)
        old = open(path).read() if os.path.exists(path) else ""
        if old != text:
            with open(path, "w") as f:
                f.write(text)
    return res


SPEC = dict(
    id="C40",
    lean_project="HvProto", props_module="HvProto.Props.C40", driver="hvdrv_proto",
    harness="hv_proto", bin="hv_proto", mode="c40",
    cases={"quick": 250, "thorough": 6000},
    translate=translate,
    harness_timeout=14400,
    search_cases=1500,
    level="proof",
    design_ref="DESIGN.md §5 C40",
    technique=("Lean 4 invariant proofs over message-level transition systems (Paxos: Lamport SafeAt adapted to the code's "
               "acceptor rule; Raft: election safety, log matching, leader completeness and state machine safety by inductive "
               "invariants over the transcribed raft_step with ghost per-term leader log / leader commit index and message-history "
               "predicates, macro/micro-step refinement) + "
               "differential correspondence of the real raft_step / the real simulated Hydro program against the compiled model "
               "+ operator-table translation of paxos.rs"),
    level_text=("Raft: FULL for the transcribed step function, sampled for the wiring. `raftStep` is a line-by-line Lean transcription of the pure step function "
                "`raft_step` (all decision rules of raft.rs live there). Theorems, for ALL executions (any sequence of raft_step "
                "calls by any members on any batches of previously sent messages - loss, duplication, reordering, fail-stop - "
                "any timers, any requests): STATE MACHINE SAFETY `raft_committed_prefix_agreement` (no two members ever have "
                "different entries at a position both have committed; `raft_committed_prefixes_comparable`), proved from LEADER "
                "COMPLETENESS `raft_leader_completeness` (RAFT 5.4.3: the log of every later leader starts with everything an "
                "earlier leader committed; invariants over ghost per-term leader log / leader commit index, acknowledgement "
                "history, the 5.4.1 up-to-date vote check, the current-term commit rule of `advanceLoop` and match_index "
                "bookkeeping - Lemmas/RaftLC*.lean), COMMIT PROVENANCE `raft_commit_provenance`, NO RETRACTION "
                "`raft_no_retraction` (a raft_step call never lowers commit_index and never changes a committed prefix - the "
                "truncation guard), LOG MATCHING `raft_log_matching`, election safety (<= 1 leader per term over the whole "
                "history), one vote per term, leaders hold majority votes, index-consistency of logs, commit <= log length and "
                "emitted <= commit; proved on micro-steps (phases of raft_step) and transferred to whole raft_step calls by a "
                "refinement lemma. THE PROPERTY AS STATED, for the `committed` output streams: `raft_emitted_streams_never_diverge` "
                "(executions `ReachOut` record everything each member has emitted; the history of a member is exactly the first "
                "`emitted_index` entries of its log, and no two members have emitted different entries at the same position). "
                "The two `assert!`s of raft_step are modelled as `none` = the member takes no step (fail-stop), and "
                "`raft_step_never_panics` proves they never fire in any execution (every call on sent messages in a reachable "
                "state returns normally). "
                "Tie to the code: (a) the real `raft_step` is driven by a scripted "
                "adversarial network (bounded random schedules incl. partitions, crashes, a scripted figure-8 prefix; 1-5 members) and every call's outputs + resulting state are "
                "diffed against the compiled model, which also checks trace inclusion of the network; (b) the real Hydro program "
                "`raft(..)` is compiled by the production simulator backend and run under seed-derived schedules (fuzz_repro "
                "samples, not exhaustive), a cfg-guarded "
                "hook logs every protocol step, which is diffed the same way; (c) the property itself (gap-free, pairwise "
                "prefix-consistent committed sequences; one leader per term; log matching; no protocol-violation panic; externally "
                "observed committed streams = step outputs) is evaluated on the real outputs of those sampled runs. "
                "PARTIAL for Paxos: agreement (no slot has two "
                "chosen values) proved for the ABSTRACT message-level protocol transcribed from paxos.rs, for all executions of "
                "that abstract protocol, generic quorums and f+1 of 2f+1; the comparison operators / quorum sizes of the decision closures are "
                "re-extracted from paxos.rs into Lean on every run and the theorems are re-checked against them; the rest of the "
                "decision functions is fingerprinted. The abstract protocol ASSUMES two proposer-side disciplines that no theorem or "
                "executable tie connects to the code and which paxos.rs as written VIOLATES (findings F401 slot re-use under one ballot, F402 quorums counting responses instead of acceptors; see level_note) - so for the shipped Paxos example the property is refuted by these findings, not proved; there is no Paxos execution tie in this check."),
    level_note=("Modelled, not verified: the Hydro dataflow wiring of paxos.rs (batching, `sliced!` state, leader election timers) "
                "is NOT executed - the Paxos simulator run is impossible here because paxos_core uses tokio timers that the "
                "simulator runtime does not provide; Paxos is tied only by translation (operators, quorum sizes, ballot order) and "
                "fingerprints. ASSUMPTIONS of the abstract Paxos model that are guards of its `sendP2a` / of `chosen` and are NOT "
                "justified by a theorem or a tie to the code - reviewers found reasons to doubt both for the code as written: "
                "(1) one value per (ballot, slot) (guard `forall v', msgs (p2a b s v') -> v' = v`): in paxos.rs the slot base for new "
                "payloads is `p_max_slot + 1` whenever the recovered log is non-empty, and the p1b quorum snapshot that feeds "
                "`p_max_slot` is present in every tick of a leadership, so `next_slot` may be ignored and slots re-used across ticks "
                "under one ballot - REPRODUCED (finding F401, known_findings.d/F401.json, witness corpus/C40/f401_f402_witness: a second leader that recovered a non-empty log commits two different payloads at one slot under one ballot, in the hydro simulator on a copy of paxos.rs whose heartbeat timer is replaced by a scripted election trigger); "
                "(2) a quorum is f+1 DISTINCT acceptors (`isQ Q`, `chosen`): hydro_std::quorum::collect_quorum* count Ok RESPONSES "
                "per key (ballot / (slot, ballot)), the sender id is dropped, and p1a is re-broadcast with an unchanged ballot on "
                "every election trigger, so one acceptor answering twice is counted twice - REPRODUCED (finding F402, same witness crate: with f = 1 a "
                "proposer becomes leader on two answers of a single acceptor). Both findings are violations of the assumptions, i.e. the abstract theorem does NOT transfer to paxos.rs as written; no oracle in this check can emit their signatures (no Paxos execution tie). `a_checkpoint = None` (no log garbage collection) is a further assumption; the replica layer "
                "(kv_replica: apply in slot order) is not modelled. "
                "For Raft the wiring of `raft_server` is exercised only on sampled "
                "simulator schedules; `cluster_size` is taken to be the real member count (raft.rs documents it 'must match'); "
                "the two `assert!` panics of raft_step are modelled as `none` (proved unreachable; the generator never forges "
                "messages, so the Rust-panic <-> `none` correspondence itself is not exercised); crash-recovery and membership change are out of scope (fail-stop, fixed cluster)."),
    trusted_base=["Paxos: abstract model transcribed by hand from paxos.rs; only operators/quorum sizes/ballot order are machine-extracted, the remaining text is fingerprinted",
                  "Raft: HashSet/HashMap of raft_step modelled as duplicate-free list / association list (printed sorted)",
                  "hydro_lang::sim scheduler and the cfg-guarded trace hook in raft_step (observation only)",
                  "Rust `sort_by` stability (std) modelled by a stable insertion sort"],
    assumptions=["fail-stop members, fixed cluster size (Raft: cluster_size = number of members), payloads are opaque values",
                 "Raft: theorems are about executions of the transcribed raft_step (diffed against the real function on sampled inputs); the raft_server wiring around it is exercised only on sampled simulator schedules",
                 "Paxos: a proposer assigns at most one value to a (ballot, slot) pair (VIOLATED by paxos.rs: finding F401)",
                 "Paxos: a quorum of Ok replies comes from f+1 distinct acceptors, i.e. an acceptor answers a (ballot) / (slot, ballot) key at most once (VIOLATED by paxos.rs: collect_quorum counts responses, finding F402)",
                 "Paxos: no log garbage collection (a_checkpoint = None)"],
)
