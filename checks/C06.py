SPEC = dict(
    id="C06",
    lean_project="HvLat", props_module="HvLat.Props.C06", driver="hvdrv_lat",
    harness="hv_lat", bin="hv_lat", mode="c06",
    cases={"quick": 1500, "thorough": 12000},
    level="proof",
    design_ref="DESIGN.md §5 C06",
    technique="Lean 4: atomization laws per constructor (composable, all nestings by induction) + differential correspondence of atomize()",
    level_text=("Theorems, for every atomizable type of the universe ((), SetUnion, MapUnion<_,V>, WithBot<T>, WithTop<T> with V/T "
                "atomizable, every nesting depth) and all well-formed values: every atom is well-formed and not bottom; atomize yields "
                "nothing exactly when the value is bottom; merging the atoms into any bottom value (in particular Default) reproduces "
                "the value; more generally merging the atoms of a into any accumulator equals merging a; every atom is below its value. "
                "The MapUnion case is proved by commuting key lookups with the fold and reusing the WithBot law per key. Tie: "
                "atomize() of ~20 concrete atomizable Rust types (HashSet/BTreeSet/HashMap/BTreeMap backed, nesting depth <= 2, atoms "
                "are SetUnion<SingletonSet>/MapUnion<SingletonMap<..>>/WithBot/WithTop of atoms) is printed canonically and diffed with "
                "the compiled model; the oracle re-evaluates the three clauses on the real code (atoms non-bottom via IsBot, empty iff "
                "is_bot, re-merge into Default == original with the crate's ==). "
                "PARTIAL: union-find's Atomize impl is not modelled (C04 family)."),
    level_note="Trusted as C01; in the model an atom lives in the same (list) carrier as the value, the harness uses the crate's Atom types.",
    trusted_base=["std containers modelled as lists; atom iteration order of hash containers canonicalised by sorting the printed atoms"],
    assumptions=["set/map backings hold no duplicate keys", "element/key types are u32"],
)
