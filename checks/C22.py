import glob as _glob, json as _json, os as _os


def _stale_corpus(ctx):
    """A corpus witness names a program of the generated corpus (harness/hv_dfir/corpus/build.rs); when the
    generator changes, the harness can only skip it (`stale-corpus-case`). A regression witness that
    silently stops running is a broken tie: re-record the corpus file."""
    stale = []
    for st in _glob.glob(_os.path.join(ctx["work"], "p*_corpus_*", "stats.json")):
        try:
            n = _json.load(open(st)).get("hist", {}).get("stale-corpus-case", 0)
        except Exception as ex:  # unreadable stats = cannot vouch for the witness
            n = -1
        if n:
            stale.append(f"{_os.path.basename(_os.path.dirname(st))}:{n}")
    return [("corpus witnesses still name compiled corpus programs", not stale,
             "stale: " + ", ".join(stale) if stale else "all corpus cases ran", None)]


SPEC = dict(
    id="C22",
    lean_project="HvDfir", props_module="HvDfir.Props.C22", driver="hvdrv_dfir",
    harness="hv_dfir", bin="hv_dfir", mode="c22",
    cases={"quick": 1200, "thorough": 15000},
    harness_timeout=7200,
    level="proof",
    design_ref="DESIGN.md §5 C22",
    technique="Lean 4 theorems on the program denotation (perturbation invariance by induction on the program; partitioned schedule refines the denotation) + differential execution of (original, shape-perturbed) compiled program pairs",
    level_text=("Partial: the theorems are about the model's batch denotation of a program (each node evaluated once per tick on complete input lists), they do not model pull/push realisation; that the compiled code computes this denotation is tied by execution only, and the clause 'all compile or all fail' has an oracle but no theorem. Theorems: shape_perturbation_preserves_denotation — inserting identity / map(|x| x) / unary tee / unary "
                "union / tee with a dropped extra branch (forces push) / union with an extra empty source (forces pull) in front of "
                "any operator input, any number of times, leaves every sink's per-tick output unchanged on every history (induction "
                "on the node list, invariant: states and buffers agree off the fresh ids); sched_refines_denot — a partitioned "
                "schedule (subgraphs in order, each running its operators in its own order, handoffs = buffers) computes the flat "
                "program's outputs for every partition whose flattened order is a topological order of the same nodes, hence "
                "partition_independent. Tie: ~350 compiled pairs: ~200 (original, perturbed by 1-3 random stage insertions) and 133 "
                "systematic ones (every two-input operator of the catalogue, and partition / unzip, x each input resp. output port x "
                "{unary tee, unary union with [0] port, unary union with elided port, a chain of two} directly at that port) of "
                "dfir_syntax! programs covering the operator catalogue, run on the same generated inputs; the original is diffed "
                "against the Lean interpreter of the program, the variant against the interpreter of the *perturbed* program "
                "(`perturbNodes`, the function the theorem is about); for every original the partition the real compiler chose "
                "(subgraph_toposort of build_dfir_code, mapped to the model's nodes) is checked by the driver to be a well-formed "
                "schedule (the hypothesis of sched_refines_denot, decided by wfFromB) and the ticks are then evaluated subgraph by "
                "subgraph; oracle on the real code: original == variant per tick and sink (plus, because unstable sorts make some sinks "
                "bags: sort / sort_by_key outputs of original AND variant are in key order on the raw sequence, and 15 pairs that move "
                "a sort_by_key whose key disagrees with the item order between the pull and the push side give the exact documented "
                "sequence), the port wiring of every operator input of original and variant, and compile-or-not agreement of every "
                "pair through the real dfir_lang pipeline (parse, flat graph, partition, code generation) plus hand-written "
                "same-tick-cycle pairs that must be rejected alike. Refuted clause: fused_shortcircuit_shape_dependent_refuted "
                "(F221) with the fused code path transcribed as model operators and reproduced on the real code."),
    level_note=("Not modelled: the item-at-a-time fusion inside a subgraph (which operators are pull adaptors, which drain eagerly, "
                "pivot, push chain) — covered by the differential execution only. Known finding F221: operators that stop pulling "
                "early (chain_first_n, cross_singleton, defer_signal's signal port) leave lazily evaluated stateful operators "
                "(enumerate/unique/scan 'static, multiset_delta, inspect) of the same subgraph with a partially consumed input, so "
                "the same program gives different later outputs when a handoff separates them."),
    trusted_base=["rustc + dfir_macro expansion of the corpus", "closure library / item encoding shared between build.rs and the Lean model"],
    extra=_stale_corpus,
    assumptions=["perturbations are pass-through stages; programs are acyclic within a tick"],
)
