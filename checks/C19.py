import importlib.util as _u, os as _os

def _translate(ctx):
    p = _os.path.join(ctx["verif"], "lean", "HvPart", "tools", "translate.py")
    sp = _u.spec_from_file_location("hvpart_translate", p)
    m = _u.module_from_spec(sp)
    sp.loader.exec_module(m)
    return m.run(("color", "catalogue", "hash"))

SPEC = dict(
    id="C19",
    lean_project="HvPart", props_module="HvPart.Props.C19", driver="hvdrv_part",
    harness="hv_part", bin="hv_part", mode="c19",
    cases={"quick": 2500, "thorough": 60000},
    translate=_translate,
    refuted=["HvPart.acyclic_accepted_refuted"],
    level="proof",
    design_ref="DESIGN.md §5 C19, §7 F9",
    technique="Lean 4 proof over a transcription of partition_graph's dependency-graph construction (topo_sort's spec as explicit hypothesis) + translated catalogue tables + differential correspondence with the real FlatGraphBuilder/partition_graph on generated DFIR programs + independent dependency-graph oracle",
    level_text=("Theorems (all flat graphs, any topo_sort meeting its C17 specification TopoSpec): partition returns the cycle error iff the "
                "dependency graph (non-delayed pipes + reference + borrower-before-consumer + access-order + loop-ingress edges, built exactly as "
                "find_subgraph_unionfind builds all_preds) has a cycle (partition_err_iff_cycle); the reported cycle is a closed walk of that graph "
                "(reported_cycle_is_real); every accepted graph is acyclic; the conflicted-reference assert fires only on a self-dependency. "
                "'Every acyclic graph is accepted' is REFUTED on `d = defer_tick(); d -> d;` (acyclic_accepted_refuted, finding F19: SubgraphMerge::new "
                "asserts a != b on the delayed self-edge) and otherwise proved in partial form (acyclic_not_rejected_partial: no cycle error and no "
                "reference assert; that the later defensive asserts never fire is C17's SubgraphMerge invariant, covered here by correspondence). "
                "Tie: input_delaytype_fn per operator, node_color and can_connect tables are re-translated from ops/*.rs, meta_graph.rs, "
                "flat_to_partitioned.rs on every run; a program generator over the catalogue (unions, tees, joins, blocking ops, handoff()/singleton() "
                "references with access groups, defer_tick, nested loops, direct and deferred back-edges) feeds the real "
                "FlatGraphBuilder -> eliminate -> partition_graph; the dumped flat graph is partitioned by the compiled Lean model and Ok/Err, the "
                "exact reported cycle (node ids via a cfg hook), subgraphs, order, handoffs and delay marks are diffed; independently the harness "
                "rebuilds the dependency graph from the specification, decides cyclicity with Kahn's algorithm and checks Err <-> cycle and that "
                "each consecutive pair of the reported cycle is a dependency edge."),
    level_note=("topo_sort/SubgraphMerge are re-transcribed (Model/TopoSort.lean, Model/Merge.lean) and executed; TopoSpec is a hypothesis of the "
                "theorems (proved for the Rust algorithm under C17). A conflicted access-group reference makes the real code panic instead of "
                "returning Err; it is counted as a rejection (it is a self-cycle)."),
    trusted_base=["TopoSpec (topo_sort returns an order respecting every edge, or a real cycle) is an explicit hypothesis discharged by C17",
                  "slotmap iteration order = ascending slot index; BTreeMap/BTreeSet order = key order",
                  "FlatGraphBuilder (surface syntax -> flat graph) is exercised, not modelled: the model starts from the dumped flat graph"],
    assumptions=["graphs are those reachable from DFIR surface syntax through FlatGraphBuilder::build, merge_modules, eliminate_extra_unions_tees and the adjacent-handoff rejection of build_dfir_code",
                 "every input_delaytype_fn ignores its port argument (checked by the translator)"],
)
