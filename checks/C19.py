import importlib.util as _u, os as _os

def _translate(ctx):
    p = _os.path.join(ctx["verif"], "lean", "HvPart", "tools", "translate.py")
    sp = _u.spec_from_file_location("hvpart_translate", p)
    m = _u.module_from_spec(sp)
    sp.loader.exec_module(m)
    return m.run(("color", "catalogue", "hash", "c17model", "c17proofs", "c17thms"))

def _theorems():
    """property theorems of Props/C19.lean and Props/C19Asserts.lean (the latter imports the former)"""
    import re as _re
    here = _os.path.dirname(_os.path.dirname(_os.path.abspath(__file__)))
    names = []
    for f in ("C19.lean", "C19Asserts.lean"):
        src = open(_os.path.join(here, "lean", "HvPart", "HvPart", "Props", f)).read()
        src = _re.sub(r"/-.*?-/", "", src, flags=_re.S)
        for m in _re.finditer(r"^theorem\s+([^\s:({\[]+)", src, _re.M):
            if not m.group(1).startswith("aux_"):
                names.append("HvPart." + m.group(1))
    return names

SPEC = dict(
    id="C19",
    lean_project="HvPart", props_module="HvPart.Props.C19Asserts", driver="hvdrv_part",
    theorems=_theorems(),
    harness="hv_part", bin="hv_part", mode="c19",
    cases={"quick": 2500, "thorough": 60000},
    translate=_translate,
    level="proof",
    design_ref="DESIGN.md §5 C19, §7 F9",
    technique="Lean 4 proof over a transcription of partition_graph's dependency-graph construction (topo_sort: C17's transcription and correctness proof re-checked in this project) + translated catalogue tables + differential correspondence with the real FlatGraphBuilder/partition_graph on generated DFIR programs + independent dependency-graph oracle",
    level_text=("Theorems (all well-formed flat graphs; the model as run, no hypothesis about topo_sort: partition = partitionWith tsC17, where "
                "tsC17 is C17's transcription of topo_sort copied with its correctness proof into HvPart/C17 on every run, and "
                "tsC17_meets_TopoSpec proves the specification the generic theorems assume): partition returns the cycle error iff the "
                "dependency graph (non-delayed pipes + reference + borrower-before-consumer + access-order + loop-ingress edges, built exactly as "
                "find_subgraph_unionfind builds all_preds) has a cycle (partition_rejects_iff_cycle / partition_err_iff_cycle); the reported cycle "
                "is a closed walk of that graph (partition_reported_cycle_is_real); every accepted graph is acyclic; the conflicted-reference "
                "assert fires only on a self-dependency. 'Every acyclic graph is accepted' is proved in partial form "
                "(acyclic_not_rejected_partial: no cycle error, no reference assert, SubgraphMerge::new succeeds - new_accepts_enemy_pairs; "
                "handoff_edges_assert_never_fires: the assert!(handoff_edges.remove(..)) of the merge loop cannot fire; that the remaining "
                "defensive asserts - try_merge's re-toposort expect, make_loops_contiguous' expect, the final validate_topo_sort - never fire "
                "needs the SubgraphMerge order invariant, C17, and is covered here by correspondence; AcyclicAcceptedStatement stays a def). Finding F19 (`d = defer_tick(); d -> d;` made SubgraphMerge::new "
                "panic on the enemy pair (d, d)) is FIXED in /repo; the witness is accepted (delayed_self_edge_accepted). Loop-ingress edges are "
                "added for every same-tick dependency (pipes, references, access order) into a loop block since the fix of F18; a program whose "
                "only cycle goes through such a block-contiguity edge is rejected (the F9 reading: a loop block runs as one unit). "
                "Tie: input_delaytype_fn per operator, node_color and can_connect tables are re-translated from ops/*.rs, meta_graph.rs, "
                "flat_to_partitioned.rs on every run; a program generator over the catalogue (unions, tees, joins, blocking ops, handoff()/singleton() "
                "references with access groups, defer_tick, nested loops, direct and deferred back-edges) feeds the real "
                "FlatGraphBuilder -> eliminate -> partition_graph; the dumped flat graph is partitioned by the compiled Lean model and Ok/Err, the "
                "exact reported cycle (node ids via a cfg hook), subgraphs, order, handoffs and delay marks are diffed; independently the harness "
                "rebuilds the dependency graph from the specification, decides cyclicity with Kahn's algorithm and checks Err <-> cycle and that "
                "each consecutive pair of the reported cycle is a dependency edge."),
    level_note=("SubgraphMerge is re-transcribed (Model/Merge.lean) and executed; the window re-sort inside try_merge uses this project's own "
                "topo_sort transcription (Model/TopoSort.lean, unverified, correspondence only). A conflicted access-group reference makes the "
                "real code panic instead of returning Err; it is counted as a rejection (it is a self-cycle)."),
    trusted_base=["C17's topo_sort transcription (lean/HvGraphAlg Model/Topo.lean, tied to graph_algorithms.rs by C17's own correspondence check) is copied, with its proof, into this project on every run",
                  "slotmap iteration order = ascending slot index; BTreeMap/BTreeSet order = key order",
                  "FlatGraphBuilder (surface syntax -> flat graph) is exercised, not modelled: the model starts from the dumped flat graph"],
    assumptions=["graphs are those reachable from DFIR surface syntax through FlatGraphBuilder::build, merge_modules, eliminate_extra_unions_tees and the adjacent-handoff rejection of build_dfir_code",
                 "every input_delaytype_fn ignores its port argument (checked by the translator)"],
)
