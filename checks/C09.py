SPEC = dict(
    id="C09",
    lean_project="HvAlg", props_module="HvAlg.Props.C09", driver="hvdrv_alg",
    harness="hv_alg", bin="hv_alg", mode="c09",
    cases={"quick": 1500, "thorough": 40000},
    level="proof",
    design_ref="DESIGN.md §5 C09",
    technique=("Lean 4 proof: the cartesian_power iterator state machine refines the tuple enumeration (invariant + induction); "
               "each checker is the fold the code performs and its Ok is proved equivalent to its law; differential correspondence "
               "with the real checkers over operation tables"),
    level_text=("Theorems (all carriers: arbitrary item list over an arbitrary type with decidable equality, arbitrary operation functions): "
                "cartesianPower_enumerates — the CartesianPower state machine (peekable digit iterators with the go_next carry, transcribed "
                "from lattices/src/test.rs) yields exactly allTuples n items in order, never panics, with allTuples_mem/_length/_nodup/_map "
                "(exactly the N-tuples over items, len^N of them, each position tuple once); forCP_eq — a `for t in cartesian_power` loop with "
                "early return is the plain first-error loop over that list; <checker>_ok_iff_law for associativity, commutativity, idempotency, "
                "identity, inverse, nonzero_inverse, absorbing_element, left/right_distributes, distributive, no_nonzero_zero_divisors, linearity, "
                "bilinearity and the composites semigroup, monoid, commutative_monoid, group, abelian_group, semiring, ring, commutative_ring, "
                "integral_domain, field (Ok <-> conjunction of the component laws on every tuple over items), and getSingleFunctionProperties_mem. "
                "F2: the shipped linearity compared with g(q(b),q(a)); linearity_refuted_before_fix proves the clause false for that code on the "
                "2-element witness, /repo b3a76e33cee repairs it and linearity_ok_iff_law is proved for the repaired code. "
                "Semiring applications: binaryTrust_semiring_laws (Bool, all laws), multiplicity_guarded_semiring_laws (checked_add/mul on u32 "
                "modelled as partial ops on Nat: every law holds whenever neither side panics, results stay in range), cost_semiring_laws_unbounded "
                "+ cost_mulChecked_eq + cost_mulWrapping_eq_of_no_overflow (N∪{inf}, min, +: laws over unbounded Nat and agreement of the u32 code "
                "with it under the no-overflow guard), semiring_ok_of_laws (the checker accepts every sample of such a structure). "
                "PARTIAL for f64: ConfidenceScore and FuzzyLogic are NOT covered by any theorem (floating point is not modelled); their laws are "
                "only evaluated on the real f64 code by the harness oracle, which reproduces F3 (ConfidenceScore multiplication is not associative). "
                "Tie: every checker of lattices::algebra is run through closures over lookup tables on all 16 tables / 256 table pairs / all (f,g,q) "
                "over the 2-element carrier, on structured (Z_d, max/min, tropical, or/and, xor/and, projections; relabelled, perturbed) and random "
                "tables over carriers of size 3..5 with item lists of length 0..5 (thorough: all 19683 tables of size 3 for the single-operation "
                "checkers and all 65536 (f,h,g,q) for bilinearity); results (Ok / exact Err message), cartesian_power listings and len(), and "
                "semiring-application operations (f64 by bit pattern via Lean's native Float) are diffed against the compiled model; the property "
                "itself is evaluated on the real code against an independent brute-force law evaluation."),
    level_note=("Trusted: Lean kernel + propext/Classical.choice/Quot.sound; PartialEq of the element type is taken to be a lawful decidable "
                "equality (the harness uses u8); closures are pure. f64 semantics are outside the theorems (driver-only Float code, not audited "
                "by the kernel). Cost::mul is a bare u32 `+`: panics in debug, wraps in release, where distributivity fails "
                "(cost_distrib_wrap_witness; observed on the real release build, counted as an observation under the no-overflow guard, not as a failure). "
                "The for-loop fuel (len^N+1) is shown sufficient by forCP_eq."),
    trusted_base=["Rust closures passed to the checkers are pure; PartialEq on the element type is a lawful equality",
                  "u32 checked_add/checked_mul/wrapping `+` modelled on Nat (mod 2^32)",
                  "f64 operations of ConfidenceScore/FuzzyLogic: not modelled by theorems; compared bit-for-bit with Lean's native Float in the driver"],
    assumptions=["carrier elements are u8 indices into lookup tables; tables are total over the carrier",
                 "semiring laws for Multiplicity/Cost are claimed under the no-overflow guard (checked ops panic otherwise)"],
)
