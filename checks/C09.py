SPEC = dict(
    id="C09",
    lean_project="HvAlg", props_module="HvAlg.Props.C09", driver="hvdrv_alg",
    harness="hv_alg", bin="hv_alg", mode="c09",
    cases={"quick": 1500, "thorough": 40000},
    level="proof",
    design_ref="DESIGN.md §5 C09",
    technique=("Lean 4 proof: the cartesian_power iterator state machine refines the tuple enumeration (invariant + induction); "
               "each checker is the fold the code performs and its Ok is proved equivalent to its law; the composite checkers are "
               "re-translated from the Rust source on every run; differential correspondence with the real checkers over operation tables"),
    level_text=("Theorems (all carriers: arbitrary item list over an arbitrary type with decidable equality, arbitrary operation functions): "
                "cartesianPower_enumerates — the CartesianPower state machine (peekable digit iterators with the go_next carry, transcribed "
                "from lattices/src/test.rs) yields exactly allTuples n items in order, never panics, with allTuples_mem/_length/_nodup/_map "
                "(exactly the N-tuples over items, len^N of them, each position tuple once); forCP_eq — a `for t in cartesian_power` loop with "
                "early return is the plain first-error loop over that list; <checker>_ok_iff_law for associativity, commutativity, idempotency, "
                "identity, inverse, nonzero_inverse, absorbing_element, left/right_distributes, distributive, no_nonzero_zero_divisors, linearity, "
                "bilinearity and the composites semigroup, monoid, commutative_monoid, group, abelian_group, semiring, ring, commutative_ring, "
                "integral_domain, field (Ok <-> conjunction of the component laws on every tuple over items), getSingleFunctionProperties_mem, "
                "<checker>_err_msg (a checker that is not Ok answers its own message; identity says which side failed), semiring_first_failure "
                "(the composite reports its first failing component in source order) and semiring_ok_iff_semiringLaws_of_complete (on a sample covering "
                "the carrier, Ok <-> the structure is a semiring). The 11 composite checkers are not hand-modelled: their `?`-chains are regenerated from "
                "lattices/src/algebra.rs into Gen/Composites.lean on every run (translation T), and the theorems are about those generated definitions. "
                "F2: the shipped linearity compared with g(q(b),q(a)); linearity_refuted_before_fix proves the clause false for that code on the "
                "2-element witness, /repo b3a76e33cee repairs it and linearity_ok_iff_law is proved for the repaired code. "
                "Semiring applications: binaryTrust_semiring_laws (Bool, all laws), multiplicity_guarded_semiring_laws + multiplicity_results_in_range "
                "(checked_add/mul on u32 modelled as partial ops on Nat: every law holds whenever neither side panics, results stay in range), "
                "cost_guarded_semiring_laws + cost_mul_eq + cost_mul_panics_iff + cost_add_inRange/cost_mul_inRange (the shipped Cost = (u32 U {inf}, min, "
                "checked +): every law holds whenever neither side panics; mul panics exactly when two finite costs do not fit in u32 and otherwise is the "
                "unbounded tropical product) on top of cost_semiring_laws_unbounded (N U {inf}, min, +), semiring_ok_of_laws (the checker accepts every sample "
                "of such a structure). F91: Cost::mul was a bare u32 `+`, which wraps in the release build the checks run: cost_distrib_refuted_before_fix / "
                "cost_mul_value_refuted_before_fix prove distributivity and the value wrong for that code on (1, u32::MAX, 0); /repo a51aafccc7e makes it "
                "checked_add().unwrap() and the model/theorems are about the repaired code. "
                "PARTIAL for f64: ConfidenceScore and FuzzyLogic are NOT covered by any theorem about the code (floating point is not modelled); "
                "confidenceScore_/fuzzyLogic_semiring_exact_arithmetic only state the intended semantics over an exact linearly ordered commutative ring on [0,1]. "
                "For the real f64 code the laws are evaluated by the harness oracle, which reproduces F3 (ConfidenceScore multiplication is not associative). "
                "Tie: every checker of lattices::algebra is run through closures over lookup tables on all 16 tables / 256 table pairs / all (f,g,q) "
                "over the 2-element carrier, on structured (Z_d, max/min, tropical, or/and, xor/and, projections; relabelled, perturbed) and random "
                "tables over carriers of size 3..5 with item lists of length 0..5 (thorough: all 19683 tables of size 3 for the single-operation "
                "checkers and all 65536 (f,h,g,q) for bilinearity); results (Ok / exact Err message), cartesian_power listings and len(), and "
                "semiring-application operations (f64 by bit pattern via Lean's native Float) are diffed against the compiled model; the property "
                "itself is evaluated on the real code against an independent brute-force law evaluation."),
    level_note=("Trusted: Lean kernel + propext/Classical.choice/Quot.sound; PartialEq of the element type is taken to be a lawful decidable "
                "equality (the harness uses u8); closures are pure. f64 semantics are outside the theorems (driver-only Float code, not audited "
                "by the kernel). Multiplicity and Cost refuse (panic) on u32 overflow: their laws are claimed for law instances in which neither side panics; "
                "the harness accepts a panic only when the exact result does not fit in u32. "
                "The law of a composite checker is by definition the conjunction of its component laws on the sample: integral_domain and field do not test "
                "zero != one although their doc comments say 'nonzero commutative ring', so the one-element ring passes both (not counted as a finding). "
                "The for-loop fuel (len^N+1) is shown sufficient by forCP_eq."),
    trusted_base=["Rust closures passed to the checkers are pure; PartialEq on the element type is a lawful equality",
                  "u32 checked_add/checked_mul modelled on Nat (None above 2^32-1)",
                  "f64 operations of ConfidenceScore/FuzzyLogic: not modelled by theorems; compared bit-for-bit with Lean's native Float in the driver"],
    assumptions=["carrier elements are u8 indices into lookup tables; tables are total over the carrier",
                 "semiring laws for Multiplicity/Cost are claimed for law instances where no checked operation panics (u32 overflow)"],
)


# ----------------------------------------------------------------------------- translation (T)
# The composite checkers of lattices/src/algebra.rs (functions whose body is only `callee(args)?; … Ok(())`)
# are re-extracted from the source on every run into lean/HvAlg/HvAlg/Gen/Composites.lean; the driver and
# the theorems use these generated definitions, so a dropped / added / reordered component check changes the
# model the theorems are about.
import os as _os
import re as _re

_SINGLE = {"no_nonzero_zero_divisors", "left_distributes", "right_distributes", "absorbing_element", "inverse",
           "nonzero_inverse", "identity", "associativity", "commutativity", "idempotency", "linearity", "bilinearity"}
_COMPOSITE = {"monoid", "semigroup", "semiring", "ring", "integral_domain", "commutative_ring", "field",
              "commutative_monoid", "group", "abelian_group", "distributive"}


def _camel(n):
    p = n.split("_")
    return p[0] + "".join(x.capitalize() for x in p[1:])


def _strip_comments(s):
    s = _re.sub(r"/\*.*?\*/", "", s, flags=_re.S)
    return _re.sub(r"//[^\n]*", "", s)


def _split_top(s):
    out, depth, cur = [], 0, ""
    for ch in s:
        if ch in "([<":
            depth += 1
        elif ch in ")]>" and not cur.endswith("-"):
            depth -= 1
        if ch == "," and depth == 0:
            out.append(cur)
            cur = ""
        else:
            cur += ch
    if cur.strip():
        out.append(cur)
    return [x.strip() for x in out if x.strip()]


def _lean_type(t):
    t = " ".join(t.split())
    if _re.fullmatch(r"&\[S; N\]|&\[S\]", t):
        return "List α"
    if _re.fullmatch(r"&?impl Fn\(S, S\) -> S", t):
        return "α → α → α"
    if _re.fullmatch(r"&?impl Fn\(S\) -> S", t):
        return "α → α"
    if t == "S":
        return "α"
    raise ValueError(f"untranslatable parameter type `{t}`")


def translate(ctx):
    src_path = _os.path.join(ctx["repo"], "lattices/src/algebra.rs")
    src = open(src_path).read()
    src = src.split("#[cfg(test)]")[0]
    fn_re = _re.compile(r"pub fn (\w+)<([^>]*)>\(\s*(.*?)\)\s*->\s*Result<\(\), &'static str>\s*\{(.*?)\n\}", _re.S)
    fns = {}
    for m in fn_re.finditer(src):
        name, _gen, params, body = m.groups()
        fns[name] = (_strip_comments(params), _strip_comments(body))
    res = []
    found = set(fns)
    res.append(("algebra.rs: set of checker functions", found == _SINGLE | _COMPOSITE,
                f"found {sorted(found)}" if found != _SINGLE | _COMPOSITE else f"{len(found)} functions"))
    comps = {}
    for name, (params, body) in fns.items():
        stmts = [s.strip() for s in body.split(";") if s.strip()]
        calls, ok = [], True
        for s in stmts:
            if s == "Ok(())":
                continue
            mm = _re.fullmatch(r"(\w+)\((.*)\)\?", s, _re.S)
            if not mm:
                ok = False
                break
            calls.append((mm.group(1), [a.strip() for a in _split_top(mm.group(2))]))
        if ok and calls and stmts[-1] == "Ok(())":
            comps[name] = (params, calls)
    res.append(("algebra.rs: composite checkers are `?`-chains", set(comps) == _COMPOSITE,
                f"composite-shaped: {sorted(comps)}"))
    # emit in dependency order
    order, seen = [], set()

    def visit(n):
        if n in seen or n not in comps:
            return
        seen.add(n)
        for c, _ in comps[n][1]:
            visit(c)
        order.append(n)
    for n in sorted(comps):
        visit(n)
    out = ["/- GENERATED by checks/C09.py (translate) from /repo/lattices/src/algebra.rs — do not edit.",
           "   Each composite checker is the `?`-chain of its component checks, in source order. -/",
           "import HvAlg.Model.Algebra", "namespace HvAlg", "section", "variable {α : Type} [DecidableEq α]", ""]
    try:
        for n in order:
            params, calls = comps[n]
            ps = []
            for p in _split_top(params):
                pn, pt = p.split(":", 1)
                ps.append(f"({pn.strip()} : {_lean_type(pt.strip())})")
            names = {p.split(":", 1)[0].strip() for p in _split_top(params)}
            expr = "(.ok ())"
            for c, args in reversed(calls):
                largs = []
                for a in args:
                    a = a.lstrip("&").strip()
                    a = _re.sub(r"\.clone\(\)$", "", a)
                    if a not in names:
                        raise ValueError(f"{n}: argument `{a}` of `{c}` is not a parameter")
                    largs.append(a)
                if c not in fns:
                    raise ValueError(f"{n}: unknown callee `{c}`")
                expr = f"(andThen ({_camel(c)} {' '.join(largs)}) {expr})"
            out.append(f"/-- `{n}`: " + "; ".join(f"{c}({', '.join(a)})?" for c, a in calls) + " -/")
            out.append(f"def {_camel(n)} {' '.join(ps)} : Res :=\n  {expr[1:-1]}")
            out.append("")
    except ValueError as ex:
        res.append(("algebra.rs: composite bodies translate", False, str(ex)))
        return res
    out += ["end", "end HvAlg", ""]
    text = "\n".join(out)
    gp = _os.path.join(ctx["verif"], "lean/HvAlg/HvAlg/Gen/Composites.lean")
    _os.makedirs(_os.path.dirname(gp), exist_ok=True)
    if not _os.path.exists(gp) or open(gp).read() != text:
        with open(gp, "w") as f:
            f.write(text)
    res.append(("algebra.rs: composite bodies translate", True, f"{len(order)} composites -> Gen/Composites.lean"))
    return res


SPEC["translate"] = translate
