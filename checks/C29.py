import importlib.util
import os
import subprocess

_HERE = os.path.dirname(os.path.abspath(__file__))
_HARNESS = os.path.join(os.path.dirname(_HERE), "harness", "hv_hydro")


def _translate(ctx):
    """(T) re-extract the emit_core lowering table into Gen/Lowering.lean; check the corpus files are the
    ones gen_programs.py generates (terms <-> Rust programs)."""
    sp = importlib.util.spec_from_file_location("hv_hydro_translate", os.path.join(_HARNESS, "translate_lowering.py"))
    mod = importlib.util.module_from_spec(sp)
    sp.loader.exec_module(mod)
    res = mod.translate(ctx["repo"], ctx["verif"])
    p = subprocess.run(["python3", os.path.join(_HARNESS, "gen_programs.py"), "--check"], capture_output=True, text=True)
    res.append(("program corpus = gen_programs.py output (term <-> Rust source)", p.returncode == 0,
                (p.stdout + p.stderr).strip()[:200]))
    return res


SPEC = dict(
    id="C29",
    lean_project="HvHydro", props_module="HvHydro.Props.C29", driver="hvdrv_hydro",
    harness="hv_hydro", bin="hv_hydro", mode="c29",
    cases={"quick": 1500, "thorough": 40000},
    translate=_translate,
    level="proof",
    design_ref="DESIGN.md §5 C29",
    technique="Lean 4 proofs on the lowering model (sequence equality for TotalOrder kinds, per-key projection lemmas for "
              "the HashMap-state keyed scan / fold_keyed) + differential correspondence incl. key-respecting shuffles",
    level_text=("Theorems: every well-kinded program of kind TotalOrder stream / keyed stream emits, over all ticks and for "
                "EVERY tick partition, exactly the sequence its stream meaning defines (`totalOrder_preserved_program`, from "
                "C28's induction; `totalOrder_preserved_op` for each element-wise 'static operator); keyed scan (generator "
                "lowered to scan over a HashMap + flat_map) emits for each key the plain scan of that key's own values in "
                "order (`keyed_per_key_order`); per-key results of keyed fold and keyed scan depend only on the key's "
                "subsequence (`keyed_result_depends_only_on_key_subsequence_fold/_scan`), and this holds across arbitrary "
                "tick partitions and cross-key interleavings of two runs (`keyed_fold_all_partitions_interleavings`, "
                "`keyed_scan_all_partitions_interleavings`). Added in review: the same per-key theorems for EVERY "
                "KeyedStream::generator closure (Yield/Return/Break/Continue; `keyed_generator_per_key_order`, "
                "`keyed_result_depends_only_on_key_subsequence_generator`, `keyed_generator_all_partitions_interleavings`) with the "
                "instances keyed limit = per-key List.take, keyed enumerate = per-key zipIdx, keyed first = per-key head "
                "(`keyed_limit_is_take_per_key`, `keyed_enumerate_is_zipIdx_per_key`, `keyed_first_is_head_per_key`); keyed reduce "
                "(`keyed_result_depends_only_on_key_subsequence_reduce`, `keyed_reduce_all_partitions_interleavings`); keyed "
                "streams with NoOrder values: a keyed fold with a commutativity proof ends with the same entries for all "
                "partitions and all orders of the values (`keyed_noOrder_fold_all_partitions_orders`). "
                "Tie: the ordered / keyed part of the corpus (79 programs compiled "
                "through the production code generator) run under all/random tick partitions and, for keyed programs, under "
                "random interleavings of different keys that keep each key's order; outputs diffed with the Lean driver "
                "(keyed outputs compared per key via a stable sort by key) and checked on the real code against plain Rust "
                "iterators, across partitions and across interleavings."),
    level_note=("Trusted / not modelled: merge_ordered (needs a nondet! token: its interleaving is not defined by the "
                "semantics), keyed sort / unique / chain / fold_early_stop with a user closure / value_counts are outside the "
                "model; a keyed TotalOrder stream is modelled as ONE totally ordered stream of (k,v) pairs (stronger than the "
                "per-key promise; true of the lowering because keyed streams are DFIR streams of pairs), so cross-key order is "
                "only abstracted at the observer (stable sort by key); keyed streams with NoOrder values exist only as "
                "merge_unordered of keyed streams and are modelled as the unordered stream of entries; keys are i64 residues mod "
                "3 in the corpus (arbitrary ints for a few generated programs); "
                "HashMap iteration order canonicalised by sorting."),
    trusted_base=["per-tick semantics of DFIR scan / fold_keyed transcribed from dfir_lang/src/graph/ops",
                  "harness/hv_hydro/gen_programs.py maps program terms to Rust programs (reproducibility checked each run)"],
    assumptions=["closures passed to q!() are pure and total", "at least one tick runs"],
)
