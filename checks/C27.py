SPEC = dict(
    id="C27",
    lean_project="HvTick", props_module="HvTick.Props.C27", driver="hvdrv_tick",
    harness="hv_tick", bin="hv_tick", mode="c27",
    cases={"quick": 1500, "thorough": 12000},
    level="proof",
    design_ref="DESIGN.md §5 C27",
    technique="Lean 4 invariant + ranking-function proof over a transition system of the runner's atomic accesses; "
              "scripted-interleaving correspondence with the real Dfir::run through program-point hooks",
    level_text=("Model: Dfir::run / run_available / run_tick / the idle poll_fn of dfir_rs/src/scheduled/context.rs as a "
                "transition system with one program counter value per atomic access (11 points), the flag can_start_tick, "
                "the registered task waker, the task's notified bit; wake_by_ref is two environment steps (store true; "
                "task_waker.wake()) with any number of wakers in flight. Theorems, for every schedule (List Act, unbounded): "
                "wake_never_stranded (if a wake's store happened after the last tick start, the runner is not asleep "
                "un-notified without an in-flight waker that will notify it), wake_implies_future_tick (from every reachable "
                "state that owes a tick, every continuation giving the helper — the runner, or while it sleeps the in-flight "
                "waker — 7 turns starts a tick; rank function, no bound on other actors), owed_cleared_only_by_tick, and the "
                "check-then-register order is refuted (swapped_order_refuted, swapped_order_never_ticks). Tie: cfg-guarded "
                "program-point hooks in context.rs; the harness polls the real run() future with a manual waker and injects "
                "complete wakes (real Context::waker()) or their two halves separately at every visit (all single and double "
                "placements over two turns of the loop + seeded random multi-waker plans); visited-point trace, tick count, "
                "flag and notified bit are diffed against the model at every visit; independent oracle: every injected wake is "
                "followed by a tick start before the runner rests."),
    level_note=("Sequentially consistent interleaving of the atomic steps is assumed: Ordering::Relaxed effects and the "
                "internals of futures::task::AtomicWaker (register/wake as atomic actions) are trusted. The tick closure is "
                "modelled as not suspending mid-tick (a suspended tick is woken by whatever it awaits, not by WakeState). "
                "The executor contract 'a task woken while being polled is polled again' is assumed (the harness implements it). "
                "Fairness is explicit in the theorem (helper gets 7 turns)."),
    trusted_base=["futures::task::AtomicWaker register()/wake() modelled as atomic set/take of one waker slot",
                  "sequential consistency of can_start_tick accesses (Relaxed ordering not modelled)",
                  "tokio::task::yield_now outside a runtime wakes its own task and returns Pending once (as read in tokio 1.48 source)"],
    assumptions=["tick closure does not suspend mid-tick", "executor re-polls a task woken during its own poll"],
)
