SPEC = dict(
    id="C15",
    lean_project="HvSink", props_module="HvSink.Props.C15", driver="hvdrv_sink",
    harness="hv_sink", bin="hv_sink", mode="c15",
    cases={"quick": 1500, "thorough": 30000},
    level="proof",
    design_ref="DESIGN.md §5 C15",
    technique="Lean 4 refinement proof (cursor/retain arithmetic of MergeSource::poll_next -> queue semantics) + invariants over all scripts, tied to the real MergeSource/TaggedSource by a line-by-line correspondence through a cfg-guarded constructor hook",
    level_text=("Model: MergeSource::poll_next transcribed line by line (round-robin loop with poll_cursor=(poll_cursor+1)%len, deferred "
                "removal, retain pass decrementing the cursor, wrap to 0) over per-source scripts of ready/pending/end; TaggedSource as a map "
                "on scripts. Theorem aux_pollNext_refines: for every well-formed state one poll_next equals one step of a queue semantics on "
                "the sources in polling order (no index out of bounds, no unwrap of a removed slot, cursor stays in bounds). On top, for all "
                "script sets with distinct sender ids and any number of polls: no_loss_no_dup (delivered ++ still-held = produced, per sender), "
                "per_sender_order, tagged_by_sender, ends_iff_all_ended (Ready(None) iff no source left; then everything was delivered; live "
                "sources are never dropped; all ended => None), cursor_in_bounds, each_source_polled_at_most_once_per_poll, "
                "fairness_one_round (a ready source at distance p from the cursor is served after k <= p other deliveries, all of them items "
                "of pairwise different other senders: no sender is served twice while it waits, no call is wasted). Tie: the harness builds the real MergeSource over real TaggedSources over scripted streams via "
                "MergeSource::verif_new / TaggedSource::verif_new (cfg hydro_project_hydro_verif), polls it call by call and prints output, "
                "sources.len(), poll_cursor and the sources polled (in order); all are diffed against the compiled model; the property "
                "clauses are evaluated on the real code by an independent oracle."),
    level_note=("Trusted: Lean kernel; scripted streams stand for network streams (a Stream is a script of Poll values; wakers are not "
                "modelled for this property); Pin/Box erased. MultiConnectionSource::poll_next contains a textual twin of the same loop "
                "(needs live sockets): not exercised, not claimed."),
    trusted_base=["cfg-guarded hook MergeSource::verif_new/verif_state, TaggedSource::verif_new (constructs exactly what from_defn constructs)"],
    assumptions=["sender ids (tags) are pairwise distinct", "a source is not polled again after it returned None (MergeSource drops it; checked by the harness)"],
)
