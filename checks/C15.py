import re as _re


def _region(path):
    s = open(path).read()
    a = s.index("let mut out = Poll::Pending;")
    b = s.index("me.poll_cursor = 0;", a)
    return s[a:b]


def _match_part(t):
    m = _re.search(r"match .*?\n\s*\}\n\s*\n\s*// Check if we've completed a full round", t, flags=_re.S)
    return m.group(0) if m else None


def _norm(t):
    t = _re.sub(r"//[^\n]*", "", t)
    t = t.replace("active_connections", "sources")
    t = _re.sub(r"let source = &mut me\.sources\[me\.poll_cursor\];", "SLOT;", t)
    t = _re.sub(r"let id_and_stream = &mut me\.sources\[me\.poll_cursor\];\s*let \(connection_id, stream\) = id_and_stream\.as_mut\(\)\.unwrap\(\);\s*let connection_id = \*connection_id;", "SLOT;", t)
    t = _re.sub(r"match .*?\n\s*\}\n\s*\n\s*if me\.poll_cursor == start_cursor", "MATCH if me.poll_cursor == start_cursor", t, flags=_re.S)
    t = _re.sub(r"\|conn\|", "|source|", t)
    t = _re.sub(r"\bconn\.", "source.", t)
    return _re.sub(r"\s+", " ", t).strip()


def translate(ctx):
    """T-tie for the part that cannot be driven without sockets: MultiConnectionSource::poll_next
    repeats MergeSource's round-robin loop; the cursor arithmetic of both is re-extracted from the
    current source and must be identical up to the field name (the per-source match differs by design:
    it is only checked to keep its three effects)."""
    base = ctx["repo"] + "/hydro_deploy/hydro_deploy_integration/src/"
    res = []
    try:
        ra, rb = _region(base + "lib.rs"), _region(base + "multi_connection.rs")
        a, b = _norm(ra), _norm(rb)
        res.append(("MultiConnectionSource round-robin loop == MergeSource loop (cursor arithmetic, retain fix-up)",
                    a == b and "MATCH" in a, "" if a == b else "the two loops differ: " + a[:120] + " | " + b[:120]))
        ok = True
        for r in (ra, rb):
            m = _match_part(r)
            ok = ok and m is not None and "break;" in m and "any_removed = true;" in m and "= None;" in m and "Poll::Pending => {}" in m
        res.append(("per-source match keeps its effects (item -> break, end -> mark None + any_removed, Pending -> continue)", ok, ""))
    except Exception as ex:  # a fragment that cannot be found is a broken tie
        res.append(("MultiConnectionSource twin loop extraction", False, repr(ex)))
    return res


SPEC = dict(
    id="C15",
    lean_project="HvSink", props_module="HvSink.Props.C15", driver="hvdrv_sink",
    harness="hv_sink", bin="hv_sink", mode="c15",
    cases={"quick": 1500, "thorough": 30000},
    level="proof",
    translate=translate,
    design_ref="DESIGN.md §5 C15",
    technique="Lean 4 refinement proof (cursor/retain arithmetic of MergeSource::poll_next -> queue semantics) + invariants over all scripts, tied to the real MergeSource/TaggedSource by a line-by-line correspondence through a cfg-guarded constructor hook",
    level_text=("Model: MergeSource::poll_next transcribed line by line (round-robin loop with poll_cursor=(poll_cursor+1)%len, deferred "
                "removal, retain pass decrementing the cursor, wrap to 0) over per-source scripts of ready/pending/end; TaggedSource as a map "
                "on scripts. Theorem aux_pollNext_refines: for every well-formed state one poll_next equals one step of a queue semantics on "
                "the sources in polling order (no index out of bounds, no unwrap of a removed slot, cursor stays in bounds). On top, for all "
                "script sets with distinct sender ids and any number of polls: no_loss_no_dup (delivered ++ still-held = produced, per sender), "
                "per_sender_order, tagged_by_sender, ends_iff_all_ended (Ready(None) iff no source left; then everything was delivered; live "
                "sources are never dropped; all ended => None), cursor_in_bounds, each_source_polled_at_most_once_per_poll, "
                "fairness_one_round (a ready source at distance p from the cursor is served after k <= p other deliveries, all of them items "
                "of pairwise different other senders: no sender is served twice while it waits, no call is wasted). Tie: the harness builds the real MergeSource over real TaggedSources over scripted streams via "
                "MergeSource::verif_new / TaggedSource::verif_new (cfg hydro_project_hydro_verif), polls it call by call and prints output, "
                "sources.len(), poll_cursor and the sources polled (in order); all are diffed against the compiled model; the property "
                "clauses are evaluated on the real code by an independent oracle."),
    level_note=("Trusted: Lean kernel; scripted streams stand for network streams (a Stream is a script of Poll values; wakers are not "
                "modelled for this property); Pin/Box erased. MultiConnectionSource::poll_next contains a textual twin of the same loop "
                "(needs live sockets): not exercised; a translator step re-extracts both loops on every run and requires their cursor arithmetic to be textually identical."),
    trusted_base=["cfg-guarded hook MergeSource::verif_new/verif_state, TaggedSource::verif_new (constructs exactly what from_defn constructs)"],
    assumptions=["sender ids (tags) are pairwise distinct", "a source is not polled again after it returned None (MergeSource drops it; checked by the harness)"],
)
