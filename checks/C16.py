SPEC = dict(
    id="C16",
    lean_project="HvSink", props_module="HvSink.Props.C16", driver="hvdrv_sink",
    harness="hv_sink", bin="hv_sink", mode="c16",
    cases={"quick": 1500, "thorough": 30000},
    level="proof",
    design_ref="DESIGN.md §5 C16",
    technique="Lean 4 invariant proofs over all schedules of a task/waker model of the channel + line-by-line correspondence with the real channel under hand-rolled counting wakers",
    level_text=("Model: Shared{buffer, capacity, send_wakers, recv_waker}, Rc/Weak counts as integers, every Sender/Receiver "
                "operation transcribed from dfir_rs/src/util/unsync/mpsc.rs; on top, sender/receiver tasks (async programs) and "
                "a wake set; a schedule is any list of task ids (spurious polls included). Theorems for all capacities, sender "
                "programs, receive limits and schedules: fifo (received is a prefix of the global push order), "
                "lossless_exactly_once (received ++ buffer = pushed), per_sender_order, closure_consistent (None iff all senders "
                "gone and everything delivered; Err only after the receiver dropped; closed iff receiver ended), "
                "closed_sender_finishes, noStrandedSender / noStrandedReceiver (state invariants), quiescent_all_done (no "
                "deadlock: empty run queue => every task finished), delivered_all_at_quiescence. The two repaired defects "
                "(F6 stale waker, F6b close_this_sender without wake) are refuted on the pre-fix code by "
                "noStrandedSender_refuted_before_fix / noStrandedReceiver_refuted_before_fix. Tie: the harness runs real async "
                "tasks and every public Sender/Receiver operation (send futures, try_send, Sink interface, clone/drop/close) on "
                "the real channel with counting wakers, no runtime, schedule executed line by line; poll results, wakers fired "
                "(in order), received items, remaining items and the run queue are diffed against the compiled model; FIFO, "
                "closure and strandedness are also judged on the real code by an independent oracle."),
    level_note=("Trusted: Lean kernel; Rc/Weak counts modelled as integers and RefCell borrows as atomic steps (single-threaded, "
                "no re-entrancy: wakers only log); VecDeque/SmallVec as lists; Waker::clone/will_wake not modelled; task programs "
                "are the two families in the model (send a list then optionally close_this_sender; receive until None or a limit)."),
    trusted_base=["Rc/Weak strong/weak counts modelled as integers; RefCell borrow_mut sections are atomic",
                  "wakers are passive (log only): no re-entrant polling from inside wake()"],
    assumptions=["capacity is None or NonZeroUsize (bounded(0) panics by design)",
                 "tasks are polled one at a time on one thread (the type is !Send)"],
)
