SPEC = dict(
    id="C07",
    lean_project="HvGht", props_module="HvGht.Props.C07", driver="hvdrv_ght",
    harness="hv_ght", bin="hv_ght", mode="c07",
    cases={"quick": 1500, "thorough": 30000},
    level="proof",
    design_ref="DESIGN.md §5 C07",
    technique="Lean 4 proofs of the two bimorphism laws w.r.t. models of the crate's own Merge/PartialEq/IsBot (parametric theorem for the keyed construction) + differential correspondence on the real bimorphisms",
    level_text=("Theorems (all valid values: duplicate-free sets, maps with distinct keys incl. bottom values, all well-formed tries of "
                "every height): CartesianProductBimorphism satisfies f(a+a',b)==f(a,b)+f(a',b) and the right law under SetUnion's ==, "
                "is bottom-strict and keeps validity; KeyedBimorphism(f) is a strict bimorphism under MapUnion's == (which ignores bottom "
                "values) whenever f is one — parametric in f and in the value lattices, with the lattice facts it needs (LatLaws) proved "
                "to lift from values to maps, so every nesting is covered (instantiated for keyed(cp) and keyed(keyed(cp))); "
                "PairBimorphism satisfies both laws given reflexivity+idempotence (instantiated for sets) but is not bottom-strict, and "
                "KeyedBimorphism(PairBimorphism) is refuted on a concrete map with a bottom value (F23, reproduced on the real code); "
                "GHT DeepJoin satisfies both laws both as sets of rows and under the crate's == on tries (which, since the F7/F22 fixes of C08, "
                "compares the rows of well-formed tries; hypothesis: rows have the key columns), the GHT cartesian "
                "product as sets of rows and (inner-node output) under ==. Tie: the same law lines (bounded-exhaustive small values + "
                "seeded random + malformed) are evaluated on the real types with Merge::merge_owned and the crate's == exactly like "
                "check_lattice_bimorphism, both outputs are printed canonically (maps with their bottom entries, tries as structural "
                "dumps) and diffed against the model driver."),
    level_note=("Trusted: Lean kernel; HashSet/HashMap modelled as lists (no duplicates / distinct keys), iteration order sorted before "
                "comparison; GhtNodeKeyedBimorphism<GhtCartesianProductBimorphism> (factorised output, not observable through the public "
                "API) is covered only by the generic keyedJoin lemmas inside the deep join; LatticeMorphism (unary) has no shipped "
                "implementation besides closures, so nothing to prove; harness/differ are our code."),
    trusted_base=["std HashSet/HashMap modelled as duplicate-free lists / association lists with distinct keys",
                  "cc-traits collection glue (MapInsert, GetKeyValue, SimpleKeyedRef) exercised by correspondence, not modelled"],
    assumptions=["element/key types are u32 (Nat in the model)",
                 "only HashSet/HashMap backings of SetUnion/MapUnion are instantiated in the harness"],
)
