SPEC = dict(
    id="C10",
    lean_project="HvVar", props_module="HvVar.Props.C10", driver="hvdrv_var",
    harness="hv_var", bin="hv_var", mode="c10",
    cases={"quick": 1500, "thorough": 40000},
    level="proof",
    design_ref="DESIGN.md §5 C10",
    technique="Lean 4 refinement proof (history -> set / multiset) + differential correspondence with the real collections",
    level_text=("Theorems: for every insert/extend/drain history the hash-set model is the duplicate-free set of the "
                "tuples since the last drain, the counted set and the column multiset are its multiset (len, contains, "
                "get, iter, drain, == all characterised), proved by induction over the history. The model is tied to "
                "variadics/src/variadic_collections.rs by running the same histories (bounded-exhaustive over a 7-op "
                "alphabet + seeded random, arities 1-3) on the real collections and on the compiled model and diffing "
                "every answer; the property itself is also evaluated on the real code against an independent history."),
    level_note=("Trusted: Lean kernel + propext/Classical.choice/Quot.sound; hashbrown::HashTable modelled as an "
                "insertion-ordered list (iteration order canonicalised by sorting); the column transposition "
                "(VecVariadic) is not modelled, only exercised; harness/differ are our code."),
    trusted_base=["hashbrown::HashTable modelled as a list of entries; hash-order observations are sorted before comparison",
                  "VecVariadic column transposition (zip_vecs/push/drain) exercised by correspondence, not modelled"],
    assumptions=["tuples are u32 fields; Hash/Eq of the element types are coherent"],
)
