SPEC = dict(
    id="C02",
    lean_project="HvLat", props_module="HvLat.Props.C02", driver="hvdrv_lat",
    harness="hv_lat", bin="hv_lat", mode="c02",
    cases={"quick": 1500, "thorough": 12000},
    level="proof",
    design_ref="DESIGN.md §5 C02",
    technique="Lean 4: flag exactness as a field of the per-constructor lawfulness bundle (all nestings by induction) + differential correspondence of every returned flag",
    level_text=("Theorems: for every type of the universe (as C01) and all well-formed values, merge returns false exactly when "
                "the receiver is unchanged up to the semantic equality, i.e. exactly when the argument is below the receiver in the "
                "order defined from the merge result; true exactly when the receiver strictly increased; the receiver never "
                "decreases; the flag does not depend on the representation. The length-based detection of SetUnion and the per-key "
                "detection of MapUnion (bottom entries filtered, new key => true, nested flag otherwise) are characterised exactly. "
                "Tie: every flag returned by Merge::merge on ~150 concrete Rust types (all 9 ordered pairs of each generated triple, "
                "pool-exhaustive pairs, cross-representation Merge<Other>) is diffed against the compiled model; on the real code "
                "the oracle checks changed == (new != old) with the crate's ==, changed == false <=> other <= old (partial_cmp), "
                "and old <= new. DomPair over a totally ordered key is included. Translation: the match-arm tables of WithBot/WithTop (merge, partial_cmp, eq; lattice_from/is_bot/is_top bodies), Conflict (partial_cmp, eq) and the IsTop/IsBot/Default impls of Max/Min in ord.rs (incl. the list of types impls_numeric! is instantiated with) are re-extracted from lattices/src on every run into Gen/Tables.lean as Lean functions; gen_* theorems prove them equal to the hand-written model, so a changed/added/reordered arm breaks the check even without a failing input. "
                "PARTIAL: tombstone lattices and union-find are C05/C04 (the tombstone part is run by this check as a second part)."),
    level_note=("Trusted as C01. A Vec-backed receiver (SetUnionVec as Self) reports true for duplicates; it has no PartialOrd so it "
                "is not a Lattice in the crate and is outside the property's domain (not instantiated)."),
    trusted_base=["std HashSet/BTreeSet/HashMap/BTreeMap extend/insert/get/len modelled as list operations",
                  "lean/HvLat/translate_tables.py: our translator from Rust match arms / IsTop-IsBot-Default impl bodies to the Lean functions of Gen/Tables.lean (unknown syntax = broken tie)"],
    assumptions=["set/map backings hold no duplicate keys", "element/key types are u32; Max/Min over unsigned and signed integers and bool (every type of the impls_numeric! list and char are instantiated; Max<()>/Min<()> - one-point, no Default - are not)"],
)


# Translation (T): the match-arm tables of WithBot/WithTop (merge, partial_cmp, eq, lattice_from, is_bot, is_top),
# Conflict (partial_cmp, eq) and the IsTop/IsBot/Default table of ord.rs are re-extracted from lattices/src on
# every run into lean/HvLat/HvLat/Gen/Tables.lean; the `gen_*` theorems prove them equal to the model.
def _translate(ctx):
    import importlib.util, os
    p = os.path.join(ctx["verif"], "lean", "HvLat", "translate_tables.py")
    sp = importlib.util.spec_from_file_location("hvlat_translate_tables", p)
    mod = importlib.util.module_from_spec(sp)
    sp.loader.exec_module(mod)
    return mod.translate(ctx)


SPEC["translate"] = _translate


# The tombstone lattices (set_union_with_tombstones / map_union_with_tombstones) are lattices of the same
# crate: their merge flags and comparisons are modelled in HvLatSpec (C05's model), so this property also
# runs that part (same theorems module, same harness mode, same oracle signatures as ./check C05).
def _with_c05_part(spec):
    import importlib.util, os
    here = os.path.dirname(os.path.abspath(__file__))
    sp = importlib.util.spec_from_file_location("check_C05_for_" + spec["id"], os.path.join(here, "C05.py"))
    mod = importlib.util.module_from_spec(sp)
    sp.loader.exec_module(mod)
    c5 = mod.SPEC
    keys = ("lean_project", "props_module", "driver", "harness", "bin", "mode", "cases", "extra_args",
            "translate", "extra", "theorems", "harness_timeout", "driver_timeout")
    own = {k: spec[k] for k in keys if k in spec}
    other = {k: c5[k] for k in keys if k in c5}
    spec["parts"] = [own, other]
    return spec


SPEC = _with_c05_part(SPEC)
