"""C13 registration + a source tie: how dfir_lang's `join` / `join_multiset` operators drive the join."""
import os, re


def translate(ctx):
    """The harness (and the multi-tick theorems) drive `symmetric_hash_join` the way the generated operator code
    does; re-read that from the code generator on every run.  A fragment that no longer has this shape is a broken tie."""
    ops = os.path.join(ctx["repo"], "dfir_lang/src/graph/ops")
    res = []
    try:
        src = re.sub(r"//[^\n]*", "", open(os.path.join(ops, "join.rs")).read())
        flat = re.sub(r"\s+", " ", src)
        call = re.search(r"pull::symmetric_hash_join\(\s*([^;]*?)\)\s*\.await", flat)
        args = [a.strip() for a in call.group(1).rstrip(", ").split(",")] if call else []
        ok_call = (len(args) == 5 and args[0].endswith("Pull::fuse(lhs)") and args[1].endswith("Pull::fuse(rhs)")
                   and args[2:] == ["lhs_state", "rhs_state", "is_new_tick"])
        res.append(("join.rs symmetric_hash_join(fuse(lhs), fuse(rhs), lhs_state, rhs_state, is_new_tick)", ok_call,
                    "fused inputs, flag forwarded" if ok_call else f"call shape changed: {args}"))
        m = re.search(r"check_inputs\(\s*#lhs\s*,\s*#rhs\s*,\s*&mut #lhs_joindata_ident\s*,\s*&mut #rhs_joindata_ident\s*,\s*(\w+)\s*\)", flat)
        ok_flag = bool(m) and m.group(1) == "true"
        res.append(("join.rs is_new_tick argument", ok_flag,
                    "always `true`: every tick takes the drain-then-enumerate path" if ok_flag else "flag is no longer the literal `true`"))
        ok_clear = bool(re.search(r"Persistence::Tick\s*=>\s*quote_spanned!\s*\{\s*op_span\s*=>\s*\(#work_fn\)\(\|\|\s*#root::dfir_pipes::pull::HalfJoinState::clear\(&mut #joindata_ident\)\)", flat))
        res.append(("join.rs 'tick persistence = HalfJoinState::clear at tick end", ok_clear,
                    "clear() per side" if ok_clear else "tick reset changed"))
        ms = re.sub(r"\s+", " ", open(os.path.join(ops, "join_multiset.rs")).read())
        ok_ms = "pull::HalfMultisetJoinState" in ms and "(super::join::JOIN.write_fn)(&wc, diagnostics)" in ms
        res.append(("join_multiset.rs = join with HalfMultisetJoinState", ok_ms,
                    "delegates to JOIN.write_fn" if ok_ms else "no longer delegates to join"))
    except Exception as ex:
        res.append(("join.rs / join_multiset.rs operator wiring", False, repr(ex)))
    return res


SPEC = dict(
    id="C13",
    lean_project="HvPull", props_module="HvPull.Props.C13", driver="hvdrv_pull",
    harness="hv_pull", bin="hv_pull", mode="c13",
    cases={"quick": 2000, "thorough": 30000},
    translate=translate,
    level="proof",
    design_ref="DESIGN.md §5 C13",
    technique="Lean 4 invariant proof (emitted + join(old tables) = queued + join(final tables), by multiplicities) + poll-by-poll differential correspondence with the real join",
    level_text=("Theorems over the model of HalfSetJoinState / HalfMultisetJoinState (build, probe, pop_match), "
                "SymmetricHashJoin::pull and the new-tick path, for every interleaving, every placement of Pending and "
                "every starting state (persisted tables, queued matches): the invariant "
                "count(emitted) + |L0[k,v1]|*|R0[k,v2]| = queued + |Lfinal[k,v1]|*|Rfinal[k,v2]| "
                "(join_emitted_plus_old_eq_queued_plus_final); from a fresh state every matching pair exactly once "
                "(set: 1 iff both arrived, output duplicate-free; multiset: product of occurrence counts); the join is "
                "fused; the new-tick future drains exactly the arrivals whatever the pendings and its enumeration is "
                "the join of the tables in either orientation; NewTickJoinIter is transcribed as its state machine (outer_iter / "
                "current_key / outer_val_iter / current_outer_val / inner_val_iter, loop body with return/continue) and proved to "
                "enumerate exactly that list with no unwrap failing (newTickIter_machine_refines, newTick_machine_emits_join_of_tables, "
                "fuel bound newTickJoin_length_le); new-tick output is a permutation of the incremental output; the path the join "
                "operator actually takes every tick (is_new_tick = true on persisted or cleared states): newTick_on_persisted (one tick "
                "from any persisted tables: tables = old + arrivals, output = join of them) and newTick_persisted_then_new (any number "
                "of ticks, any mix of 'static / 'tick persistence: each tick's output is the join of what its sides hold); join_final_state + join_persisted_then_new: over any number of ticks on persisted state, emitted + join(initial tables) = join(tables holding all arrivals of all ticks). "
                "Tie: the harness drives the real symmetric_hash_join exactly as dfir_lang's join/join_multiset operators "
                "do (fuse, is_new_tick flag, clear() per persistence) over multi-tick histories with scripted pulls, "
                "(that wiring — fused inputs, the literal `true` flag, clear() for 'tick sides, join_multiset = join with the multiset "
                "state — is re-read from dfir_lang/src/graph/ops/join.rs and join_multiset.rs on every run), "
                "keys {0,1}, values {0,1,2}; every poll answer, len() and table dump is diffed against the compiled model (the new-tick "
                "enumeration as a sorted multiset, produced in the model by the transcribed NewTickJoinIter machine); nested-loop "
                "relational-join oracles are evaluated on the real code: per new tick (output = join of everything held), per "
                "incremental tick on any persisted state (emitted + join(tables before) = join(tables after)), cumulative, "
                "new-tick vs incremental on fresh state, len()."),
    level_note=("Trusted: Lean kernel + propext/Classical.choice/Quot.sound; FxHashMap modelled as an association list "
                "(hash iteration order: the new-tick enumeration is compared as a multiset, dumps with keys sorted); NewTickJoinIter's "
                "two orientations are one transcribed machine instantiated twice (the Rust has two copies of the code), its "
                "hash_map::Iter / slice::Iter fields are lists; SmallVec/VecDeque as lists; Cow/clone erased; "
                "multi-tick theorems compose ticks that are driven to their end (a tick abandoned early is covered by the arbitrary-starting-state invariant only)."),
    trusted_base=["FxHashMap as association list; hash-order dependent output compared as a sorted multiset",
                  "NewTickJoinIter: one transcribed state machine for both (textually duplicated) orientations; iterators as lists",
                  "SmallVec / VecDeque / Cow modelled as lists / values"],
    assumptions=["Key and value Eq/Hash/Clone are coherent", "inputs are fused (the operators wrap them in Pull::fuse)"],
)
