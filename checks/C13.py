SPEC = dict(
    id="C13",
    lean_project="HvPull", props_module="HvPull.Props.C13", driver="hvdrv_pull",
    harness="hv_pull", bin="hv_pull", mode="c13",
    cases={"quick": 2000, "thorough": 30000},
    level="proof",
    design_ref="DESIGN.md §5 C13",
    technique="Lean 4 invariant proof (emitted + join(old tables) = queued + join(final tables), by multiplicities) + poll-by-poll differential correspondence with the real join",
    level_text=("Theorems over the model of HalfSetJoinState / HalfMultisetJoinState (build, probe, pop_match), "
                "SymmetricHashJoin::pull and the new-tick path, for every interleaving, every placement of Pending and "
                "every starting state (persisted tables, queued matches): the invariant "
                "count(emitted) + |L0[k,v1]|*|R0[k,v2]| = queued + |Lfinal[k,v1]|*|Rfinal[k,v2]| "
                "(join_emitted_plus_old_eq_queued_plus_final); from a fresh state every matching pair exactly once "
                "(set: 1 iff both arrived, output duplicate-free; multiset: product of occurrence counts); the join is "
                "fused; the new-tick future drains exactly the arrivals whatever the pendings and its enumeration is "
                "the join of the tables in either orientation; NewTickJoinIter is transcribed as its state machine (outer_iter / "
                "current_key / outer_val_iter / current_outer_val / inner_val_iter, loop body with return/continue) and proved to "
                "enumerate exactly that list with no unwrap failing (newTickIter_machine_refines, newTick_machine_emits_join_of_tables, "
                "fuel bound newTickJoin_length_le); new-tick output is a permutation of the incremental output; the path the join "
                "operator actually takes every tick (is_new_tick = true on persisted or cleared states): newTick_on_persisted (one tick "
                "from any persisted tables: tables = old + arrivals, output = join of them) and newTick_persisted_then_new (any number "
                "of ticks, any mix of 'static / 'tick persistence: each tick's output is the join of what its sides hold); join_final_state + join_persisted_then_new: over any number of ticks on persisted state, emitted + join(initial tables) = join(tables holding all arrivals of all ticks). "
                "Tie: the harness drives the real symmetric_hash_join exactly as dfir_lang's join/join_multiset operators "
                "do (fuse, is_new_tick flag, clear() per persistence) over multi-tick histories with scripted pulls, "
                "keys {0,1}, values {0,1,2}; every poll answer, len() and table dump is diffed against the compiled model (the new-tick "
                "enumeration as a sorted multiset, produced in the model by the transcribed NewTickJoinIter machine); nested-loop "
                "relational-join oracles are evaluated on the real code: per new tick (output = join of everything held), per "
                "incremental tick on any persisted state (emitted + join(tables before) = join(tables after)), cumulative, "
                "new-tick vs incremental on fresh state, len()."),
    level_note=("Trusted: Lean kernel + propext/Classical.choice/Quot.sound; FxHashMap modelled as an association list "
                "(hash iteration order: the new-tick enumeration is compared as a multiset, dumps with keys sorted); NewTickJoinIter's "
                "two orientations are one transcribed machine instantiated twice (the Rust has two copies of the code), its "
                "hash_map::Iter / slice::Iter fields are lists; SmallVec/VecDeque as lists; Cow/clone erased; "
                "multi-tick theorems compose ticks that are driven to their end (a tick abandoned early is covered by the arbitrary-starting-state invariant only)."),
    trusted_base=["FxHashMap as association list; hash-order dependent output compared as a sorted multiset",
                  "NewTickJoinIter: one transcribed state machine for both (textually duplicated) orientations; iterators as lists",
                  "SmallVec / VecDeque / Cow modelled as lists / values"],
    assumptions=["Key and value Eq/Hash/Clone are coherent", "inputs are fused (the operators wrap them in Pull::fuse)"],
)
