SPEC = dict(
    id="C01",
    lean_project="HvLat", props_module="HvLat.Props.C01", driver="hvdrv_lat",
    harness="hv_lat", bin="hv_lat", mode="c01",
    cases={"quick": 1500, "thorough": 12000},
    level="proof",
    design_ref="DESIGN.md §5 C01",
    technique="Lean 4: lawfulness of every lattice type constructor (composable, so all nestings) + differential correspondence with the real crate",
    level_text=("Theorems: for every type of the universe LTy (Max/Min over u8..u64, i8..i64 and bool, unit, Conflict, SetUnion, MapUnion, "
                "WithBot, WithTop, Pair and a three-field #[derive(Lattice)] struct (proved to compute the functions of nested Pairs), "
                "DomPair over a total key, VecUnion, at every nesting depth) merge is closed on "
                "well-formed values, commutative, associative, idempotent and a congruence up to the semantic equality, and "
                "LatticeFrom is the identity (so cross-representation Merge<Other> is the self merge); proved once per constructor "
                "(`LawfulA`, HvLat/Laws/*.lean) and lifted by induction on the type. Point merges only equal values. The model is "
                "transcribed impl by impl from lattices/src (map_union's filter(!is_bot)/get_mut/extend pipeline, set_union's "
                "length-based flag, with_bot/with_top match tables, vec_union's drain/zip, the derive macro's field-wise code) and "
                "tied to the code by running ~100 concrete Rust types (every constructor x HashSet/BTreeSet/HashMap/BTreeMap receivers, "
                "Vec/Array/Option/Singleton backings as Other, nesting depth <= 2, cross-representation pairs) through merge / assoc / "
                "lattice_from on pool-exhaustive pairs + seeded random values and diffing every answer with the compiled model; "
                "ACI is also evaluated on the real code with the crate's own ==. "
                "DomPair<K,V> is proved to be a lattice (all of the above) whenever K is totally ordered (Max/Min, bool, (), "
                "WithBot/WithTop/DomPair of such), using the comparison laws of the key (LawfulB); for a partially ordered key a "
                "concrete non-associative triple is proved (domPair_not_assoc_witness) and the harness keeps two such types in the "
                "correspondence only. "
                "PARTIAL: union-find and the tombstone lattices are covered by C04/C05, not here."),
    level_note=("Trusted: Lean kernel + propext/Classical.choice/Quot.sound; hash/btree containers modelled as duplicate-free lists "
                "(insert-if-absent / overwrite), printing canonicalised by sorting; element types are u32 keys/items (Hash/Eq coherence "
                "of element types not modelled); well-formedness (duplicate-free VecSet/ArraySet/VecMap/ArrayMap inputs) is the "
                "documented precondition of those backings."),
    trusted_base=["std HashSet/BTreeSet/HashMap/BTreeMap extend/insert/get modelled as list operations; outputs sorted before comparison",
                  "cc_traits blanket impls (Len/Get/Iter) for the std containers, exercised by correspondence only"],
    assumptions=["set/map backings hold no duplicate keys (precondition stated in collections.rs for the list-backed ones)",
                 "element/key types are u32; numeric Max/Min over unsigned and signed integers and bool (char, () and 128-bit instantiations of the same macro are not instantiated)"],
)
