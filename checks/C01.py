SPEC = dict(
    id="C01",
    lean_project="HvLat", props_module="HvLat.Props.C01", driver="hvdrv_lat",
    harness="hv_lat", bin="hv_lat", mode="c01",
    cases={"quick": 1500, "thorough": 12000},
    level="proof",
    design_ref="DESIGN.md §5 C01",
    technique="Lean 4: lawfulness of every lattice type constructor (composable, so all nestings) + differential correspondence with the real crate",
    level_text=("Theorems: for every type of the universe LTy (Max/Min over every integer type of ord.rs's impls_numeric! list (u8..u128, usize, i8..i128, isize; the model is parametric in the bound), char (= the code points, a sub-order of 0..=0x10FFFF) and bool, unit, Conflict, SetUnion, MapUnion, "
                "WithBot, WithTop, Pair and a three-field #[derive(Lattice)] struct (proved to compute the functions of nested Pairs), "
                "DomPair over a total key, VecUnion, at every nesting depth) merge is closed on "
                "well-formed values, commutative, associative, idempotent and a congruence up to the semantic equality, and "
                "LatticeFrom is the identity (so cross-representation Merge<Other> is the self merge); proved once per constructor "
                "(`LawfulA`, HvLat/Laws/*.lean) and lifted by induction on the type. Point merges only equal values. The model is "
                "transcribed impl by impl from lattices/src (map_union's filter(!is_bot)/get_mut/extend pipeline, set_union's "
                "length-based flag, with_bot/with_top match tables, vec_union's drain/zip, the derive macro's field-wise code) and "
                "tied to the code by running ~150 concrete Rust types (every constructor x HashSet/BTreeSet/HashMap/BTreeMap receivers, "
                "Vec/Array/Option/Singleton backings as Other, nesting depth <= 2, cross-representation pairs) through merge / assoc / "
                "lattice_from on pool-exhaustive pairs + seeded random values and diffing every answer with the compiled model; "
                "ACI is also evaluated on the real code with the crate's own ==. "
                "DomPair<K,V> is proved to be a lattice (all of the above) whenever K is totally ordered (Max/Min, bool, (), "
                "WithBot/WithTop/DomPair of such), using the comparison laws of the key (LawfulB); for a partially ordered key a "
                "concrete non-associative triple is proved (domPair_not_assoc_witness) and the harness keeps two such types in the "
                "correspondence only. "
                "Translation: the match-arm tables of WithBot/WithTop (merge, partial_cmp, eq; lattice_from/is_bot/is_top bodies), Conflict (partial_cmp, eq) and the IsTop/IsBot/Default impls of Max/Min in ord.rs (incl. the list of types impls_numeric! is instantiated with) are re-extracted from lattices/src on every run into Gen/Tables.lean as Lean functions; gen_* theorems prove them equal to the hand-written model, so a changed/added/reordered arm breaks the check even without a failing input. "
                "PARTIAL / outside the theorems: union-find merge and the tombstone lattices are C04/C05; Max<()>/Min<()> (one-point, "
                "translated table only) are not in the universe; Point is a separate two-line model (merge/partial_cmp panic unless equal; point_merge_eq_only), run on all pairs over {0,1,2} with the oracle "
                "`merge succeeds iff equal, never changes`."),
    level_note=("Trusted: Lean kernel + propext/Classical.choice/Quot.sound; hash/btree containers modelled as duplicate-free lists "
                "(insert-if-absent / overwrite), printing canonicalised by sorting; element types are u32 keys/items (Hash/Eq coherence "
                "of element types not modelled); well-formedness (duplicate-free VecSet/ArraySet/VecMap/ArrayMap inputs) is the "
                "documented precondition of those backings."),
    trusted_base=["std HashSet/BTreeSet/HashMap/BTreeMap extend/insert/get modelled as list operations; outputs sorted before comparison",
                  "cc_traits blanket impls (Len/Get/Iter) for the std containers, exercised by correspondence only",
                  "lean/HvLat/translate_tables.py: our translator from Rust match arms / IsTop-IsBot-Default impl bodies to the Lean functions of Gen/Tables.lean (unknown syntax = broken tie)"],
    assumptions=["set/map backings hold no duplicate keys (precondition stated in collections.rs for the list-backed ones)",
                 "element/key types are u32; numeric Max/Min over unsigned and signed integers and bool (every type of the impls_numeric! list and char are instantiated; Max<()>/Min<()> - one-point, no Default - are not)"],
)


# Translation (T): the match-arm tables of WithBot/WithTop (merge, partial_cmp, eq, lattice_from, is_bot, is_top),
# Conflict (partial_cmp, eq) and the IsTop/IsBot/Default table of ord.rs are re-extracted from lattices/src on
# every run into lean/HvLat/HvLat/Gen/Tables.lean; the `gen_*` theorems prove them equal to the model.
def _translate(ctx):
    import importlib.util, os
    p = os.path.join(ctx["verif"], "lean", "HvLat", "translate_tables.py")
    sp = importlib.util.spec_from_file_location("hvlat_translate_tables", p)
    mod = importlib.util.module_from_spec(sp)
    sp.loader.exec_module(mod)
    return mod.translate(ctx)


SPEC["translate"] = _translate
