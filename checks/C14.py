SPEC = dict(
    id="C14",
    lean_project="HvSink", props_module="HvSink.Props.C14", driver="hvdrv_sink",
    harness="hv_sink", bin="hv_sink", mode="c14",
    cases={"quick": 1500, "thorough": 30000},
    level="proof",
    design_ref="DESIGN.md §5 C14",
    technique="Lean 4 compositional contract proofs (client honours the Sink contract => adaptor honours it downstream and delivers spec(items)) over arbitrary inner sinks + line-by-line correspondence of every adaptor with the real sinktools code over scripted protocol-checking sinks",
    level_text=("PARTIAL (one clause, for one adaptor: F5). Model: every sinktools adaptor transcribed from its impl Sink (map, filter, filter_map, inspect, "
                "for_each/try_for_each, flat_map/flatten with the buffered iterator, unzip, demux_var, demux_map, demux_map_lazy, LazySink / LazySource / "
                "LazySinkSource as explicit Uninit|Thunkulating|Done machines with the init future and the stream as scripts, SendIter / "
                "SendStream). Proved for ALL inner sinks (arbitrary state machines = every readiness pattern) and ALL client call sequences "
                "that honour the Sink contract: map_delivers_in_order, filter_delivers_in_order, filterMap_delivers_in_order, inspect_trace, "
                "flatMap_delivers_in_order / flatten_delivers_in_order (inner contract kept, received ++ buffered = flattening, never hits the "
                "'Sink not ready' assert, empty buffer after a Ready flush/close), unzip_routes_in_order, demuxVar_routes_in_order, "
                "demuxMap_routes_in_order (each sink gets exactly the items addressed to its index/key, in order, once, contract kept), "
                "lazySink_no_item_lost_init_once (inner contract kept, no item lost before/during init, init at most once, 'not ready' panic "
                "unreachable), lazySinkSource_interleaved_no_item_lost_init_once (LazySinkSource with BOTH halves under every interleaving of "
                "sink-half calls and source-half polls, before/during/after initialisation: inner contract kept, no item lost, init at most once "
                "whichever half starts it, the 'LazySinkHalf not ready' panic unreachable, nothing held back after a Ready poll, the source half "
                "yields the stream in order), lazySource_yields_stream_in_order, lazySource_init_once, sendIter_is_polite_client, sendStream_is_polite_client, "
                "lazyDemux_routes_in_order_partial (demux_map_lazy, new AND existing keys: one sink per key, each sink gets exactly the items of "
                "its key in order once, nothing addressed to a key is dropped, and every sink's call sequence honours the contract from its "
                "second call on; the full clause LazyDemuxContractStatement fails on the very first start_send of each freshly created sink = "
                "known finding F5, lazyDemux_send_after_ready_refuted). Findings F4 / F4b (LazySinkHalf::start_send after a source poll) were "
                "repaired in /repo (cb04467b964); the model follows the repaired code and the refutations are kept against the old start_send "
                "(lazySinkSource_send_after_ready_refuted_before_fix, lazySinkSource_inner_contract_refuted_before_fix). Stacked chains: "
                "chain_map_flatMap_filter_delivers_in_order derives the composite statement for the 3-stage chain map . flat_map . filter of the "
                "correspondence (arbitrary closures, any inner sink, every polite client) from the single-adaptor theorems through "
                "simulation-lifting lemmas (aux_sim_recd/map/flatMap/filter/run); other stacks chain the same way but are not spelled out. NOT "
                "proved, only modelled and tied by correspondence + oracle: for_each/try_for_each (trivial: always Ready, closure log). Tie: 16 "
                "pipeline kinds built with the real SinkBuild API over scripted downstream sinks; each client call's answer and every downstream "
                "call (ready/send/flush/close with answers) are diffed against the compiled model; bounded-exhaustive readiness placements for "
                "the single-sink kinds and bounded-exhaustive interleavings of the two LazySinkSource halves (all words over ready/send/next/flush); "
                "downstream sinks check the contract themselves; order / exactly-once / no-loss-after-flush / init-once are judged by an independent oracle."),
    level_note=("Trusted: Lean kernel; Poll::Ready(Err) paths are not modelled (scripted sinks never fail); Pin/pin_project erased; HashMap as "
                "association list (iteration order not observable per sink); MultiWaker of LazySinkSource not modelled; closures are fixed "
                "functions in the correspondence, arbitrary in the theorems; release build (debug_assert!(buf.is_none()) in the lazy sinks is off)."),
    trusted_base=["error paths (Poll::Ready(Err)) of all adaptors: not modelled", "LazySinkSource MultiWaker wake fan-out: not modelled"],
    assumptions=["inner sinks and init futures do not fail", "clients honour the Sink contract (theorems state exactly this hypothesis)"],
)
