SPEC = dict(
    id="C14",
    lean_project="HvSink", props_module="HvSink.Props.C14", driver="hvdrv_sink",
    harness="hv_sink", bin="hv_sink", mode="c14",
    cases={"quick": 1500, "thorough": 30000},
    level="proof",
    design_ref="DESIGN.md §5 C14",
    technique="Lean 4 compositional contract proofs (client honours the Sink contract => adaptor honours it downstream and delivers spec(items)) over arbitrary inner sinks + line-by-line correspondence of every adaptor with the real sinktools code over scripted protocol-checking sinks",
    level_text=("PARTIAL. Model: every sinktools adaptor transcribed from its impl Sink (map, filter, filter_map, inspect, for_each/try_for_each, "
                "flat_map/flatten with the buffered iterator, unzip, demux_var, demux_map, demux_map_lazy, LazySink / LazySource / "
                "LazySinkSource as explicit Uninit|Thunkulating|Done machines with the init future and the stream as scripts, SendIter / "
                "SendStream). Proved for ALL inner sinks (arbitrary state machines = every readiness pattern) and ALL client call sequences "
                "that honour the Sink contract: map_delivers_in_order, filter_delivers_in_order, filterMap_delivers_in_order, inspect_trace, "
                "flatMap_delivers_in_order / flatten_delivers_in_order (inner contract kept, received ++ buffered = flattening, never hits the "
                "'Sink not ready' assert, empty buffer after a Ready flush/close), unzip_routes_in_order, demuxVar_routes_in_order, "
                "demuxMap_routes_in_order (each sink gets exactly the items addressed to its index/key, in order, once, contract kept), "
                "lazySink_no_item_lost_init_once (inner contract kept, no item lost before/during init, init at most once, 'not ready' panic "
                "unreachable), lssSink_simulates_lazySink (the sink half of LazySinkSource = LazySink as long as the source half does not interfere), "
                "lazySource_yields_stream_in_order, sendIter_is_polite_client, sendStream_is_polite_client. Refuted on the code as it is (known findings): "
                "lazySinkSource_send_after_ready_refuted (F4), lazySinkSource_inner_contract_refuted (F4b), lazyDemux_send_after_ready_refuted "
                "(F5). NOT proved, only modelled and tied by correspondence + oracle: demux_map_lazy for existing keys, "
                "LazySinkSource under arbitrary interleavings of the two halves after initialisation, for_each/try_for_each (trivial), stacked chains (the theorems are compositional "
                "in form but the composite statement is not derived). Tie: 16 pipeline kinds built with the real SinkBuild API over scripted "
                "downstream sinks; each client call's answer and every downstream call (ready/send/flush/close with answers) are diffed "
                "against the compiled model; downstream sinks check the contract themselves; order / exactly-once / no-loss-after-flush / "
                "init-once are judged by an independent oracle."),
    level_note=("Trusted: Lean kernel; Poll::Ready(Err) paths are not modelled (scripted sinks never fail); Pin/pin_project erased; HashMap as "
                "association list (iteration order not observable per sink); MultiWaker of LazySinkSource not modelled; closures are fixed "
                "functions in the correspondence, arbitrary in the theorems."),
    trusted_base=["error paths (Poll::Ready(Err)) of all adaptors: not modelled", "LazySinkSource MultiWaker wake fan-out: not modelled"],
    assumptions=["inner sinks and init futures do not fail", "clients honour the Sink contract (theorems state exactly this hypothesis)"],
)
