SPEC = dict(
    id="C08",
    lean_project="HvGht", props_module="HvGht.Props.C08", driver="hvdrv_ght",
    harness="hv_ght", bin="hv_ght", mode="c08",
    cases={"quick": 1500, "thorough": 30000},
    level="proof",
    design_ref="DESIGN.md §5 C08",
    technique="Lean 4 proofs by induction on the trie height over a height-indexed trie model (per-level lemmas generic in the child, mirroring the generic Rust impls) + differential correspondence with the real GHT types",
    level_text=("Theorems (all heights, all tries/rows/histories/prefixes): insert always returns true and adds exactly the row; "
                "a well-formed hash-set trie iterates each tuple once; contains <-> membership in recursive_iter; new_from / any insert "
                "history holds exactly the inserted tuples; rows(merge) = union; is_bot <-> no rows; prefix_iter(p) = filter of the rows "
                "by prefix; get(head) = rows with that key column; DeepJoin = relational equi-join on the key columns; cartesian product "
                "= all concatenations; force keeps the rows; multiset storages: insert/merge_node are multiset add/union (Perm); COLT forest: "
                "ColtGet::get (force_drain of the leaf under the cursor, merge_node into the next taller trie, or_default children in the "
                "taller tries) preserves the multiset of rows of the forest for every chain of gets from the root on every forest, and on a well-formed "
                "forest the cursor reached by the chain holds exactly the rows that carry the path in their first columns; the changed "
                "flag of merge is exact under the invariant Good (well-formed + no empty child + no forced leaf, which default/new_from/insert/merge "
                "are proved to establish and keep); the deep join's output is well formed; "
                "== <-> same rows and partial_cmp = inclusion order (Equal/Less/Greater/None) for ALL well-formed hash-set tries "
                "(eq_iff_same_rows, cmp_iff_subset; join outputs with empty children, COLT or_default children and forced leaves included), "
                "== <-> partial_cmp == Equal and is_bot <-> == default (eq_iff_cmp_equal). These comparison theorems are about the code after two "
                "/repo fixes: as shipped ==/partial_cmp counted present-but-empty children (F7, 0835a8893c6) and the derived PartialEq of a leaf "
                "compared the COLT flag `forced` (F22, d3e006307d1); the clause is refuted for the old code on concrete witnesses "
                "(eq_cmp_empty_child_refuted_before_fix, eq_iff_same_rows_refuted_before_fix, eq_forced_leaf_refuted_before_fix; "
                "witnesses kept in the corpus and replayed on the real code). Tie: the model is run as a native driver on the same op histories as the real lattices::ght types "
                "(6 key/value shapes x hash-set/counted/column storage, plus ColtType!(u32,u32,u32) forests driven through chained ColtGet::get; "
                "bounded-exhaustive op sequences + seeded random + malformed lines) "
                "and every answer incl. a structural dump (through the public GhtGet API) is diffed; the property itself is evaluated on the "
                "real code against an independent set/multiset oracle."),
    level_note=("Trusted: Lean kernel; HashMap modelled as an association list with distinct keys, leaf storages modelled as lists "
                "(hash set: no duplicates; counted/column: multiset, iteration order not observed); `children.get(k).filter(has_rows)` is modelled as a lookup "
                "in the list of children that hold rows (same thing for distinct keys); the Rust variadic type machinery "
                "(SplitBySuffix, column of a node = its depth) is mirrored by an explicit depth parameter, exercised by correspondence; "
                "the COLT cursor is modelled as (forest, path) — the Rust cursor is a variadic of &mut into the forest; its printing through "
                "nodeAt is part of the driver, the theorem is about subRows of the same nodes; harness/differ are our code."),
    trusted_base=["std::collections::HashMap modelled as an association list with distinct keys; iteration order sorted before comparison",
                  "variadics type-level column selection (SplitBySuffix/Split) modelled by an explicit depth index; exercised, not proved",
                  "leaf storages: the C10 collections, abstracted to set / multiset of rows"],
    assumptions=["columns are u32 (Nat in the model); rows have the schema's arity (enforced by the Rust types, by the parser in the driver)",
                 "COLT forests are instantiated for arity 3 in the harness (the model and theorems are for every arity)"],
)
