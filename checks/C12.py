SPEC = dict(
    id="C12",
    lean_project="HvPush", props_module="HvPush.Props.C12", driver="hvdrv_push",
    harness="hv_push", bin="hv_push", mode="c12",
    cases={"quick": 1500, "thorough": 30000},
    level="proof",
    design_ref="DESIGN.md §5 C12",
    technique="Lean 4 simulation proofs over interaction-tree models of every push combinator (all downstream answer patterns, all caller histories) + differential correspondence with the real dfir_pipes::push code under the real SendPush/SendSink drivers",
    level_text=("Every push combinator is modelled as three Prog-valued operations whose only effects are poll_ready/start_send/"
                "poll_finalize calls on numbered downstream ports; Emits/Comb.Tr quantify over every downstream behaviour (every "
                "Pending pattern on every port, independently) and every caller history. Proved (Comb.Sound, by simulation "
                "invariants): if the caller honours the push contract (send only directly enabled by ready?true, no send once "
                "finalize was called) then every downstream port sees a contract-honouring trace and, once the caller got "
                "finalize?true, every port was finalized and received exactly the specified items in order, for: map, filter, "
                "filter_map, &mut P / Sink adapter, inspect, flat_map, flatten, fanout, unzip, demux_var (n ports), "
                "Accumulate with fold/reduce/sort states, Sort, fold_keyed/reduce_keyed (any hash order), persist (+ buffer "
                "content), filter_map_async, flat_map_stream/flatten_stream, state_push, for_each/vec_push, ResolveFutures in "
                "both modes (blocking: everything delivered; non-blocking = subgraph_waker: a part delivered, nothing twice, "
                "nothing after the downstream's finalize was called — resolveFutures_nonblocking_sound, about the code after "
                "the F124 fix — and resolveNonblocking_conservation: delivered ++ still queued = everything, at every point) over "
                "a scripted queue. The standard driver SendPush::poll (= SendSink over SinkCompat) is proved "
                "for every pull script and poll count to honour the contract, finalize only after the pull ended and deliver "
                "exactly the pull's items; sendPush_end_to_end, pipeline_compose (K1 pushing into K2) and pipeline_compose2 (a two-port "
                "combinator feeding two sub-pipelines) chain these along arbitrary tree-shaped pipelines (worked: map->flat_map->"
                "persist->fanout under the driver; fanout(map->fold_keyed, map)). The contract (ProtoOk) lets a caller poll "
                "poll_ready/poll_finalize again after finalize was started or Done, because callers in the crate do (FlatMap::"
                "poll_finalize polls its downstream's poll_ready, Fanout/Unzip/DemuxVar/StatePush re-poll a finished branch), so "
                "every Sound theorem covers such callers; it never lets anyone send after finalize was called. Sound is a safety "
                "statement: it says nothing unless/until the caller gets finalize?true (no progress theorem; completion is only "
                "observed on every generated run). "
                "Tie: the same op lines (bounded-exhaustive answer scripts per port x inputs x pull Pending placements + random "
                "driver cases + bounded-exhaustive and adaptive contract-conforming manual call histories incl. re-polling after Done; "
                "single combinators and five nested pipelines incl. fanout(fold_keyed) and fanout(resolve_futures)) are run on the real "
                "combinators under the real SendPush/SendSink and on the compiled model; the global downstream call trace of "
                "every poll/call and the external state left behind are diffed; the contract and delivered-items oracle is "
                "evaluated on the real trace against an independent iterator-level spec (for the non-blocking ResolveFutures the "
                "delivered items are checked as a prefix/sub-multiset plus conservation with the queue left behind; the protocol "
                "clauses are checked for it like for all others). F121-F124 (FilterMapAsync item loss, StatePush duplicate state, "
                "FoldKeyed/ReduceKeyed re-flush, non-blocking ResolveFutures sending into a finalizing downstream) were found by "
                "the oracle and fixed in /repo."),
    level_note=("Trusted/modelled-not-verified: Pin, Context merging, Toggle and size_hint are erased; closures are fixed pure "
                "functions in the correspondence and arbitrary pure functions in the theorems; HashMap iteration order is an "
                "arbitrary function `order` (keyed sends compared as multisets); futures, streams and the futures queue are "
                "scripts (the harness's own ScriptQueue, not FuturesOrdered/FuturesUnordered); out-of-range DemuxVar indices and "
                "contract-violating callers panic in the real code and are outside the theorems (panic answers are compared for "
                "demux); liveness (that a Pending downstream is polled again) is the executor's job and only observed (every "
                "generated run completes)."),
    trusted_base=["Pin / Context merging / Toggle type-level bookkeeping and size_hint forwarding are erased in the model",
                  "std HashMap iteration order in FoldKeyed/ReduceKeyed is an arbitrary permutation in the theorems; keyed sends are compared as multisets",
                  "futures queue of ResolveFutures and the futures/streams of FilterMapAsync/FlatMapStream are scripts (pending k times, then a value)"],
    assumptions=["closures passed to the combinators are pure functions", "a Pending downstream is eventually polled again by the driver (no waker modelling)"],
)
