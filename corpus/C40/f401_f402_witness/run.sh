#!/bin/bash
T=/tmp/rev5_paxos_target
LIBDIR=$(RUSTUP_TOOLCHAIN=1.96.0 rustc --print target-libdir)
cd /tmp/rev5_paxos_crate
CARGO_MANIFEST_DIR=/tmp/rev5_paxos_crate CARGO_TARGET_DIR=$T RUSTFLAGS="--cfg hydro_project_hydro_verif" CARGO_NET_OFFLINE=true RUSTUP_TOOLCHAIN=1.96.0 LD_LIBRARY_PATH="$LIBDIR:$T/debug:$T/debug/deps:$LD_LIBRARY_PATH" $T/release/rev5px "$@"
