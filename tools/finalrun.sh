#!/bin/sh
# tools/finalrun.sh [tier]: run every claimed check once (quick by default), grouped in lanes that never
# share a lake project / harness, and print one line per check. Evidence files are rewritten by the runs.
cd "$(dirname "$0")/.."
TIER=${1:-quick}
mkdir -p work/final
lane() { for c in "$@"; do ./check $c --tier $TIER > work/final/$c.log 2>&1; echo "$c rc=$? $(tail -1 work/final/$c.log | cut -c1-140)"; done; }
lane C01 C02 C03 C06 C10 C16 C15 C14 &
lane C04 C05 C07 C08 C09 C17 C11 C13 C12 &
lane C18 C19 C20 C42 C24 C25 C26 C27 C40 &
lane C21 C22 C23 C36 C37 C38 &
lane C28 C29 C30 C35 C39 C41 C31 C32 C33 C34 &
wait
echo finalrun done
