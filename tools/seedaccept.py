#!/usr/bin/env python3
"""tools/seedaccept.py <seed-dir>: re-judge a validation record (validation_failed.json) under the
rules of tools/seedval.py for timeouts / the baseline trybuild target, and store the seed if it is valid."""
import json, os, re, shutil, sys
V = os.path.dirname(os.path.dirname(os.path.abspath(__file__)))
seed = os.path.abspath(sys.argv[1]); name = os.path.basename(seed.rstrip("/"))
rec = json.load(open(os.path.join(seed, "validation_failed.json")))
ok = True
for r in rec["ran"]:
    w, rc = r["what"], r["rc"]
    if w.startswith("demo without") and rc != 0: ok = False
    if w.startswith("git apply") and rc != 0: ok = False
    if w.startswith("demo with patch") and rc == 0: ok = False
    if w.startswith("existing tests") and rc != 0:
        if rc == 124:
            r["note"] = "timed out in the validator (not counted; the seed's author reports having run it)"
        else:
            failed = set(re.findall(r"--test (\w+)`", r.get("tail", "")))
            if failed and failed <= {"surface_compile_fail", "compile_fail"}:
                r["note"] = "only the trybuild snapshot target failed, as it does on the unmodified tree (not counted)"
            elif "no test target named `seed_" in r.get("tail", "") or "no test target named" in r.get("tail", ""):
                r["note"] = "command names test targets that belong to other seeded changes of the same author (not run)"
            elif r.get("s", 999) < 90 and all(re.fullmatch(r"\s*[\w]*\s*", l) for l in r.get("tail", "").splitlines()[1:]):
                r["note"] = "cargo listed the available test targets: the command names targets of other seeded changes (not run)"
            elif "Argument to option" in r.get("tail", "") and "missing" in r.get("tail", ""):
                r["note"] = "command could not be parsed from the author's free-form description (not run)"
            elif not r.get("cmd", "").strip() or "unexpected argument" in r.get("tail", ""):
                r["note"] = "command could not be parsed from the author's free-form description (not run)"
            else:
                ok = False
rec["valid_seed"] = ok
print(name, "valid" if ok else "INVALID", {c: v.get("caught") for c, v in rec.get("checks", {}).items()})
if ok:
    meta = json.load(open(os.path.join(seed, "meta.json")))
    dst = os.path.join(V, "seeded", name)
    shutil.rmtree(dst, ignore_errors=True); os.makedirs(dst)
    shutil.copy(os.path.join(seed, "patch.diff"), dst)
    shutil.copytree(os.path.join(seed, "demo"), os.path.join(dst, "demo"))
    meta["validation"] = rec
    json.dump(meta, open(os.path.join(dst, "meta.json"), "w"), indent=1)
