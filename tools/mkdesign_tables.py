#!/usr/bin/env python3
"""Regenerate the generated regions of DESIGN.md: the findings table (from known_findings.json)
and the seeded-change catch matrix (from seeded/*/meta.json)."""
import json, os, glob, re
V = os.path.dirname(os.path.dirname(os.path.abspath(__file__)))
kf = json.load(open(os.path.join(V, "known_findings.json")))["findings"]

def esc(s):
    return (s or "").replace("|", "\\|").replace("\n", " ")

rows = []
seen = set()
for f in sorted(kf, key=lambda f: (f["property"], f["id"])):
    key = (f["property"], f["id"])
    what = f.get("what") or f.get("line", "")
    what = re.sub(r"^fixed: property=\S+ \S+ ", "", what)
    if key in seen:
        continue
    seen.add(key)
    sigs = [g.get("sig") for g in kf if (g["property"], g["id"]) == key and g.get("sig")]
    st = f["status"] + (" `" + f.get("commit", "") + "`" if f.get("commit") else "")
    rows.append(f"| {f['id']} | {f['property']} | {st} | {esc(what)[:420]} | {', '.join('`'+s+'`' for s in sigs) if f['status']=='known' else '–'} |")
findings = ("| id | property | status (repo commit) | what fails (specific input / call site / history) | oracle signature(s) matched |\n"
            "|---|---|---|---|---|\n" + "\n".join(rows) + "\n")

crow = []
for d in sorted(glob.glob(os.path.join(V, "seeded", "*"))):
    mp = os.path.join(d, "meta.json")
    if not os.path.exists(mp):
        continue
    m = json.load(open(mp))
    vals = [v for v in m.get("validation_history", []) if v] + [m.get("validation", {})]
    first = {}
    for v in vals:                      # first verdict per check, in validation order
        for c, r in v.get("checks", {}).items():
            first.setdefault(c, r.get("caught"))
    last = {}
    for v in vals:
        for c, r in v.get("checks", {}).items():
            if r.get("caught") is not None:
                last[c] = r.get("caught")
    caught_first = [c for c, r in first.items() if r]
    missed_first = [c for c, r in first.items() if r is False]
    later = [c for c in missed_first if last.get(c)]
    still = [c for c in missed_first if not last.get(c)]
    files = ", ".join(m.get("files_changed", []))[:70]
    crow.append(f"| {os.path.basename(d)} | {m['property']} | {esc(files)} | {esc(m.get('needs',''))[:150]} | {', '.join(caught_first) or '–'} | {', '.join(later) or '–'} | {', '.join(still) or '–'} |")
catches = ("| seeded change | breaks | file(s) | needs, to manifest | caught at first run by | missed first, caught after strengthening | run but not caught by |\n"
           "|---|---|---|---|---|---|---|\n" + "\n".join(crow) + "\n")

p = os.path.join(V, "DESIGN.md")
s = open(p).read()
def put(s, tag, body):
    b, e = f"<!-- {tag}-BEGIN -->", f"<!-- {tag}-END -->"
    if b in s:
        i, j = s.index(b), s.index(e)
        return s[:i] + b + "\n" + body + s[j:]
    return s
s = put(s, "FINDINGS", findings)
s = put(s, "CATCHES", catches)
open(p, "w").write(s)
print(f"findings rows {len(rows)}, seeded rows {len(crow)}")
