#!/usr/bin/env python3
"""Regenerate the generated regions of DESIGN.md: the findings table (from known_findings.json)
and the seeded-change catch matrix (from seeded/*/meta.json)."""
import json, os, glob, re
V = os.path.dirname(os.path.dirname(os.path.abspath(__file__)))
kf = json.load(open(os.path.join(V, "known_findings.json")))["findings"]

def esc(s):
    return (s or "").replace("|", "\\|").replace("\n", " ")

rows = []
seen = set()
for f in sorted(kf, key=lambda f: (f["property"], f["id"])):
    key = (f["property"], f["id"])
    what = f.get("what") or f.get("line", "")
    what = re.sub(r"^fixed: property=\S+ \S+ ", "", what)
    if key in seen:
        continue
    seen.add(key)
    sigs = [g.get("sig") for g in kf if (g["property"], g["id"]) == key and g.get("sig")]
    st = f["status"] + (" `" + f.get("commit", "") + "`" if f.get("commit") else "")
    rows.append(f"| {f['id']} | {f['property']} | {st} | {esc(what)[:420]} | {', '.join('`'+s+'`' for s in sigs) if f['status']=='known' else '–'} |")
findings = ("| id | property | status (repo commit) | what fails (specific input / call site / history) | oracle signature(s) matched |\n"
            "|---|---|---|---|---|\n" + "\n".join(rows) + "\n")

crow = []
for d in sorted(glob.glob(os.path.join(V, "seeded", "*"))):
    mp = os.path.join(d, "meta.json")
    if not os.path.exists(mp):
        continue
    m = json.load(open(mp))
    val = m.get("validation", {})
    ch = val.get("checks", {})
    caught = [c for c, r in ch.items() if r.get("caught")]
    missed = [c for c, r in ch.items() if r.get("caught") is False]
    files = ", ".join(m.get("files_changed", []))[:80]
    crow.append(f"| {os.path.basename(d)} | {m['property']} | {esc(files)} | {esc(m.get('needs',''))[:160]} | {', '.join(caught) or '–'} | {', '.join(missed) or '–'} |")
catches = ("| seeded change | breaks | file(s) | needs, to manifest | caught by `./check` | run but not caught by |\n"
           "|---|---|---|---|---|---|\n" + "\n".join(crow) + "\n")

p = os.path.join(V, "DESIGN.md")
s = open(p).read()
def put(s, tag, body):
    b, e = f"<!-- {tag}-BEGIN -->", f"<!-- {tag}-END -->"
    if b in s:
        i, j = s.index(b), s.index(e)
        return s[:i] + b + "\n" + body + s[j:]
    return s
s = put(s, "FINDINGS", findings)
s = put(s, "CATCHES", catches)
open(p, "w").write(s)
print(f"findings rows {len(rows)}, seeded rows {len(crow)}")
