#!/usr/bin/env python3
"""Integration step run by the orchestrator: fold known_findings.d/*.json into known_findings.json,
regenerate MANIFEST.json, validate MANIFEST + every evidence file against the schemas."""
import json, os, subprocess, sys, glob
V = os.path.dirname(os.path.dirname(os.path.abspath(__file__)))
kfp = os.path.join(V, "known_findings.json")
kf = json.load(open(kfp))
have = {(f.get("property"), f.get("id")) for f in kf["findings"]}
for p in sorted(glob.glob(os.path.join(V, "known_findings.d", "*.json"))):
    x = json.load(open(p))
    fl = (x if isinstance(x, list) else [x])
    ids = {(f.get("property"), f.get("id")) for f in fl}
    # a draft file is authoritative for the ids it mentions (several entries may share an id, one per signature)
    kf["findings"] = [g for g in kf["findings"] if (g.get("property"), g.get("id")) not in ids] + fl
    if "--fold" in sys.argv:
        os.remove(p)
json.dump(kf, open(kfp, "w"), indent=1)
subprocess.run([sys.executable, os.path.join(V, "tools", "mkmanifest.py")], check=True)
code = r'''
import json, jsonschema, glob, os, sys
V = sys.argv[1]
jsonschema.validate(json.load(open(V + "/MANIFEST.json")), json.load(open("/root/.vp/MANIFEST.schema.json")))
es = json.load(open("/root/.vp/EVIDENCE.schema.json"))
m = json.load(open(V + "/MANIFEST.json"))
bad = 0
for c in m["checks"]:
    p = c["evidence_file"]
    if not os.path.exists(p):
        print("MISSING evidence", p); bad += 1; continue
    try:
        e = json.load(open(p)); jsonschema.validate(e, es)
        cov = e["coverage"]
        if e.get("violations"): print("evidence records violations:", p, e["violations"])
        if cov.get("obligations") != cov.get("discharged"): print("undischarged:", p, cov.get("discharged"), "/", cov.get("obligations"))
    except Exception as ex:
        print("INVALID evidence", p, str(ex)[:200]); bad += 1
print("manifest + evidence validated; problems:", bad)
'''
subprocess.run(["python3-vt", "-c", code, V])
