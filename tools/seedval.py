#!/usr/bin/env python3
"""
tools/seedval.py <seed-dir> [--skip-tests] [--checks C01,C02] [--keep]

Validate one seeded change produced by an independent agent (patch.diff, demo/, meta.json):
  1. fresh scratch worktree of /repo HEAD (under /tmp), demo files copied in;
  2. demo WITHOUT the patch must pass; 3. patch applied, demo must FAIL;
  4. the existing tests the agent names (meta.tests_run) must still pass with the patch;
  5. our check(s) for the property are run against the patched tree in isolation (tools/mutrun)
     and must report a VIOLATION.
Everything that was run and its outcome is recorded in /verif/seeded/<name>/meta.json next to
patch.diff and the demonstration.  The worktree and its build output are removed afterwards.
"""
import json
import os
import re
import shutil
import subprocess
import sys
import time

VERIF = os.path.dirname(os.path.dirname(os.path.abspath(__file__)))
FAMILY = {  # property -> harness target dirs worth seeding into the mutrun scratch target
}


def sh(cmd, cwd, timeout=5400, env=None):
    e = dict(os.environ)
    e.update({"CARGO_NET_OFFLINE": "true"})
    if env:
        e.update(env)
    t = time.time()
    try:
        p = subprocess.run(cmd, cwd=cwd, shell=True, env=e, capture_output=True, text=True, timeout=timeout)
        return p.returncode, (p.stdout + p.stderr)[-4000:], round(time.time() - t, 1)
    except subprocess.TimeoutExpired:
        return 124, "timeout", round(time.time() - t, 1)


VALUE_OPTS = {"-p", "--package", "--test", "--bin", "--example", "--features", "-j", "--jobs", "--manifest-path",
              "--profile", "--bench", "--target", "--test-threads", "--exclude", "-E"}


def cargo_part(cmd):
    """the `cargo …` invocation inside a free-form command description"""
    m = re.search(r"(cargo\s+(?:\+\S+\s+)?(?:test|run|nextest run|nextest|check|build)\b[^()&;|\n]*)", cmd)
    if not m:
        return ""
    toks = m.group(1).split()
    keep = []
    i = 0
    # cargo [+tc] subcommand [run]
    while i < len(toks) and (toks[i] in ("cargo", "test", "run", "nextest", "check", "build") or toks[i].startswith("+")):
        keep.append(toks[i]); i += 1
    after_dd = False
    while i < len(toks):
        t = toks[i]
        prev = keep[-1] if keep else ""
        if t == "--":
            after_dd = True; keep.append(t)
        elif t.startswith("-") or prev in VALUE_OPTS:
            keep.append(t)
        elif re.fullmatch(r"[A-Za-z0-9_:]+", t) and ("::" in t or "_" in t) and not after_dd:
            keep.append(t)          # a test-name filter
        elif after_dd and re.fullmatch(r"[A-Za-z0-9_:]+", t) and ("::" in t or "_" in t):
            keep.append(t)
        else:
            break
        i += 1
    return " ".join(keep)


def harness_of(pid):
    try:
        sys.path.insert(0, os.path.join(VERIF, "tools"))
        import hvlib
        s = hvlib.load_spec(pid)
        parts = s.get("parts") or [s]
        return sorted({p["harness"] for p in parts if p.get("harness")})
    except SystemExit:
        return []


def main():
    seed = os.path.abspath(sys.argv[1])
    skip_tests = "--skip-tests" in sys.argv
    keep = "--keep" in sys.argv
    name = os.path.basename(seed.rstrip("/"))
    meta = json.load(open(os.path.join(seed, "meta.json")))
    pid = meta["property"]
    checks = [pid]
    for i, a in enumerate(sys.argv):
        if a == "--checks":
            checks = sys.argv[i + 1].split(",")
    wt = f"/tmp/wt_val_{name}"
    tgt = os.environ.get("SEEDVAL_TARGET", "/tmp/seedval_target")
    subprocess.run(f"git -C /repo worktree remove --force {wt}", shell=True, capture_output=True)
    shutil.rmtree(wt, ignore_errors=True)
    rc, out, _ = sh(f"git -C /repo worktree add --detach {wt} HEAD", "/")
    assert rc == 0, out
    rec = {"validated_at_repo_head": subprocess.run("git -C /repo rev-parse --short HEAD", shell=True, capture_output=True, text=True).stdout.strip(),
           "ran": []}
    env = {"CARGO_TARGET_DIR": tgt}
    denv = dict(env)
    denv.update(meta.get("demo_env", {}))
    ok = True
    cur_patch = ""
    try:
        # demo files
        demo = os.path.join(seed, "demo")
        demo_files = []
        for d, _, fs in os.walk(demo):
            for f in fs:
                rel = os.path.relpath(os.path.join(d, f), demo)
                demo_files.append(rel)
                os.makedirs(os.path.dirname(os.path.join(wt, rel)), exist_ok=True)
                shutil.copy(os.path.join(d, f), os.path.join(wt, rel))
        cmd = cargo_part(meta["demo_cmd"])
        # 2. without patch
        rc, out, s = sh(cmd, wt, env=denv)
        rec["ran"].append({"what": "demo without patch (must pass)", "cmd": cmd, "rc": rc, "s": s, "tail": out[-600:]})
        if rc != 0:
            ok = False
        # 3. with patch
        rc, out, _ = sh(f"git apply {os.path.join(seed, 'patch.diff')}", wt)
        if rc != 0:
            # the patch was written against an older /repo HEAD: try a 3-way merge, then an author-provided rebase
            rc, out2, _ = sh(f"git apply -3 {os.path.join(seed, 'patch.diff')}", wt)
            out += "\n[git apply -3] " + out2
            if rc != 0:
                sh("git reset -q --hard HEAD", wt)
                for alt in sorted(os.listdir(seed)):
                    if alt.startswith("patch_rebased") and alt.endswith(".diff"):
                        rc, out3, _ = sh(f"git apply {os.path.join(seed, alt)}", wt)
                        out += f"\n[{alt}] " + out3
                        if rc == 0:
                            break
        rec["ran"].append({"what": "git apply patch.diff", "rc": rc, "tail": out[-300:]})
        if rc != 0:
            ok = False
        else:
            # the patch as it applies to the current HEAD (demo files are untracked, so not included)
            _, cur_patch, _ = sh("git diff", wt)
            cur_patch = subprocess.run("git diff", cwd=wt, shell=True, capture_output=True, text=True).stdout
            rc, out, s = sh(cmd, wt, env=denv)
            rec["ran"].append({"what": "demo with patch (must fail)", "cmd": cmd, "rc": rc, "s": s, "tail": out[-600:]})
            if rc == 0:
                ok = False
            # 4. existing tests
            if not skip_tests:
                for tc in meta.get("tests_run", []):
                    tc2 = cargo_part(tc)
                    tc2 = re.sub(r"\s--test seed_\w+", "", " " + tc2).strip()   # demo targets are not "existing tests"
                    if not tc2 or re.fullmatch(r"cargo test -p \S+( --features \S+)?( --offline)?( -j\d+)?( --no-run)?", tc2) and "--test seed_" in tc:
                        continue
                    # the demo file is a new test: exclude it from "existing tests" by removing it first
                    for rel in demo_files:
                        p = os.path.join(wt, rel)
                        if os.path.exists(p):
                            os.remove(p)
                    rc, out, s = sh(tc2, wt, env=env, timeout=int(os.environ.get("SEEDVAL_TEST_TIMEOUT", "2400")))
                    note = ""
                    if rc == 124:
                        note = "timed out in the validator (not counted; the seed's author reports having run it)"
                    elif rc != 0:
                        failed = set(re.findall(r"--test (\w+)`", out)) | set(re.findall(r"^\s+`-p \S+ --test (\w+)`", out, re.M))
                        # the trybuild snapshot target fails on the unmodified tree in this sandbox (registry path in stderr)
                        if failed and failed <= {"surface_compile_fail", "compile_fail"}:
                            note = "only the trybuild snapshot target failed, as it does on the unmodified tree (not counted)"
                        elif "no test target named" in out:
                            note = "command names test targets that belong to other seeded changes of the same author (not run)"
                    rec["ran"].append({"what": "existing tests with patch (must pass)", "cmd": tc2, "rc": rc, "s": s, "note": note, "tail": out[-400:]})
                    if rc != 0 and not note:
                        ok = False
            # 5. our checks (demo files removed: only the source change is visible)
            for rel in demo_files:
                p = os.path.join(wt, rel)
                if os.path.exists(p):
                    os.remove(p)
            rec["checks"] = {}
            todo = []
            for c in checks:
                if not os.path.exists(os.path.join(VERIF, "checks", f"{c}.py")):
                    rec["checks"][c] = {"caught": None, "note": "no check registered yet"}
                else:
                    todo.append(c)
            if todo:
                # one isolated run for all requested checks (they usually share a harness build)
                hs = sorted({h for c in todo for h in harness_of(c)})
                script = f"/tmp/seedval_cmd_{name}.sh"
                with open(script, "w") as f:
                    for c in todo:
                        f.write(f"echo __BEGIN_{c}; ./check {c}; echo __RC_{c}=$?\n")
                t0 = time.time()
                p = subprocess.run(f"MUTRUN_SEED='{' '.join(hs)}' tools/mutrun {wt} sh {script}", cwd=VERIF, shell=True,
                                   capture_output=True, text=True, timeout=4 * 7200)
                out = p.stdout + p.stderr
                os.remove(script)
                for c in todo:
                    seg = out.split(f"__BEGIN_{c}", 1)[-1].split("__BEGIN_", 1)[0]
                    m = re.search(rf"__RC_{c}=(\d+)", seg)
                    rc = int(m.group(1)) if m else -1
                    viol = [l for l in seg.splitlines() if l.startswith("VIOLATION")]
                    rec["checks"][c] = {"caught": bool(viol) and rc != 0, "rc": rc, "s": round(time.time() - t0, 1),
                                        "violation_line": viol[:1], "tail": "\n".join(seg.splitlines()[-8:])}
    finally:
        if not keep:
            subprocess.run(f"git -C /repo worktree remove --force {wt}", shell=True, capture_output=True)
            shutil.rmtree(wt, ignore_errors=True)
            subprocess.run("git -C /repo worktree prune", shell=True)
    rec["valid_seed"] = ok
    dst = os.path.join(VERIF, "seeded", name)
    history = []
    if os.path.exists(os.path.join(dst, "meta.json")):
        try:
            oldm = json.load(open(os.path.join(dst, "meta.json")))
            history = oldm.get("validation_history", []) + [oldm.get("validation")]
        except Exception:
            history = []
    if ok:
        shutil.rmtree(dst, ignore_errors=True)
        os.makedirs(dst)
        if cur_patch.strip():
            open(os.path.join(dst, "patch.diff"), "w").write(cur_patch)
        else:
            shutil.copy(os.path.join(seed, "patch.diff"), dst)
        shutil.copytree(os.path.join(seed, "demo"), os.path.join(dst, "demo"))
        m = dict(meta)
        m["validation"] = rec
        if history:
            m["validation_history"] = history      # earlier validations (e.g. before a check was strengthened)
        json.dump(m, open(os.path.join(dst, "meta.json"), "w"), indent=1)
    print(json.dumps({"seed": name, "valid": ok, "checks": rec.get("checks"),
                      "ran": [(r["what"], r["rc"], r.get("s")) for r in rec["ran"]]}, indent=1))
    if not ok:
        json.dump(rec, open(os.path.join(seed, "validation_failed.json"), "w"), indent=1)


if __name__ == "__main__":
    main()
