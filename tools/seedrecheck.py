#!/usr/bin/env python3
"""tools/seedrecheck.py <name> <check>[,<check>…]: re-run checks against an already validated seeded change
(seeded/<name>/patch.diff on a fresh worktree of /repo HEAD, isolated via tools/mutrun) and append the verdicts
to seeded/<name>/meta.json (the previous validation moves to validation_history)."""
import json, os, re, subprocess, sys, time
V = os.path.dirname(os.path.dirname(os.path.abspath(__file__)))
sys.path.insert(0, os.path.join(V, "tools"))
import seedval
name, checks = sys.argv[1], sys.argv[2].split(",")
d = os.path.join(V, "seeded", name)
meta = json.load(open(os.path.join(d, "meta.json")))
wt = f"/tmp/wt_re_{name}"
subprocess.run(f"git -C /repo worktree remove --force {wt}", shell=True, capture_output=True)
subprocess.run(f"rm -rf {wt}; git -C /repo worktree add --detach {wt} HEAD", shell=True, capture_output=True)
# keep unchanged files' mtimes equal to /repo's so only the touched crate rebuilds in the scratch target
subprocess.run(f"cd {wt} && git ls-files -z | xargs -0 -I{{}} touch -r /repo/{{}} {{}} 2>/dev/null", shell=True)
r = subprocess.run(f"git apply {os.path.join(d, 'patch.diff')}", cwd=wt, shell=True, capture_output=True, text=True)
assert r.returncode == 0, r.stderr
hs = sorted({h for c in checks for h in seedval.harness_of(c)})
script = f"/tmp/seedre_{name}.sh"
open(script, "w").write("".join(f"echo __BEGIN_{c}; ./check {c}; echo __RC_{c}=$?\n" for c in checks))
t0 = time.time()
p = subprocess.run(f"MUTRUN_SEED='{' '.join(hs)}' tools/mutrun {wt} sh {script}", cwd=V, shell=True, capture_output=True, text=True, timeout=3 * 3600)
out = p.stdout + p.stderr
rec = {"revalidated_at_repo_head": subprocess.run("git -C /repo rev-parse --short HEAD", shell=True, capture_output=True, text=True).stdout.strip(),
       "note": "re-run of the checks only (after the check was strengthened); demo/existing tests as in the first validation",
       "ran": [], "checks": {}, "valid_seed": True}
for c in checks:
    seg = out.split(f"__BEGIN_{c}", 1)[-1].split("__BEGIN_", 1)[0]
    m = re.search(rf"__RC_{c}=(\d+)", seg)
    rc = int(m.group(1)) if m else -1
    viol = [l for l in seg.splitlines() if l.startswith("VIOLATION")]
    rec["checks"][c] = {"caught": bool(viol) and rc != 0, "rc": rc, "s": round(time.time() - t0, 1), "violation_line": viol[:1],
                        "tail": "\n".join(seg.splitlines()[-8:])}
meta["validation_history"] = meta.get("validation_history", []) + [meta["validation"]]
meta["validation"] = rec
json.dump(meta, open(os.path.join(d, "meta.json"), "w"), indent=1)
subprocess.run(f"git -C /repo worktree remove --force {wt}; rm -f {script}", shell=True, capture_output=True)
print(name, {c: v["caught"] for c, v in rec["checks"].items()})
