#!/usr/bin/env python3
"""
hvlib — the common runner behind `./check <Cxx>`.

For one property it:
  1. regenerates translated Lean tables from /repo (optional, per SPEC),
  2. builds the property's Lean module + native model driver (`lake build`),
  3. audits the proofs (grep for sorry/axiom/native_decide…, `#print axioms` of every
     property theorem must be ⊆ {propext, Classical.choice, Quot.sound}; thorough tier
     also runs `leanchecker`),
  4. builds the Rust harness against /repo's *current working tree* (path deps, hooks
     enabled with --cfg hydro_project_hydro_verif) and runs corpus cases, then generated
     cases; the harness writes ops.txt / impl.txt / prop.txt / stats.json,
  5. pipes ops.txt through the Lean model driver and diffs per case,
  6. decides: clean -> exit 0 (KNOWN-FINDING lines for listed findings that still
     reproduce); otherwise searches for a failing input (property oracle on the real
     code, more seeds, then delta-debugging) and prints
     `VIOLATION property=<id> replay=<path>[ no-failing-input-found]`, exit 1,
  7. writes evidence/<id>.json from what was measured on this run.

SPEC (dict in checks/<id>.py) keys:
  id, lean_project, props_module, driver (exe name or None),
  harness (crate dir under harness/), bin (binary name), mode (first CLI arg),
  cases = {"quick": n, "thorough": m}, extra_args (list, optional),
  theorems (optional explicit list; default: every `theorem` in the Props file whose
  name does not start with `aux_`), refuted (optional list of theorem names that state
  the *negation* of a clause on a witness — counted as obligations like the others),
  translate (optional callable(ctx) -> list of (name, ok, detail)),
  extra (optional callable(ctx) -> list of (name, ok, detail, replay_lines|None)),
  level ("proof"), trusted_base (list of str), assumptions (list of str),
  design_ref, level_text, level_note, technique   (MANIFEST metadata)
"""
import fcntl
import importlib.util
import json
import os
import re
import shutil
import subprocess
import sys
import time

VERIF = os.path.dirname(os.path.dirname(os.path.abspath(__file__)))
REPO = "/repo"
TARGET = os.environ.get("HV_TARGET", os.path.join(VERIF, ".target"))
WORK = os.path.join(VERIF, "work")
ALLOWED_AXIOMS = {"propext", "Classical.choice", "Quot.sound"}
FORBIDDEN = re.compile(r"\bsorry\b|\badmit\b|^\s*axiom\s|native_decide|bv_decide|implemented_by|\bunsafe\s|maxHeartbeats\s+0")

GLOBAL_TRUSTED = [
    "Lean 4.33.0 kernel (+ leanchecker in thorough tier)",
    "axioms propext / Classical.choice / Quot.sound only (audited with #print axioms on every run)",
    "Lean compiler for the native model driver (model execution = kernel reduction of the same definitions)",
    "the Rust harness + differ in /verif (correspondence check) and tools/translate*.py (translation)",
    "rustc 1.96.0, std/hashbrown collections modelled by abstract behaviour",
]


def log(msg):
    print(f"[hv] {msg}", flush=True)


def sh(cmd, cwd=None, env=None, timeout=None, input_text=None):
    """run; return (rc, stdout, stderr)"""
    e = dict(os.environ)
    e["CARGO_NET_OFFLINE"] = "true"
    if env:
        e.update(env)
    try:
        p = subprocess.run(cmd, cwd=cwd, env=e, timeout=timeout, input=input_text,
                           capture_output=True, text=True)
        return p.returncode, p.stdout, p.stderr
    except subprocess.TimeoutExpired as ex:
        return 124, (ex.stdout or b"").decode() if isinstance(ex.stdout, bytes) else (ex.stdout or ""), "timeout"


class Lock:
    def __init__(self, name):
        os.makedirs(WORK, exist_ok=True)
        self.path = os.path.join(WORK, f".lock_{name}")

    def __enter__(self):
        self.f = open(self.path, "w")
        fcntl.flock(self.f, fcntl.LOCK_EX)
        return self

    def __exit__(self, *a):
        fcntl.flock(self.f, fcntl.LOCK_UN)
        self.f.close()


def load_spec(pid):
    path = os.path.join(VERIF, "checks", f"{pid}.py")
    if not os.path.exists(path):
        raise SystemExit(f"no check registered for {pid} ({path})")
    sp = importlib.util.spec_from_file_location(f"check_{pid}", path)
    mod = importlib.util.module_from_spec(sp)
    sp.loader.exec_module(mod)
    return mod.SPEC


# ----------------------------------------------------------------------------- lean

def props_file(spec):
    return os.path.join(VERIF, "lean", spec["lean_project"], *spec["props_module"].split(".")) + ".lean"


def strip_comments(src):
    # remove /- ... -/ (nested) and -- line comments
    out = []
    i, depth, n = 0, 0, len(src)
    while i < n:
        if src.startswith("/-", i):
            depth += 1
            i += 2
        elif depth and src.startswith("-/", i):
            depth -= 1
            i += 2
        elif depth:
            if src[i] == "\n":
                out.append("\n")
            i += 1
        elif src.startswith("--", i):
            while i < n and src[i] != "\n":
                i += 1
        else:
            out.append(src[i])
            i += 1
    return "".join(out)


def theorem_names(spec):
    if spec.get("theorems"):
        return list(spec["theorems"])
    src = strip_comments(open(props_file(spec)).read())
    ns = []
    names = []
    for line in src.splitlines():
        m = re.match(r"\s*namespace\s+(\S+)", line)
        if m:
            ns.append(m.group(1))
            continue
        m = re.match(r"\s*end\s+(\S+)", line)
        if m and ns and ns[-1] == m.group(1):
            ns.pop()
            continue
        m = re.match(r"\s*(?:@\[[^\]]*\]\s*)?(?:private\s+|protected\s+)?theorem\s+([^\s:({\[]+)", line)
        if m:
            nm = m.group(1)
            if nm.split(".")[-1].startswith("aux_"):
                continue
            names.append(".".join(ns + [nm]))
    return names


def lean_sources(spec):
    """all .lean files of the project that the property module may import (whole project)"""
    root = os.path.join(VERIF, "lean", spec["lean_project"])
    res = []
    for d, dirs, files in os.walk(root):
        dirs[:] = [x for x in dirs if x != ".lake"]
        for f in files:
            if f.endswith(".lean"):
                res.append(os.path.join(d, f))
    return res


def lean_stage(spec, tier, ctx):
    """returns list of obligations (name, ok, detail)"""
    obs = []
    proj = os.path.join(VERIF, "lean", spec["lean_project"])
    targets = [spec["props_module"]]
    if spec.get("driver"):
        targets.append(spec["driver"])
    with Lock("lean_" + spec["lean_project"]):
        t = time.time()
        rc, out, err = sh(["lake", "build"] + targets, cwd=proj, timeout=3600)
        ctx["lean_build_s"] = round(time.time() - t, 1)
        build_ok = rc == 0
        if not build_ok:
            errs = [l for l in (out + err).splitlines() if "error" in l][:20]
            ctx["lean_errors"] = errs
        thms = theorem_names(spec)
        ctx["theorems"] = thms
        if not build_ok:
            # which theorem broke? name those whose name appears near an error; otherwise all
            for th in thms:
                obs.append((f"theorem {th}", False, "lake build failed: " + "; ".join(ctx["lean_errors"][:3])))
            obs.append(("audit: no sorry/axiom/native_decide", False, "build failed"))
            return obs
        # textual audit over the project's sources
        bad = []
        for f in lean_sources(spec):
            src = strip_comments(open(f).read())
            for no, line in enumerate(src.splitlines(), 1):
                if FORBIDDEN.search(line):
                    bad.append(f"{os.path.relpath(f, VERIF)}:{no}: {line.strip()[:80]}")
        obs.append(("audit: no sorry/admit/axiom/native_decide/bv_decide/implemented_by/unsafe/maxHeartbeats 0",
                    not bad, "; ".join(bad[:5])))
        # axiom audit
        wd = ctx["work"]
        ax = os.path.join(wd, "Axioms.lean")
        with open(ax, "w") as f:
            f.write(f"import {spec['props_module']}\n")
            for th in thms:
                f.write(f"#print axioms {th}\n")
        rc, out, err = sh(["lake", "env", "lean", ax], cwd=proj, timeout=1800)
        text = out + err
        found = {}
        for m in re.finditer(r"'([^']+)' depends on axioms: \[([^\]]*)\]", text, re.S):
            found[m.group(1)] = set(a.strip() for a in m.group(2).replace("\n", " ").split(",") if a.strip())
        for m in re.finditer(r"'([^']+)' does not depend on any axioms", text):
            found[m.group(1)] = set()
        ctx["axioms"] = {k: sorted(v) for k, v in found.items()}
        for th in thms:
            if th not in found:
                obs.append((f"theorem {th}", False, "not found by #print axioms: " + text.strip()[:200]))
            else:
                extra = found[th] - ALLOWED_AXIOMS
                obs.append((f"theorem {th}", not extra,
                            ("axioms: " + ",".join(sorted(found[th]))) if found[th] else "no axioms"))
        if tier == "thorough":
            rc, out, err = sh(["lake", "env", "leanchecker", spec["props_module"]], cwd=proj, timeout=3600)
            obs.append((f"leanchecker {spec['props_module']}", rc == 0, (out + err).strip()[:200]))
    return obs


# ----------------------------------------------------------------------------- harness

def harness_build(spec, ctx):
    hdir = os.path.join(VERIF, "harness", spec["harness"])
    t = time.time()
    tdir = os.path.join(TARGET, spec["harness"])
    rc, out, err = sh(["cargo", "build", "--release", "--bin", spec["bin"]], cwd=hdir, timeout=7200,
                      env={"CARGO_TARGET_DIR": tdir})
    ctx["harness_build_s"] = round(ctx.get("harness_build_s", 0) + time.time() - t, 1)
    if rc != 0:
        ctx["harness_errors"] = [l for l in err.splitlines() if l.startswith("error")][:10]
    return rc == 0, os.path.join(tdir, "release", spec["bin"])


def run_harness(spec, binpath, outdir, seed, cases, tier, replay=None, extra=None):
    os.makedirs(outdir, exist_ok=True)
    for f in ("ops.txt", "impl.txt", "prop.txt", "stats.json"):
        p = os.path.join(outdir, f)
        if os.path.exists(p):
            os.remove(p)
    cmd = [binpath, spec["mode"], "--seed", str(seed), "--cases", str(cases), "--out", outdir, "--tier", tier]
    if replay:
        cmd += ["--replay", replay]
    cmd += list(spec.get("extra_args", []))
    if extra:
        cmd += extra
    rc, out, err = sh(cmd, cwd=outdir, timeout=spec.get("harness_timeout", 3600))
    return rc, out, err


def run_driver(spec, outdir):
    """pipe ops.txt through the Lean model driver -> model.txt"""
    proj = os.path.join(VERIF, "lean", spec["lean_project"])
    exe = os.path.join(proj, ".lake", "build", "bin", spec["driver"])
    ops = open(os.path.join(outdir, "ops.txt")).read()
    rc, out, err = sh([exe], input_text=ops, timeout=spec.get("driver_timeout", 3600))
    with open(os.path.join(outdir, "model.txt"), "w") as f:
        f.write(out)
    return rc, err


def split_cases(lines):
    """[(case_no, tag, [indices])]"""
    cases = []
    cur = None
    for i, l in enumerate(lines):
        if l.startswith("#case"):
            parts = l.split(" ", 2)
            no = parts[1] if len(parts) > 1 else "?"
            cur = [no, l, [i]]
            cases.append(cur)
        else:
            if cur is None:
                cur = ["0", "#case 0", []]
                cases.append(cur)
            cur[2].append(i)
    return cases


def diff_outputs(outdir):
    """compare impl.txt / model.txt case by case -> list of mismatching cases"""
    ops = open(os.path.join(outdir, "ops.txt")).read().splitlines()
    imp = open(os.path.join(outdir, "impl.txt")).read().splitlines()
    mod = open(os.path.join(outdir, "model.txt")).read().splitlines()
    mism = []
    if not (len(ops) == len(imp)):
        mism.append({"case": "?", "why": f"harness wrote {len(ops)} ops but {len(imp)} outputs"})
        return mism, ops, imp, mod
    if len(mod) != len(ops):
        # still localise the first divergent case
        mod = mod + ["<missing>"] * (len(ops) - len(mod))
    for no, tagline, idxs in split_cases(ops):
        bad = [i for i in idxs if imp[i] != mod[i]]
        if bad:
            i = bad[0]
            mism.append({"case": no, "first_line": ops[i], "impl": imp[i], "model": mod[i],
                         "lines": [ops[j] for j in idxs],
                         "impl_out": [imp[j] for j in idxs], "model_out": [mod[j] for j in idxs]})
    return mism, ops, imp, mod


def read_prop_failures(outdir):
    p = os.path.join(outdir, "prop.txt")
    res = []
    if os.path.exists(p):
        for l in open(p).read().splitlines():
            m = re.match(r"FAIL case=(\S+) sig=(\S+)\s?(.*)", l)
            if m:
                res.append({"case": m.group(1), "sig": m.group(2), "detail": m.group(3)})
    return res


def case_lines(outdir, case_no):
    ops = open(os.path.join(outdir, "ops.txt")).read().splitlines()
    for no, tagline, idxs in split_cases(ops):
        if no == str(case_no):
            return [ops[j] for j in idxs]
    return []


# ----------------------------------------------------------------------------- known findings

def known_findings(pid):
    """known_findings.json plus one-file-per-finding drafts in known_findings.d/ (folded in at integration)"""
    res = []
    p = os.path.join(VERIF, "known_findings.json")
    if os.path.exists(p):
        res += json.load(open(p)).get("findings", [])
    d = os.path.join(VERIF, "known_findings.d")
    if os.path.isdir(d):
        for f in sorted(os.listdir(d)):
            if f.endswith(".json"):
                x = json.load(open(os.path.join(d, f)))
                res += x if isinstance(x, list) else [x]
    return [f for f in res if f.get("property") == pid]


def is_known(fail, kf):
    for f in kf:
        if f.get("status") == "known" and f.get("sig") == fail["sig"]:
            return f
    return None


# ----------------------------------------------------------------------------- shrinking

def shrink_case(spec, binpath, lines, sig, wd, budget=150):
    """delta-debugging on op lines (first line `#case …` kept); keeps prop failure `sig`"""
    head, body = lines[0], lines[1:]
    runs = [0]

    def fails(cand):
        runs[0] += 1
        rp = os.path.join(wd, "shrink.case")
        with open(rp, "w") as f:
            f.write("\n".join([head] + cand) + "\n")
        od = os.path.join(wd, "shrink_out")
        rc, _, _ = run_harness(spec, binpath, od, 0, 0, "quick", replay=rp)
        if rc != 0:
            return False
        return any(pf["sig"] == sig for pf in read_prop_failures(od))

    n = 2
    while len(body) >= 2 and runs[0] < budget:
        chunk = max(1, len(body) // n)
        reduced = False
        for i in range(0, len(body), chunk):
            cand = body[:i] + body[i + chunk:]
            if cand and fails(cand):
                body = cand
                n = max(n - 1, 2)
                reduced = True
                break
            if runs[0] >= budget:
                break
        if not reduced:
            if chunk == 1:
                break
            n = min(n * 2, len(body))
    return [head] + body


# ----------------------------------------------------------------------------- main flow

def write_replay(pid, name, obj):
    d = os.path.join(VERIF, "work", "replay")
    os.makedirs(d, exist_ok=True)
    p = os.path.join(d, f"{pid}_{name}.json")
    with open(p, "w") as f:
        json.dump(obj, f, indent=1)
    return p


def run_check(pid, tier, seed, replay=None):
    t0 = time.time()
    spec = load_spec(pid)
    wd = os.path.join(WORK, pid)
    shutil.rmtree(wd, ignore_errors=True)
    os.makedirs(wd)
    ctx = {"work": wd, "spec": spec, "tier": tier, "seed": seed, "verif": VERIF, "repo": REPO}
    kf = known_findings(pid)

    if replay:
        return run_replay(spec, pid, replay, ctx, kf)

    obligations = []       # (name, ok, detail)
    violations = []        # dicts
    stats = {"cases": 0, "lines": 0, "prop_checks": 0, "prop_failures": 0,
             "distinct_nontrivial": 0, "hist": {}, "samples": [], "rule": ""}
    mism = []
    pfails = []
    known_hits = []
    binpath = None
    top = spec
    parts = spec.get("parts") or [spec]
    ctx["theorems_all"] = []
    ctx["axioms_all"] = {}
    for pi, part in enumerate(parts):
        part = dict(part)
        for k in ("harness_timeout", "driver_timeout"):
            if k in top and k not in part:
                part[k] = top[k]
        pctx = ctx
        # 1. translation
        if part.get("translate"):
            try:
                obligations += [(f"translated table {n}", ok, d) for (n, ok, d) in part["translate"](ctx)]
            except Exception as ex:  # a parse failure of a translated fragment is a broken tie
                obligations.append(("translation", False, f"translator failed: {ex!r}"))
        # 2/3. lean
        n_before = len(obligations)
        if part.get("props_module"):
            obligations += lean_stage(part, tier, ctx)
            ctx["theorems_all"] += ctx.get("theorems", [])
            ctx["axioms_all"].update(ctx.get("axioms", {}))
        lean_ok = all(ok for _, ok, _ in obligations[n_before:])
        # 4. harness
        if part.get("harness"):
            corr_name = f"correspondence {part['harness']}::{part['mode']} vs {part.get('driver')}"
            with Lock("cargo_" + part["harness"]):
                ok, binpath = harness_build(part, ctx)
            part["_bin"] = binpath
            if not ok:
                obligations.append((corr_name, False, "harness does not build against /repo: " + "; ".join(ctx.get("harness_errors", []))))
            else:
                runs = []
                cdir = os.path.join(VERIF, "corpus", pid)
                if os.path.isdir(cdir):
                    for cf in sorted(os.listdir(cdir)):
                        unpref = not any(cf.startswith(q.get("mode", "?") + "_") for q in parts if q.get("mode"))
                        if cf.endswith(".case") and (len(parts) == 1 or cf.startswith(part["mode"] + "_") or (pi == 0 and unpref)):
                            runs.append(("corpus:" + cf, os.path.join(cdir, cf)))
                runs.append(("generated", None))
                part_mism = []
                failed_run = False
                for name, rp in runs:
                    od = os.path.join(wd, f"p{pi}_" + name.replace(":", "_").replace("/", "_"))
                    n = part.get("cases", {}).get(tier, 200)
                    rc, out, err = run_harness(part, binpath, od, seed, n, tier, replay=rp)
                    if rc != 0:
                        obligations.append((corr_name, False, f"harness run {name} failed rc={rc}: {(err or out).strip()[-300:]}"))
                        failed_run = True
                        continue
                    st = json.load(open(os.path.join(od, "stats.json")))
                    for k in ("cases", "lines", "prop_checks", "prop_failures", "distinct_nontrivial"):
                        stats[k] += st.get(k, 0)
                    for k, v in st.get("hist", {}).items():
                        stats["hist"][k] = stats["hist"].get(k, 0) + v
                    stats["samples"] += st.get("samples", [])[:3]
                    stats["rule"] = (stats["rule"] + " || " if stats["rule"] and st.get("rule") and st.get("rule") not in stats["rule"] else stats["rule"]) + (st.get("rule", "") if st.get("rule", "") not in stats["rule"] else "")
                    for pf in read_prop_failures(od):
                        pf["run"] = name
                        pf["outdir"] = od
                        pf["part"] = part
                        k = is_known(pf, kf)
                        if k:
                            known_hits.append((k, pf))
                        else:
                            pfails.append(pf)
                    if part.get("driver") and lean_ok:
                        rc, derr = run_driver(part, od)
                        if rc != 0:
                            obligations.append((corr_name, False, f"model driver failed rc={rc}: {derr[-200:]}"))
                            failed_run = True
                            continue
                        mm, _, _, _ = diff_outputs(od)
                        for m in mm:
                            m["run"] = name
                            m["outdir"] = od
                        part_mism += mm
                if not failed_run:
                    obligations.append((corr_name, not part_mism,
                                        f"{stats['cases']} cases / {stats['lines']} op lines so far, {len(part_mism)} disagreeing cases"))
                mism += part_mism
        # extra python-level stage
        if part.get("extra"):
            ctx["binpath"] = binpath
            ctx["part"] = part
            for (n, ok, d, rl) in part["extra"](ctx):
                obligations.append((n, ok, d))
                if not ok and rl is not None:
                    pfails.append({"case": "extra", "sig": n, "detail": d, "lines": rl, "run": "extra", "outdir": wd, "part": part})
    ctx["theorems"] = ctx["theorems_all"]
    ctx["axioms"] = ctx["axioms_all"]

    # 6. verdict
    broken = [(n, d) for (n, ok, d) in obligations if not ok]
    out_lines = []
    rc_final = 0
    # KNOWN-FINDING lines
    seen = set()
    for k, pf in known_hits:
        if k.get("id") in seen:
            continue
        seen.add(k.get("id"))
        out_lines.append(f"KNOWN-FINDING: property={pid} {k.get('id','')} {k.get('what','')}")
    if pfails or broken:
        rc_final = 1
        replay_path = None
        tail = ""
        if not pfails:
            # search: more seeds / more cases for a property failure on the real code
            log("broken obligation without failing input: searching (property oracle on the real code)…")
            for pi, part in enumerate(parts):
                if not part.get("harness") or not part.get("_bin"):
                    continue
                n = part.get("cases", {}).get("thorough", 2000)
                n = min(n, part.get("search_cases", n))
                for s2 in (seed + 1, seed + 2, seed + 3):
                    od = os.path.join(wd, f"search_p{pi}_{s2}")
                    rc, _, _ = run_harness(part, part["_bin"], od, s2, n, "thorough")
                    if rc != 0:
                        continue
                    for pf in read_prop_failures(od):
                        if not is_known(pf, kf):
                            pf["run"] = f"search seed={s2}"
                            pf["outdir"] = od
                            pf["part"] = part
                            pfails.append(pf)
                    if pfails:
                        break
                if pfails:
                    break
        if pfails:
            pf = pfails[0]
            lines = pf.get("lines") or case_lines(pf["outdir"], pf["case"])
            full = list(lines)
            if lines and pf.get("run") != "extra" and pf.get("part", {}).get("_bin"):
                try:
                    lines = shrink_case(pf["part"], pf["part"]["_bin"], lines, pf["sig"], wd)
                except Exception as ex:
                    log(f"shrink failed: {ex!r}")
            replay_path = write_replay(pid, "failing_input", {
                "property": pid, "kind": "failing-input", "engine": "lean4-proof+correspondence",
                "seed": seed, "tier": tier, "oracle_signature": pf["sig"], "detail": pf.get("detail", ""),
                "part_mode": pf.get("part", {}).get("mode"),
                "case": lines, "unshrunk_case": full,
                "broken_obligations": [{"name": n, "detail": d} for n, d in broken],
                "disagreements": [{k: m[k] for k in ("case", "first_line", "impl", "model") if k in m} for m in mism[:5]],
                "how_to_replay": f"./check {pid} --replay <this file>",
            })
            violations.append({"sig": pf["sig"], "replay": replay_path})
        else:
            first = mism[0] if mism else None
            replay_path = write_replay(pid, "broken_obligation", {
                "property": pid, "kind": "broken-obligation", "engine": "lean4-proof+correspondence",
                "seed": seed, "tier": tier,
                "broken_obligations": [{"name": n, "detail": d} for n, d in broken],
                "first_disagreement": ({k: first[k] for k in ("case", "first_line", "impl", "model", "lines", "impl_out", "model_out")} if first else None),
                "case": (first["lines"] if first else []),
                "note": "no input on which the property itself fails was found by the search; the named theorem / correspondence no longer checks",
            })
            tail = " no-failing-input-found"
            violations.append({"sig": "broken-obligation", "replay": replay_path})
        for n, d in broken:
            out_lines.append(f"BROKEN: {n} :: {d[:300]}")
        for pf in pfails[:5]:
            out_lines.append(f"PROPERTY-FAILURE (real code): sig={pf['sig']} case={pf['case']} run={pf.get('run')} {pf.get('detail','')[:200]}")
        for m in mism[:5]:
            out_lines.append(f"DISAGREEMENT (impl vs model): case={m['case']} at `{m.get('first_line')}` impl=`{m.get('impl')}` model=`{m.get('model')}`")
        out_lines.append(f"VIOLATION property={pid} replay={replay_path}{tail}")

    # 7. evidence
    n_ob = len(obligations)
    n_ok = sum(1 for _, ok, _ in obligations if ok)
    ev = {
        "property_id": pid, "tier": tier, "seed": seed, "level": spec.get("level", "proof"),
        "coverage": {
            "obligations": n_ob, "discharged": n_ok,
            "checker_cmd": " ; ".join(f"cd lean/{p['lean_project']} && lake build {p['props_module']} && lake env lean <#print axioms of each theorem>" + (" && lake env leanchecker " + p["props_module"] if tier == "thorough" else "") for p in parts if p.get("props_module")) or "(no Lean part)",
            "trusted_base": GLOBAL_TRUSTED + spec.get("trusted_base", []),
            "obligation_list": [{"name": n, "ok": ok, "detail": d[:200]} for n, ok, d in obligations],
            "theorems": ctx.get("theorems", []),
            "axioms_used": ctx.get("axioms", {}),
            "evaluations": stats.get("cases", 0),
            "op_lines": stats.get("lines", 0),
            "distinct_nontrivial": stats.get("distinct_nontrivial", 0),
            "rule": stats.get("rule", ""),
            "samples": stats.get("samples", [])[:6] or [n for n, _, _ in obligations[:3]],
            "property_oracle_checks_on_real_code": stats.get("prop_checks", 0),
            "property_oracle_failures": len(pfails),
            "property_oracle_failures_matching_known_findings": len(known_hits),
            "model_vs_impl_disagreeing_cases": len(mism),
            "input_distribution": stats.get("hist", {}),
            "known_findings_reproduced": sorted(seen),
            "lean_build_s": ctx.get("lean_build_s"), "harness_build_s": ctx.get("harness_build_s"),
        },
        "assumptions": spec.get("assumptions", []),
        "wall_s": round(time.time() - t0, 2),
        "violations": len(violations),
    }
    os.makedirs(os.path.join(VERIF, "evidence"), exist_ok=True)
    with open(os.path.join(VERIF, "evidence", f"{pid}.json"), "w") as f:
        json.dump(ev, f, indent=1)
    for l in out_lines:
        print(l, flush=True)
    log(f"{pid} tier={tier} seed={seed}: obligations {n_ok}/{n_ob}, cases {stats.get('cases', 0)}, "
        f"oracle failures {len(pfails)}, disagreements {len(mism)}, {ev['wall_s']}s -> exit {rc_final}")
    return rc_final


def run_replay(spec, pid, replay, ctx, kf):
    """re-run exactly the case of a replay file on implementation and model"""
    wd = ctx["work"]
    data = {}
    if replay.endswith(".json"):
        data = json.load(open(replay))
        lines = data.get("case", [])
    else:
        lines = open(replay).read().splitlines()
    parts = spec.get("parts") or [spec]
    cand = [p for p in parts if p.get("harness") and (not data.get("part_mode") or p.get("mode") == data.get("part_mode"))]
    if not cand:
        print("no harness part to replay on")
        return 1
    spec = cand[0]
    if not lines:
        print("replay file holds no case lines (broken-obligation replay): " +
              json.dumps(json.load(open(replay)).get("broken_obligations", []))[:500])
        return 1
    rp = os.path.join(wd, "replay.case")
    with open(rp, "w") as f:
        f.write("\n".join(lines) + "\n")
    lean_stage(spec, "quick", ctx)
    with Lock("cargo_" + spec["harness"]):
        ok, binpath = harness_build(spec, ctx)
    if not ok:
        print("harness does not build")
        return 1
    od = os.path.join(wd, "replay_out")
    rc, out, err = run_harness(spec, binpath, od, 0, 0, "quick", replay=rp)
    bad = False
    if rc != 0:
        print(f"harness rc={rc} {err[-300:]}")
        bad = True
    pf = read_prop_failures(od)
    for p in pf:
        k = is_known(p, kf)
        print(("KNOWN-FINDING: " if k else "PROPERTY-FAILURE (real code): ") + f"sig={p['sig']} {p['detail']}")
        if not k:
            bad = True
    if spec.get("driver"):
        run_driver(spec, od)
        mm, ops, imp, mod = diff_outputs(od)
        for i, l in enumerate(ops):
            mark = "  " if i < len(mod) and imp[i] == mod[i] else "!!"
            print(f"{mark} {l}  ->  impl: {imp[i]}   model: {mod[i] if i < len(mod) else '<missing>'}")
        if mm:
            bad = True
    if bad:
        print(f"VIOLATION property={pid} replay={replay}")
        return 1
    print("replay: property held, implementation and model agree")
    return 0


def main():
    import argparse
    ap = argparse.ArgumentParser()
    ap.add_argument("pid")
    ap.add_argument("--tier", default=os.environ.get("VERIF_TIER", "quick"))
    ap.add_argument("--replay")
    a = ap.parse_args()
    seed = int(os.environ.get("VERIF_SEED", "1") or "1")
    sys.exit(run_check(a.pid, a.tier, seed, a.replay))


if __name__ == "__main__":
    main()
