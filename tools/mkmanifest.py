#!/usr/bin/env python3
"""Regenerate MANIFEST.json from checks/*.py (claimed) and properties.jsonl (everything else -> not_applicable
with the reason given in tools/not_applicable.json, default 'not built yet')."""
import json, os, sys
sys.path.insert(0, os.path.dirname(os.path.abspath(__file__)))
import hvlib
V = hvlib.VERIF
props = [json.loads(l) for l in open(os.path.join(V, "properties.jsonl"))]
na_reasons = {}
p = os.path.join(V, "tools", "not_applicable.json")
if os.path.exists(p):
    na_reasons = json.load(open(p))
checks, na, engines = [], [], {}
for pr in props:
    pid = pr["id"]
    evp = os.path.join(V, "evidence", f"{pid}.json")
    clean = False
    if os.path.exists(evp):
        try:
            ev = json.load(open(evp))
            clean = not ev.get("violations") and ev["coverage"].get("obligations") == ev["coverage"].get("discharged")
        except Exception:
            clean = False
    if os.path.exists(os.path.join(V, "checks", f"{pid}.py")) and clean:
        s = hvlib.load_spec(pid)
        parts = s.get("parts") or [s]
        proj = s.get("lean_project") or next((q["lean_project"] for q in parts if q.get("lean_project")), "none")
        harn = s.get("harness") or next((q["harness"] for q in parts if q.get("harness")), None)
        checks.append({
            "property_id": pid,
            "quick_cmd": f"./check {pid} --tier quick",
            "thorough_cmd": f"./check {pid} --tier thorough",
            "evidence_file": f"/verif/evidence/{pid}.json",
            "replay_cmd_template": f"./check {pid} --replay {{path}}",
            "engine": proj,
            "level_claimed": {"category": s.get("level", "proof"), "text": s["level_text"], "design_ref": s.get("design_ref", "DESIGN.md §5")},
            "level_note": s["level_note"],
            "technique": s.get("technique", "Lean 4 proof + correspondence"),
        })
        e = engines.setdefault(proj, {"name": proj, "path": f"lean/{proj} + harness/{harn}",
                                                    "serves_properties": [], "kind_free_text": "Lean 4 model + theorems, native model driver, Rust differential harness against /repo"})
        e["serves_properties"].append(pid)
    else:
        na.append({"property_id": pid, "reason": na_reasons.get(pid, "not claimed yet: model/proof/correspondence for this property is still being built (see DESIGN.md §5)")})
hooks_commits = []
hp = os.path.join(V, "tools", "hook_commits.txt")
if os.path.exists(hp):
    hooks_commits = [l.split()[0] for l in open(hp).read().splitlines() if l.strip() and not l.startswith("#")]
m = {
    "version": 1,
    "setup_cmd": "./setup",
    "hooks": {
        "guard": "--cfg hydro_project_hydro_verif",
        "enable": "harness crates set rustflags = [\"--cfg\", \"hydro_project_hydro_verif\"] in harness/*/.cargo/config.toml (path deps on /repo crates)",
        "baseline_off_cmd": "cd /repo && cargo nextest run --workspace --no-fail-fast --tool-config-file pb:/w/lib/nextest.toml --profile pb --test-threads 8 --offline",
        "source_commits": hooks_commits,
        "add_only": True,
    },
    "engines": list(engines.values()),
    "checks": checks,
    "not_applicable": na,
    "notes": "Every check = Lean 4 theorems about an executable model (lean/<project>/…/Props/<id>.lean) + a checked tie to /repo's working tree (translation and/or differential correspondence through harness/<crate>). See DESIGN.md.",
}
json.dump(m, open(os.path.join(V, "MANIFEST.json"), "w"), indent=1)
print(f"claimed {len(checks)}, not_applicable {len(na)}")
