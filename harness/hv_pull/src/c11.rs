//! C11: every pull combinator, driven poll by poll.
//!
//! Op lines (answers in brackets):
//!   #case <n> <tags>
//!   src <A|B> <slo> <shi|inf> <script>      [ok]      script: `r<item>`,`p`,`e` comma separated, `-` empty
//!   mk <combinator> [k=v ...]               [ok | bad-op]
//!   hint                                    [h=<lo>,<hi|inf> | h=-]
//!   poll                                    [R <v> h=.. | P h=.. | E h=.. | D <result> | done]
//!   log                                     [values seen by the inspect / for_each closure]
use crate::script::*;
use dfir_pipes::pull::{self, Pull, PullStep};
use dfir_pipes::{EitherOrBoth, Yes};
use hv_common::{Args, Recorder, Rng};
use std::cell::RefCell;
use std::collections::{BTreeMap, HashMap};
use std::pin::Pin;
use std::rc::Rc;
use std::task::{Context, Poll, Waker};

// ------------------------------------------------------------------ values

pub trait Show {
    fn show(&self) -> String;
}
impl Show for u64 {
    fn show(&self) -> String {
        self.to_string()
    }
}
impl Show for usize {
    fn show(&self) -> String {
        self.to_string()
    }
}
impl<A: Show, B: Show> Show for (A, B) {
    fn show(&self) -> String {
        format!("({},{})", self.0.show(), self.1.show())
    }
}
impl<A: Show, B: Show> Show for EitherOrBoth<A, B> {
    fn show(&self) -> String {
        match self {
            EitherOrBoth::Both(a, b) => format!("B({},{})", a.show(), b.show()),
            EitherOrBoth::Left(a) => format!("L({})", a.show()),
            EitherOrBoth::Right(b) => format!("R({})", b.show()),
        }
    }
}
fn show_nats(v: &[u64]) -> String {
    if v.is_empty() { "-".into() } else { v.iter().map(|x| x.to_string()).collect::<Vec<_>>().join(";") }
}

#[derive(Clone, Debug, PartialEq, Eq)]
pub enum Ans {
    R(String),
    P,
    E,
    D(String),
}
type H = (usize, Option<usize>);
fn show_hint(h: Option<H>) -> String {
    match h {
        None => "h=-".into(),
        Some((lo, hi)) => format!("h={},{}", lo, hi.map(|x| x.to_string()).unwrap_or("inf".into())),
    }
}

// ------------------------------------------------------------------ machines

pub trait Machine {
    fn poll(&mut self) -> Ans;
    fn hint(&self) -> Option<H>;
}
struct PM<P: Pull>(Pin<Box<P>>);
impl<P> Machine for PM<P>
where
    P: Pull,
    P::Item: Show,
{
    fn poll(&mut self) -> Ans {
        let mut cx = Context::from_waker(Waker::noop());
        let ctx = <P::Ctx<'_> as dfir_pipes::Context<'_>>::from_task(&mut cx);
        match self.0.as_mut().pull(ctx) {
            PullStep::Ready(x, _) => Ans::R(x.show()),
            PullStep::Pending(_) => Ans::P,
            PullStep::Ended(_) => Ans::E,
        }
    }
    fn hint(&self) -> Option<H> {
        Some(self.0.size_hint())
    }
}
pub fn pm<P>(p: P) -> Box<dyn Machine>
where
    P: Pull + 'static,
    P::Item: Show,
{
    Box::new(PM(Box::pin(p)))
}
/// a `futures::Stream` polled as a machine (for `StreamCompat`)
struct SM<S: futures_core::Stream>(Pin<Box<S>>);
impl<S> Machine for SM<S>
where
    S: futures_core::Stream,
    S::Item: Show,
{
    fn poll(&mut self) -> Ans {
        let mut cx = Context::from_waker(Waker::noop());
        match self.0.as_mut().poll_next(&mut cx) {
            Poll::Ready(Some(x)) => Ans::R(x.show()),
            Poll::Pending => Ans::P,
            Poll::Ready(None) => Ans::E,
        }
    }
    fn hint(&self) -> Option<H> {
        Some(self.0.size_hint())
    }
}
/// a future polled as a machine; never polled again once done
struct FM<F: Future> {
    fut: Option<Pin<Box<F>>>,
    show: Box<dyn Fn(F::Output) -> String>,
}
impl<F: Future> Machine for FM<F> {
    fn poll(&mut self) -> Ans {
        let Some(f) = self.fut.as_mut() else { return Ans::D("done".into()) };
        let mut cx = Context::from_waker(Waker::noop());
        match f.as_mut().poll(&mut cx) {
            Poll::Pending => Ans::P,
            Poll::Ready(out) => {
                self.fut = None;
                Ans::D((self.show)(out))
            }
        }
    }
    fn hint(&self) -> Option<H> {
        None
    }
}

// ------------------------------------------------------------------ case description

#[derive(Clone, Debug)]
pub struct SrcSpec {
    pub script: Vec<Tok<Item>>,
    pub slo: usize,
    pub shi: Option<usize>,
}
#[derive(Clone, Debug, Default)]
pub struct Spec {
    pub name: String,
    pub params: BTreeMap<String, String>,
    pub srcs: BTreeMap<String, SrcSpec>,
}

fn tbl_nat(s: &str) -> Option<Vec<u64>> {
    let v: Option<Vec<u64>> = s.split(';').map(|t| t.parse().ok()).collect();
    v.filter(|v| !v.is_empty())
}
fn tbl_opt(s: &str) -> Option<Vec<Option<u64>>> {
    let v: Option<Vec<Option<u64>>> =
        s.split(';').map(|t| if t == "-" { Some(None) } else { t.parse().ok().map(Some) }).collect();
    v.filter(|v| !v.is_empty())
}
fn tbl_list(s: &str) -> Option<Vec<Vec<u64>>> {
    let v: Option<Vec<Vec<u64>>> = s
        .split(';')
        .map(|t| if t == "_" { Some(vec![]) } else { t.split('.').map(|x| x.parse().ok()).collect() })
        .collect();
    v.filter(|v| !v.is_empty())
}
fn tbl_fut(s: &str) -> Option<Vec<(usize, Option<u64>)>> {
    let v: Option<Vec<(usize, Option<u64>)>> = s
        .split(';')
        .map(|t| {
            let (k, o) = t.split_once(':')?;
            let k: usize = k.parse().ok()?;
            let o = if o == "-" { None } else { Some(o.parse().ok()?) };
            Some((k, o))
        })
        .collect();
    v.filter(|v| !v.is_empty())
}
fn tbl_strm(s: &str) -> Option<Vec<Item>> {
    let v: Option<Vec<Item>> = s.split(';').map(|t| if t == "_" { Some(vec![]) } else { parse_item(t) }).collect();
    v.filter(|v| !v.is_empty())
}
fn at<T: Clone>(t: &[T], x: u64) -> T {
    t[(x as usize) % t.len()].clone()
}

impl Spec {
    fn nat_src(&self, k: &str) -> Option<(Vec<Tok<u64>>, usize, Option<usize>)> {
        let s = self.srcs.get(k)?;
        Some((map_script(&s.script, as_nat)?, s.slo, s.shi))
    }
    fn pull_nat(&self, k: &str) -> Option<ScriptPull<u64>> {
        let (s, lo, hi) = self.nat_src(k)?;
        Some(ScriptPull::new(s, lo, hi))
    }
    fn fused(&self, k: &str) -> bool {
        self.srcs.get(k).map(|s| !s.script.contains(&Tok::E)).unwrap_or(false)
    }
    fn p(&self, k: &str) -> Option<&str> {
        self.params.get(k).map(|s| s.as_str())
    }
    fn n(&self, k: &str) -> Option<usize> {
        self.p(k)?.parse().ok()
    }
}

/// what the property demands of this case (computed from the spec alone, with std iterators)
pub struct Expect {
    /// items until the first `Ended`, in order (for futures: unused)
    pub outs: Vec<String>,
    /// the real type implements `FusedPull` and this case meets its bounds
    pub fused: bool,
    /// outputs never end (repeat) / never come (pending)
    pub endless: bool,
    /// result of a draining future
    pub result: Option<String>,
    /// expected closure log
    pub log: Option<String>,
}

struct Built {
    m: Box<dyn Machine>,
    log: Option<Rc<RefCell<Vec<u64>>>>,
    exp: Expect,
}

fn exp(outs: Vec<String>, fused: bool) -> Expect {
    Expect { outs, fused, endless: false, result: None, log: None }
}
fn shows<T: Show>(v: impl IntoIterator<Item = T>) -> Vec<String> {
    v.into_iter().map(|x| x.show()).collect()
}

const ACC_F: fn(u64, u64) -> u64 = |a, v| (a * 3 + v + 1) % 1000;

/// Build the real combinator for `spec`, plus the oracle's expectation.  `None` = bad-op.
fn build(spec: &Spec) -> Option<Built> {
    let log: Rc<RefCell<Vec<u64>>> = Rc::new(RefCell::new(vec![]));
    let fa = spec.fused("A");
    let fb = spec.fused("B");
    let mut used_log = false;
    let (m, e): (Box<dyn Machine>, Expect) = match spec.name.as_str() {
        // ---- sources
        "iter" => {
            let l = if spec.p("l")? == "-" { vec![] } else { tbl_nat(spec.p("l")?)? };
            (pm(pull::iter(l.clone())), exp(shows(l), true))
        }
        "once" => {
            let x: u64 = spec.p("x")?.parse().ok()?;
            (pm(pull::once(x)), exp(shows([x]), true))
        }
        "empty" => (pm(pull::empty::<u64>()), exp(vec![], true)),
        "repeat" => {
            let x: u64 = spec.p("x")?.parse().ok()?;
            let mut e = exp(vec![x.show()], true);
            e.endless = true;
            (pm(pull::repeat(x)), e)
        }
        "pending" => {
            let mut e = exp(vec![], true);
            e.endless = true;
            (pm(pull::pending::<u64>()), e)
        }
        "from_fn" => {
            let (s, _, _) = spec.nat_src("A")?;
            if s.contains(&Tok::P) {
                return None;
            }
            let its = items(&s);
            let mut q: std::collections::VecDeque<_> = s.into();
            let p = pull::from_fn(move || match q.pop_front() {
                Some(Tok::R(x)) => PullStep::Ready(x, ()),
                _ => PullStep::<u64, (), dfir_pipes::No, Yes>::Ended(Yes),
            });
            (pm(p), exp(shows(its), false))
        }
        "poll_fn" => {
            let (s, _, _) = spec.nat_src("A")?;
            let its = items(&s);
            let mut q: std::collections::VecDeque<_> = s.into();
            let p = pull::poll_fn(move |_cx| match q.pop_front() {
                Some(Tok::R(x)) => PullStep::Ready(x, ()),
                Some(Tok::P) => PullStep::<u64, (), Yes, Yes>::Pending(Yes),
                _ => PullStep::Ended(Yes),
            });
            (pm(p), exp(shows(its), false))
        }
        "stream" => {
            let (s, _, _) = spec.nat_src("A")?;
            let its = items(&s);
            (pm(pull::stream(ScriptStream { steps: s.into() })), exp(shows(its), false))
        }
        "stream_ready" => {
            let (s, _, _) = spec.nat_src("A")?;
            let its: Vec<u64> =
                s.iter().take_while(|t| matches!(t, Tok::R(_))).map(|t| if let Tok::R(x) = t { *x } else { 0 }).collect();
            (pm(pull::stream_ready(ScriptStream { steps: s.into() }, Waker::noop().clone())), exp(shows(its), false))
        }
        "stream_compat" => {
            let p = spec.pull_nat("A")?;
            let its = items(&spec.nat_src("A")?.0);
            (Box::new(SM(Box::pin(pull::stream_compat(p)))), exp(shows(its), false))
        }
        // ---- one input
        "map" => {
            let t = tbl_nat(spec.p("f")?)?;
            let its = items(&spec.nat_src("A")?.0);
            let t2 = t.clone();
            (pm(spec.pull_nat("A")?.map(move |x| at(&t2, x))), exp(shows(its.into_iter().map(|x| at(&t, x))), fa))
        }
        "filter" => {
            let t = tbl_nat(spec.p("p")?)?;
            let its = items(&spec.nat_src("A")?.0);
            let t2 = t.clone();
            (
                pm(spec.pull_nat("A")?.filter(move |x| at(&t2, *x) != 0)),
                exp(shows(its.into_iter().filter(|x| at(&t, *x) != 0)), fa),
            )
        }
        "filter_map" => {
            let t = tbl_opt(spec.p("f")?)?;
            let its = items(&spec.nat_src("A")?.0);
            let t2 = t.clone();
            (
                pm(spec.pull_nat("A")?.filter_map(move |x| at(&t2, x))),
                exp(shows(its.into_iter().filter_map(|x| at(&t, x))), fa),
            )
        }
        "inspect" => {
            let its = items(&spec.nat_src("A")?.0);
            let l2 = log.clone();
            used_log = true;
            let mut e = exp(shows(its.clone()), fa);
            // the closure sees exactly the yielded items (checked when the source is fused)
            if fa {
                e.log = Some(show_nats(&its));
            }
            (pm(spec.pull_nat("A")?.inspect(move |x| l2.borrow_mut().push(*x))), e)
        }
        "take_while" => {
            let t = tbl_nat(spec.p("p")?)?;
            let its = items(&spec.nat_src("A")?.0);
            let t2 = t.clone();
            (
                pm(spec.pull_nat("A")?.take_while(move |x| at(&t2, *x) != 0)),
                exp(shows(its.into_iter().take_while(|x| at(&t, *x) != 0)), false),
            )
        }
        "enumerate" => {
            let its = items(&spec.nat_src("A")?.0);
            (pm(spec.pull_nat("A")?.enumerate()), exp(shows(its.into_iter().enumerate()), fa))
        }
        "skip" => {
            let n = spec.n("n")?;
            let its = items(&spec.nat_src("A")?.0);
            (pm(spec.pull_nat("A")?.skip(n)), exp(shows(its.into_iter().skip(n)), fa))
        }
        "skip_while" => {
            let t = tbl_nat(spec.p("p")?)?;
            let its = items(&spec.nat_src("A")?.0);
            let t2 = t.clone();
            (
                pm(spec.pull_nat("A")?.skip_while(move |x| at(&t2, *x) != 0)),
                exp(shows(its.into_iter().skip_while(|x| at(&t, *x) != 0)), fa),
            )
        }
        "take" => {
            let n = spec.n("n")?;
            let its = items(&spec.nat_src("A")?.0);
            (pm(spec.pull_nat("A")?.take(n)), exp(shows(its.into_iter().take(n)), true))
        }
        "fuse" => {
            let its = items(&spec.nat_src("A")?.0);
            (pm(spec.pull_nat("A")?.fuse()), exp(shows(its), true))
        }
        "flat_map" => {
            let t = tbl_list(spec.p("f")?)?;
            let its = items(&spec.nat_src("A")?.0);
            let t2 = t.clone();
            (
                pm(spec.pull_nat("A")?.flat_map(move |x| at(&t2, x))),
                exp(shows(its.into_iter().flat_map(|x| at(&t, x))), fa),
            )
        }
        "flatten" => {
            let s = spec.srcs.get("A")?;
            let sc = map_script(&s.script, as_list)?;
            let its = items(&sc);
            (pm(ScriptPull::new(sc, s.slo, s.shi).flatten()), exp(shows(its.into_iter().flatten()), fa))
        }
        "filter_map_async" => {
            let t = tbl_fut(spec.p("f")?)?;
            let its = items(&spec.nat_src("A")?.0);
            let t2 = t.clone();
            (
                pm(spec.pull_nat("A")?.filter_map_async(move |x| {
                    let (pend, out) = at(&t2, x);
                    ScriptFut { pend, out }
                })),
                exp(shows(its.into_iter().filter_map(|x| at(&t, x).1)), fa),
            )
        }
        "flat_map_stream" => {
            let t = tbl_strm(spec.p("f")?)?;
            let its = items(&spec.nat_src("A")?.0);
            let t2 = t.clone();
            (
                pm(spec.pull_nat("A")?.flat_map_stream(move |x| stream_of_item(&at(&t2, x)))),
                exp(shows(its.into_iter().flat_map(|x| as_list(&strip_p(&at(&t, x))).unwrap())), fa),
            )
        }
        "flatten_stream" => {
            let s = spec.srcs.get("A")?;
            let its: Vec<Item> = items(&s.script);
            let sc = map_script(&s.script, |i| Some(stream_of_item(i)))?;
            (
                pm(ScriptPull::new(sc, s.slo, s.shi).flatten_stream()),
                exp(shows(its.into_iter().flat_map(|i| as_list(&strip_p(&i)).unwrap())), fa),
            )
        }
        // ---- two inputs
        "chain" => {
            if !fa {
                return None; // `Chain` demands `A: FusedPull`
            }
            let a = items(&spec.nat_src("A")?.0);
            let b = items(&spec.nat_src("B")?.0);
            (pm(spec.pull_nat("A")?.chain(spec.pull_nat("B")?)), exp(shows(a.into_iter().chain(b)), fa && fb))
        }
        "either" => {
            let a = items(&spec.nat_src("A")?.0);
            let b = items(&spec.nat_src("B")?.0);
            type E = dfir_pipes::Either<ScriptPull<u64>, ScriptPull<u64>>;
            match spec.p("side")? {
                "l" => (pm(E::Left(spec.pull_nat("A")?)), exp(shows(a), fa)),
                "r" => (pm(E::Right(spec.pull_nat("B")?)), exp(shows(b), fb)),
                _ => return None,
            }
        }
        "zip" => {
            let a = items(&spec.nat_src("A")?.0);
            let b = items(&spec.nat_src("B")?.0);
            (pm(spec.pull_nat("A")?.zip(spec.pull_nat("B")?)), exp(shows(a.into_iter().zip(b)), false))
        }
        "zip_longest" => {
            if !fa || !fb {
                return None; // `ZipLongest` demands both fused
            }
            let a = items(&spec.nat_src("A")?.0);
            let b = items(&spec.nat_src("B")?.0);
            (
                pm(spec.pull_nat("A")?.zip_longest(spec.pull_nat("B")?)),
                exp(shows(itertools::Itertools::zip_longest(a.into_iter(), b.into_iter())), true),
            )
        }
        "cross" => {
            let a = items(&spec.nat_src("A")?.0);
            let b = items(&spec.nat_src("B")?.0);
            let init: Option<u64> = match spec.p("init")? {
                "-" => None,
                v => Some(v.parse().ok()?),
            };
            let single = init.or(b.first().copied());
            let outs = match single {
                Some(v) => shows(a.into_iter().map(|x| (x, v))),
                None => vec![],
            };
            let m: Box<dyn Machine> = match init {
                None => pm(spec.pull_nat("A")?.cross_singleton(spec.pull_nat("B")?)),
                Some(v) => {
                    // external state (`cross_singleton_state`) already holding a value
                    let st: &'static mut Option<u64> = Box::leak(Box::new(Some(v)));
                    pm(spec.pull_nat("A")?.cross_singleton_state(spec.pull_nat("B")?, st))
                }
            };
            (m, exp(outs, fa && fb))
        }
        // ---- pipelines (two levels)
        "pz" => {
            let tf = tbl_nat(spec.p("f")?)?;
            let tp = tbl_nat(spec.p("p")?)?;
            let a = items(&spec.nat_src("A")?.0);
            let b = items(&spec.nat_src("B")?.0);
            let (tf2, tp2) = (tf.clone(), tp.clone());
            (
                pm(spec.pull_nat("A")?.map(move |x| at(&tf2, x)).zip(spec.pull_nat("B")?.filter(move |x| at(&tp2, *x) != 0))),
                exp(shows(a.into_iter().map(|x| at(&tf, x)).zip(b.into_iter().filter(|x| at(&tp, *x) != 0))), false),
            )
        }
        "pt" => {
            let t = tbl_list(spec.p("f")?)?;
            let n = spec.n("n")?;
            let a = items(&spec.nat_src("A")?.0);
            let t2 = t.clone();
            (
                pm(spec.pull_nat("A")?.flat_map(move |x| at(&t2, x)).take(n)),
                exp(shows(a.into_iter().flat_map(|x| at(&t, x)).take(n)), true),
            )
        }
        "pc" => {
            let n = spec.n("n")?;
            let a = items(&spec.nat_src("A")?.0);
            let b = items(&spec.nat_src("B")?.0);
            (
                pm(spec.pull_nat("A")?.fuse().chain(spec.pull_nat("B")?.skip(n))),
                exp(shows(a.into_iter().chain(b.into_iter().skip(n))), fb),
            )
        }
        "pl" => {
            if !fb {
                return None; // `Enumerate<B>` must be fused for `zip_longest`
            }
            let tp = tbl_nat(spec.p("p")?)?;
            let a = items(&spec.nat_src("A")?.0);
            let b = items(&spec.nat_src("B")?.0);
            let tp2 = tp.clone();
            (
                pm(spec.pull_nat("A")?.take_while(move |x| at(&tp2, *x) != 0).fuse().zip_longest(spec.pull_nat("B")?.enumerate())),
                exp(
                    shows(itertools::Itertools::zip_longest(
                        a.into_iter().take_while(|x| at(&tp, *x) != 0),
                        b.into_iter().enumerate(),
                    )),
                    true,
                ),
            )
        }
        // ---- futures draining a pull
        "collect" => {
            let its = items(&spec.nat_src("A")?.0);
            let mut e = exp(vec![], false);
            e.result = Some(show_nats(&its));
            let f = spec.pull_nat("A")?.collect::<Vec<u64>>();
            (Box::new(FM { fut: Some(Box::pin(f)), show: Box::new(|v: Vec<u64>| show_nats(&v)) }), e)
        }
        "for_each" => {
            let its = items(&spec.nat_src("A")?.0);
            let mut e = exp(vec![], false);
            e.result = Some("unit".into());
            e.log = Some(show_nats(&its));
            let l2 = log.clone();
            used_log = true;
            let f = spec.pull_nat("A")?.for_each(move |x| l2.borrow_mut().push(x));
            (Box::new(FM { fut: Some(Box::pin(f)), show: Box::new(|()| "unit".into()) }), e)
        }
        "acc" => {
            let s = spec.srcs.get("A")?;
            let sc = map_script(&s.script, as_pair)?;
            let its = items(&sc);
            // oracle: per key, fold the values in arrival order
            let mut per: BTreeMap<u64, Vec<u64>> = BTreeMap::new();
            for (k, v) in &its {
                per.entry(*k).or_default().push(*v);
            }
            let kind = spec.p("kind")?.to_string();
            let want: Vec<String> = per
                .iter()
                .map(|(k, vs)| {
                    let r = match kind.as_str() {
                        "fold" => vs.iter().fold(0u64, |a, v| ACC_F(a, *v)),
                        "reduce" => vs[1..].iter().fold(vs[0], |a, v| ACC_F(a, *v)),
                        _ => vs[1..].iter().fold(vs[0] + 100, |a, v| ACC_F(a, *v)),
                    };
                    format!("{k}:{r}")
                })
                .collect();
            let mut e = exp(vec![], false);
            e.result = Some(if want.is_empty() { "-".into() } else { want.join(";") });
            let hm: &'static mut HashMap<u64, u64> = Box::leak(Box::new(HashMap::new()));
            let hp = hm as *mut HashMap<u64, u64>;
            let show = Box::new(move |()| {
                // SAFETY: the future (sole borrower of the leaked map) has completed and was dropped by `FM::poll`
                // before `show` runs? -- no: `show` runs while the box is being dropped; the future no longer touches the map.
                let m = unsafe { &*hp };
                let mut v: Vec<_> = m.iter().map(|(k, v)| (*k, *v)).collect();
                v.sort();
                if v.is_empty() { "-".into() } else { v.iter().map(|(k, v)| format!("{k}:{v}")).collect::<Vec<_>>().join(";") }
            });
            let p = ScriptPull::new(sc, s.slo, s.shi);
            let m: Box<dyn Machine> = match kind.as_str() {
                "fold" => {
                    let acc = Box::leak(Box::new(pull::Fold::new(|| 0u64, |a: &mut u64, v: u64| *a = ACC_F(*a, v))));
                    Box::new(FM { fut: Some(Box::pin(pull::accumulate_all(acc, hm, p))), show })
                }
                "reduce" => {
                    let acc = Box::leak(Box::new(pull::Reduce::new(|a: &mut u64, v: u64| *a = ACC_F(*a, v))));
                    Box::new(FM { fut: Some(Box::pin(pull::accumulate_all(acc, hm, p))), show })
                }
                "foldfrom" => {
                    let acc = Box::leak(Box::new(pull::FoldFrom::new(|v: u64| v + 100, |a: &mut u64, v: u64| *a = ACC_F(*a, v))));
                    Box::new(FM { fut: Some(Box::pin(pull::accumulate_all(acc, hm, p))), show })
                }
                _ => return None,
            };
            (m, e)
        }
        _ => return None,
    };
    Some(Built { m, log: if used_log { Some(log) } else { None }, exp: e })
}
fn strip_p(i: &Item) -> Item {
    i.iter().filter(|t| **t != ITok::P).cloned().collect()
}

// ------------------------------------------------------------------ interpreter + oracle

/// Runs the op lines of one case on the real code; evaluates the oracle at the end.
pub fn exec_case(lines: &[String], rec: &mut Recorder) {
    let mut spec = Spec::default();
    let mut built: Option<Built> = None;
    // (answer, hint after the step); hints.0 = hint before the first poll
    let mut hint0: Option<H> = None;
    let mut trace: Vec<(Ans, Option<H>)> = vec![];
    let mut last_log: Option<String> = None;
    for l in lines {
        let w: Vec<&str> = l.split(' ').collect();
        match w[0] {
            "#case" => {
                let n: u64 = w.get(1).and_then(|x| x.parse().ok()).unwrap_or(0);
                rec.case(n, &w[2..].join(" "));
            }
            "src" if w.len() == 5 && built.is_none() => {
                let slo = w[2].parse::<usize>().ok();
                let shi = if w[3] == "inf" { Some(None) } else { w[3].parse::<usize>().ok().map(Some) };
                match (slo, shi, parse_script(w[4])) {
                    (Some(slo), Some(shi), Some(script)) if w[1] == "A" || w[1] == "B" => {
                        spec.srcs.insert(w[1].to_string(), SrcSpec { script, slo, shi });
                        rec.line(l, "ok");
                    }
                    _ => rec.line(l, "bad-op"),
                }
            }
            "mk" if w.len() >= 2 && built.is_none() => {
                spec.name = w[1].to_string();
                spec.params.clear();
                let mut ok = true;
                for kv in &w[2..] {
                    match kv.split_once('=') {
                        Some((k, v)) => {
                            spec.params.insert(k.to_string(), v.to_string());
                        }
                        None => ok = false,
                    }
                }
                let b = if ok { build(&spec) } else { None };
                match b {
                    Some(b) => {
                        hint0 = b.m.hint();
                        built = Some(b);
                        rec.count(&format!("mk:{}", spec.name));
                        rec.line(l, "ok");
                    }
                    None => rec.line(l, "bad-op"),
                }
            }
            "hint" if w.len() == 1 && built.is_some() => {
                let h = built.as_ref().unwrap().m.hint();
                rec.line(l, &show_hint(h));
            }
            "poll" if w.len() == 1 && built.is_some() => {
                let b = built.as_mut().unwrap();
                let a = b.m.poll();
                let h = b.m.hint();
                let out = match &a {
                    Ans::R(v) => format!("R {v} {}", show_hint(h)),
                    Ans::P => format!("P {}", show_hint(h)),
                    Ans::E => format!("E {}", show_hint(h)),
                    Ans::D(v) => format!("D {v}"),
                };
                rec.line(l, &out);
                trace.push((a, h));
            }
            "log" if w.len() == 1 && built.is_some() => {
                let b = built.as_ref().unwrap();
                match &b.log {
                    Some(lg) => {
                        let s = show_nats(&lg.borrow());
                        rec.line(l, &s);
                        last_log = Some(s);
                    }
                    None => rec.line(l, "bad-op"),
                }
            }
            _ => rec.line(l, "bad-op"),
        }
    }
    let Some(b) = built else { return };
    oracle(&spec, &b.exp, hint0, &trace, last_log, rec);
}

fn oracle(spec: &Spec, e: &Expect, hint0: Option<H>, trace: &[(Ans, Option<H>)], last_log: Option<String>, rec: &mut Recorder) {
    let name = &spec.name;
    // arms / shape statistics
    let n_r = trace.iter().filter(|(a, _)| matches!(a, Ans::R(_))).count();
    let n_p = trace.iter().filter(|(a, _)| *a == Ans::P).count();
    if n_r >= 1 && n_p >= 1 {
        rec.nontrivial();
    }
    if matches!(name.as_str(), "zip" | "zip_longest") {
        zip_arms(spec, trace.len(), rec);
    }
    rec.count_n("answers:R", n_r as u64);
    rec.count_n("answers:P", n_p as u64);
    // ---- draining futures
    if let Some(want) = &e.result {
        let done: Vec<&String> = trace.iter().filter_map(|(a, _)| if let Ans::D(v) = a { Some(v) } else { None }).collect();
        match done.first() {
            Some(got) => rec.check(*got == want, &format!("result@{name}"), &format!("want {want} got {got}")),
            None => rec.check(false, &format!("never-done@{name}"), "future still pending after all scripted steps"),
        }
        rec.check(
            trace.iter().all(|(a, _)| matches!(a, Ans::P | Ans::D(_))),
            &format!("future-answer@{name}"),
            "a draining future answered something other than Pending/Done",
        );
        if let (Some(wl), Some(gl)) = (&e.log, &last_log) {
            rec.check(wl == gl, &format!("log@{name}"), &format!("want {wl} got {gl}"));
        }
        return;
    }
    // ---- pulls: items until the first Ended
    let first_end = trace.iter().position(|(a, _)| *a == Ans::E);
    let upto = first_end.unwrap_or(trace.len());
    let got: Vec<String> = trace[..upto].iter().filter_map(|(a, _)| if let Ans::R(v) = a { Some(v.clone()) } else { None }).collect();
    if e.endless {
        // repeat: every poll Ready(x); pending: every poll Pending
        let ok = first_end.is_none()
            && if e.outs.is_empty() { n_r == 0 } else { n_p == 0 && got.iter().all(|g| *g == e.outs[0]) };
        rec.check(ok, &format!("refines@{name}"), "endless source answered unexpectedly");
        return;
    }
    match first_end {
        None => rec.check(false, &format!("no-end@{name}"), "never reported Ended within the scripted steps"),
        Some(_) => rec.check(
            got == e.outs,
            &format!("refines@{name}"),
            &format!("want [{}] got [{}]", e.outs.join(" "), got.join(" ")),
        ),
    }
    // ---- fused: after the first Ended, only Ended
    if let (true, Some(fe)) = (e.fused, first_end) {
        let ok = trace[fe..].iter().all(|(a, _)| *a == Ans::E);
        rec.check(ok, &format!("fused@{name}"), &format!("answer after Ended at poll {fe}"));
        rec.count("fused-checked");
    }
    // ---- size_hint brackets the number of items still to come, at every state up to the first Ended
    if let Some(fe) = first_end {
        let total = got.len();
        let mut seen = 0usize;
        let mut states: Vec<(usize, H)> = vec![];
        if let Some(h) = hint0 {
            states.push((total, h));
        }
        for (a, h) in &trace[..=fe] {
            if matches!(a, Ans::R(_)) {
                seen += 1;
            }
            if let Some(h) = h {
                states.push((total - seen, *h));
            }
        }
        // after the first Ended of a fused pull nothing more comes
        if e.fused {
            for (_, h) in &trace[fe + 1..] {
                if let Some(h) = h {
                    states.push((0, *h));
                }
            }
        } else {
            states.pop(); // the state right after Ended of a non-fused pull promises nothing
        }
        let mut ok = true;
        let mut detail = String::new();
        for (rem, (lo, hi)) in &states {
            if !(lo <= rem && hi.is_none_or(|u| *rem <= u)) {
                ok = false;
                detail = format!("remaining {rem} hint ({lo},{hi:?})");
                break;
            }
        }
        rec.check(ok, &format!("sizehint@{name}"), &detail);
    }
    if let (Some(wl), Some(gl)) = (&e.log, &last_log) {
        rec.check(wl == gl, &format!("log@{name}"), &format!("want {wl} got {gl}"));
    }
}

/// statistics only: which `(pull_left, pull_right)` arm each poll of a zip takes (buffer replayed)
fn zip_arms(spec: &Spec, polls: usize, rec: &mut Recorder) {
    let (Some((a, _, _)), Some((b, _, _))) = (spec.nat_src("A"), spec.nat_src("B")) else { return };
    let kind = |s: &[Tok<u64>], i: &mut usize| -> char {
        let k = match s.get(*i) {
            Some(Tok::R(_)) => 'R',
            Some(Tok::P) => 'P',
            Some(Tok::E) | None => 'E',
        };
        *i += 1;
        k
    };
    let (mut ia, mut ib) = (0usize, 0usize);
    let mut buf: Option<bool> = None; // Some(true) = left item buffered
    for _ in 0..polls {
        let kl = if buf == Some(true) { 'R' } else { kind(&a, &mut ia) };
        let kr = if buf == Some(false) { 'R' } else { kind(&b, &mut ib) };
        rec.count(&format!("arm:{}:{kl}{kr}{}", spec.name, if buf.is_some() { "(buffered)" } else { "" }));
        buf = match (kl, kr) {
            ('R', 'P') => Some(true),
            ('P', 'R') => Some(false),
            _ => None,
        };
    }
}

// ------------------------------------------------------------------ generation

/// all R/P shapes with ≤ `max_items` items and ≤ `max_pend` pendings (true = item)
fn shapes(max_items: usize, max_pend: usize) -> Vec<Vec<bool>> {
    fn go(items: usize, pend: usize, cur: &mut Vec<bool>, out: &mut Vec<Vec<bool>>) {
        if items == 0 && pend == 0 {
            out.push(cur.clone());
            return;
        }
        if items > 0 {
            cur.push(true);
            go(items - 1, pend, cur, out);
            cur.pop();
        }
        if pend > 0 {
            cur.push(false);
            go(items, pend - 1, cur, out);
            cur.pop();
        }
    }
    let mut out = vec![];
    for i in 0..=max_items {
        for p in 0..=max_pend {
            go(i, p, &mut vec![], &mut out);
        }
    }
    out
}

pub const UNARY: &[&str] = &[
    "map", "filter", "filter_map", "inspect", "take_while", "enumerate", "skip", "skip_while", "take", "fuse",
    "flat_map", "flatten", "filter_map_async", "flat_map_stream", "flatten_stream", "from_fn", "poll_fn", "stream",
    "stream_ready", "stream_compat", "collect", "for_each", "acc", "pt",
];
pub const BINARY: &[&str] = &["chain", "zip", "zip_longest", "cross", "either", "pz", "pc", "pl"];
pub const NULLARY: &[&str] = &["iter", "once", "empty", "repeat", "pending"];

fn rnd_tbl(r: &mut Rng, f: impl Fn(&mut Rng) -> String) -> String {
    let n = r.range(1, 4);
    (0..n).map(|_| f(r)).collect::<Vec<_>>().join(";")
}
fn rnd_item(r: &mut Rng, name: &str) -> Item {
    match name {
        "flatten" => (0..r.below(4)).map(|_| ITok::N(r.below(4))).collect(),
        "flatten_stream" => (0..r.below(5)).map(|_| if r.chance(1, 3) { ITok::P } else { ITok::N(r.below(4)) }).collect(),
        "acc" => vec![ITok::N(r.below(3)), ITok::N(r.below(4))],
        _ => vec![ITok::N(r.below(4))],
    }
}
fn rnd_params(r: &mut Rng, name: &str) -> String {
    match name {
        "map" => format!(" f={}", rnd_tbl(r, |r| r.below(5).to_string())),
        "filter" | "take_while" | "skip_while" => format!(" p={}", rnd_tbl(r, |r| r.below(2).to_string())),
        "filter_map" => format!(" f={}", rnd_tbl(r, |r| if r.chance(1, 3) { "-".into() } else { r.below(5).to_string() })),
        "skip" | "take" | "pc" => format!(" n={}", r.below(5)),
        "pz" => format!(" f={} p={}", rnd_tbl(r, |r| r.below(5).to_string()), rnd_tbl(r, |r| r.below(2).to_string())),
        "pl" => format!(" p={}", rnd_tbl(r, |r| if r.chance(1, 4) { "0".to_string() } else { "1".to_string() })),
        "pt" => format!(
            " n={} f={}",
            r.below(7),
            rnd_tbl(r, |r| {
                let n = r.below(4);
                if n == 0 { "_".into() } else { (0..n).map(|_| r.below(5).to_string()).collect::<Vec<_>>().join(".") }
            })
        ),
        "flat_map" => format!(
            " f={}",
            rnd_tbl(r, |r| {
                let n = r.below(4);
                if n == 0 { "_".into() } else { (0..n).map(|_| r.below(5).to_string()).collect::<Vec<_>>().join(".") }
            })
        ),
        "filter_map_async" => format!(
            " f={}",
            rnd_tbl(r, |r| format!("{}:{}", r.below(3), if r.chance(1, 3) { "-".into() } else { r.below(5).to_string() }))
        ),
        "flat_map_stream" => format!(
            " f={}",
            rnd_tbl(r, |r| {
                let n = r.below(5);
                if n == 0 {
                    "_".into()
                } else {
                    (0..n).map(|_| if r.chance(1, 3) { "p".to_string() } else { r.below(5).to_string() }).collect::<Vec<_>>().join(".")
                }
            })
        ),
        "cross" => format!(" init={}", if r.chance(1, 5) { r.below(4).to_string() } else { "-".into() }),
        "either" => format!(" side={}", if r.chance(1, 2) { "l" } else { "r" }),
        "acc" => format!(" kind={}", r.pick(&["fold", "reduce", "foldfrom"])),
        "iter" => format!(" l={}", {
            let n = r.below(4);
            if n == 0 { "-".into() } else { (0..n).map(|_| r.below(5).to_string()).collect::<Vec<_>>().join(";") }
        }),
        "once" | "repeat" => format!(" x={}", r.below(5)),
        _ => String::new(),
    }
}
/// may this input hold `e` (report Ended before its end)?
fn may_unfuse(name: &str, side: &str) -> bool {
    !matches!((name, side), ("chain", "A") | ("zip_longest", _) | ("pl", "B"))
}
fn script_from_shape(r: &mut Rng, name: &str, sh: &[bool]) -> Vec<Tok<Item>> {
    sh.iter().map(|&b| if b { Tok::R(rnd_item(r, name)) } else { Tok::P }).collect()
}
fn rnd_long_script(r: &mut Rng, name: &str, side: &str) -> Vec<Tok<Item>> {
    let n = r.range(0, 12);
    // combinators that are fused whatever their input (`Take`, `Fuse`) get unfused inputs half of the time
    let own_fuse = matches!((name, side), ("take", _) | ("fuse", _) | ("pt", _) | ("pc", "A"));
    let unf = may_unfuse(name, side) && r.chance(1, if own_fuse { 2 } else { 4 });
    let no_pend = name == "from_fn";
    (0..n)
        .map(|_| {
            let c = r.below(10);
            if c < 5 || (no_pend && c < 9) {
                Tok::R(rnd_item(r, name))
            } else if c < 9 || !unf {
                if no_pend { Tok::R(rnd_item(r, name)) } else { Tok::P }
            } else {
                Tok::E
            }
        })
        .collect()
}

/// op lines of case `i`
pub fn gen_case(seed: u64, i: u64, tier: &str, all_shapes: &[Vec<bool>]) -> Vec<String> {
    let mut r = Rng::new(seed).fork(i);
    let ns = all_shapes.len() as u64;
    let n_bin = BINARY.len() as u64;
    let n_un = UNARY.len() as u64;
    let exh_bin = n_bin * ns * ns;
    let exh_un = n_un * ns;
    // thorough: the first cases enumerate every shape (pair) for every combinator
    let (name, sh_a, sh_b): (&str, Option<usize>, Option<usize>) = if tier == "thorough" && i < exh_bin {
        (BINARY[(i % n_bin) as usize], Some(((i / n_bin) % ns) as usize), Some(((i / n_bin) / ns) as usize))
    } else if tier == "thorough" && i < exh_bin + exh_un {
        let j = i - exh_bin;
        (UNARY[(j % n_un) as usize], Some((j / n_un) as usize), None)
    } else {
        // round-robin over the combinators; half small shapes, half long random scripts
        let k = i % (n_bin * 3 + n_un + 1);
        let name = if k < n_bin * 3 {
            BINARY[(k % n_bin) as usize]
        } else if k < n_bin * 3 + n_un {
            UNARY[(k - n_bin * 3) as usize]
        } else {
            *r.pick(NULLARY)
        };
        if r.chance(1, 2) {
            (name, Some(r.below(ns) as usize), Some(r.below(ns) as usize))
        } else {
            (name, None, None)
        }
    };
    let mut lines = vec![format!("#case {i} {name}")];
    let mut total = 0usize;
    let mut push_src = |r: &mut Rng, side: &str, sh: Option<usize>, lines: &mut Vec<String>| {
        let mut sc = match sh {
            Some(k) => script_from_shape(r, name, &all_shapes[k]),
            None => rnd_long_script(r, name, side),
        };
        if name == "from_fn" {
            sc.retain(|t| *t != Tok::P);
        }
        // inner items add polls (flat_map & co)
        total += sc.len() * 6 + 2;
        let slo = r.below(3);
        let shi = if r.chance(1, 4) { "inf".to_string() } else { r.below(3).to_string() };
        lines.push(format!("src {side} {slo} {shi} {}", show_script(&sc)));
    };
    if !NULLARY.contains(&name) {
        push_src(&mut r, "A", sh_a, &mut lines);
    }
    if BINARY.contains(&name) {
        push_src(&mut r, "B", sh_b, &mut lines);
    }
    lines.push(format!("mk {name}{}", rnd_params(&mut r, name)));
    lines.push("hint".into());
    // enough polls to reach Ended on every schedule, plus a few after it; the interpreter
    // and the model both keep answering after Ended, so extra polls are harmless
    let polls = match name {
        "repeat" | "pending" => 4,
        n if NULLARY.contains(&n) => 6,
        _ => total.min(90) + 3,
    };
    // trim: run the case once to find where it ends, keep 3 polls after the first Ended
    let mut probe = lines.clone();
    probe.extend(std::iter::repeat_n("poll".to_string(), polls));
    let keep = probe_polls(&probe, polls);
    lines.extend(std::iter::repeat_n("poll".to_string(), keep));
    if matches!(name, "inspect" | "for_each") {
        lines.push("log".into());
    }
    lines
}

/// number of polls to keep: up to the first Ended/Done plus 3 (pulls) or 0 (futures)
fn probe_polls(lines: &[String], max: usize) -> usize {
    let mut rec = Recorder::new("");
    exec_case(lines, &mut rec);
    let outs: Vec<&str> = rec.imp.lines().collect();
    let ops: Vec<&str> = rec.ops.lines().collect();
    let mut n = 0usize;
    for (o, a) in ops.iter().zip(outs.iter()) {
        if *o == "poll" {
            n += 1;
            if a.starts_with("D ") {
                return n;
            }
            if a.starts_with("E ") {
                return (n + 3).min(max);
            }
        }
    }
    max
}

const MALFORMED: &[&[&str]] = &[
    &["poll"],
    &["mk zip"],
    &["src A 0 0 r1,p", "mk nosuch", "poll"],
    &["src A 0 0 r1,x", "mk map f=1", "hint"],
    &["src A 0 0 r1,e,r2", "src B 0 0 r1", "mk chain", "poll"],
    &["src A 0 0 r1", "src B 0 inf e", "mk zip_longest", "poll"],
    &["src A 0 0 r1", "mk map", "poll"],
    &["src A 0 0 r1", "mk map f=1", "src A 0 0 r2", "log", "poll", "poll"],
    &["src A 0 0 p,r1", "mk from_fn", "poll"],
];

pub fn run(a: &Args, rec: &mut Recorder) {
    if let Some(rp) = &a.replay {
        let lines = hv_common::read_lines(rp);
        // split into cases
        let mut cur: Vec<String> = vec![];
        for l in lines {
            if l.starts_with("#case") && !cur.is_empty() {
                exec_case(&cur, rec);
                cur.clear();
            }
            cur.push(l);
        }
        if !cur.is_empty() {
            if !cur[0].starts_with("#case") {
                cur.insert(0, "#case 0 replay".into());
            }
            exec_case(&cur, rec);
        }
        return;
    }
    let all_shapes = shapes(3, 3);
    for i in 0..a.cases {
        let lines = gen_case(a.seed, i, &a.tier, &all_shapes);
        exec_case(&lines, rec);
    }
    for (j, m) in MALFORMED.iter().enumerate() {
        let mut lines = vec![format!("#case {} malformed", a.cases + j as u64)];
        lines.extend(m.iter().map(|s| s.to_string()));
        exec_case(&lines, rec);
    }
}
