//! C13 (to come)
use hv_common::{Args, Recorder};
pub fn run(_a: &Args, _rec: &mut Recorder) {}
