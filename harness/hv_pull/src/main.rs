//! C11 / C13 harness: drives the real `dfir_pipes::pull` combinators poll by poll with scripted
//! inputs, writes the transcript for the Lean driver `hvdrv_pull` and evaluates the property
//! oracles (std iterator semantics on the pending-erased inputs, fused-ness, size_hint bracket;
//! join completeness) on the real code.
mod c11;
mod c13;
mod script;

use hv_common::{Args, Recorder};

fn main() {
    let a = Args::parse();
    hv_common::quiet_panics();
    let mut rec = Recorder::new(match a.mode.as_str() {
        "c11" => "case has >= 1 Ready item and >= 1 Pending answer from the combinator",
        _ => "case emits >= 1 joined pair and has >= 1 Pending or a second tick",
    });
    match a.mode.as_str() {
        "c11" => c11::run(&a, &mut rec),
        "c13" => c13::run(&a, &mut rec),
        m => {
            eprintln!("unknown mode {m}");
            std::process::exit(2)
        }
    }
    rec.finish(&a.out);
}
