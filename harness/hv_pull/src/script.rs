//! Scripted inputs for the real `dfir_pipes` pull combinators: a `Pull` whose every answer
//! (Ready / Pending / Ended) is read from a script, scripted inner streams and futures.
use dfir_pipes::pull::{FusedPull, Pull, PullStep};
use dfir_pipes::Yes;
use std::collections::VecDeque;
use std::pin::Pin;
use std::task::{Context, Poll};

/// one element of an item: a number or (inside a stream item) a pending
#[derive(Clone, Debug, PartialEq, Eq)]
pub enum ITok {
    N(u64),
    P,
}
/// an item as written in a script: `5`, `1.2.3` (list / pair), `1.p.2` (inner stream), `` (empty list)
pub type Item = Vec<ITok>;

#[derive(Clone, Debug, PartialEq, Eq)]
pub enum Tok<T> {
    R(T),
    P,
    E,
}

pub fn parse_item(s: &str) -> Option<Item> {
    if s.is_empty() {
        return Some(vec![]);
    }
    s.split('.').map(|t| if t == "p" { Some(ITok::P) } else { t.parse().ok().map(ITok::N) }).collect()
}
pub fn show_item(it: &Item) -> String {
    it.iter().map(|t| match t { ITok::N(n) => n.to_string(), ITok::P => "p".into() }).collect::<Vec<_>>().join(".")
}
pub fn parse_script(s: &str) -> Option<Vec<Tok<Item>>> {
    if s == "-" {
        return Some(vec![]);
    }
    s.split(',')
        .map(|t| {
            if t == "p" {
                Some(Tok::P)
            } else if t == "e" {
                Some(Tok::E)
            } else if let Some(r) = t.strip_prefix('r') {
                parse_item(r).map(Tok::R)
            } else {
                None
            }
        })
        .collect()
}
pub fn show_script(s: &[Tok<Item>]) -> String {
    if s.is_empty() {
        return "-".into();
    }
    s.iter()
        .map(|t| match t {
            Tok::R(i) => format!("r{}", show_item(i)),
            Tok::P => "p".into(),
            Tok::E => "e".into(),
        })
        .collect::<Vec<_>>()
        .join(",")
}

pub fn as_nat(it: &Item) -> Option<u64> {
    match it.as_slice() {
        [ITok::N(n)] => Some(*n),
        _ => None,
    }
}
pub fn as_list(it: &Item) -> Option<Vec<u64>> {
    it.iter().map(|t| if let ITok::N(n) = t { Some(*n) } else { None }).collect()
}
pub fn as_pair(it: &Item) -> Option<(u64, u64)> {
    match it.as_slice() {
        [ITok::N(a), ITok::N(b)] => Some((*a, *b)),
        _ => None,
    }
}

/// the items a script yields before its first `E`
pub fn items<T: Clone>(s: &[Tok<T>]) -> Vec<T> {
    let mut v = vec![];
    for t in s {
        match t {
            Tok::R(x) => v.push(x.clone()),
            Tok::P => {}
            Tok::E => break,
        }
    }
    v
}
pub fn map_script<T, U>(s: &[Tok<T>], f: impl Fn(&T) -> Option<U>) -> Option<Vec<Tok<U>>> {
    s.iter()
        .map(|t| match t {
            Tok::R(x) => f(x).map(Tok::R),
            Tok::P => Some(Tok::P),
            Tok::E => Some(Tok::E),
        })
        .collect()
}

/// A `Pull` that answers from a script.  After the script: `Ended` forever.
/// `size_hint` = exact number of items before the next `Ended`, loosened by `slo` / `shi`.
pub struct ScriptPull<T> {
    pub steps: VecDeque<Tok<T>>,
    pub slo: usize,
    pub shi: Option<usize>,
}
impl<T> ScriptPull<T> {
    pub fn new(s: Vec<Tok<T>>, slo: usize, shi: Option<usize>) -> Self {
        ScriptPull { steps: s.into(), slo, shi }
    }
}
impl<T> Unpin for ScriptPull<T> {}
impl<T> Pull for ScriptPull<T> {
    type Ctx<'ctx> = ();
    type Item = T;
    type Meta = ();
    type CanPend = Yes;
    type CanEnd = Yes;
    fn pull(self: Pin<&mut Self>, _ctx: &mut ()) -> PullStep<T, (), Yes, Yes> {
        match self.get_mut().steps.pop_front() {
            Some(Tok::R(x)) => PullStep::Ready(x, ()),
            Some(Tok::P) => PullStep::Pending(Yes),
            Some(Tok::E) | None => PullStep::Ended(Yes),
        }
    }
    fn size_hint(&self) -> (usize, Option<usize>) {
        let mut n = 0usize;
        for t in &self.steps {
            match t {
                Tok::R(_) => n += 1,
                Tok::P => {}
                Tok::E => break,
            }
        }
        (n.saturating_sub(self.slo), self.shi.map(|h| n + h))
    }
}
/// Marker only: the harness feeds `E`-free scripts wherever the real API demands `FusedPull`.
impl<T> FusedPull for ScriptPull<T> {}

/// A `futures::Stream` answering from a script (`R x` = `Ready(Some x)`, `P` = `Pending`,
/// `E` or end of script = `Ready(None)`).
pub struct ScriptStream<T> {
    pub steps: VecDeque<Tok<T>>,
}
impl<T> Unpin for ScriptStream<T> {}
impl<T> futures_core::Stream for ScriptStream<T> {
    type Item = T;
    fn poll_next(self: Pin<&mut Self>, _cx: &mut Context<'_>) -> Poll<Option<T>> {
        match self.get_mut().steps.pop_front() {
            Some(Tok::R(x)) => Poll::Ready(Some(x)),
            Some(Tok::P) => Poll::Pending,
            Some(Tok::E) | None => Poll::Ready(None),
        }
    }
    fn size_hint(&self) -> (usize, Option<usize>) {
        let mut n = 0usize;
        for t in &self.steps {
            match t {
                Tok::R(_) => n += 1,
                Tok::P => {}
                Tok::E => break,
            }
        }
        (n, Some(n))
    }
}
/// inner stream of `flatten_stream` / `flat_map_stream` from an item like `1.p.2`
pub fn stream_of_item(it: &Item) -> ScriptStream<u64> {
    ScriptStream {
        steps: it.iter().map(|t| match t { ITok::N(n) => Tok::R(*n), ITok::P => Tok::P }).collect(),
    }
}

/// A future that is pending `pend` times and then yields `out`.
pub struct ScriptFut {
    pub pend: usize,
    pub out: Option<u64>,
}
impl Future for ScriptFut {
    type Output = Option<u64>;
    fn poll(self: Pin<&mut Self>, _cx: &mut Context<'_>) -> Poll<Option<u64>> {
        let this = self.get_mut();
        if this.pend > 0 {
            this.pend -= 1;
            Poll::Pending
        } else {
            Poll::Ready(this.out)
        }
    }
}
