//! C04, union-find: histories of `union` / `merge` / `same` on `UnionFindHashMap<u64>` and
//! `UnionFindBTreeMap<u64>` with every other-representation, compared with the model's parent
//! map (exact, after path compression) and with an independent partition oracle.
use std::cell::Cell;
use std::collections::{BTreeMap, BTreeSet, HashMap};

use hv_common::{Args, Recorder, Rng};
use lattices::collections::{ArrayMap, OptionMap, SingletonMap, VecMap};
use lattices::union_find::{UnionFind, UnionFindBTreeMap, UnionFindHashMap};
use lattices::{IsBot, LatticeFrom, Merge};

pub const RULE: &str = "histories of union / merge(other representation) / same / parts / raw on UnionFind<HashMap> and UnionFind<BTreeMap> over items {0..dom}; non-trivial = some union or merge joins two classes that each already hold >= 2 items, or a `same` query compresses a path of length >= 2; distinct = distinct op-line sequences";

type Pairs = Vec<(u64, u64)>;

fn parse_pairs(s: &str) -> Option<Pairs> {
    if s == "-" {
        return Some(vec![]);
    }
    s.split(',')
        .map(|p| {
            let q: Vec<&str> = p.split('>').collect();
            if q.len() != 2 || !q.iter().all(|x| !x.is_empty() && x.chars().all(|c| c.is_ascii_digit())) {
                return None;
            }
            Some((q[0].parse().ok()?, q[1].parse().ok()?))
        })
        .collect()
}
fn parse_num(s: &str) -> Option<u64> {
    if !s.is_empty() && s.chars().all(|c| c.is_ascii_digit()) { s.parse().ok() } else { None }
}
fn show_pairs(ps: &[(u64, u64)]) -> String {
    if ps.is_empty() { "-".into() } else { ps.iter().map(|(k, p)| format!("{k}>{p}")).collect::<Vec<_>>().join(",") }
}

trait Recv {
    fn union(&mut self, a: u64, b: u64) -> bool;
    fn same(&self, a: u64, b: u64) -> bool;
    fn merge_rep(&mut self, repr: &str, ps: &Pairs) -> bool;
    fn raw(&self) -> Pairs;
    fn bot(&self) -> bool;
    fn from_rep(&mut self, repr: &str, ps: &Pairs);
}
fn cells(ps: &Pairs) -> impl Iterator<Item = (u64, Cell<u64>)> + '_ {
    ps.iter().map(|&(k, p)| (k, Cell::new(p)))
}
fn sorted_distinct(ps: &Pairs) -> bool {
    ps.windows(2).all(|w| w[0].0 < w[1].0)
}
macro_rules! recv {
    ($ty:ty) => {
        impl Recv for $ty {
            fn union(&mut self, a: u64, b: u64) -> bool {
                UnionFind::union(self, a, b).into_reveal()
            }
            fn same(&self, a: u64, b: u64) -> bool {
                UnionFind::same(self, a, b).into_reveal()
            }
            fn merge_rep(&mut self, repr: &str, ps: &Pairs) -> bool {
                match repr {
                    "hash" => self.merge(UnionFind::new(cells(ps).collect::<HashMap<_, _>>())),
                    // BTreeMap iterates in key order: only exact when the line is already sorted
                    "btree" if sorted_distinct(ps) => self.merge(UnionFind::new(cells(ps).collect::<BTreeMap<_, _>>())),
                    "single" if ps.len() == 1 => self.merge(UnionFind::new(SingletonMap(ps[0].0, Cell::new(ps[0].1)))),
                    "opt" if ps.len() <= 1 => self.merge(UnionFind::new(OptionMap(ps.first().map(|&(k, p)| (k, Cell::new(p)))))),
                    "arr" if ps.len() == 2 => self.merge(UnionFind::new(ArrayMap::from([(ps[0].0, Cell::new(ps[0].1)), (ps[1].0, Cell::new(ps[1].1))]))),
                    _ => self.merge(UnionFind::new(VecMap::new(ps.iter().map(|e| e.0).collect(), ps.iter().map(|e| Cell::new(e.1)).collect()))),
                }
            }
            fn raw(&self) -> Pairs {
                let mut v: Pairs = self.as_reveal_ref().iter().map(|(k, p)| (*k, p.get())).collect();
                v.sort();
                v
            }
            fn bot(&self) -> bool {
                self.is_bot()
            }
            fn from_rep(&mut self, repr: &str, ps: &Pairs) {
                *self = match repr {
                    "btree" if sorted_distinct(ps) => LatticeFrom::lattice_from(UnionFind::new(cells(ps).collect::<BTreeMap<_, _>>())),
                    _ => LatticeFrom::lattice_from(UnionFind::new(VecMap::new(ps.iter().map(|e| e.0).collect(), ps.iter().map(|e| Cell::new(e.1)).collect()))),
                };
            }
        }
    };
}
recv!(UnionFindHashMap<u64>);
recv!(UnionFindBTreeMap<u64>);

const TAGS: [&str; 2] = ["hm", "bt"];
fn tagged(xs: &[String]) -> String {
    TAGS.iter().zip(xs).map(|(t, x)| format!("{t}={x}")).collect::<Vec<_>>().join(" ")
}

/// independent oracle: the partition as a list of classes
#[derive(Default)]
struct Partition {
    classes: Vec<BTreeSet<u64>>,
}
impl Partition {
    fn class_of(&self, x: u64) -> Option<usize> {
        self.classes.iter().position(|c| c.contains(&x))
    }
    fn same(&self, a: u64, b: u64) -> bool {
        a == b || (self.class_of(a).is_some() && self.class_of(a) == self.class_of(b))
    }
    /// returns (changed, sizes of the two classes joined)
    fn join(&mut self, a: u64, b: u64) -> (bool, usize, usize) {
        if self.same(a, b) {
            return (false, 0, 0);
        }
        let ca = self.class_of(a);
        let cb = self.class_of(b);
        match (ca, cb) {
            (Some(i), Some(j)) => {
                let (sa, sb) = (self.classes[i].len(), self.classes[j].len());
                let moved = std::mem::take(&mut self.classes[j]);
                self.classes[i].extend(moved);
                self.classes.remove(j);
                (true, sa, sb)
            }
            (Some(i), None) => {
                let s = self.classes[i].len();
                self.classes[i].insert(b);
                (true, s, 1)
            }
            (None, Some(j)) => {
                let s = self.classes[j].len();
                self.classes[j].insert(a);
                (true, 1, s)
            }
            (None, None) => {
                self.classes.push([a, b].into_iter().collect());
                (true, 1, 1)
            }
        }
    }
}

struct Runner {
    recvs: Vec<Box<dyn Recv>>,
    part: Partition,
    unordered: bool,
    nontriv: bool,
}

fn is_forest(raw: &Pairs) -> bool {
    let m: BTreeMap<u64, u64> = raw.iter().copied().collect();
    raw.iter().all(|&(k, _)| {
        let mut cur = k;
        for _ in 0..=m.len() {
            match m.get(&cur) {
                Some(&p) if p != cur => cur = p,
                _ => return true,
            }
        }
        false
    })
}
fn depth(raw: &Pairs, x: u64) -> usize {
    let m: BTreeMap<u64, u64> = raw.iter().copied().collect();
    let (mut cur, mut d) = (x, 0);
    while let Some(&p) = m.get(&cur) {
        if p == cur || d > m.len() {
            break;
        }
        cur = p;
        d += 1;
    }
    d
}

impl Runner {
    fn new() -> Self {
        Runner { recvs: vec![Box::new(UnionFindHashMap::<u64>::default()), Box::new(UnionFindBTreeMap::<u64>::default())], part: Partition::default(), unordered: false, nontriv: false }
    }
    fn post(&self, rec: &mut Recorder, line: &str) {
        for (r, tag) in self.recvs.iter().zip(TAGS) {
            let raw = r.raw();
            rec.check(is_forest(&raw), &format!("uf-parent-map-has-cycle@{tag}"), &format!("{line} -> {}", show_pairs(&raw)));
            // every parent edge stays inside one class of the oracle partition
            rec.check(raw.iter().all(|&(k, p)| self.part.same(k, p)), &format!("uf-parent-edge-crosses-classes@{tag}"), &format!("{line} -> {}", show_pairs(&raw)));
        }
    }
    fn exec(&mut self, line: &str, rec: &mut Recorder) -> String {
        let p: Vec<&str> = line.split(' ').collect();
        match p.as_slice() {
            ["uf", "union", a, b] => {
                let (Some(a), Some(b)) = (parse_num(a), parse_num(b)) else { return "bad-op".into() };
                let (want, sa, sb) = self.part.join(a, b);
                if sa >= 2 && sb >= 2 {
                    self.nontriv = true;
                }
                rec.count(if want { "union:joins" } else { "union:already-same" });
                let mut outs = vec![];
                for (r, tag) in self.recvs.iter_mut().zip(TAGS) {
                    let f = r.union(a, b);
                    rec.check(f == want, &format!("uf-union-flag@{tag}"), &format!("{line} -> {f}"));
                    outs.push(f.to_string());
                }
                self.post(rec, line);
                tagged(&outs)
            }
            ["uf", "same", a, b] => {
                let (Some(a), Some(b)) = (parse_num(a), parse_num(b)) else { return "bad-op".into() };
                let want = self.part.same(a, b);
                rec.count(if want { "same:true" } else { "same:false" });
                let mut outs = vec![];
                for (r, tag) in self.recvs.iter().zip(TAGS) {
                    let raw = r.raw();
                    if depth(&raw, a) >= 2 || depth(&raw, b) >= 2 {
                        self.nontriv = true;
                        rec.count("same:compresses-long-path");
                    }
                    let f = r.same(a, b);
                    rec.check(f == want, &format!("uf-same-is-not-the-equivalence-closure@{tag}"), &format!("{line} -> {f} raw={}", show_pairs(&raw)));
                    outs.push(f.to_string());
                }
                self.post(rec, line);
                tagged(&outs)
            }
            ["uf", "merge", repr, ps] => {
                let Some(ps) = parse_pairs(ps) else { return "bad-op".into() };
                let mut want = false;
                for &(k, q) in &ps {
                    let (c, sa, sb) = self.part.join(k, q);
                    want |= c;
                    if sa >= 2 && sb >= 2 {
                        self.nontriv = true;
                    }
                }
                rec.count(&format!("merge:repr={repr}"));
                rec.count(&format!("merge:pairs={}", ps.len().min(5)));
                if *repr == "hash" {
                    self.unordered = true;
                }
                let mut outs = vec![];
                for (r, tag) in self.recvs.iter_mut().zip(TAGS) {
                    let f = r.merge_rep(repr, &ps);
                    rec.check(f == want, &format!("uf-merge-flag@{tag}"), &format!("{line} -> {f}"));
                    outs.push(f.to_string());
                }
                self.post(rec, line);
                tagged(&outs)
            }
            ["uf", "raw"] => {
                if self.unordered {
                    return tagged(&["unordered".to_string(), "unordered".to_string()]);
                }
                let outs: Vec<String> = self.recvs.iter().map(|r| show_pairs(&r.raw())).collect();
                tagged(&outs)
            }
            ["uf", "parts", n] => {
                let Some(n) = parse_num(n).filter(|n| *n <= 64) else { return "bad-op".into() };
                let mut outs = vec![];
                for (r, tag) in self.recvs.iter().zip(TAGS) {
                    let mut reps = vec![];
                    for i in 0..n {
                        let mut rep = i;
                        for j in 0..i {
                            if r.same(j, i) {
                                rep = j;
                                break;
                            }
                        }
                        reps.push(rep);
                    }
                    let want: Vec<u64> = (0..n).map(|i| (0..i).find(|&j| self.part.same(j, i)).unwrap_or(i)).collect();
                    rec.check(reps == want, &format!("uf-partition-is-not-the-equivalence-closure@{tag}"), &format!("{line} -> {:?} want {:?}", reps, want));
                    outs.push(reps.iter().map(|x| x.to_string()).collect::<Vec<_>>().join(","));
                }
                self.post(rec, line);
                tagged(&outs)
            }
            ["uf", "isbot"] => {
                let want = self.part.classes.iter().all(|c| c.len() <= 1);
                let mut outs = vec![];
                for (r, tag) in self.recvs.iter().zip(TAGS) {
                    rec.check(r.bot() == want, &format!("uf-isbot@{tag}"), line);
                    outs.push(r.bot().to_string());
                }
                tagged(&outs)
            }
            ["uf", "from", repr, ps] => {
                let Some(ps) = parse_pairs(ps) else { return "bad-op".into() };
                // only forests (parent <= child): `find` need not terminate on other maps (F8)
                if !ps.iter().all(|&(k, q)| q <= k) {
                    return "bad-op".into();
                }
                // last entry for a key wins in `collect`
                let m: BTreeMap<u64, u64> = ps.iter().copied().collect();
                self.part = Partition::default();
                for (&k, &q) in &m {
                    self.part.join(k, q);
                }
                self.unordered = false;
                for r in self.recvs.iter_mut() {
                    r.from_rep(repr, &ps);
                }
                rec.count("from");
                self.post(rec, line);
                tagged(&["ok".to_string(), "ok".to_string()])
            }
            _ => "bad-op".into(),
        }
    }
}

fn run_case(no: u64, tag: &str, lines: &[String], rec: &mut Recorder) {
    rec.case(no, tag);
    let mut r = Runner::new();
    for l in lines {
        let out = r.exec(l, rec);
        rec.line(l, &out);
    }
    if r.nontriv {
        rec.nontrivial();
    }
}

fn gen_pairs(rng: &mut Rng, dom: u64, n: usize) -> Pairs {
    (0..n).map(|_| (rng.below(dom), rng.below(dom))).collect()
}

fn gen_case(rng: &mut Rng, thorough: bool) -> Vec<String> {
    let dom = rng.range(2, if thorough { 12 } else { 7 });
    let steps = rng.range(2, if thorough { 30 } else { 14 });
    let mut ls = vec![];
    if rng.chance(1, 8) {
        // start from a converted forest (parent <= child)
        let n = rng.below(dom + 1) as usize;
        let ps: Pairs = (0..n).map(|_| { let k = rng.below(dom); (k, rng.below(k + 1)) }).collect();
        ls.push(format!("uf from {} {}", rng.pick(&["vec", "btree"]), show_pairs(&ps)));
    }
    for _ in 0..steps {
        let l = match rng.below(20) {
            0..=6 => format!("uf union {} {}", rng.below(dom), rng.below(dom)),
            7..=10 => format!("uf same {} {}", rng.below(dom), rng.below(dom)),
            11..=14 => {
                let n = rng.below(5) as usize;
                let mut ps = gen_pairs(rng, dom, n);
                let repr = match rng.below(8) {
                    0 => {
                        ps.sort();
                        ps.dedup_by_key(|e| e.0);
                        "btree"
                    }
                    1 if ps.len() == 1 => "single",
                    2 if ps.len() <= 1 => "opt",
                    3 if ps.len() == 2 => "arr",
                    4 => {
                        // HashMap other: distinct keys, arbitrary iteration order
                        ps.sort();
                        ps.dedup_by_key(|e| e.0);
                        "hash"
                    }
                    _ => "vec",
                };
                format!("uf merge {repr} {}", show_pairs(&ps))
            }
            15..=16 => "uf raw".to_string(),
            17 => format!("uf parts {dom}"),
            18 => "uf isbot".to_string(),
            _ => format!("uf same {} {}", rng.below(dom), rng.below(dom + 2)),
        };
        ls.push(l);
    }
    ls.push("uf raw".into());
    ls.push(format!("uf parts {dom}"));
    ls.push("uf raw".into());
    if rng.chance(1, 12) {
        let bad = ["uf union 1", "uf union x 2", "uf merge vec 1>2>3", "uf merge vec 1,2", "uf from vec 1>2", "uf parts 65", "uf same 1 18446744073709551616", "uf frob", "uf merge vec 1>"];
        let at = rng.below(ls.len() as u64 + 1) as usize;
        ls.insert(at, rng.pick(&bad).to_string());
    }
    ls
}

/// every sequence of `len` ops from a small alphabet over items {0,1,2,3}
fn exhaustive(len: usize) -> Vec<Vec<String>> {
    let alphabet = ["uf union 0 1", "uf union 1 2", "uf union 2 3", "uf union 3 0", "uf union 2 0", "uf same 3 1", "uf same 0 2", "uf merge vec 3>2,1>0", "uf merge vec 0>3,0>0"];
    let n = alphabet.len();
    let mut out = vec![];
    for mut code in 0..n.pow(len as u32) {
        let mut ls = vec![];
        for _ in 0..len {
            ls.push(alphabet[code % n].to_string());
            code /= n;
        }
        ls.push("uf raw".into());
        ls.push("uf parts 4".into());
        ls.push("uf raw".into());
        out.push(ls);
    }
    out
}

pub fn run(args: &Args, rec: &mut Recorder) {
    if let Some(p) = &args.replay {
        for (no, tag, lines) in crate::replay_cases(p) {
            run_case(no, &tag, &lines, rec);
        }
        return;
    }
    let thorough = args.tier == "thorough";
    let root = Rng::new(args.seed);
    let mut no = 0u64;
    for ls in exhaustive(if thorough { 5 } else { 3 }) {
        no += 1;
        run_case(no, "exhaustive", &ls, rec);
    }
    for i in 0..args.cases {
        let mut rng = root.fork(i);
        let ls = gen_case(&mut rng, thorough);
        no += 1;
        run_case(no, "random", &ls, rec);
    }
}
