//! C05 / C04 harness: drives the real `lattices` crate and writes the transcript for the Lean
//! driver `hvdrv_latspec` plus the property oracles.
mod c04;
mod c04uf;
mod c05;

use hv_common::{Args, Recorder};

/// Split a replay file into cases: (case number, tag, op lines).
pub fn replay_cases(p: &std::path::PathBuf) -> Vec<(u64, String, Vec<String>)> {
    let mut out: Vec<(u64, String, Vec<String>)> = vec![];
    for l in hv_common::read_lines(p) {
        if let Some(rest) = l.strip_prefix("#case ") {
            let mut it = rest.splitn(2, ' ');
            let no = it.next().unwrap().parse().unwrap_or(0);
            let tag = it.next().unwrap_or("").to_string();
            out.push((no, tag, vec![]));
        } else if l.starts_with("#case") {
            out.push((0, String::new(), vec![]));
        } else {
            if out.is_empty() {
                out.push((0, String::new(), vec![]));
            }
            out.last_mut().unwrap().2.push(l);
        }
    }
    out
}

fn main() {
    let args = Args::parse();
    hv_common::quiet_panics();
    let mut rec;
    match args.mode.as_str() {
        "c05" => {
            rec = Recorder::new(c05::RULE);
            c05::run(&args, &mut rec);
        }
        "c04uf" => {
            rec = Recorder::new(c04uf::RULE);
            c04uf::run(&args, &mut rec);
        }
        "c04" => {
            rec = Recorder::new(c04::RULE);
            c04::run(&args, &mut rec);
        }
        m => {
            eprintln!("unknown mode {m}");
            std::process::exit(2);
        }
    }
    rec.finish(&args.out);
}
