//! C04 (all constructors except union-find): nested lattice values of the real crate driven
//! through a dynamic value (`DVal`), for every receiver family × other-representation family.
use std::collections::{BTreeMap, BTreeSet, HashMap, HashSet};

use hv_common::{Args, Recorder, Rng};
use lattices::collections::{ArraySet, OptionMap, OptionSet, SingletonMap, SingletonSet, VecMap};
use lattices::map_union::MapUnion;
use lattices::set_union::SetUnion;
use lattices::{Conflict, DomPair, IsBot, LatticeFrom, Max, Merge, Min, Pair, VecUnion, WithBot, WithTop};

pub const RULE: &str = "merge / lattice_from / is_bot on nested lattice types (Max, Min, (), Conflict, SetUnion, MapUnion, WithBot, WithTop, Pair, VecUnion, DomPair<Max,_>; nesting depth <= 3) for receiver families HashSet+HashMap, BTreeSet+BTreeMap, Vec+HashMap and other-representations Hash*, BTree*, Vec+VecMap, Vec+HashMap, singleton, option, array; single merges and merge histories on one slot; non-trivial = the merge changes the receiver's abstract value and the other value is not bottom; distinct = distinct op-line sequences";

// ------------------------------------------------------------------------------------ dynamic values

#[derive(Clone, Debug, PartialEq, Eq, PartialOrd, Ord)]
pub enum DVal {
    Num(u64),
    Unit,
    Conf(Option<u64>),
    Set(Vec<u64>),
    Map(Vec<(u64, DVal)>),
    Opt(Option<Box<DVal>>),
    Pair(Box<DVal>, Box<DVal>),
    Seq(Vec<DVal>),
    Dom(u64, Box<DVal>),
}

#[derive(Clone, Debug, PartialEq)]
pub enum Shape {
    MaxN,
    MinN,
    Unit,
    Conf,
    Set { vec: bool },
    Map(Box<Shape>),
    WithBot(Box<Shape>),
    WithTop(Box<Shape>),
    Pair(Box<Shape>, Box<Shape>),
    Vec(Box<Shape>),
    /// `DomPair<Max<u64>, _>`
    Dom(Box<Shape>),
}

fn parse_desc(cs: &[u8]) -> Option<(Shape, &[u8])> {
    let (&c, r) = cs.split_first()?;
    Some(match c {
        b'x' => (Shape::MaxN, r),
        b'n' => (Shape::MinN, r),
        b'u' => (Shape::Unit, r),
        b'c' => (Shape::Conf, r),
        b's' => (Shape::Set { vec: false }, r),
        b'v' => (Shape::Set { vec: true }, r),
        b'm' => {
            let (s, r) = parse_desc(r)?;
            (Shape::Map(Box::new(s)), r)
        }
        b'b' => {
            let (s, r) = parse_desc(r)?;
            (Shape::WithBot(Box::new(s)), r)
        }
        b't' => {
            let (s, r) = parse_desc(r)?;
            (Shape::WithTop(Box::new(s)), r)
        }
        b'l' => {
            let (s, r) = parse_desc(r)?;
            (Shape::Vec(Box::new(s)), r)
        }
        b'd' => {
            let (s, r) = parse_desc(r)?;
            (Shape::Dom(Box::new(s)), r)
        }
        b'p' => {
            let (s1, r) = parse_desc(r)?;
            let (s2, r) = parse_desc(r)?;
            (Shape::Pair(Box::new(s1), Box::new(s2)), r)
        }
        _ => return None,
    })
}
pub fn desc_of(s: &str) -> Option<Shape> {
    match parse_desc(s.as_bytes())? {
        (sh, []) => Some(sh),
        _ => None,
    }
}

fn parse_nat(cs: &[u8]) -> Option<(u64, &[u8])> {
    let n = cs.iter().take_while(|c| c.is_ascii_digit()).count();
    if n == 0 || n > 20 {
        return None;
    }
    let v: u64 = std::str::from_utf8(&cs[..n]).ok()?.parse().ok()?;
    Some((v, &cs[n..]))
}
/// `elem (sep elem)* close | close`
fn parse_seq<'a, T>(mut cs: &'a [u8], sep: u8, close: u8, p: &dyn Fn(&'a [u8]) -> Option<(T, &'a [u8])>) -> Option<(Vec<T>, &'a [u8])> {
    let mut out = vec![];
    if cs.first() == Some(&close) {
        return Some((out, &cs[1..]));
    }
    loop {
        let (x, r) = p(cs)?;
        out.push(x);
        match r.first() {
            Some(&c) if c == close => return Some((out, &r[1..])),
            Some(&c) if c == sep => {
                if r.get(1) == Some(&close) || r.len() < 2 {
                    return None;
                }
                cs = &r[1..];
            }
            _ => return None,
        }
    }
}
fn parse_val<'a>(sh: &Shape, cs: &'a [u8]) -> Option<(DVal, &'a [u8])> {
    match sh {
        Shape::MaxN | Shape::MinN => parse_nat(cs).map(|(n, r)| (DVal::Num(n), r)),
        Shape::Unit => (cs.first() == Some(&b'u')).then(|| (DVal::Unit, &cs[1..])),
        Shape::Conf => {
            if cs.first() == Some(&b'!') {
                Some((DVal::Conf(None), &cs[1..]))
            } else {
                parse_nat(cs).map(|(n, r)| (DVal::Conf(Some(n)), r))
            }
        }
        Shape::Set { .. } => {
            if cs.first() != Some(&b'{') {
                return None;
            }
            parse_seq(&cs[1..], b',', b'}', &parse_nat).map(|(v, r)| (DVal::Set(v), r))
        }
        Shape::Map(s) => {
            if cs.first() != Some(&b'{') {
                return None;
            }
            parse_seq(&cs[1..], b',', b'}', &|cs| {
                let (k, r) = parse_nat(cs)?;
                if r.first() != Some(&b':') {
                    return None;
                }
                let (v, r) = parse_val(s, &r[1..])?;
                Some(((k, v), r))
            })
            .map(|(v, r)| (DVal::Map(v), r))
        }
        Shape::WithBot(s) | Shape::WithTop(s) => {
            let none_ch = if matches!(sh, Shape::WithBot(_)) { b'_' } else { b'^' };
            match cs.first() {
                Some(&c) if c == none_ch => Some((DVal::Opt(None), &cs[1..])),
                Some(&b'?') => parse_val(s, &cs[1..]).map(|(v, r)| (DVal::Opt(Some(Box::new(v))), r)),
                _ => None,
            }
        }
        Shape::Pair(s, t) => {
            if cs.first() != Some(&b'(') {
                return None;
            }
            let (a, r) = parse_val(s, &cs[1..])?;
            if r.first() != Some(&b';') {
                return None;
            }
            let (b, r) = parse_val(t, &r[1..])?;
            if r.first() != Some(&b')') {
                return None;
            }
            Some((DVal::Pair(Box::new(a), Box::new(b)), &r[1..]))
        }
        Shape::Vec(s) => {
            if cs.first() != Some(&b'[') {
                return None;
            }
            parse_seq(&cs[1..], b',', b']', &|cs| parse_val(s, cs)).map(|(v, r)| (DVal::Seq(v), r))
        }
        Shape::Dom(s) => {
            if cs.first() != Some(&b'<') {
                return None;
            }
            let (k, r) = parse_nat(&cs[1..])?;
            if r.first() != Some(&b'|') {
                return None;
            }
            let (v, r) = parse_val(s, &r[1..])?;
            if r.first() != Some(&b'>') {
                return None;
            }
            Some((DVal::Dom(k, Box::new(v)), &r[1..]))
        }
    }
}
pub fn val_of(sh: &Shape, s: &str) -> Option<DVal> {
    match parse_val(sh, s.as_bytes())? {
        (v, []) => Some(v),
        _ => None,
    }
}
/// canonical text: sets sorted (duplicates kept), maps sorted by key
pub fn show(sh: &Shape, v: &DVal) -> String {
    match (sh, v) {
        (Shape::MaxN | Shape::MinN, DVal::Num(n)) => n.to_string(),
        (Shape::Unit, _) => "u".into(),
        (Shape::Conf, DVal::Conf(None)) => "!".into(),
        (Shape::Conf, DVal::Conf(Some(n))) => n.to_string(),
        (Shape::Set { .. }, DVal::Set(xs)) => {
            let mut xs = xs.clone();
            xs.sort();
            format!("{{{}}}", xs.iter().map(|x| x.to_string()).collect::<Vec<_>>().join(","))
        }
        (Shape::Map(s), DVal::Map(es)) => {
            let mut es = es.clone();
            es.sort_by_key(|e| e.0); // stable, like the model's mergeSort
            format!("{{{}}}", es.iter().map(|(k, v)| format!("{k}:{}", show(s, v))).collect::<Vec<_>>().join(","))
        }
        (Shape::WithBot(_), DVal::Opt(None)) => "_".into(),
        (Shape::WithTop(_), DVal::Opt(None)) => "^".into(),
        (Shape::WithBot(s) | Shape::WithTop(s), DVal::Opt(Some(x))) => format!("?{}", show(s, x)),
        (Shape::Pair(s, t), DVal::Pair(a, b)) => format!("({};{})", show(s, a), show(t, b)),
        (Shape::Vec(s), DVal::Seq(xs)) => format!("[{}]", xs.iter().map(|x| show(s, x)).collect::<Vec<_>>().join(",")),
        (Shape::Dom(s), DVal::Dom(k, v)) => format!("<{k}|{}>", show(s, v)),
        _ => "<shape-mismatch>".into(),
    }
}
fn nodup(xs: impl Iterator<Item = u64>) -> bool {
    let mut s = BTreeSet::new();
    xs.into_iter().all(|x| s.insert(x))
}
/// what a hash-like receiver can hold: distinct map keys, no duplicates in a hash-like set
pub fn canon(sh: &Shape, v: &DVal) -> bool {
    match (sh, v) {
        (Shape::Set { vec }, DVal::Set(xs)) => *vec || nodup(xs.iter().copied()),
        (Shape::Map(s), DVal::Map(es)) => nodup(es.iter().map(|e| e.0)) && es.iter().all(|e| canon(s, &e.1)),
        (Shape::WithBot(s) | Shape::WithTop(s), DVal::Opt(Some(x))) => canon(s, x),
        (Shape::Pair(s, t), DVal::Pair(a, b)) => canon(s, a) && canon(t, b),
        (Shape::Vec(s), DVal::Seq(xs)) => xs.iter().all(|x| canon(s, x)),
        (Shape::Dom(s), DVal::Dom(_, v)) => canon(s, v),
        _ => true,
    }
}
/// every map in the value has distinct keys (the domain of the refinement theorem)
fn wf(sh: &Shape, v: &DVal) -> bool {
    match (sh, v) {
        (Shape::Map(s), DVal::Map(es)) => nodup(es.iter().map(|e| e.0)) && es.iter().all(|e| wf(s, &e.1)),
        (Shape::WithBot(s) | Shape::WithTop(s), DVal::Opt(Some(x))) => wf(s, x),
        (Shape::Pair(s, t), DVal::Pair(a, b)) => wf(s, a) && wf(t, b),
        (Shape::Vec(s), DVal::Seq(xs)) => xs.iter().all(|x| wf(s, x)),
        (Shape::Dom(s), DVal::Dom(_, v)) => wf(s, v),
        _ => true,
    }
}

// ------------------------------------------------------------------------------------ the abstract model, independently in Rust (oracle)

/// normal form of the abstract value
#[derive(Clone, Debug, PartialEq, Eq)]
enum NVal {
    Num(u64),
    Unit,
    Conf(Option<u64>),
    Set(BTreeSet<u64>),
    Map(BTreeMap<u64, NVal>),
    /// WithBot: None = bottom; WithTop: None = top
    Opt(Option<Box<NVal>>),
    Pair(Box<NVal>, Box<NVal>),
    Seq(Vec<NVal>),
    Dom(u64, Box<NVal>),
}
fn spec_is_bot(sh: &Shape, v: &DVal) -> bool {
    match (sh, v) {
        (Shape::MaxN, DVal::Num(n)) => *n == 0,
        (Shape::MinN, DVal::Num(n)) => *n == u64::MAX,
        (Shape::Unit, _) => true,
        (Shape::Conf, _) => false,
        (Shape::Set { .. }, DVal::Set(xs)) => xs.is_empty(),
        (Shape::Map(s), DVal::Map(es)) => es.iter().all(|e| spec_is_bot(s, &e.1)),
        (Shape::WithBot(s), DVal::Opt(o)) => o.as_ref().is_none_or(|x| spec_is_bot(s, x)),
        (Shape::WithTop(s), DVal::Opt(o)) => o.as_ref().is_some_and(|x| spec_is_bot(s, x)),
        (Shape::Pair(s, t), DVal::Pair(a, b)) => spec_is_bot(s, a) && spec_is_bot(t, b),
        (Shape::Vec(_), DVal::Seq(xs)) => xs.is_empty(),
        (Shape::Dom(s), DVal::Dom(k, v)) => *k == 0 && spec_is_bot(s, v),
        _ => false,
    }
}
fn norm(sh: &Shape, v: &DVal) -> NVal {
    match (sh, v) {
        (Shape::MaxN | Shape::MinN, DVal::Num(n)) => NVal::Num(*n),
        (Shape::Unit, _) => NVal::Unit,
        (Shape::Conf, DVal::Conf(c)) => NVal::Conf(*c),
        (Shape::Set { .. }, DVal::Set(xs)) => NVal::Set(xs.iter().copied().collect()),
        (Shape::Map(s), DVal::Map(es)) => {
            // first entry for a key is the one `get` sees; bottoms are invisible
            let mut m = BTreeMap::new();
            let mut seen = BTreeSet::new();
            for (k, x) in es {
                if seen.insert(*k) && !spec_is_bot(s, x) {
                    m.insert(*k, norm(s, x));
                }
            }
            NVal::Map(m)
        }
        (Shape::WithBot(s), DVal::Opt(o)) => NVal::Opt(o.as_ref().filter(|x| !spec_is_bot(s, x)).map(|x| Box::new(norm(s, x)))),
        (Shape::WithTop(s), DVal::Opt(o)) => NVal::Opt(o.as_ref().map(|x| Box::new(norm(s, x)))),
        (Shape::Pair(s, t), DVal::Pair(a, b)) => NVal::Pair(Box::new(norm(s, a)), Box::new(norm(t, b))),
        (Shape::Vec(s), DVal::Seq(xs)) => NVal::Seq(xs.iter().map(|x| norm(s, x)).collect()),
        (Shape::Dom(s), DVal::Dom(k, v)) => NVal::Dom(*k, Box::new(norm(s, v))),
        _ => NVal::Unit,
    }
}
fn njoin(sh: &Shape, a: &NVal, b: &NVal) -> NVal {
    match (sh, a, b) {
        (Shape::MaxN, NVal::Num(x), NVal::Num(y)) => NVal::Num(*x.max(y)),
        (Shape::MinN, NVal::Num(x), NVal::Num(y)) => NVal::Num(*x.min(y)),
        (Shape::Unit, _, _) => NVal::Unit,
        (Shape::Conf, NVal::Conf(Some(x)), NVal::Conf(Some(y))) if x == y => NVal::Conf(Some(*x)),
        (Shape::Conf, _, _) => NVal::Conf(None),
        (Shape::Set { .. }, NVal::Set(x), NVal::Set(y)) => NVal::Set(x.union(y).copied().collect()),
        (Shape::Map(s), NVal::Map(x), NVal::Map(y)) => {
            let mut m = x.clone();
            for (k, v) in y {
                let nv = match m.get(k) {
                    Some(u) => njoin(s, u, v),
                    None => v.clone(),
                };
                m.insert(*k, nv);
            }
            NVal::Map(m)
        }
        (Shape::WithBot(s), NVal::Opt(x), NVal::Opt(y)) => NVal::Opt(match (x, y) {
            (None, o) | (o, None) => o.clone(),
            (Some(u), Some(v)) => Some(Box::new(njoin(s, u, v))),
        }),
        (Shape::WithTop(s), NVal::Opt(x), NVal::Opt(y)) => NVal::Opt(match (x, y) {
            (Some(u), Some(v)) => Some(Box::new(njoin(s, u, v))),
            _ => None,
        }),
        (Shape::Pair(s, t), NVal::Pair(a1, a2), NVal::Pair(b1, b2)) => NVal::Pair(Box::new(njoin(s, a1, b1)), Box::new(njoin(t, a2, b2))),
        (Shape::Vec(s), NVal::Seq(x), NVal::Seq(y)) => {
            let n = x.len().max(y.len());
            NVal::Seq(
                (0..n)
                    .map(|i| match (x.get(i), y.get(i)) {
                        (Some(u), Some(v)) => njoin(s, u, v),
                        (Some(u), None) | (None, Some(u)) => u.clone(),
                        (None, None) => unreachable!(),
                    })
                    .collect(),
            )
        }
        (Shape::Dom(s), NVal::Dom(k1, v1), NVal::Dom(k2, v2)) => match k1.cmp(k2) {
            std::cmp::Ordering::Less => b.clone(),
            std::cmp::Ordering::Greater => a.clone(),
            std::cmp::Ordering::Equal => NVal::Dom(*k1, Box::new(njoin(s, v1, v2))),
        },
        _ => NVal::Unit,
    }
}

// ------------------------------------------------------------------------------------ conversion to the real types

pub trait Conv: Sized {
    fn of(v: &DVal) -> Option<Self>;
    fn to(self) -> DVal;
}
impl Conv for Max<u64> {
    fn of(v: &DVal) -> Option<Self> {
        if let DVal::Num(n) = v { Some(Max::new(*n)) } else { None }
    }
    fn to(self) -> DVal {
        DVal::Num(self.into_reveal())
    }
}
impl Conv for Min<u64> {
    fn of(v: &DVal) -> Option<Self> {
        if let DVal::Num(n) = v { Some(Min::new(*n)) } else { None }
    }
    fn to(self) -> DVal {
        DVal::Num(self.into_reveal())
    }
}
impl Conv for () {
    fn of(v: &DVal) -> Option<Self> {
        matches!(v, DVal::Unit).then_some(())
    }
    fn to(self) -> DVal {
        DVal::Unit
    }
}
impl Conv for Conflict<u64> {
    fn of(v: &DVal) -> Option<Self> {
        if let DVal::Conf(c) = v { Some(Conflict::new(*c)) } else { None }
    }
    fn to(self) -> DVal {
        DVal::Conf(self.into_reveal())
    }
}
macro_rules! conv_set {
    ($ty:ty, |$xs:ident| $build:expr) => {
        impl Conv for SetUnion<$ty> {
            fn of(v: &DVal) -> Option<Self> {
                if let DVal::Set($xs) = v { ($build).map(SetUnion::new) } else { None }
            }
            fn to(self) -> DVal {
                DVal::Set(self.into_reveal().into_iter().collect())
            }
        }
    };
}
conv_set!(HashSet<u64>, |xs| Some(xs.iter().copied().collect::<HashSet<u64>>()));
conv_set!(BTreeSet<u64>, |xs| Some(xs.iter().copied().collect::<BTreeSet<u64>>()));
conv_set!(Vec<u64>, |xs| Some(xs.clone()));
conv_set!(SingletonSet<u64>, |xs| (xs.len() == 1).then(|| SingletonSet(xs[0])));
conv_set!(OptionSet<u64>, |xs| (xs.len() <= 1).then(|| OptionSet(xs.first().copied())));
conv_set!(ArraySet<u64, 2>, |xs| (xs.len() == 2).then(|| ArraySet([xs[0], xs[1]])));

fn entries<V: Conv>(v: &DVal) -> Option<Vec<(u64, V)>> {
    if let DVal::Map(es) = v { es.iter().map(|(k, x)| V::of(x).map(|x| (*k, x))).collect() } else { None }
}
macro_rules! conv_map {
    ($ty:ident, |$es:ident| $build:expr) => {
        impl<V: Conv> Conv for MapUnion<$ty<u64, V>> {
            fn of(v: &DVal) -> Option<Self> {
                let $es: Vec<(u64, V)> = entries(v)?;
                ($build).map(MapUnion::new)
            }
            fn to(self) -> DVal {
                DVal::Map(self.into_reveal().into_iter().map(|(k, x)| (k, x.to())).collect())
            }
        }
    };
}
conv_map!(HashMap, |es| Some(es.into_iter().collect::<HashMap<u64, V>>()));
conv_map!(BTreeMap, |es| Some(es.into_iter().collect::<BTreeMap<u64, V>>()));
conv_map!(VecMap, |es| {
    let (ks, vs): (Vec<u64>, Vec<V>) = es.into_iter().unzip();
    Some(VecMap::new(ks, vs))
});
conv_map!(SingletonMap, |es| if es.len() == 1 { es.into_iter().next().map(|(k, x)| SingletonMap(k, x)) } else { None });
conv_map!(OptionMap, |es| (es.len() <= 1).then(|| OptionMap(es.into_iter().next())));

impl<V: Conv> Conv for WithBot<V> {
    fn of(v: &DVal) -> Option<Self> {
        match v {
            DVal::Opt(None) => Some(WithBot::new(None)),
            DVal::Opt(Some(x)) => V::of(x).map(|x| WithBot::new(Some(x))),
            _ => None,
        }
    }
    fn to(self) -> DVal {
        DVal::Opt(self.into_reveal().map(|x| Box::new(x.to())))
    }
}
impl<V: Conv> Conv for WithTop<V> {
    fn of(v: &DVal) -> Option<Self> {
        match v {
            DVal::Opt(None) => Some(WithTop::new(None)),
            DVal::Opt(Some(x)) => V::of(x).map(|x| WithTop::new(Some(x))),
            _ => None,
        }
    }
    fn to(self) -> DVal {
        DVal::Opt(self.into_reveal().map(|x| Box::new(x.to())))
    }
}
impl<A: Conv, B: Conv> Conv for Pair<A, B> {
    fn of(v: &DVal) -> Option<Self> {
        if let DVal::Pair(a, b) = v { Some(Pair::new(A::of(a)?, B::of(b)?)) } else { None }
    }
    fn to(self) -> DVal {
        let (a, b) = self.into_reveal();
        DVal::Pair(Box::new(a.to()), Box::new(b.to()))
    }
}
impl<V: Conv> Conv for DomPair<Max<u64>, V> {
    fn of(v: &DVal) -> Option<Self> {
        if let DVal::Dom(k, x) = v { Some(DomPair::new(Max::new(*k), V::of(x)?)) } else { None }
    }
    fn to(self) -> DVal {
        let (k, x) = self.into_reveal();
        DVal::Dom(k.into_reveal(), Box::new(x.to()))
    }
}
impl<V: Conv> Conv for VecUnion<V> {
    fn of(v: &DVal) -> Option<Self> {
        if let DVal::Seq(xs) = v { xs.iter().map(V::of).collect::<Option<Vec<V>>>().map(VecUnion::new) } else { None }
    }
    fn to(self) -> DVal {
        DVal::Seq(self.into_reveal().into_iter().map(Conv::to).collect())
    }
}

// ------------------------------------------------------------------------------------ registry

/// result of one real merge: (value, changed flag, is_bot of the result)
type MergeFn = fn(&DVal, &DVal) -> Option<(DVal, bool, bool)>;
type FromFn = fn(&DVal) -> Option<(DVal, bool)>;
type BotFn = fn(&DVal) -> Option<bool>;

fn merge_impl<A, B>(a: &DVal, b: &DVal) -> Option<(DVal, bool, bool)>
where
    A: Conv + Merge<B> + IsBot,
    B: Conv,
{
    let mut x = A::of(a)?;
    let y = B::of(b)?;
    let ch = x.merge(y);
    let bot = x.is_bot();
    Some((x.to(), ch, bot))
}
fn from_impl<A, B>(b: &DVal) -> Option<(DVal, bool)>
where
    A: Conv + LatticeFrom<B> + IsBot,
    B: Conv,
{
    let x = A::lattice_from(B::of(b)?);
    let bot = x.is_bot();
    Some((x.to(), bot))
}
fn bot_impl<A: Conv + IsBot>(a: &DVal) -> Option<bool> {
    Some(A::of(a)?.is_bot())
}

#[derive(Clone, Copy)]
struct Entry {
    merge: MergeFn,
    from: FromFn,
    bot: BotFn,
}

macro_rules! family {
    ($m:ident, $Set:ident, $Map:ident) => {
        #[allow(dead_code)]
        mod $m {
            use super::*;
            pub type X = Max<u64>;
            pub type N = Min<u64>;
            pub type U = ();
            pub type C = Conflict<u64>;
            pub type S = SetUnion<$Set<u64>>;
            pub type MX = MapUnion<$Map<u64, X>>;
            pub type MN = MapUnion<$Map<u64, N>>;
            pub type MS = MapUnion<$Map<u64, S>>;
            pub type MC = MapUnion<$Map<u64, C>>;
            pub type MU = MapUnion<$Map<u64, U>>;
            pub type BX = WithBot<X>;
            pub type BS = WithBot<S>;
            pub type TX = WithTop<X>;
            pub type TS = WithTop<S>;
            pub type PSX = Pair<S, X>;
            pub type PXN = Pair<X, N>;
            pub type LX = VecUnion<X>;
            pub type LS = VecUnion<S>;
            pub type MBX = MapUnion<$Map<u64, BX>>;
            pub type MTS = MapUnion<$Map<u64, TS>>;
            pub type MLX = MapUnion<$Map<u64, LX>>;
            pub type MPSBX = MapUnion<$Map<u64, Pair<S, BX>>>;
            pub type TBX = WithTop<BX>;
            pub type BTX = WithBot<TX>;
            pub type LBX = VecUnion<BX>;
            pub type PBXTS = Pair<BX, TS>;
            pub type LPSX = VecUnion<PSX>;
            pub type DX = DomPair<X, X>;
            pub type DS = DomPair<X, S>;
            pub type DBX = DomPair<X, BX>;
            pub type MDS = MapUnion<$Map<u64, DS>>;
            pub type DLX = DomPair<X, LX>;
            // a map nested where `IsBot` of the inner map is required
            pub type MMS = MapUnion<$Map<u64, MS>>;
            pub type BMS = WithBot<MS>;
            pub type MMX = MapUnion<$Map<u64, MX>>;
            pub type PMXS = Pair<MX, S>;
            pub type LMX = VecUnion<MX>;
        }
    };
}
family!(fh, HashSet, HashMap);
family!(fb, BTreeSet, BTreeMap);
family!(fw, Vec, HashMap);
family!(fv, Vec, VecMap);

/// (alias, descriptor with hash-like sets)
const FLAT: [(&str, &str); 32] = [
    ("X", "x"), ("N", "n"), ("U", "u"), ("C", "c"), ("S", "s"),
    ("MX", "mx"), ("MN", "mn"), ("MS", "ms"), ("MC", "mc"), ("MU", "mu"),
    ("BX", "bx"), ("BS", "bs"), ("TX", "tx"), ("TS", "ts"), ("PSX", "psx"), ("PXN", "pxn"),
    ("LX", "lx"), ("LS", "ls"), ("MBX", "mbx"), ("MTS", "mts"), ("MLX", "mlx"), ("MPSBX", "mpsbx"),
    ("TBX", "tbx"), ("BTX", "btx"), ("LBX", "lbx"), ("PBXTS", "pbxts"), ("LPSX", "lpsx"),
    ("DX", "dx"), ("DS", "ds"), ("DBX", "dbx"), ("MDS", "mds"), ("DLX", "dlx"),
];
const NESTED_MAP: [(&str, &str); 5] = [("MMS", "mms"), ("BMS", "bms"), ("MMX", "mmx"), ("PMXS", "pmxs"), ("LMX", "lmx")];

macro_rules! reg {
    ($reg:ident, $r:ident, $rn:literal, $o:ident, $on:literal, [$($al:ident),*]) => {
        $( $reg.insert((stringify!($al).to_string(), concat!($rn, $on).to_string()),
             Entry { merge: merge_impl::<$r::$al, $o::$al>, from: from_impl::<$r::$al, $o::$al>, bot: bot_impl::<$r::$al> }); )*
    };
}
macro_rules! reg_all {
    ($reg:ident, $r:ident, $rn:literal, $o:ident, $on:literal) => {
        reg!($reg, $r, $rn, $o, $on, [X, N, U, C, S, MX, MN, MS, MC, MU, BX, BS, TX, TS, PSX, PXN, LX, LS, MBX, MTS, MLX, MPSBX, TBX, BTX, LBX, PBXTS, LPSX, DX, DS, DBX, MDS, DLX]);
    };
}
macro_rules! reg_nested {
    ($reg:ident, $r:ident, $rn:literal, $o:ident, $on:literal) => {
        reg!($reg, $r, $rn, $o, $on, [MMS, BMS, MMX, PMXS, LMX]);
    };
}

type Registry = HashMap<(String, String), Entry>;

fn registry() -> Registry {
    let mut r: Registry = HashMap::new();
    // receivers: h (HashSet+HashMap), b (BTreeSet+BTreeMap), w (Vec sets in HashMaps)
    // others:    h, b, w, v (Vec + VecMap; `MapUnion<VecMap>` has no `IsBot`, so not where a nested map must be `IsBot`)
    reg_all!(r, fh, "h", fh, "h");
    reg_all!(r, fh, "h", fb, "b");
    reg_all!(r, fh, "h", fw, "w");
    reg_all!(r, fh, "h", fv, "v");
    reg_all!(r, fb, "b", fh, "h");
    reg_all!(r, fb, "b", fb, "b");
    reg_all!(r, fb, "b", fw, "w");
    reg_all!(r, fb, "b", fv, "v");
    reg_all!(r, fw, "w", fh, "h");
    reg_all!(r, fw, "w", fb, "b");
    reg_all!(r, fw, "w", fw, "w");
    reg_all!(r, fw, "w", fv, "v");
    reg_nested!(r, fh, "h", fh, "h");
    reg_nested!(r, fh, "h", fb, "b");
    reg_nested!(r, fh, "h", fw, "w");
    reg_nested!(r, fb, "b", fh, "h");
    reg_nested!(r, fb, "b", fb, "b");
    reg_nested!(r, fb, "b", fw, "w");
    reg_nested!(r, fw, "w", fh, "h");
    reg_nested!(r, fw, "w", fb, "b");
    reg_nested!(r, fw, "w", fw, "w");
    // small representations as `Other` (fall back to `v`/`w` when the value does not fit)
    macro_rules! small {
        ($al:literal, $on:literal, $oty:ty, [$(($r:ident, $rn:literal, $a:ident)),*]) => {
            $( r.insert(($al.to_string(), concat!($rn, $on).to_string()),
                 Entry { merge: merge_impl::<$r::$a, $oty>, from: from_impl::<$r::$a, $oty>, bot: bot_impl::<$r::$a> }); )*
        };
    }
    small!("S", "1", SetUnion<SingletonSet<u64>>, [(fh, "h", S), (fb, "b", S), (fw, "w", S)]);
    small!("S", "o", SetUnion<OptionSet<u64>>, [(fh, "h", S), (fb, "b", S), (fw, "w", S)]);
    small!("S", "a", SetUnion<ArraySet<u64, 2>>, [(fh, "h", S), (fb, "b", S), (fw, "w", S)]);
    small!("MX", "1", MapUnion<SingletonMap<u64, Max<u64>>>, [(fh, "h", MX), (fb, "b", MX), (fw, "w", MX)]);
    small!("MX", "o", MapUnion<OptionMap<u64, Max<u64>>>, [(fh, "h", MX), (fb, "b", MX), (fw, "w", MX)]);
    small!("MS", "1", MapUnion<SingletonMap<u64, SetUnion<SingletonSet<u64>>>>, [(fh, "h", MS), (fb, "b", MS), (fw, "w", MS)]);
    small!("MS", "o", MapUnion<OptionMap<u64, SetUnion<OptionSet<u64>>>>, [(fh, "h", MS), (fb, "b", MS), (fw, "w", MS)]);
    small!("BS", "1", WithBot<SetUnion<SingletonSet<u64>>>, [(fh, "h", BS), (fb, "b", BS), (fw, "w", BS)]);
    r
}

/// alias of a descriptor string (sets written `s` or `v`)
fn alias_of(desc: &str) -> Option<&'static str> {
    let flat = desc.replace('v', "s");
    FLAT.iter().chain(NESTED_MAP.iter()).find(|(_, d)| *d == flat).map(|(a, _)| *a)
}
fn is_nested(alias: &str) -> bool {
    NESTED_MAP.iter().any(|(a, _)| *a == alias)
}
/// receiver family demanded by the descriptor: `v` set positions need the `w` family
fn fix_recv(desc: &str, recv: char) -> char {
    if desc.contains('v') {
        'w'
    } else if desc.contains('s') && !matches!(recv, 'h' | 'b') {
        'h'
    } else if matches!(recv, 'h' | 'b' | 'w') {
        recv
    } else {
        'h'
    }
}

/// the other-representations to try, in order: the requested one if it can hold `b` exactly
/// (a `HashSet`/`BTreeSet` cannot hold duplicates, a `HashMap`/`BTreeMap` no duplicate keys), then
/// `Vec`+`VecMap`, then `Vec`+`HashMap`
fn other_reprs(desc: &str, alias: &str, recv: char, repr: &str, b: &DVal) -> Vec<String> {
    let flat = desc_of(&desc.replace('v', "s")).unwrap();
    let vecs = desc_of(&desc.replace('s', "v")).unwrap();
    let o = repr.chars().nth(1).unwrap_or('v');
    let mut tries = vec![];
    let exact = match o {
        'h' | 'b' => canon(&flat, b),
        'w' => canon(&vecs, b),
        _ => true,
    };
    if exact {
        tries.push(repr.to_string());
    }
    if !is_nested(alias) {
        tries.push(format!("{recv}v"));
    }
    if canon(&vecs, b) {
        tries.push(format!("{recv}w"));
    }
    tries
}

struct Ctx {
    reg: Registry,
}
impl Ctx {
    /// look an entry up, falling back to other-representations that can hold the value
    fn run_merge(&self, desc: &str, repr: &str, a: &DVal, b: &DVal) -> Option<(DVal, bool, bool)> {
        let alias = alias_of(desc)?;
        let recv = fix_recv(desc, repr.chars().next()?);
        let repr: String = std::iter::once(recv).chain(repr.chars().skip(1)).collect();
        let tries = other_reprs(desc, alias, recv, &repr, b);
        for t in tries {
            if let Some(e) = self.reg.get(&(alias.to_string(), t)) {
                if let Some(r) = (e.merge)(a, b) {
                    return Some(r);
                }
            }
        }
        None
    }
    fn run_from(&self, desc: &str, repr: &str, b: &DVal) -> Option<(DVal, bool)> {
        let alias = alias_of(desc)?;
        let recv = fix_recv(desc, repr.chars().next()?);
        let repr: String = std::iter::once(recv).chain(repr.chars().skip(1)).collect();
        let tries = other_reprs(desc, alias, recv, &repr, b);
        for t in tries {
            if let Some(e) = self.reg.get(&(alias.to_string(), t)) {
                if let Some(r) = (e.from)(b) {
                    return Some(r);
                }
            }
        }
        None
    }
    fn run_bot(&self, desc: &str, a: &DVal) -> Option<bool> {
        let alias = alias_of(desc)?;
        let recv = if desc.contains('v') { 'w' } else { 'h' };
        let e = self.reg.get(&(alias.to_string(), format!("{recv}h")))?;
        // BTree receivers must agree with hash receivers
        let r = (e.bot)(a)?;
        if recv == 'h' {
            if let Some(e2) = self.reg.get(&(alias.to_string(), "bh".to_string())) {
                if (e2.bot)(a) != Some(r) {
                    return None;
                }
            }
        }
        Some(r)
    }
}

struct Slot {
    desc: String,
    shape: Shape,
    val: DVal,
}

fn top_name(sh: &Shape) -> &'static str {
    match sh {
        Shape::MaxN => "Max",
        Shape::MinN => "Min",
        Shape::Unit => "Unit",
        Shape::Conf => "Conflict",
        Shape::Set { vec: false } => "SetUnion",
        Shape::Set { vec: true } => "SetUnionVec",
        Shape::Map(_) => "MapUnion",
        Shape::WithBot(_) => "WithBot",
        Shape::WithTop(_) => "WithTop",
        Shape::Pair(_, _) => "Pair",
        Shape::Vec(_) => "VecUnion",
        Shape::Dom(_) => "DomPair",
    }
}

fn check_merge(rec: &mut Recorder, line: &str, sh: &Shape, a: &DVal, b: &DVal, res: &(DVal, bool, bool), nontriv: &mut bool) {
    if wf(sh, a) && wf(sh, b) {
        let want = njoin(sh, &norm(sh, a), &norm(sh, b));
        let got = norm(sh, &res.0);
        rec.check(got == want, &format!("merge-is-not-the-abstract-join@{}", top_name(sh)), &format!("{line} -> {} abstract {:?} want {:?}", show(sh, &res.0), got, want));
        rec.check(res.2 == spec_is_bot(sh, &res.0), &format!("is_bot-disagrees-with-model-bottom@{}", top_name(sh)), &format!("{line} -> {} is_bot={}", show(sh, &res.0), res.2));
        rec.check(wf(sh, &res.0), &format!("merge-result-duplicate-keys@{}", top_name(sh)), line);
        if got != norm(sh, a) && !spec_is_bot(sh, b) {
            *nontriv = true;
        }
        rec.count(if got != norm(sh, a) { "merge:abstract-changed" } else { "merge:abstract-same" });
        if spec_is_bot(sh, b) {
            rec.count("merge:other-is-bottom");
        }
    } else {
        rec.count("merge:malformed-duplicate-keys");
    }
}

fn exec(ctx: &Ctx, slot: &mut Option<Slot>, line: &str, rec: &mut Recorder, nontriv: &mut bool) -> String {
    let p: Vec<&str> = line.split(' ').collect();
    match p.as_slice() {
        ["lat", "merge", desc, repr, a, b] => {
            let Some(sh) = desc_of(desc) else { return "bad-op".into() };
            let (Some(a), Some(b)) = (val_of(&sh, a), val_of(&sh, b)) else { return "bad-op".into() };
            if !canon(&sh, &a) {
                return "bad-op".into();
            }
            let Some(res) = ctx.run_merge(desc, repr, &a, &b) else { return "bad-op".into() };
            rec.count(&format!("merge:type={desc}"));
            rec.count(&format!("merge:repr={repr}"));
            check_merge(rec, line, &sh, &a, &b, &res, nontriv);
            format!("{} {}", res.1, show(&sh, &res.0))
        }
        ["lat", "from", desc, repr, b] => {
            let Some(sh) = desc_of(desc) else { return "bad-op".into() };
            let Some(b) = val_of(&sh, b) else { return "bad-op".into() };
            let Some(res) = ctx.run_from(desc, repr, &b) else { return "bad-op".into() };
            rec.count(&format!("from:repr={repr}"));
            if wf(&sh, &b) {
                rec.check(norm(&sh, &res.0) == norm(&sh, &b), &format!("lattice_from-changes-abstract-value@{}", top_name(&sh)), &format!("{line} -> {}", show(&sh, &res.0)));
                rec.check(res.1 == spec_is_bot(&sh, &b), &format!("lattice_from-changes-is_bot@{}", top_name(&sh)), line);
            }
            show(&sh, &res.0)
        }
        ["lat", "isbot", desc, a] => {
            let Some(sh) = desc_of(desc) else { return "bad-op".into() };
            let Some(a) = val_of(&sh, a) else { return "bad-op".into() };
            if !canon(&sh, &a) {
                return "bad-op".into();
            }
            let Some(r) = ctx.run_bot(desc, &a) else { return "bad-op".into() };
            rec.check(r == spec_is_bot(&sh, &a), &format!("is_bot-disagrees-with-model-bottom@{}", top_name(&sh)), line);
            r.to_string()
        }
        ["lat", "init", desc, a] => {
            let Some(sh) = desc_of(desc) else { return "bad-op".into() };
            let Some(a) = val_of(&sh, a) else { return "bad-op".into() };
            if !canon(&sh, &a) || alias_of(desc).is_none() {
                return "bad-op".into();
            }
            let out = show(&sh, &a);
            *slot = Some(Slot { desc: desc.to_string(), shape: sh, val: a });
            out
        }
        ["lat", "step", repr, b] => {
            let Some(s) = slot.as_mut() else { return "bad-op".into() };
            let Some(b) = val_of(&s.shape, b) else { return "bad-op".into() };
            let Some(res) = ctx.run_merge(&s.desc, repr, &s.val, &b) else { return "bad-op".into() };
            rec.count(&format!("step:repr={repr}"));
            check_merge(rec, line, &s.shape, &s.val.clone(), &b, &res, nontriv);
            let out = format!("{} {}", res.1, show(&s.shape, &res.0));
            s.val = res.0;
            out
        }
        ["lat", "get"] => match slot {
            Some(s) => show(&s.shape, &s.val),
            None => "bad-op".into(),
        },
        _ => "bad-op".into(),
    }
}

fn run_case(ctx: &Ctx, no: u64, tag: &str, lines: &[String], rec: &mut Recorder) {
    rec.case(no, tag);
    let mut slot = None;
    let mut nontriv = false;
    for l in lines {
        let out = exec(ctx, &mut slot, l, rec, &mut nontriv);
        rec.line(l, &out);
    }
    if nontriv {
        rec.nontrivial();
    }
}

// ------------------------------------------------------------------------------------ generation

struct Gen {
    dom: u64,
    maxlen: u64,
}
impl Gen {
    fn num(&self, rng: &mut Rng, sh: &Shape) -> u64 {
        match rng.below(12) {
            0 => 0,
            1 => u64::MAX,
            2 if matches!(sh, Shape::MinN) => u64::MAX - 1,
            _ => rng.below(self.dom),
        }
    }
    /// `recv`: the value must be canonical for a receiver
    fn val(&self, rng: &mut Rng, sh: &Shape, recv: bool, dup_keys: bool) -> DVal {
        match sh {
            Shape::MaxN | Shape::MinN => DVal::Num(self.num(rng, sh)),
            Shape::Unit => DVal::Unit,
            Shape::Conf => DVal::Conf(if rng.chance(1, 4) { None } else { Some(rng.below(self.dom)) }),
            Shape::Set { vec } => {
                let n = rng.below(self.maxlen + 1);
                let mut xs: Vec<u64> = (0..n).map(|_| rng.below(self.dom)).collect();
                if recv && !*vec {
                    let mut s = BTreeSet::new();
                    xs.retain(|x| s.insert(*x));
                }
                DVal::Set(xs)
            }
            Shape::Map(s) => {
                let n = rng.below(self.maxlen + 1);
                let mut es: Vec<(u64, DVal)> = (0..n).map(|_| (rng.below(self.dom), self.val(rng, s, recv, dup_keys))).collect();
                if recv || !dup_keys {
                    let mut seen = BTreeSet::new();
                    es.retain(|e| seen.insert(e.0));
                }
                DVal::Map(es)
            }
            Shape::WithBot(s) | Shape::WithTop(s) => DVal::Opt(if rng.chance(1, 4) { None } else { Some(Box::new(self.val(rng, s, recv, dup_keys))) }),
            Shape::Pair(s, t) => DVal::Pair(Box::new(self.val(rng, s, recv, dup_keys)), Box::new(self.val(rng, t, recv, dup_keys))),
            Shape::Vec(s) => {
                let n = rng.below(self.maxlen + 1);
                DVal::Seq((0..n).map(|_| self.val(rng, s, recv, dup_keys)).collect())
            }
            Shape::Dom(s) => DVal::Dom(if rng.chance(1, 6) { 0 } else { rng.below(3) }, Box::new(self.val(rng, s, recv, dup_keys))),
        }
    }
}

fn pick_type(rng: &mut Rng) -> (String, char) {
    let all: Vec<(&str, &str)> = FLAT.iter().chain(NESTED_MAP.iter()).copied().collect();
    let (_, d) = *rng.pick(&all);
    let recv = *rng.pick(&['h', 'b', 'w']);
    let desc = if recv == 'w' { d.replace('s', "v") } else { d.to_string() };
    (desc, recv)
}
fn pick_other(rng: &mut Rng, desc: &str) -> char {
    let alias = alias_of(desc).unwrap();
    let mut os = vec!['h', 'b', 'w'];
    if !is_nested(alias) {
        os.push('v');
        os.push('v');
    }
    if matches!(alias, "S" | "MX" | "MS" | "BS") {
        os.push('1');
        os.push('o');
    }
    if alias == "S" {
        os.push('a');
    }
    *rng.pick(&os)
}

fn gen_case(rng: &mut Rng, thorough: bool) -> Vec<String> {
    let g = Gen { dom: rng.range(2, if thorough { 6 } else { 4 }), maxlen: rng.range(1, if thorough { 5 } else { 3 }) };
    let (desc, recv) = pick_type(rng);
    let sh = desc_of(&desc).unwrap();
    let mut ls = vec![];
    match rng.below(10) {
        0..=4 => {
            // single merges
            for _ in 0..rng.range(1, 4) {
                let o = pick_other(rng, &desc);
                let dup = o == 'v' && rng.chance(1, 15);
                let a = g.val(rng, &sh, true, false);
                let b = if rng.chance(1, 8) { a.clone() } else { g.val(rng, &sh, false, dup) };
                ls.push(format!("lat merge {desc} {recv}{o} {} {}", show_raw(&sh, &a), show_raw(&sh, &b)));
            }
        }
        5..=7 => {
            // a history on one slot
            let a = g.val(rng, &sh, true, false);
            ls.push(format!("lat init {desc} {}", show_raw(&sh, &a)));
            for _ in 0..rng.range(1, if thorough { 8 } else { 5 }) {
                let o = pick_other(rng, &desc);
                let b = g.val(rng, &sh, false, false);
                ls.push(format!("lat step {recv}{o} {}", show_raw(&sh, &b)));
                if rng.chance(1, 6) {
                    ls.push("lat get".into());
                }
            }
            ls.push("lat get".into());
        }
        8 => {
            for _ in 0..rng.range(1, 3) {
                let o = pick_other(rng, &desc);
                let dup = o == 'v' && rng.chance(1, 10);
                let b = g.val(rng, &sh, false, dup);
                ls.push(format!("lat from {desc} {recv}{o} {}", show_raw(&sh, &b)));
            }
        }
        _ => {
            for _ in 0..rng.range(1, 3) {
                let a = g.val(rng, &sh, true, false);
                ls.push(format!("lat isbot {desc} {}", show_raw(&sh, &a)));
            }
        }
    }
    if rng.chance(1, 12) {
        let bad = [
            "lat merge s hh {1,1} {2}",
            "lat merge mx hh {1:1,1:2} {}",
            "lat merge zz hh 1 2",
            "lat merge s hh {1,} {2}",
            "lat merge s hh {1 {2}",
            "lat merge x hh 18446744073709551616 1",
            "lat step hh 1",
            "lat frob",
            "lat merge psx hh ({1};2 ({};3)",
            "lat from bx hh ?",
            "lat isbot mn {1:18446744073709551615,2:_}",
        ];
        let at = rng.below(ls.len() as u64 + 1) as usize;
        ls.insert(at, rng.pick(&bad).to_string());
    }
    ls
}
/// text of a value in its given order (no canonicalisation: the generator's order is the `Vec` order)
fn show_raw(sh: &Shape, v: &DVal) -> String {
    match (sh, v) {
        (Shape::Set { .. }, DVal::Set(xs)) => format!("{{{}}}", xs.iter().map(|x| x.to_string()).collect::<Vec<_>>().join(",")),
        (Shape::Map(s), DVal::Map(es)) => format!("{{{}}}", es.iter().map(|(k, v)| format!("{k}:{}", show_raw(s, v))).collect::<Vec<_>>().join(",")),
        (Shape::WithBot(s) | Shape::WithTop(s), DVal::Opt(Some(x))) => format!("?{}", show_raw(s, x)),
        (Shape::Pair(s, t), DVal::Pair(a, b)) => format!("({};{})", show_raw(s, a), show_raw(t, b)),
        (Shape::Vec(s), DVal::Seq(xs)) => format!("[{}]", xs.iter().map(|x| show_raw(s, x)).collect::<Vec<_>>().join(",")),
        (Shape::Dom(s), DVal::Dom(k, v)) => format!("<{k}|{}>", show_raw(s, v)),
        _ => show(sh, v),
    }
}

/// all values of a shape over a tiny domain (for the bounded-exhaustive part)
fn all_vals(sh: &Shape, recv: bool) -> Vec<DVal> {
    match sh {
        Shape::MaxN => vec![DVal::Num(0), DVal::Num(1), DVal::Num(2)],
        Shape::MinN => vec![DVal::Num(u64::MAX), DVal::Num(1), DVal::Num(2)],
        Shape::Unit => vec![DVal::Unit],
        Shape::Conf => vec![DVal::Conf(None), DVal::Conf(Some(0)), DVal::Conf(Some(1))],
        Shape::Set { vec } => {
            let mut v = vec![DVal::Set(vec![]), DVal::Set(vec![0]), DVal::Set(vec![1]), DVal::Set(vec![1, 0])];
            if !recv || *vec {
                v.push(DVal::Set(vec![0, 0]));
            }
            v
        }
        Shape::Map(s) => {
            let vs = all_vals(s, recv);
            let mut out = vec![DVal::Map(vec![])];
            for a in &vs {
                out.push(DVal::Map(vec![(0, a.clone())]));
                for b in vs.iter().take(3) {
                    out.push(DVal::Map(vec![(1, a.clone()), (0, b.clone())]));
                }
            }
            out
        }
        Shape::WithBot(s) | Shape::WithTop(s) => {
            let mut out = vec![DVal::Opt(None)];
            out.extend(all_vals(s, recv).into_iter().map(|x| DVal::Opt(Some(Box::new(x)))));
            out
        }
        Shape::Pair(s, t) => {
            let mut out = vec![];
            for a in all_vals(s, recv) {
                for b in all_vals(t, recv) {
                    out.push(DVal::Pair(Box::new(a.clone()), Box::new(b)));
                }
            }
            out
        }
        Shape::Dom(s) => {
            let mut out = vec![];
            for k in 0..3 {
                for v in all_vals(s, recv) {
                    out.push(DVal::Dom(k, Box::new(v)));
                }
            }
            out
        }
        Shape::Vec(s) => {
            let vs = all_vals(s, recv);
            let mut out = vec![DVal::Seq(vec![])];
            for a in &vs {
                out.push(DVal::Seq(vec![a.clone()]));
                for b in vs.iter().take(2) {
                    out.push(DVal::Seq(vec![a.clone(), b.clone()]));
                }
            }
            out
        }
    }
}

pub fn run(args: &Args, rec: &mut Recorder) {
    let ctx = Ctx { reg: registry() };
    if let Some(p) = &args.replay {
        for (no, tag, lines) in crate::replay_cases(p) {
            run_case(&ctx, no, &tag, &lines, rec);
        }
        return;
    }
    let thorough = args.tier == "thorough";
    let root = Rng::new(args.seed);
    let mut no = 0u64;
    // bounded-exhaustive: all pairs over the tiny domain for each flat type (capped per type)
    let cap = if thorough { 2500 } else { 250 };
    for (i, (_, d)) in FLAT.iter().chain(NESTED_MAP.iter()).enumerate() {
        for (recv, others) in [('h', "hbwv"), ('w', "hv")] {
            let desc = if recv == 'w' { d.replace('s', "v") } else { d.to_string() };
            let sh = desc_of(&desc).unwrap();
            let avs = all_vals(&sh, true);
            let bvs = all_vals(&sh, false);
            let total = avs.len() * bvs.len();
            let stride = (total / cap).max(1);
            let mut ls = vec![];
            let mut k = (i * 7) % stride;
            while k < total {
                let (a, b) = (&avs[k / bvs.len()], &bvs[k % bvs.len()]);
                let o = others.as_bytes()[(k / stride) % others.len()] as char;
                let o = if o == 'v' && is_nested(alias_of(&desc).unwrap()) { 'w' } else { o };
                ls.push(format!("lat merge {desc} {recv}{o} {} {}", show_raw(&sh, a), show_raw(&sh, b)));
                if ls.len() == 50 {
                    no += 1;
                    run_case(&ctx, no, &format!("exhaustive type={desc}"), &ls, rec);
                    ls.clear();
                }
                k += stride;
            }
            if !ls.is_empty() {
                no += 1;
                run_case(&ctx, no, &format!("exhaustive type={desc}"), &ls, rec);
            }
        }
    }
    for i in 0..args.cases {
        let mut rng = root.fork(i);
        let ls = gen_case(&mut rng, thorough);
        no += 1;
        run_case(&ctx, no, "random", &ls, rec);
    }
}
