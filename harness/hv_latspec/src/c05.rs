//! C05: tombstone lattices on the real code. Every op line is executed on all backends
//! (set: HashSet / BTreeSet+HashSet / roaring / FST; map: HashSet / roaring / FST tombstones).
use std::collections::{BTreeMap, BTreeSet, HashMap, HashSet};

use hv_common::{Args, Recorder, Rng};
use lattices::collections::{EmptyMap, EmptySet, OptionSet, SingletonMap, SingletonSet};
use lattices::map_union_with_tombstones::{
    MapUnionWithTombstones, MapUnionWithTombstonesFstString, MapUnionWithTombstonesRoaring,
};
use lattices::set_union::{SetUnion, SetUnionHashSet, SetUnionSingletonSet};
use lattices::set_union_with_tombstones::{
    SetUnionWithTombstones, SetUnionWithTombstonesFstString, SetUnionWithTombstonesRoaring,
};
use lattices::tombstone::{FstTombstoneSet, RoaringTombstoneSet, TombstoneSet};
use lattices::{IsBot, Merge};

pub const RULE: &str = "merge histories of replica states (live, tombstones) over item/key domain {0..dom} into bottom, on every tombstone backend, with re-merges in permuted orders; non-trivial = some item/key is inserted by one replica and tombstoned by a replica of the same history; distinct = distinct op-line sequences";

/// item/key bijection: u64 for HashSet/BTreeSet/roaring, String for FST
trait Key: Clone + Eq + std::hash::Hash + Ord {
    fn of(n: u64) -> Self;
    fn to(&self) -> u64;
}
impl Key for u64 {
    fn of(n: u64) -> Self {
        n
    }
    fn to(&self) -> u64 {
        *self
    }
}
impl Key for String {
    fn of(n: u64) -> Self {
        format!("k{n}")
    }
    fn to(&self) -> u64 {
        self[1..].parse().expect("key string")
    }
}

fn conv<I: Key>(xs: &[u64]) -> Vec<I> {
    xs.iter().map(|&n| I::of(n)).collect()
}
fn back<I: Key>(xs: impl IntoIterator<Item = I>) -> Vec<u64> {
    let mut v: Vec<u64> = xs.into_iter().map(|x| x.to()).collect();
    v.sort();
    v
}
fn has_dups(xs: &[u64]) -> bool {
    let s: BTreeSet<_> = xs.iter().collect();
    s.len() != xs.len()
}

// ------------------------------------------------------------------------------------ comparisons

fn show_ord(o: Option<std::cmp::Ordering>) -> &'static str {
    match o {
        Some(std::cmp::Ordering::Less) => "lt",
        Some(std::cmp::Ordering::Equal) => "eq",
        Some(std::cmp::Ordering::Greater) => "gt",
        None => "none",
    }
}
fn ord_of(le_ab: bool, le_ba: bool) -> &'static str {
    match (le_ab, le_ba) {
        (true, true) => "eq",
        (true, false) => "lt",
        (false, true) => "gt",
        (false, false) => "none",
    }
}
fn flip(o: &str) -> &'static str {
    match o {
        "lt" => "gt",
        "gt" => "lt",
        "eq" => "eq",
        _ => "none",
    }
}
/// what the real code answers for a pair: partial_cmp(a,b), a==b, partial_cmp(b,a), b==a, and the `changed` flags of
/// merging a into (a clone of) b and b into (a clone of) a
struct CmpOut {
    cmp: String,
    eq: bool,
    rcmp: String,
    req: bool,
    changed_b_by_a: bool,
    changed_a_by_b: bool,
}
fn cmp_pair<T: PartialOrd + PartialEq + Clone + Merge<T>>(a: &T, b: &T) -> CmpOut {
    let c = |x: &T, y: &T| match std::panic::catch_unwind(std::panic::AssertUnwindSafe(|| x.partial_cmp(y))) {
        Ok(o) => show_ord(o).to_string(),
        Err(_) => "panic".to_string(),
    };
    let (mut b2, mut a2) = (b.clone(), a.clone());
    CmpOut { cmp: c(a, b), eq: a == b, rcmp: c(b, a), req: b == a, changed_b_by_a: b2.merge(a.clone()), changed_a_by_b: a2.merge(b.clone()) }
}
macro_rules! cmp_impl {
    (yes, $slf:expr, $other:expr) => {
        Some(cmp_pair($slf, &$other))
    };
    (no, $slf:expr, $other:expr) => {{
        let _ = &$other;
        None
    }};
}

// ------------------------------------------------------------------------------------ sets

trait SetBackend {
    fn merge_rep(&mut self, repr: &str, l: &[u64], t: &[u64]) -> bool;
    fn reveal(&self) -> (Vec<u64>, Vec<u64>);
    fn bot(&self) -> bool;
    /// compare with the state (l, t) of the same type; `None`: this backend has no PartialOrd/PartialEq
    fn cmp_with(&self, l: &[u64], t: &[u64]) -> Option<CmpOut>;
}

macro_rules! set_backend {
    ($ty:ty, $item:ty, $same:expr, $cmp:tt) => {
        impl SetBackend for $ty {
            fn merge_rep(&mut self, repr: &str, l: &[u64], t: &[u64]) -> bool {
                type I = $item;
                let lv: Vec<I> = conv(l);
                let tv: Vec<I> = conv(t);
                match repr {
                    "same" => self.merge(($same)(lv, tv)),
                    "hash" => self.merge(SetUnionWithTombstones::<HashSet<I>, HashSet<I>>::new(
                        lv.into_iter().collect(),
                        tv.into_iter().collect(),
                    )),
                    "btree" => self.merge(SetUnionWithTombstones::<BTreeSet<I>, BTreeSet<I>>::new(
                        lv.into_iter().collect(),
                        tv.into_iter().collect(),
                    )),
                    "opt" if lv.len() <= 1 && tv.len() <= 1 => {
                        self.merge(SetUnionWithTombstones::<OptionSet<I>, OptionSet<I>>::new(
                            OptionSet(lv.into_iter().next()),
                            OptionSet(tv.into_iter().next()),
                        ))
                    }
                    "single" if lv.len() == 1 && tv.len() == 1 => {
                        self.merge(SetUnionWithTombstones::<SingletonSet<I>, SingletonSet<I>>::new(
                            SingletonSet(lv.into_iter().next().unwrap()),
                            SingletonSet(tv.into_iter().next().unwrap()),
                        ))
                    }
                    "tomb1" if lv.is_empty() && tv.len() == 1 => {
                        self.merge(SetUnionWithTombstones::<EmptySet<I>, SingletonSet<I>>::new(
                            EmptySet::default(),
                            SingletonSet(tv.into_iter().next().unwrap()),
                        ))
                    }
                    // "vec" and anything that does not fit its representation
                    _ => self.merge(SetUnionWithTombstones::<Vec<I>, Vec<I>>::new(lv, tv)),
                }
            }
            fn reveal(&self) -> (Vec<u64>, Vec<u64>) {
                let (s, t) = self.clone().into_reveal();
                (back(s), back(t))
            }
            fn bot(&self) -> bool {
                self.is_bot()
            }
            fn cmp_with(&self, l: &[u64], t: &[u64]) -> Option<CmpOut> {
                type I = $item;
                let other: $ty = ($same)(conv::<I>(l), conv::<I>(t));
                cmp_impl!($cmp, self, other)
            }
        }
    };
}

type SHs = SetUnionWithTombstones<HashSet<u64>, HashSet<u64>>;
type SBt = SetUnionWithTombstones<BTreeSet<u64>, HashSet<u64>>;
type SRo = SetUnionWithTombstonesRoaring;
type SFst = SetUnionWithTombstonesFstString;

set_backend!(SHs, u64, |l: Vec<u64>, t: Vec<u64>| SHs::new(l.into_iter().collect(), t.into_iter().collect()), yes);
set_backend!(SBt, u64, |l: Vec<u64>, t: Vec<u64>| SBt::new(l.into_iter().collect(), t.into_iter().collect()), yes);
// the roaring and FST tombstone sets are not cc_traits::Iter/Get: no PartialOrd/PartialEq for these two
set_backend!(SRo, u64, |l: Vec<u64>, t: Vec<u64>| SRo::new(l.into_iter().collect(), RoaringTombstoneSet::from_iter(t)), no);
set_backend!(SFst, String, |l: Vec<String>, t: Vec<String>| SFst::new(l.into_iter().collect(), FstTombstoneSet::from_iter(t)), no);

const SET_TAGS: [&str; 4] = ["hs", "bt", "ro", "fst"];
fn fresh_sets() -> Vec<Box<dyn SetBackend>> {
    vec![
        Box::new(SHs::default()),
        Box::new(SBt::default()),
        Box::new(SRo::default()),
        Box::new(SFst::default()),
    ]
}

// ------------------------------------------------------------------------------------ bare tombstone backends

/// `tb union A|B q`: on one `TombstoneSet` backend build X = A.collect(), Y = B.collect(), answer
/// `<X.union_with(&Y)>/<X afterwards>/<len>/<contains q>/<A.collect().extend(B)>` (everything through the trait)
fn tb_union<I: Key, T>(a: &[u64], b: &[u64], q: u64) -> (usize, Vec<u64>, usize, bool, Vec<u64>)
where
    T: TombstoneSet<I> + FromIterator<I> + IntoIterator<Item = I> + Clone,
{
    let mut x: T = conv::<I>(a).into_iter().collect();
    let y: T = conv::<I>(b).into_iter().collect();
    let old = x.union_with(&y);
    let len = lattices::cc_traits::Len::len(&x);
    let has = TombstoneSet::contains(&x, &I::of(q));
    let mut e: T = conv::<I>(a).into_iter().collect();
    e.extend(conv::<I>(b));
    (old, back(x.clone()), len, has, back(e))
}
const TB_TAGS: [&str; 3] = ["hs", "ro", "fst"];

// ------------------------------------------------------------------------------------ maps

type Val = SetUnionHashSet<u64>;
type Entry = (u64, Vec<u64>);

trait MapBackend {
    fn merge_rep(&mut self, repr: &str, m: &[Entry], t: &[u64]) -> bool;
    fn reveal(&self) -> (Vec<Entry>, Vec<u64>);
    fn bot(&self) -> bool;
    fn cmp_with(&self, m: &[Entry], t: &[u64]) -> Option<CmpOut>;
}

macro_rules! map_backend {
    ($ty:ty, $key:ty, $tomb:expr, $cmp:tt) => {
        impl MapBackend for $ty {
            fn merge_rep(&mut self, repr: &str, m: &[Entry], t: &[u64]) -> bool {
                type K = $key;
                let tv: Vec<K> = conv(t);
                let dup = has_dups(&m.iter().map(|e| e.0).collect::<Vec<_>>());
                match repr {
                    "same" if !dup => self.merge(<$ty>::new(
                        m.iter().map(|(k, v)| (K::of(*k), Val::new(v.iter().copied().collect()))).collect(),
                        ($tomb)(tv),
                    )),
                    "hash" if !dup => self.merge(MapUnionWithTombstones::<HashMap<K, Val>, HashSet<K>>::new(
                        m.iter().map(|(k, v)| (K::of(*k), Val::new(v.iter().copied().collect()))).collect(),
                        tv.into_iter().collect(),
                    )),
                    "btree" if !dup => self.merge(MapUnionWithTombstones::<
                        BTreeMap<K, SetUnion<BTreeSet<u64>>>,
                        BTreeSet<K>,
                    >::new(
                        m.iter().map(|(k, v)| (K::of(*k), SetUnion::new(v.iter().copied().collect()))).collect(),
                        tv.into_iter().collect(),
                    )),
                    "single" if m.len() == 1 && m[0].1.len() == 1 && tv.is_empty() => {
                        self.merge(MapUnionWithTombstones::<SingletonMap<K, SetUnionSingletonSet<u64>>, EmptySet<K>>::new(
                            SingletonMap(K::of(m[0].0), SetUnion::new(SingletonSet(m[0].1[0]))),
                            EmptySet::default(),
                        ))
                    }
                    "tomb1" if m.is_empty() && tv.len() == 1 => {
                        self.merge(MapUnionWithTombstones::<EmptyMap<K, Val>, SingletonSet<K>>::new(
                            EmptyMap::default(),
                            SingletonSet(tv.into_iter().next().unwrap()),
                        ))
                    }
                    _ => self.merge(MapUnionWithTombstones::<Vec<(K, SetUnion<Vec<u64>>)>, Vec<K>>::new(
                        m.iter().map(|(k, v)| (K::of(*k), SetUnion::new(v.clone()))).collect(),
                        tv,
                    )),
                }
            }
            fn reveal(&self) -> (Vec<Entry>, Vec<u64>) {
                let (m, t) = self.clone().into_reveal();
                let mut mv: Vec<Entry> = m
                    .into_iter()
                    .map(|(k, v)| {
                        let mut vs: Vec<u64> = v.into_reveal().into_iter().collect();
                        vs.sort();
                        (k.to(), vs)
                    })
                    .collect();
                mv.sort();
                (mv, back(t))
            }
            fn bot(&self) -> bool {
                self.is_bot()
            }
            fn cmp_with(&self, m: &[Entry], t: &[u64]) -> Option<CmpOut> {
                type K = $key;
                let other = <$ty>::new(
                    m.iter().map(|(k, v)| (K::of(*k), Val::new(v.iter().copied().collect()))).collect(),
                    ($tomb)(conv::<K>(t)),
                );
                cmp_impl!($cmp, self, other)
            }
        }
    };
}

type MHs = MapUnionWithTombstones<HashMap<u64, Val>, HashSet<u64>>;
type MRo = MapUnionWithTombstonesRoaring<Val>;
type MFst = MapUnionWithTombstonesFstString<Val>;
map_backend!(MHs, u64, |t: Vec<u64>| t.into_iter().collect::<HashSet<u64>>(), yes);
map_backend!(MRo, u64, |t: Vec<u64>| RoaringTombstoneSet::from_iter(t), no);
map_backend!(MFst, String, |t: Vec<String>| FstTombstoneSet::from_iter(t), no);

const MAP_TAGS: [&str; 3] = ["hs", "ro", "fst"];
fn fresh_maps() -> Vec<Box<dyn MapBackend>> {
    vec![Box::new(MHs::default()), Box::new(MRo::default()), Box::new(MFst::default())]
}

// ------------------------------------------------------------------------------------ text

fn show_nats(sep: &str, xs: &[u64]) -> String {
    if xs.is_empty() {
        "-".into()
    } else {
        let mut v = xs.to_vec();
        v.sort();
        v.iter().map(|x| x.to_string()).collect::<Vec<_>>().join(sep)
    }
}
fn parse_nats(sep: &str, s: &str) -> Option<Vec<u64>> {
    if s == "-" { Some(vec![]) } else { s.split(sep).map(|p| if p.chars().all(|c| c.is_ascii_digit()) { p.parse().ok() } else { None }).collect() }
}
fn parse_tset(s: &str) -> Option<(Vec<u64>, Vec<u64>)> {
    let p: Vec<&str> = s.split('|').collect();
    if p.len() != 2 {
        return None;
    }
    Some((parse_nats(",", p[0])?, parse_nats(",", p[1])?))
}
fn parse_entry(s: &str) -> Option<Entry> {
    let p: Vec<&str> = s.split(':').collect();
    if p.len() != 2 || !p[0].chars().all(|c| c.is_ascii_digit()) {
        return None;
    }
    Some((p[0].parse().ok()?, parse_nats(".", p[1])?))
}
fn parse_tmap(s: &str) -> Option<(Vec<Entry>, Vec<u64>)> {
    let p: Vec<&str> = s.split('|').collect();
    if p.len() != 2 {
        return None;
    }
    let m = if p[0] == "-" { vec![] } else { p[0].split(',').map(parse_entry).collect::<Option<Vec<_>>>()? };
    Some((m, parse_nats(",", p[1])?))
}
fn show_map(m: &[Entry]) -> String {
    if m.is_empty() {
        "-".into()
    } else {
        let mut v = m.to_vec();
        v.sort();
        v.iter().map(|(k, vs)| format!("{k}:{}", show_nats(".", vs))).collect::<Vec<_>>().join(",")
    }
}
fn show_tset(s: &(Vec<u64>, Vec<u64>)) -> String {
    format!("{}/{}", show_nats(",", &s.0), show_nats(",", &s.1))
}
fn show_tmap(s: &(Vec<Entry>, Vec<u64>)) -> String {
    format!("{}/{}", show_map(&s.0), show_nats(",", &s.1))
}
fn tagged(tags: &[&str], xs: &[String]) -> String {
    tags.iter().zip(xs).map(|(t, x)| format!("{t}={x}")).collect::<Vec<_>>().join(" ")
}

// ------------------------------------------------------------------------------------ runner

struct Runner {
    sets: Vec<Box<dyn SetBackend>>,
    set_hist: Vec<(String, Vec<u64>, Vec<u64>)>,
    ins: BTreeSet<u64>,
    dead: BTreeSet<u64>,
    maps: Vec<Box<dyn MapBackend>>,
    map_hist: Vec<(String, Vec<Entry>, Vec<u64>)>,
    vals: BTreeMap<u64, BTreeSet<u64>>,
    mdead: BTreeSet<u64>,
    /// every map replica so far had distinct keys (the value formula is only claimed then)
    map_wf: bool,
    interacts: bool,
}

fn expected_set(ins: &BTreeSet<u64>, dead: &BTreeSet<u64>) -> (Vec<u64>, Vec<u64>) {
    (ins.difference(dead).copied().collect(), dead.iter().copied().collect())
}
fn expected_map(vals: &BTreeMap<u64, BTreeSet<u64>>, dead: &BTreeSet<u64>) -> (Vec<Entry>, Vec<u64>) {
    (
        vals.iter()
            .filter(|(k, v)| !dead.contains(k) && !v.is_empty())
            .map(|(k, v)| (*k, v.iter().copied().collect()))
            .collect(),
        dead.iter().copied().collect(),
    )
}

impl Runner {
    fn new() -> Self {
        Runner {
            sets: fresh_sets(),
            set_hist: vec![],
            ins: BTreeSet::new(),
            dead: BTreeSet::new(),
            maps: fresh_maps(),
            map_hist: vec![],
            vals: BTreeMap::new(),
            mdead: BTreeSet::new(),
            map_wf: true,
            interacts: false,
        }
    }

    fn exec(&mut self, line: &str, rec: &mut Recorder) -> String {
        let p: Vec<&str> = line.split(' ').collect();
        match p.as_slice() {
            ["ts", "merge", repr, r] => {
                let Some((l, t)) = parse_tset(r) else { return "bad-op".into() };
                let before = expected_set(&self.ins, &self.dead);
                self.ins.extend(l.iter().copied());
                self.dead.extend(t.iter().copied());
                let want = expected_set(&self.ins, &self.dead);
                if self.ins.intersection(&self.dead).next().is_some() {
                    self.interacts = true;
                }
                rec.count(&format!("ts-merge:repr={repr}"));
                rec.count(&format!("ts-merge:live={},tomb={}", l.len().min(4), t.len().min(4)));
                let mut outs = vec![];
                let mut first: Option<(Vec<u64>, Vec<u64>)> = None;
                for (b, tag) in self.sets.iter_mut().zip(SET_TAGS) {
                    let Ok(flag) = std::panic::catch_unwind(std::panic::AssertUnwindSafe(|| b.merge_rep(repr, &l, &t))) else {
                        rec.check(false, &format!("set-merge-panicked@{tag}"), line);
                        outs.push("panic".into());
                        continue;
                    };
                    let st = b.reveal();
                    rec.check(st.0 == want.0, &format!("set-live-not-inserted-minus-tombstoned@{tag}"), &format!("{line} -> {} want {}", show_tset(&st), show_tset(&want)));
                    rec.check(st.1 == want.1, &format!("set-tombstones-not-union@{tag}"), &format!("{line} -> {} want {}", show_tset(&st), show_tset(&want)));
                    rec.check(st.0.iter().all(|x| !st.1.contains(x)), &format!("set-live-and-tombstoned@{tag}"), &format!("{line} -> {}", show_tset(&st)));
                    rec.check(flag == (before != want), &format!("set-changed-flag@{tag}"), &format!("{line} flag={flag} before={} after={}", show_tset(&before), show_tset(&want)));
                    match &first {
                        None => first = Some(st.clone()),
                        Some(f) => rec.check(*f == st, &format!("set-backend-disagrees@{tag}"), &format!("{line} hs={} {tag}={}", show_tset(f), show_tset(&st))),
                    }
                    outs.push(format!("{flag}/{}", show_tset(&st)));
                }
                rec.count(if before != want { "ts-merge:changed" } else { "ts-merge:noop" });
                self.set_hist.push((repr.to_string(), l, t));
                tagged(&SET_TAGS, &outs)
            }
            ["ts", "state"] => {
                let outs: Vec<String> = self.sets.iter().map(|b| show_tset(&b.reveal())).collect();
                tagged(&SET_TAGS, &outs)
            }
            ["ts", "isbot"] => {
                let want = self.ins.is_empty() && self.dead.is_empty();
                let mut outs = vec![];
                for (b, tag) in self.sets.iter().zip(SET_TAGS) {
                    rec.check(b.bot() == want, &format!("set-isbot@{tag}"), line);
                    outs.push(b.bot().to_string());
                }
                tagged(&SET_TAGS, &outs)
            }
            ["ts", "perm", idx] => {
                let Some(ix) = parse_nats(",", idx) else { return "bad-op".into() };
                if ix.iter().any(|&i| i as usize >= self.set_hist.len()) {
                    return "bad-op".into();
                }
                let full = {
                    let mut s: Vec<u64> = ix.clone();
                    s.sort();
                    s == (0..self.set_hist.len() as u64).collect::<Vec<_>>()
                };
                rec.count(if full { "ts-perm:full" } else { "ts-perm:partial" });
                let mut fresh = fresh_sets();
                let mut outs = vec![];
                for ((b, tag), cur) in fresh.iter_mut().zip(SET_TAGS).zip(self.sets.iter()) {
                    for &i in &ix {
                        let (repr, l, t) = &self.set_hist[i as usize];
                        b.merge_rep(repr, l, t);
                    }
                    let st = b.reveal();
                    if full {
                        rec.check(st == cur.reveal(), &format!("set-merge-order-matters@{tag}"), &format!("{line} -> {} but state is {}", show_tset(&st), show_tset(&cur.reveal())));
                    }
                    outs.push(show_tset(&st));
                }
                tagged(&SET_TAGS, &outs)
            }
            ["ts", "cmp", r] => {
                let Some((l, t)) = parse_tset(r) else { return "bad-op".into() };
                if has_dups(&l) || has_dups(&t) || l.iter().any(|x| t.contains(x)) {
                    return "bad-op".into();
                }
                let (sb, tb): (BTreeSet<u64>, BTreeSet<u64>) = (l.iter().copied().collect(), t.iter().copied().collect());
                let mut outs = vec![];
                let mut tags = vec![];
                for (b, tag) in self.sets.iter().zip(SET_TAGS) {
                    let Some(o) = b.cmp_with(&l, &t) else { continue };
                    // the order of the lattice, from what the state reveals: a <= b iff a's tombstones are b's and every
                    // live item of a is live or tombstoned in b
                    let (la, ta) = b.reveal();
                    let (sa, ta): (BTreeSet<u64>, BTreeSet<u64>) = (la.into_iter().collect(), ta.into_iter().collect());
                    let le_ab = ta.is_subset(&tb) && sa.iter().all(|x| sb.contains(x) || tb.contains(x));
                    let le_ba = tb.is_subset(&ta) && sb.iter().all(|x| sa.contains(x) || ta.contains(x));
                    let want = ord_of(le_ab, le_ba);
                    let d = format!("{line}: self={} got {}/{}/{}/{} want {want}", show_tset(&b.reveal()), o.cmp, o.eq, o.rcmp, o.req);
                    rec.check(o.cmp == want, &format!("tomb-set-cmp@{tag}"), &d);
                    rec.check(o.rcmp == flip(&o.cmp), &format!("tomb-set-cmp-duality@{tag}"), &d);
                    rec.check(o.eq == (want == "eq") && o.req == o.eq, &format!("tomb-set-eq@{tag}"), &d);
                    rec.check(o.changed_b_by_a == !le_ab && o.changed_a_by_b == !le_ba, &format!("tomb-set-cmp-vs-merge@{tag}"), &format!("{d} changed {}/{}", o.changed_b_by_a, o.changed_a_by_b));
                    if tag == "hs" {
                        rec.count(&format!("ts-cmp:{want}"));
                        if sa != sb && ta != tb {
                            rec.count("ts-cmp:differ-in-live-and-tombstones");
                            self.interacts = true;
                        }
                    }
                    outs.push(format!("{}/{}/{}/{}", o.cmp, o.eq, o.rcmp, o.req));
                    tags.push(tag);
                }
                tagged(&tags, &outs)
            }
            ["tm", "cmp", r] => {
                let Some((m, t)) = parse_tmap(r) else { return "bad-op".into() };
                let ks: Vec<u64> = m.iter().map(|e| e.0).collect();
                if has_dups(&ks) || has_dups(&t) || ks.iter().any(|k| t.contains(k)) || m.iter().any(|e| has_dups(&e.1)) {
                    return "bad-op".into();
                }
                let val = |m: &[Entry], k: u64| -> BTreeSet<u64> { m.iter().find(|e| e.0 == k).map(|e| e.1.iter().copied().collect()).unwrap_or_default() };
                let tb: BTreeSet<u64> = t.iter().copied().collect();
                let mut outs = vec![];
                let mut tags = vec![];
                for (b, tag) in self.maps.iter().zip(MAP_TAGS) {
                    let Some(o) = b.cmp_with(&m, &t) else { continue };
                    let (ma, ta) = b.reveal();
                    let ta: BTreeSet<u64> = ta.into_iter().collect();
                    let keys: BTreeSet<u64> = ma.iter().map(|e| e.0).chain(ks.iter().copied()).collect();
                    // a <= b iff a's tombstones are b's and, outside b's tombstones, every value of a is below b's
                    let le_ab = ta.is_subset(&tb) && keys.iter().all(|&k| tb.contains(&k) || val(&ma, k).is_subset(&val(&m, k)));
                    let le_ba = tb.is_subset(&ta) && keys.iter().all(|&k| ta.contains(&k) || val(&m, k).is_subset(&val(&ma, k)));
                    let want = ord_of(le_ab, le_ba);
                    let d = format!("{line}: self={} got {}/{}/{}/{} want {want}", show_tmap(&b.reveal()), o.cmp, o.eq, o.rcmp, o.req);
                    rec.check(o.cmp == want, &format!("tomb-map-cmp@{tag}"), &d);
                    rec.check(o.rcmp == flip(&o.cmp), &format!("tomb-map-cmp-duality@{tag}"), &d);
                    rec.check(o.eq == (want == "eq") && o.req == o.eq, &format!("tomb-map-eq@{tag}"), &d);
                    rec.check(o.changed_b_by_a == !le_ab && o.changed_a_by_b == !le_ba, &format!("tomb-map-cmp-vs-merge@{tag}"), &format!("{d} changed {}/{}", o.changed_b_by_a, o.changed_a_by_b));
                    rec.count(&format!("tm-cmp:{want}"));
                    let differ_live = keys.iter().any(|&k| !ta.contains(&k) && !tb.contains(&k) && val(&ma, k) != val(&m, k));
                    if differ_live && ta != tb {
                        rec.count("tm-cmp:differ-in-live-and-tombstones");
                        self.interacts = true;
                    }
                    outs.push(format!("{}/{}/{}/{}", o.cmp, o.eq, o.rcmp, o.req));
                    tags.push(tag);
                }
                tagged(&tags, &outs)
            }
            ["tb", "union", r, q] => {
                let (Some((a, b)), Ok(q)) = (parse_tset(r), q.parse::<u64>()) else { return "bad-op".into() };
                let (sa, sb): (BTreeSet<u64>, BTreeSet<u64>) = (a.iter().copied().collect(), b.iter().copied().collect());
                let want: Vec<u64> = sa.union(&sb).copied().collect();
                let res = [
                    std::panic::catch_unwind(|| tb_union::<u64, HashSet<u64>>(&a, &b, q)),
                    std::panic::catch_unwind(|| tb_union::<u64, RoaringTombstoneSet>(&a, &b, q)),
                    std::panic::catch_unwind(|| tb_union::<String, FstTombstoneSet<String>>(&a, &b, q)),
                ];
                let mut outs = vec![];
                for (r, tag) in res.into_iter().zip(TB_TAGS) {
                    let Ok((old, items, len, has, ext)) = r else {
                        rec.check(false, &format!("tombstone-set-panicked@{tag}"), line);
                        outs.push("panic".into());
                        continue;
                    };
                    rec.check(items == want && len == want.len(), &format!("tombstone-union-with-not-union@{tag}"), &format!("{line} -> {}", show_nats(",", &items)));
                    rec.check(old == sa.len(), &format!("tombstone-union-with-old-len@{tag}"), &format!("{line} -> {old}"));
                    rec.check(has == want.contains(&q), &format!("tombstone-contains@{tag}"), line);
                    rec.check(ext == want, &format!("tombstone-extend-not-union@{tag}"), &format!("{line} -> {}", show_nats(",", &ext)));
                    outs.push(format!("{old}/{}/{len}/{has}/{}", show_nats(",", &items), show_nats(",", &ext)));
                }
                rec.count(&format!("tb-union:{}", if sa.is_disjoint(&sb) { "disjoint" } else { "overlap" }));
                tagged(&TB_TAGS, &outs)
            }
            ["tm", "merge", repr, r] => {
                let Some((m, t)) = parse_tmap(r) else { return "bad-op".into() };
                if has_dups(&m.iter().map(|e| e.0).collect::<Vec<_>>()) {
                    self.map_wf = false;
                    rec.count("tm-merge:duplicate-keys");
                }
                let before = expected_map(&self.vals, &self.mdead);
                for (k, v) in &m {
                    self.vals.entry(*k).or_default().extend(v.iter().copied());
                }
                self.mdead.extend(t.iter().copied());
                let want = expected_map(&self.vals, &self.mdead);
                if self.vals.iter().any(|(k, v)| !v.is_empty() && self.mdead.contains(k)) {
                    self.interacts = true;
                }
                rec.count(&format!("tm-merge:repr={repr}"));
                rec.count(&format!("tm-merge:keys={},tomb={}", m.len().min(4), t.len().min(4)));
                if m.iter().any(|e| e.1.is_empty()) {
                    rec.count("tm-merge:has-bottom-value");
                }
                let mut outs = vec![];
                let mut first: Option<(Vec<Entry>, Vec<u64>)> = None;
                for (b, tag) in self.maps.iter_mut().zip(MAP_TAGS) {
                    let Ok(flag) = std::panic::catch_unwind(std::panic::AssertUnwindSafe(|| b.merge_rep(repr, &m, &t))) else {
                        rec.check(false, &format!("map-merge-panicked@{tag}"), line);
                        outs.push("panic".into());
                        continue;
                    };
                    let st = b.reveal();
                    if self.map_wf {
                        rec.check(st.0 == want.0, &format!("map-live-not-join-minus-tombstoned@{tag}"), &format!("{line} -> {} want {}", show_tmap(&st), show_tmap(&want)));
                        rec.check(flag == (before != want), &format!("map-changed-flag@{tag}"), &format!("{line} flag={flag}"));
                    }
                    rec.check(st.1 == want.1, &format!("map-tombstones-not-union@{tag}"), &format!("{line} -> {} want {}", show_tmap(&st), show_tmap(&want)));
                    rec.check(st.0.iter().all(|(k, _)| !st.1.contains(k)), &format!("map-key-live-and-tombstoned@{tag}"), &format!("{line} -> {}", show_tmap(&st)));
                    rec.check(st.0.iter().all(|(_, v)| !v.is_empty()), &format!("map-bottom-value-stored@{tag}"), &format!("{line} -> {}", show_tmap(&st)));
                    match &first {
                        None => first = Some(st.clone()),
                        Some(f) => rec.check(*f == st, &format!("map-backend-disagrees@{tag}"), &format!("{line} hs={} {tag}={}", show_tmap(f), show_tmap(&st))),
                    }
                    outs.push(format!("{flag}/{}", show_tmap(&st)));
                }
                rec.count(if before != want { "tm-merge:changed" } else { "tm-merge:noop" });
                self.map_hist.push((repr.to_string(), m, t));
                tagged(&MAP_TAGS, &outs)
            }
            ["tm", "state"] => {
                let outs: Vec<String> = self.maps.iter().map(|b| show_tmap(&b.reveal())).collect();
                tagged(&MAP_TAGS, &outs)
            }
            ["tm", "isbot"] => {
                let outs: Vec<String> = self.maps.iter().map(|b| b.bot().to_string()).collect();
                tagged(&MAP_TAGS, &outs)
            }
            ["tm", "perm", idx] => {
                let Some(ix) = parse_nats(",", idx) else { return "bad-op".into() };
                if ix.iter().any(|&i| i as usize >= self.map_hist.len()) {
                    return "bad-op".into();
                }
                let full = {
                    let mut s: Vec<u64> = ix.clone();
                    s.sort();
                    s == (0..self.map_hist.len() as u64).collect::<Vec<_>>()
                };
                rec.count(if full { "tm-perm:full" } else { "tm-perm:partial" });
                let mut fresh = fresh_maps();
                let mut outs = vec![];
                for ((b, tag), cur) in fresh.iter_mut().zip(MAP_TAGS).zip(self.maps.iter()) {
                    for &i in &ix {
                        let (repr, m, t) = &self.map_hist[i as usize];
                        b.merge_rep(repr, m, t);
                    }
                    let st = b.reveal();
                    if full && self.map_wf {
                        rec.check(st == cur.reveal(), &format!("map-merge-order-matters@{tag}"), &format!("{line} -> {} but state is {}", show_tmap(&st), show_tmap(&cur.reveal())));
                    }
                    outs.push(show_tmap(&st));
                }
                tagged(&MAP_TAGS, &outs)
            }
            _ => "bad-op".into(),
        }
    }
}

fn run_case(no: u64, tag: &str, lines: &[String], rec: &mut Recorder) {
    rec.case(no, tag);
    let mut r = Runner::new();
    for l in lines {
        let out = r.exec(l, rec);
        rec.line(l, &out);
    }
    if r.interacts {
        rec.nontrivial();
    }
}

// ------------------------------------------------------------------------------------ generation

fn subset(rng: &mut Rng, dom: u64, p_num: u64, p_den: u64) -> Vec<u64> {
    (0..dom).filter(|_| rng.chance(p_num, p_den)).collect()
}
fn shuffle<T>(rng: &mut Rng, v: &mut Vec<T>) {
    for i in (1..v.len()).rev() {
        let j = rng.below(i as u64 + 1) as usize;
        v.swap(i, j);
    }
}
fn perm_line(rng: &mut Rng, prefix: &str, n: usize) -> String {
    let mut ix: Vec<u64> = (0..n as u64).collect();
    shuffle(rng, &mut ix);
    format!("{prefix} perm {}", show_unsorted(&ix))
}
fn show_unsorted(xs: &[u64]) -> String {
    if xs.is_empty() { "-".into() } else { xs.iter().map(|x| x.to_string()).collect::<Vec<_>>().join(",") }
}

fn gen_set_case(rng: &mut Rng, thorough: bool) -> Vec<String> {
    let dom = rng.range(2, if thorough { 8 } else { 5 });
    let n = rng.range(1, if thorough { 10 } else { 6 }) as usize;
    let mut ls = vec![];
    for _ in 0..n {
        let mut l = subset(rng, dom, 1, 2);
        let mut t = subset(rng, dom, 1, 4);
        let repr = match rng.below(8) {
            0 => "same",
            1 => "hash",
            2 => "btree",
            3 if l.len() <= 1 && t.len() <= 1 => "opt",
            4 if l.len() == 1 && t.len() == 1 => "single",
            5 if l.is_empty() && t.len() == 1 => "tomb1",
            _ => {
                // Vec-backed replicas: arbitrary order, duplicates
                if rng.chance(1, 3) && !l.is_empty() {
                    let d = *rng.pick(&l);
                    l.push(d);
                }
                if rng.chance(1, 4) && !t.is_empty() {
                    let d = *rng.pick(&t);
                    t.push(d);
                }
                shuffle(rng, &mut l);
                shuffle(rng, &mut t);
                "vec"
            }
        };
        ls.push(format!("ts merge {repr} {}|{}", show_unsorted(&l), show_unsorted(&t)));
        match rng.below(8) {
            0 => ls.push("ts isbot".into()),
            1 => ls.push("ts state".into()),
            _ => {}
        }
    }
    ls.push(perm_line(rng, "ts", n));
    if rng.chance(1, 2) {
        ls.push(perm_line(rng, "ts", n));
    }
    if rng.chance(1, 5) {
        // a partial re-merge (subset of the history)
        let k = rng.below(n as u64 + 1) as usize;
        let mut ix: Vec<u64> = (0..n as u64).collect();
        shuffle(rng, &mut ix);
        ix.truncate(k);
        ls.push(format!("ts perm {}", show_unsorted(&ix)));
    }
    ls.push("ts state".into());
    // the bare TombstoneSet trait surface of every backend (union_with / extend / contains / len)
    let (mut a, mut b) = (subset(rng, dom + 2, 1, 2), subset(rng, dom + 2, 1, 2));
    if rng.chance(1, 3) && !b.is_empty() {
        let d = *rng.pick(&b);
        b.push(d);
    }
    shuffle(rng, &mut a);
    shuffle(rng, &mut b);
    ls.push(format!("tb union {}|{} {}", show_unsorted(&a), show_unsorted(&b), rng.below(dom + 2)));
    ls
}

fn gen_map_case(rng: &mut Rng, thorough: bool) -> Vec<String> {
    let dom = rng.range(2, if thorough { 6 } else { 4 });
    let vdom = rng.range(1, 4);
    let n = rng.range(1, if thorough { 9 } else { 5 }) as usize;
    let mut ls = vec![];
    for _ in 0..n {
        let mut m: Vec<Entry> = subset(rng, dom, 1, 2)
            .into_iter()
            .map(|k| (k, if rng.chance(1, 6) { vec![] } else { let mut v = subset(rng, vdom, 1, 2); if v.is_empty() && rng.chance(2, 3) { v.push(rng.below(vdom)); } v }))
            .collect();
        let mut t = subset(rng, dom, 1, 4);
        let repr = match rng.below(8) {
            0 => "same",
            1 => "hash",
            2 => "btree",
            3 if m.len() == 1 && m[0].1.len() == 1 && t.is_empty() => "single",
            4 if m.is_empty() && t.len() == 1 => "tomb1",
            _ => {
                if rng.chance(1, 12) && !m.is_empty() {
                    // malformed: a duplicate key in a Vec-backed replica
                    let k = rng.pick(&m).0;
                    m.push((k, subset(rng, vdom, 1, 2)));
                }
                if rng.chance(1, 4) && !t.is_empty() {
                    let d = *rng.pick(&t);
                    t.push(d);
                }
                for e in m.iter_mut() {
                    if rng.chance(1, 4) && !e.1.is_empty() {
                        let d = *rng.pick(&e.1);
                        e.1.push(d);
                    }
                }
                shuffle(rng, &mut m);
                shuffle(rng, &mut t);
                "vec"
            }
        };
        let ms = if m.is_empty() { "-".to_string() } else { m.iter().map(|(k, v)| format!("{k}:{}", if v.is_empty() { "-".into() } else { v.iter().map(|x| x.to_string()).collect::<Vec<_>>().join(".") })).collect::<Vec<_>>().join(",") };
        ls.push(format!("tm merge {repr} {ms}|{}", show_unsorted(&t)));
        match rng.below(8) {
            0 => ls.push("tm isbot".into()),
            1 => ls.push("tm state".into()),
            _ => {}
        }
    }
    ls.push(perm_line(rng, "tm", n));
    if rng.chance(1, 2) {
        ls.push(perm_line(rng, "tm", n));
    }
    ls.push("tm state".into());
    ls
}

fn show_entries(m: &[Entry]) -> String {
    if m.is_empty() { "-".to_string() } else { m.iter().map(|(k, v)| format!("{k}:{}", if v.is_empty() { "-".into() } else { v.iter().map(|x| x.to_string()).collect::<Vec<_>>().join(".") })).collect::<Vec<_>>().join(",") }
}

/// a set state over {0..dom} from a base-3 code: digit 0 = absent, 1 = live, 2 = tombstoned
fn tset_of_code(dom: u64, mut code: u64) -> (Vec<u64>, Vec<u64>) {
    let (mut l, mut t) = (vec![], vec![]);
    for i in 0..dom {
        match code % 3 { 1 => l.push(i), 2 => t.push(i), _ => {} }
        code /= 3;
    }
    (l, t)
}
/// every pair of set states over three items: one case per left state, one `ts cmp` line per right state
fn exhaustive_set_cmp_cases() -> Vec<Vec<String>> {
    (0..27u64)
        .map(|a| {
            let (l, t) = tset_of_code(3, a);
            let mut ls = vec![format!("ts merge same {}|{}", show_unsorted(&l), show_unsorted(&t))];
            for b in 0..27u64 {
                let (l, t) = tset_of_code(3, b);
                ls.push(format!("ts cmp {}|{}", show_unsorted(&l), show_unsorted(&t)));
            }
            ls
        })
        .collect()
}
/// random set states over 3..6 items (so that live and tombstones can differ at once), perturbations of the left one
fn gen_set_cmp_case(rng: &mut Rng) -> Vec<String> {
    let dom = rng.range(3, 6);
    let code = rng.below(3u64.pow(dom as u32));
    let (l, t) = tset_of_code(dom, code);
    let mut ls = vec![format!("ts merge {} {}|{}", rng.pick(&["same", "vec", "hash"]), show_unsorted(&l), show_unsorted(&t))];
    if rng.chance(1, 2) {
        // a second replica, so that the compared state is a merge result
        let (l2, t2) = tset_of_code(dom, rng.below(3u64.pow(dom as u32)));
        ls.push(format!("ts merge vec {}|{}", show_unsorted(&l2), show_unsorted(&t2)));
    }
    for _ in 0..rng.range(3, 7) {
        let mut c = code;
        // change one to three digits of the left state's code (or draw a fresh state)
        if rng.chance(1, 5) {
            c = rng.below(3u64.pow(dom as u32));
        } else {
            for _ in 0..rng.range(0, 3) {
                let p = 3u64.pow(rng.below(dom) as u32);
                let d = c / p % 3;
                c = c - d * p + rng.below(3) * p;
            }
        }
        let (mut l, mut t) = tset_of_code(dom, c);
        shuffle(rng, &mut l);
        shuffle(rng, &mut t);
        ls.push(format!("ts cmp {}|{}", show_unsorted(&l), show_unsorted(&t)));
    }
    ls.push("ts state".into());
    ls
}
/// a map state over keys {0..dom}: per key a base-5 digit: absent, tombstoned, {5}, {6}, {5,6}
fn tmap_of_code(dom: u64, mut code: u64) -> (Vec<Entry>, Vec<u64>) {
    let (mut m, mut t) = (vec![], vec![]);
    for k in 0..dom {
        match code % 5 { 1 => t.push(k), 2 => m.push((k, vec![5])), 3 => m.push((k, vec![6])), 4 => m.push((k, vec![5, 6])), _ => {} }
        code /= 5;
    }
    (m, t)
}
/// every pair of map states over two keys
fn exhaustive_map_cmp_cases() -> Vec<Vec<String>> {
    (0..25u64)
        .map(|a| {
            let (m, t) = tmap_of_code(2, a);
            let mut ls = vec![format!("tm merge same {}|{}", show_entries(&m), show_unsorted(&t))];
            for b in 0..25u64 {
                let (m, t) = tmap_of_code(2, b);
                ls.push(format!("tm cmp {}|{}", show_entries(&m), show_unsorted(&t)));
            }
            ls
        })
        .collect()
}
fn gen_map_cmp_case(rng: &mut Rng) -> Vec<String> {
    let dom = rng.range(3, 5);
    let code = rng.below(5u64.pow(dom as u32));
    let (m, t) = tmap_of_code(dom, code);
    let mut ls = vec![format!("tm merge {} {}|{}", rng.pick(&["same", "vec", "hash"]), show_entries(&m), show_unsorted(&t))];
    if rng.chance(1, 2) {
        let (m2, t2) = tmap_of_code(dom, rng.below(5u64.pow(dom as u32)));
        ls.push(format!("tm merge vec {}|{}", show_entries(&m2), show_unsorted(&t2)));
    }
    for _ in 0..rng.range(3, 7) {
        let mut c = code;
        if rng.chance(1, 5) {
            c = rng.below(5u64.pow(dom as u32));
        } else {
            for _ in 0..rng.range(0, 3) {
                let p = 5u64.pow(rng.below(dom) as u32);
                let d = c / p % 5;
                c = c - d * p + rng.below(5) * p;
            }
        }
        let (mut m, mut t) = tmap_of_code(dom, c);
        if rng.chance(1, 6) {
            // a bottom value: invisible
            let k = rng.below(dom);
            if !m.iter().any(|e| e.0 == k) && !t.contains(&k) {
                m.push((k, vec![]));
            }
        }
        shuffle(rng, &mut m);
        shuffle(rng, &mut t);
        ls.push(format!("tm cmp {}|{}", show_entries(&m), show_unsorted(&t)));
    }
    ls.push("tm state".into());
    ls
}

/// every history of `len` replicas over item domain {0..dom}, followed by every re-merge order
fn exhaustive_set_cases(dom: u64, len: usize) -> Vec<Vec<String>> {
    let nrep = 1u64 << (2 * dom); // (live subset, tomb subset)
    let show = |code: u64| {
        let l: Vec<u64> = (0..dom).filter(|i| code >> i & 1 == 1).collect();
        let t: Vec<u64> = (0..dom).filter(|i| code >> (dom + i) & 1 == 1).collect();
        format!("ts merge vec {}|{}", show_unsorted(&l), show_unsorted(&t))
    };
    let perms = permutations(len);
    let mut out = vec![];
    let total = nrep.pow(len as u32);
    for mut code in 0..total {
        let mut ls = vec![];
        for _ in 0..len {
            ls.push(show(code % nrep));
            code /= nrep;
        }
        for p in &perms {
            ls.push(format!("ts perm {}", show_unsorted(p)));
        }
        out.push(ls);
    }
    out
}
fn permutations(n: usize) -> Vec<Vec<u64>> {
    fn go(cur: &mut Vec<u64>, used: &mut Vec<bool>, n: usize, out: &mut Vec<Vec<u64>>) {
        if cur.len() == n {
            out.push(cur.clone());
            return;
        }
        for i in 0..n {
            if !used[i] {
                used[i] = true;
                cur.push(i as u64);
                go(cur, used, n, out);
                cur.pop();
                used[i] = false;
            }
        }
    }
    let mut out = vec![];
    go(&mut vec![], &mut vec![false; n], n, &mut out);
    out
}

/// map histories over keys {0,1}, values ⊆ {0}: replica = per key (absent | bottom | {0}) × tomb subset
fn exhaustive_map_cases(len: usize) -> Vec<Vec<String>> {
    let nrep = 3 * 3 * 4u64;
    let show = |mut code: u64| {
        let mut es = vec![];
        for k in 0..2 {
            match code % 3 {
                1 => es.push(format!("{k}:-")),
                2 => es.push(format!("{k}:0")),
                _ => {}
            }
            code /= 3;
        }
        let t: Vec<u64> = (0..2).filter(|i| code >> i & 1 == 1).collect();
        format!("tm merge vec {}|{}", if es.is_empty() { "-".into() } else { es.join(",") }, show_unsorted(&t))
    };
    let perms = permutations(len);
    let mut out = vec![];
    for mut code in 0..nrep.pow(len as u32) {
        let mut ls = vec![];
        for _ in 0..len {
            ls.push(show(code % nrep));
            code /= nrep;
        }
        for p in &perms {
            ls.push(format!("tm perm {}", show_unsorted(p)));
        }
        out.push(ls);
    }
    out
}

pub fn run(args: &Args, rec: &mut Recorder) {
    if let Some(p) = &args.replay {
        for (no, tag, lines) in crate::replay_cases(p) {
            run_case(no, &tag, &lines, rec);
        }
        return;
    }
    let thorough = args.tier == "thorough";
    let root = Rng::new(args.seed);
    let mut no = 0u64;
    // bounded-exhaustive part
    let sets = if thorough { [exhaustive_set_cases(1, 4), exhaustive_set_cases(2, 3)].concat() } else { [exhaustive_set_cases(1, 3), exhaustive_set_cases(2, 2)].concat() };
    for ls in sets {
        no += 1;
        run_case(no, "kind=tset exhaustive", &ls, rec);
    }
    for ls in exhaustive_map_cases(if thorough { 3 } else { 2 }) {
        no += 1;
        run_case(no, "kind=tmap exhaustive", &ls, rec);
    }
    for ls in exhaustive_set_cmp_cases() {
        no += 1;
        run_case(no, "kind=tset cmp exhaustive", &ls, rec);
    }
    for ls in exhaustive_map_cmp_cases() {
        no += 1;
        run_case(no, "kind=tmap cmp exhaustive", &ls, rec);
    }
    // random part
    for i in 0..args.cases {
        let mut rng = root.fork(i);
        let set = rng.chance(1, 2);
        let mut ls = match (set, rng.chance(1, 4)) {
            (true, false) => gen_set_case(&mut rng, thorough),
            (false, false) => gen_map_case(&mut rng, thorough),
            (true, true) => gen_set_cmp_case(&mut rng),
            (false, true) => gen_map_cmp_case(&mut rng),
        };
        if rng.chance(1, 12) {
            // malformed stream
            let bad = ["ts merge vec 1,x|2", "ts merge vec 1,2", "ts frob", "tm merge vec 1:2:3|-", "tm merge vec 1|2", "ts perm 99", "tm perm 0,x", "zz", "ts merge vec 1|2|3", "tb union 1|2", "tb union 1|2 x", "tb union 1 2", "ts cmp 1,1|2", "ts cmp 1|1", "ts cmp 1", "tm cmp 1:5,1:6|-", "tm cmp 1:5|1", "tm cmp 1:5.5|-", "tm cmp x|-"];
            let at = rng.below(ls.len() as u64 + 1) as usize;
            ls.insert(at, rng.pick(&bad).to_string());
        }
        no += 1;
        run_case(no, if set { "kind=tset" } else { "kind=tmap" }, &ls, rec);
    }
}
