fn main() {
    println!("cargo::rustc-check-cfg=cfg(hydro_project_hydro_verif)");
    stageleft_tool::gen_final!();
}
