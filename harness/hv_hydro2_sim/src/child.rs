//! The simulated programs and the exhaustive runs (must live in the lib: the `q!` closures of a crate
//! are staged from its library sources, and the simulator's dylib resolves them in `__staged`).
use std::collections::BTreeMap;
use std::sync::Mutex;

use hv_common::Rng;
use hydro_lang::prelude::*;

type Obs = Mutex<BTreeMap<String, u64>>;

pub fn show(v: &[i32]) -> String {
    if v.is_empty() { "-".into() } else { v.iter().map(|x| x.to_string()).collect::<Vec<_>>().join(",") }
}
pub fn parse(s: &str) -> Option<Vec<i32>> {
    if s == "-" { return Some(vec![]) }
    s.split(',').map(|x| x.parse().ok()).collect()
}
fn note(obs: &Obs, s: String) {
    let s = if s.is_empty() { "~".to_string() } else { s };
    *obs.lock().unwrap().entry(s).or_insert(0) += 1;
}
fn dump(op: &str, scen: &str, obs: Obs, n: usize) {
    println!("HVCASE {op} {scen}");
    for (o, c) in obs.into_inner().unwrap() {
        println!("HVOBS {o} {c}");
    }
    println!("HVN {n}");
}

// ------------------------------------------------------------------------------------------ C31
fn scen_ints(rng: &mut Rng, max_len: u64) -> Vec<i32> {
    let n = rng.range(1, max_len);
    (0..n).map(|_| rng.below(9) as i32 + 1).collect()
}

pub fn c31_child(seed: u64, cases: u64) {
    let base = Rng::new(seed ^ 0xC31_51);
    let rounds = cases.max(1);
    // ---- batches: the batches a slice observes
    {
        let mut flow = FlowBuilder::new();
        let node = flow.process::<()>();
        let (send, input) = node.sim_input::<i32, _, _>();
        let out = sliced! {
            let b = use::batch(input, nondet!(/** the simulator decides */));
            b.fold(q!(|| Vec::new()), q!(|v: &mut Vec<i32>, x: i32| v.push(x))).into_stream()
        }
        .sim_output();
        let compiled = flow.sim().compiled();
        println!("HVREADY batches");
        for r in 0..rounds {
            let mut rng = base.fork(r);
            let xs = if r == 0 { vec![1, 2, 3, 4] } else { scen_ints(&mut rng, 5) };
            let obs: Obs = Mutex::new(BTreeMap::new());
            let (xs_r, obs_r) = (&xs, &obs);
            let n = compiled.exhaustive(async || {
                for x in xs_r {
                    send.send(*x);
                }
                let got: Vec<Vec<i32>> = out.collect().await;
                note(obs_r, got.iter().map(|b| show(b)).collect::<Vec<_>>().join("|"));
            });
            dump("sb", &show(&xs), obs, n);
        }
    }
    // ---- batch_snap: a batch hook and a snapshot hook (of count() of the same source) in one slice
    {
        let mut flow = FlowBuilder::new();
        let node = flow.process::<()>();
        let (send, input) = node.sim_input::<i32, _, _>();
        let total = input.clone().count();
        let out = sliced! {
            let b = use::batch(input, nondet!(/** the simulator decides */));
            let c = use::snapshot(total, nondet!(/** the simulator decides */));
            b.fold(q!(|| Vec::new()), q!(|v: &mut Vec<i32>, x: i32| v.push(x))).zip(c).into_stream()
        }
        .sim_output();
        let compiled = flow.sim().compiled();
        println!("HVREADY batch_snap");
        for r in 0..rounds {
            let mut rng = base.fork(100 + r);
            let xs = if r == 0 { vec![1, 2, 3] } else { scen_ints(&mut rng, 3) };
            let obs: Obs = Mutex::new(BTreeMap::new());
            let (xs_r, obs_r) = (&xs, &obs);
            let n = compiled.exhaustive(async || {
                for x in xs_r {
                    send.send(*x);
                }
                let got: Vec<(Vec<i32>, usize)> = out.collect().await;
                note(obs_r, got.iter().map(|(b, c)| format!("{}:{}", show(b), c)).collect::<Vec<_>>().join("|"));
            });
            dump("ss", &show(&xs), obs, n);
        }
    }
    // ---- two_batches: two batch hooks in one slice
    {
        let mut flow = FlowBuilder::new();
        let node = flow.process::<()>();
        let (send_a, in_a) = node.sim_input::<i32, _, _>();
        let (send_b, in_b) = node.sim_input::<i32, _, _>();
        let out = sliced! {
            let x = use::batch(in_a, nondet!(/** the simulator decides */));
            let y = use::batch(in_b, nondet!(/** the simulator decides */));
            let vx = x.fold(q!(|| Vec::new()), q!(|v: &mut Vec<i32>, x: i32| v.push(x)));
            let vy = y.fold(q!(|| Vec::new()), q!(|v: &mut Vec<i32>, x: i32| v.push(x)));
            vx.zip(vy).into_stream()
        }
        .sim_output();
        let compiled = flow.sim().compiled();
        println!("HVREADY two_batches");
        for r in 0..rounds {
            let mut rng = base.fork(200 + r);
            let (xa, xb) = if r == 0 { (vec![1, 2], vec![7, 8]) } else { (scen_ints(&mut rng, 3), scen_ints(&mut rng, 3)) };
            let obs: Obs = Mutex::new(BTreeMap::new());
            let (xa_r, xb_r, obs_r) = (&xa, &xb, &obs);
            let n = compiled.exhaustive(async || {
                for x in xa_r {
                    send_a.send(*x);
                }
                for x in xb_r {
                    send_b.send(*x);
                }
                let got: Vec<(Vec<i32>, Vec<i32>)> = out.collect().await;
                note(obs_r, got.iter().map(|(p, q)| format!("{}/{}", show(p), show(q))).collect::<Vec<_>>().join("|"));
            });
            dump("s2", &format!("{} {}", show(&xa), show(&xb)), obs, n);
        }
    }
    // ---- state_counter: `use::state` with an initial value
    {
        let mut flow = FlowBuilder::new();
        let node = flow.process::<()>();
        let (send, input) = node.sim_input::<i32, _, _>();
        let out = sliced! {
            let batch = use::batch(input, nondet!(/** the simulator decides */));
            let mut counter = use::state(|l| l.singleton(q!(0usize)));
            let new_count = counter.clone().zip(batch.clone().count()).map(q!(|(old, add)| old + add));
            counter = new_count.clone();
            batch.fold(q!(|| Vec::new()), q!(|v: &mut Vec<i32>, x: i32| v.push(x))).zip(new_count).into_stream()
        }
        .sim_output();
        let compiled = flow.sim().compiled();
        println!("HVREADY state_counter");
        for r in 0..rounds {
            let mut rng = base.fork(300 + r);
            let xs = if r == 0 { vec![5, 5, 7, 9] } else { scen_ints(&mut rng, 5) };
            let obs: Obs = Mutex::new(BTreeMap::new());
            let (xs_r, obs_r) = (&xs, &obs);
            let n = compiled.exhaustive(async || {
                for x in xs_r {
                    send.send(*x);
                }
                let got: Vec<(Vec<i32>, usize)> = out.collect().await;
                note(obs_r, got.iter().map(|(b, c)| format!("{}:{}", show(b), c)).collect::<Vec<_>>().join("|"));
            });
            dump("sc", &show(&xs), obs, n);
        }
    }
    // ---- state_prev_last: `use::state_null`
    {
        let mut flow = FlowBuilder::new();
        let node = flow.process::<()>();
        let (send, input) = node.sim_input::<i32, _, _>();
        let out = sliced! {
            let batch = use::batch(input, nondet!(/** the simulator decides */));
            let mut prev = use::state_null::<Optional<i32, Tick<_>, Bounded>>();
            let seen = prev.clone().into_singleton();
            prev = batch.clone().last();
            batch.fold(q!(|| Vec::new()), q!(|v: &mut Vec<i32>, x: i32| v.push(x))).zip(seen).into_stream()
        }
        .sim_output();
        let compiled = flow.sim().compiled();
        println!("HVREADY state_prev_last");
        for r in 0..rounds {
            let mut rng = base.fork(400 + r);
            let xs = if r == 0 { vec![5, 6, 7, 8] } else { scen_ints(&mut rng, 5) };
            let obs: Obs = Mutex::new(BTreeMap::new());
            let (xs_r, obs_r) = (&xs, &obs);
            let n = compiled.exhaustive(async || {
                for x in xs_r {
                    send.send(*x);
                }
                let got: Vec<(Vec<i32>, Option<i32>)> = out.collect().await;
                note(
                    obs_r,
                    got.iter()
                        .map(|(b, c)| format!("{}:{}", show(b), c.map(|x| x.to_string()).unwrap_or("-".into())))
                        .collect::<Vec<_>>()
                        .join("|"),
                );
            });
            dump("sp", &show(&xs), obs, n);
        }
    }
    println!("HVDONE");
}

// ------------------------------------------------------------------------------------------ C34
#[derive(Clone, Copy, Debug)]
enum Step {
    W(i32),
    R(i32),
    Ack,
    Resp,
}
fn show_script(s: &[Step]) -> String {
    s.iter()
        .map(|st| match st {
            Step::W(v) => format!("w{v}"),
            Step::R(i) => format!("r{i}"),
            Step::Ack => "a".into(),
            Step::Resp => "n".into(),
        })
        .collect::<Vec<_>>()
        .join(",")
}
fn c34_scripts(rng: &mut Rng, round: u64) -> Vec<Step> {
    use Step::*;
    match round {
        0 => vec![W(1), Ack, R(1)],
        1 => vec![W(1), R(1)],
        2 => vec![W(2), W(3), Ack, R(1)],
        3 => vec![W(2), Ack, R(1), W(3), Resp, Ack, R(2)],
        4 => vec![W(1), W(2), W(4), Ack, Ack, R(1), R(2)],
        _ => {
            let (mut w, mut r, mut acks, mut resps) = (0u64, 0u64, 0u64, 0u64);
            let mut s = vec![];
            let len = rng.range(3, 7);
            for _ in 0..len {
                match rng.below(4) {
                    0 if w < 3 => {
                        w += 1;
                        s.push(W(rng.below(5) as i32 + 1));
                    }
                    1 if r < 2 => {
                        r += 1;
                        s.push(R(r as i32));
                    }
                    2 if acks < w => {
                        acks += 1;
                        s.push(Ack);
                    }
                    3 if resps < r => {
                        resps += 1;
                        s.push(Resp);
                    }
                    _ => {}
                }
            }
            if w == 0 {
                s.insert(0, W(1));
            }
            if r == 0 {
                s.push(R(1));
            }
            s
        }
    }
}

pub fn c34_child(seed: u64, cases: u64) {
    let base = Rng::new(seed ^ 0xC34_51);
    let rounds = cases.max(1);
    let mut flow = FlowBuilder::new();
    let node = flow.process::<()>();
    let (write_send, write_req) = node.sim_input::<i32, _, _>();
    let (read_send, read_req) = node.sim_input::<i32, _, _>();
    let atomic_write = write_req.atomic();
    let current_state = atomic_write.clone().fold(
        q!(|| 0i32),
        q!(|state: &mut i32, v: i32| {
            *state += v;
        }),
    );
    let ack_recv = atomic_write.end_atomic().sim_output();
    let resp_recv = sliced! {
        let batch_of_req = use::batch(read_req, nondet!(/** the simulator decides */));
        let latest_singleton = use::atomic(current_state, nondet!(/** atomic snapshot */));
        batch_of_req.cross_singleton(latest_singleton)
    }
    .sim_output();
    let compiled = flow.sim().compiled();
    println!("HVREADY atomic_sum");
    for r in 0..rounds {
        let mut rng = base.fork(r);
        let script = c34_scripts(&mut rng, r);
        let obs: Obs = Mutex::new(BTreeMap::new());
        let (script_r, obs_r) = (&script, &obs);
        let n = compiled.exhaustive(async || {
            let mut tl: Vec<String> = vec![];
            for st in script_r {
                match st {
                    Step::W(v) => {
                        write_send.send(*v);
                        tl.push(format!("w{v}"));
                    }
                    Step::R(i) => {
                        read_send.send(*i);
                        tl.push(format!("r{i}"));
                    }
                    Step::Ack => {
                        let v = ack_recv.next().await;
                        tl.push(format!("A{v}"));
                    }
                    Step::Resp => {
                        let (i, s) = resp_recv.next().await;
                        tl.push(format!("R{i}={s}"));
                    }
                }
            }
            tl.push("end".into());
            let acks: Vec<i32> = ack_recv.collect().await;
            for v in acks {
                tl.push(format!("A{v}"));
            }
            let resps: Vec<(i32, i32)> = resp_recv.collect().await;
            for (i, s) in resps {
                tl.push(format!("R{i}={s}"));
            }
            note(obs_r, tl.join(","));
        });
        dump("sa", &show_script(&script), obs, n);
    }
    c34_lww_rounds(&base, rounds);
    println!("HVDONE");
}

/// the last-writer-wins register: state kept with `last()` (= `reduce`) inside the atomic region - the
/// Reduce arm of the code generator, which the simulator shares with production
fn c34_lww_rounds(base: &Rng, rounds: u64) {
    let mut flow = FlowBuilder::new();
    let node = flow.process::<()>();
    let (write_send, write_req) = node.sim_input::<i32, _, _>();
    let (read_send, read_req) = node.sim_input::<i32, _, _>();
    let atomic_write = write_req.atomic();
    let register = atomic_write.clone().last();
    let ack_recv = atomic_write.end_atomic().sim_output();
    let resp_recv = sliced! {
        let batch_of_req = use::batch(read_req, nondet!(/** the simulator decides */));
        let latest = use::atomic(register, nondet!(/** atomic snapshot */));
        batch_of_req.cross_singleton(latest.into_singleton())
    }
    .sim_output();
    let compiled = flow.sim().compiled();
    println!("HVREADY atomic_lww");
    let show_v = |v: Option<i32>| v.map_or("-".to_string(), |x| x.to_string());
    for r in 0..rounds {
        let mut rng = base.fork(r);
        // same scripts; distinct write values so that the value read identifies the write
        let script: Vec<Step> = {
            let mut k = 0;
            c34_scripts(&mut rng, r).into_iter().map(|st| match st { Step::W(v) => { k += 1; Step::W(10 * k + v) } o => o }).collect()
        };
        let obs: Obs = Mutex::new(BTreeMap::new());
        let (script_r, obs_r) = (&script, &obs);
        let n = compiled.exhaustive(async || {
            let mut tl: Vec<String> = vec![];
            for st in script_r {
                match st {
                    Step::W(v) => {
                        write_send.send(*v);
                        tl.push(format!("w{v}"));
                    }
                    Step::R(i) => {
                        read_send.send(*i);
                        tl.push(format!("r{i}"));
                    }
                    Step::Ack => {
                        let v = ack_recv.next().await;
                        tl.push(format!("A{v}"));
                    }
                    Step::Resp => {
                        let (i, s) = resp_recv.next().await;
                        tl.push(format!("R{i}={}", show_v(s)));
                    }
                }
            }
            tl.push("end".into());
            let acks: Vec<i32> = ack_recv.collect().await;
            for v in acks {
                tl.push(format!("A{v}"));
            }
            let resps: Vec<(i32, Option<i32>)> = resp_recv.collect().await;
            for (i, s) in resps {
                tl.push(format!("R{i}={}", show_v(s)));
            }
            note(obs_r, tl.join(","));
        });
        dump("sl", &show_script(&script), obs, n);
    }
}

