//! hv_hydro2_sim <mode> --seed N --cases N --out DIR --tier quick|thorough [--replay FILE]
//!
//! Simulator tie of C31 (slices) and C34 (atomic acknowledgements): the corpus programs of
//! `hv_hydro2` rebuilt on `sim_input` / `sim_output`, compiled with the simulator backend
//! (`flow.sim().compiled()`: SimBuilder::batch / begin_atomic / end_atomic, a nested cargo build of a
//! dylib) and run under `CompiledSim::exhaustive`, i.e. under EVERY schedule the simulator's hooks can
//! produce for the (small) scenario.  Every distinct execution becomes one op line carrying the
//! scenario and what the test body observed; the property oracles below judge it, and the Lean driver
//! judges it against the model (`runBatches` replay with the schedule read off the observation,
//! `runSliced` for the state bodies, the snapshot / atomic admissibility predicates).
//!
//! modes: c31sim, c34sim (parents; spawn `<mode>-child` so that the nested build gets a clean
//! environment), c31sim-child, c34sim-child.
use std::collections::BTreeMap;
use std::process::{Command, Stdio};

use hv_common::{Args, Recorder, read_lines};
use hv_hydro2_sim::child::{c31_child, c34_child, parse};

// ------------------------------------------------------------------------------------- oracles
/// `bs` must be consecutive non-empty-or-empty segments of `xs` covering all of it, in order
fn partition_ok(xs: &[i32], bs: &[Vec<i32>]) -> bool {
    bs.concat() == xs
}

fn split_obs(obs: &str) -> Vec<&str> {
    if obs.is_empty() || obs == "~" { vec![] } else { obs.split('|').collect() }
}

/// judge one recorded execution (also used by --replay); returns false when the line is malformed
fn judge(rec: &mut Recorder, line: &str) -> bool {
    let f: Vec<&str> = line.split(' ').collect();
    match f.as_slice() {
        ["sb", xs, obs] => {
            let Some(xs) = parse(xs) else { return false };
            let Some(bs) = split_obs(obs).iter().map(|b| parse(b)).collect::<Option<Vec<_>>>() else { return false };
            rec.check(partition_ok(&xs, &bs), "c31-batches-not-a-partition@sim:batches", line);
            rec.count(&format!("sim-batches-{}", bs.len().min(5)));
            if bs.len() > 1 {
                rec.nontrivial();
            }
            true
        }
        ["ss", xs, obs] | ["sc", xs, obs] => {
            let Some(xs) = parse(xs) else { return false };
            let mut bs = vec![];
            let mut cs: Vec<usize> = vec![];
            for s in split_obs(obs) {
                let Some((b, c)) = s.split_once(':') else { return false };
                let (Some(b), Ok(c)) = (parse(b), c.parse()) else { return false };
                bs.push(b);
                cs.push(c);
            }
            if f[0] == "ss" {
                rec.check(partition_ok(&xs, &bs), "c31-batches-not-a-partition@sim:batch_snap", line);
                rec.check(cs.windows(2).all(|w| w[0] <= w[1]), "c31-snapshot-went-back@sim:batch_snap", line);
                rec.check(cs.iter().all(|c| *c <= xs.len()), "c31-snapshot-from-the-future@sim:batch_snap", line);
                let mut seen = 0usize;
                let mut same = true;
                for (b, c) in bs.iter().zip(&cs) {
                    seen += b.len();
                    same &= seen == *c;
                }
                rec.count(if same { "sim-snap-equals-batched-so-far" } else { "sim-snap-differs-from-batched-so-far" });
                if cs.windows(2).any(|w| w[0] == w[1]) {
                    rec.count("sim-snap-rereleased");
                }
            } else {
                rec.check(partition_ok(&xs, &bs), "c31-batches-not-a-partition@sim:state_counter", line);
                let mut seen = 0usize;
                let mut ok = true;
                for (b, c) in bs.iter().zip(&cs) {
                    seen += b.len();
                    ok &= seen == *c;
                }
                rec.check(ok, "c31-state-not-carried@sim:state_counter", line);
            }
            rec.count(&format!("sim-slices-{}", bs.len().min(5)));
            if bs.len() > 1 {
                rec.nontrivial();
            }
            true
        }
        ["sp", xs, obs] => {
            let Some(xs) = parse(xs) else { return false };
            let mut bs = vec![];
            let mut seen: Vec<Option<i32>> = vec![];
            for s in split_obs(obs) {
                let Some((b, c)) = s.split_once(':') else { return false };
                let Some(b) = parse(b) else { return false };
                let c = if c == "-" { None } else { let Ok(v) = c.parse() else { return false }; Some(v) };
                bs.push(b);
                seen.push(c);
            }
            rec.check(partition_ok(&xs, &bs), "c31-batches-not-a-partition@sim:state_prev_last", line);
            let mut prev: Option<i32> = None;
            let mut ok = true;
            for (b, c) in bs.iter().zip(&seen) {
                ok &= *c == prev;
                prev = b.last().copied();
            }
            rec.check(ok, "c31-state-not-carried@sim:state_prev_last", line);
            rec.count(&format!("sim-slices-{}", bs.len().min(5)));
            if bs.len() > 1 {
                rec.nontrivial();
            }
            true
        }
        ["s2", xa, xb, obs] => {
            let (Some(xa), Some(xb)) = (parse(xa), parse(xb)) else { return false };
            let (mut ba, mut bb) = (vec![], vec![]);
            for s in split_obs(obs) {
                let Some((p, q)) = s.split_once('/') else { return false };
                let (Some(p), Some(q)) = (parse(p), parse(q)) else { return false };
                ba.push(p);
                bb.push(q);
            }
            rec.check(partition_ok(&xa, &ba) && partition_ok(&xb, &bb), "c31-batches-not-a-partition@sim:two_batches", line);
            // every scheduled tick releases something new
            rec.check(ba.iter().zip(&bb).all(|(p, q)| !p.is_empty() || !q.is_empty()), "c31-empty-slice@sim:two_batches", line);
            if ba.iter().zip(&bb).any(|(p, q)| p.is_empty() != q.is_empty()) {
                rec.count("sim-two-batches-one-side-empty");
            }
            rec.count(&format!("sim-slices-{}", ba.len().min(5)));
            if ba.len() > 1 {
                rec.nontrivial();
            }
            true
        }
        ["sa", _script, tl] => {
            // timeline: w<v> / r<i> sends, A<v> / R<i>=<s> observations, `end` = start of the final collects
            let mut writes: Vec<i32> = vec![];
            let mut acks: Vec<i32> = vec![];
            let mut acks_before_read: BTreeMap<i32, usize> = BTreeMap::new();
            let mut after_end = false;
            let mut last_resp: Option<i32> = None;
            let mut ok_shape = true;
            for t in tl.split(',') {
                if t == "end" {
                    after_end = true;
                } else if let Some(v) = t.strip_prefix('w') {
                    let Ok(v) = v.parse() else { return false };
                    writes.push(v);
                } else if let Some(i) = t.strip_prefix('r') {
                    let Ok(i) = i.parse() else { return false };
                    acks_before_read.insert(i, acks.len());
                } else if let Some(v) = t.strip_prefix('A') {
                    let Ok(v) = v.parse() else { return false };
                    acks.push(v);
                    if !after_end {
                        rec.count("sim-ack-awaited");
                    }
                } else if let Some(r) = t.strip_prefix('R') {
                    let Some((i, s)) = r.split_once('=') else { return false };
                    let (Ok(i), Ok(s)) = (i.parse::<i32>(), s.parse::<i32>()) else { return false };
                    let Some(k) = acks_before_read.get(&i).copied() else { ok_shape = false; continue };
                    // the value read is the sum of a prefix of the writes ...
                    let sums: Vec<i32> = (0..=writes.len()).map(|j| writes[..j].iter().sum()).collect();
                    let j = sums.iter().position(|x| *x == s);
                    rec.check(j.is_some(), "c34-read-not-a-prefix-of-writes@sim:atomic_sum", line);
                    // ... that contains every write acknowledged before the read was issued
                    if let Some(j) = j {
                        rec.check(j >= k, "c34-ack-not-visible@sim:atomic_sum", &format!("{line}: read {i} issued after {k} acks sees {j} writes"));
                        rec.count(if j > k { "sim-read-sees-more-than-acked" } else { "sim-read-sees-exactly-acked" });
                    }
                    if !after_end {
                        if let Some(p) = last_resp {
                            rec.check(s >= p, "c34-later-snapshot-older@sim:atomic_sum", line);
                        }
                        last_resp = Some(s);
                    }
                } else {
                    return false;
                }
            }
            rec.check(ok_shape, "c34-response-without-request@sim:atomic_sum", line);
            rec.check(acks == writes, "c34-acks-are-not-the-writes@sim:atomic_sum", line);
            rec.nontrivial();
            true
        }
        ["sl", _script, tl] => {
            // last-writer-wins register: R<i>=<v> or R<i>=- (empty register)
            let mut writes: Vec<i32> = vec![];
            let mut acks: Vec<i32> = vec![];
            let mut acks_before_read: BTreeMap<i32, usize> = BTreeMap::new();
            let mut ok_shape = true;
            for t in tl.split(',') {
                if t == "end" {
                } else if let Some(v) = t.strip_prefix('w') {
                    let Ok(v) = v.parse() else { return false };
                    writes.push(v);
                } else if let Some(i) = t.strip_prefix('r') {
                    let Ok(i) = i.parse() else { return false };
                    acks_before_read.insert(i, acks.len());
                } else if let Some(v) = t.strip_prefix('A') {
                    let Ok(v) = v.parse() else { return false };
                    acks.push(v);
                } else if let Some(r) = t.strip_prefix('R') {
                    let Some((i, s)) = r.split_once('=') else { return false };
                    let Ok(i) = i.parse::<i32>() else { return false };
                    let s: Option<i32> = if s == "-" { None } else { let Ok(x) = s.parse() else { return false }; Some(x) };
                    let Some(k) = acks_before_read.get(&i).copied() else { ok_shape = false; continue };
                    match s {
                        // an empty register only if no acknowledgement had been observed when the read was issued
                        None => rec.check(k == 0, "c34-ack-not-visible@sim:atomic_lww", &format!("{line}: read {i} issued after {k} acks sees an EMPTY register")),
                        Some(v) => {
                            // the value of the last acknowledged write or of a later one (acks come in write order)
                            rec.check(writes.contains(&v), "c34-read-not-a-write@sim:atomic_lww", line);
                            let lo = k.min(writes.len()).saturating_sub(1);
                            rec.check(!writes.contains(&v) || writes[lo..].contains(&v), "c34-ack-not-visible@sim:atomic_lww",
                                &format!("{line}: read {i} issued after {k} acks sees {v}, an older write"));
                            rec.count(if k > 0 { "sim-lww-read-after-ack" } else { "sim-lww-read-before-ack" });
                        }
                    }
                } else {
                    return false;
                }
            }
            rec.check(ok_shape, "c34-response-without-request@sim:atomic_lww", line);
            rec.check(acks == writes, "c34-acks-are-not-the-writes@sim:atomic_lww", line);
            rec.nontrivial();
            true
        }
        _ => false,
    }
}

// -------------------------------------------------------------------------------------- parent
fn parent(rec: &mut Recorder, a: &Args, child_mode: &str, rounds: u64, expect_programs: usize) {
    let exe = std::env::current_exe().expect("current_exe");
    let target_dir = exe.parent().and_then(|p| p.parent()).expect("target dir").to_path_buf();
    let manifest_dir = env!("CARGO_MANIFEST_DIR");
    // the simulator's nested cargo build must use the SAME toolchain as this binary (the dylib and this
    // process exchange Rust types), and the dylib links libstd dynamically
    let toolchain = option_env!("RUSTUP_TOOLCHAIN").unwrap_or("1.96.0");
    let libdir = Command::new("rustc")
        .args(["--print", "target-libdir"])
        .env("RUSTUP_TOOLCHAIN", toolchain)
        .output()
        .ok()
        .map(|o| String::from_utf8_lossy(&o.stdout).trim().to_owned())
        .unwrap_or_default();
    let ld = format!(
        "{}:{}:{}:{}",
        libdir,
        target_dir.join("debug").display(),
        target_dir.join("debug/deps").display(),
        std::env::var("LD_LIBRARY_PATH").unwrap_or_default()
    );
    let out = Command::new(&exe)
        .args([child_mode, "--seed", &a.seed.to_string(), "--cases", &rounds.to_string()])
        .current_dir(manifest_dir)
        .env("CARGO_MANIFEST_DIR", manifest_dir)
        .env("CARGO_TARGET_DIR", &target_dir)
        .env("RUSTFLAGS", "--cfg hydro_project_hydro_verif")
        .env("CARGO_NET_OFFLINE", "true")
        .env("RUSTUP_TOOLCHAIN", toolchain)
        .env("LD_LIBRARY_PATH", ld)
        .env_remove("BOLERO_FUZZER")
        .stdin(Stdio::null())
        .stderr(Stdio::piped())
        .stdout(Stdio::piped())
        .output()
        .expect("spawn sim child");
    let stdout = String::from_utf8_lossy(&out.stdout).to_string();
    let stderr = String::from_utf8_lossy(&out.stderr).to_string();
    let _ = std::fs::create_dir_all(&a.out);
    let _ = std::fs::write(a.out.join("sim_stdout.txt"), &stdout);
    let _ = std::fs::write(a.out.join("sim_stderr.txt"), &stderr);
    let ready = stdout.lines().filter(|l| l.starts_with("HVREADY")).count();
    let mut case = 0u64;
    let mut cur: Option<(String, String)> = None;
    for l in stdout.lines() {
        if let Some(rest) = l.strip_prefix("HVCASE ") {
            let (op, scen) = rest.split_once(' ').unwrap_or((rest, ""));
            rec.case(case, &format!("sim {op}"));
            case += 1;
            cur = Some((op.to_owned(), scen.to_owned()));
        } else if let Some(rest) = l.strip_prefix("HVOBS ") {
            let Some((op, scen)) = &cur else { continue };
            let (obs, cnt) = rest.rsplit_once(' ').unwrap_or((rest, "1"));
            let line = format!("{op} {scen} {obs}");
            let wf = judge(rec, &line);
            rec.line(&line, if wf { "ok" } else { "bad-op" });
            rec.count_n("sim-executions", cnt.parse().unwrap_or(1));
            rec.count("sim-distinct-observations");
        } else if let Some(n) = l.strip_prefix("HVN ") {
            rec.count_n("sim-instances-explored", n.parse().unwrap_or(0));
        }
    }
    rec.case(case, "sim complete");
    if ready < expect_programs || !stdout.contains("HVDONE") {
        // the simulator backend could not be built / a program panicked: this breaks the tie
        rec.line(
            "sim-complete",
            &format!(
                "failed: {ready}/{expect_programs} programs, status {:?}: {}",
                out.status.code(),
                stderr.lines().rev().take(4).collect::<Vec<_>>().join(" | ")
            ),
        );
    } else {
        rec.line("sim-complete", "ok");
    }
}

fn replay(rec: &mut Recorder, file: &std::path::PathBuf) {
    let mut n = 0u64;
    for l in read_lines(file) {
        if let Some(tag) = l.strip_prefix("#case ") {
            n = tag.split(' ').next().and_then(|x| x.parse().ok()).unwrap_or(n + 1);
            rec.case(n, tag.splitn(2, ' ').nth(1).unwrap_or(""));
            continue;
        }
        if l.trim().is_empty() {
            continue;
        }
        if l == "sim-complete" {
            rec.line(&l, "ok");
            continue;
        }
        let wf = judge(rec, &l);
        rec.line(&l, if wf { "ok" } else { "bad-op" });
    }
}

fn main() {
    let a = Args::parse();
    match a.mode.as_str() {
        "c31sim-child" => return c31_child(a.seed, a.cases),
        "c34sim-child" => return c34_child(a.seed, a.cases),
        _ => {}
    }
    hv_common::quiet_panics();
    let mut rec = Recorder::new("an execution with more than one slice / an atomic read-write scenario");
    if let Some(f) = &a.replay {
        replay(&mut rec, f);
    } else {
        // `--cases` counts executions loosely; the number of scenario rounds per program is derived from it
        let rounds = if a.tier == "thorough" { 12 } else { 4 };
        match a.mode.as_str() {
            "c31sim" => parent(&mut rec, &a, "c31sim-child", rounds, 5),
            "c34sim" => parent(&mut rec, &a, "c34sim-child", if a.tier == "thorough" { 40 } else { 12 }, 2),
            m => {
                eprintln!("unknown mode {m}");
                std::process::exit(2)
            }
        }
    }
    rec.finish(&a.out);
}
