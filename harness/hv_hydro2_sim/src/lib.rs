//! Library half of the simulator tie of C31 / C34. The simulator compiles every Hydro program into a
//! dylib that depends on *this* crate (the crate whose manifest is in `CARGO_MANIFEST_DIR`), so it
//! must exist as a lib and be set up for stageleft like any Hydro crate.
#[cfg(stageleft_runtime)]
hydro_lang::setup!();

pub mod child;
